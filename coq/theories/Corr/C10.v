(* Correspondence for C10: runs the detection model of IO/Compression.v on the cases the harness
   ran through the real writers / readers, and decides agreement and the property instance
   inside Coq.

   The codecs themselves are abstract in the model.  Here `write` / `read` are executed with a
   TOY codec (enc c b = signature c ++ [tag] ++ b, dec = strip that exact header, fail on
   anything else).  What is compared with the implementation is therefore only what the
   detection logic decides:
     - which codec the writer applied  (observable: the real signature at the start of the stored
       bytes, and whether the stored bytes differ from the same writer's output under a neutral
       name),
     - which codec the reader applied  (observable: records come back / the read fails),
   plus the Corr-level assumption (sampled, see props/C10.json) that a real decoder fails on
   bytes that were not produced by its own encoder. *)
From Coq Require Import List ZArith Bool String.
From IB Require Import Util.J IO.Compression.
Import ListNotations.
Open Scope Z_scope.

(* ---------- toy codec ---------- *)
Definition toy_tag : Z := 1000.   (* not a byte: no real content contains it *)
Definition toy_enc (c : codec) (b : bytes) : bytes := signature c ++ toy_tag :: b.
Fixpoint strip (p s : bytes) : option bytes :=
  match p, s with
  | [], _ => Some s
  | _ :: _, [] => None
  | x :: p', y :: s' => if x =? y then strip p' s' else None
  end.
Definition toy_dec (c : codec) (s : bytes) : option bytes := strip (signature c ++ [toy_tag]) s.

(* ---------- independent reference (NOT the model): literal tables, own helpers ---------- *)
Definition ref_sigs : list (Z * bytes) :=
  [(0, [31; 139]); (1, [40; 181; 47; 253]); (2, [66; 90; 104]); (3, [253; 55; 122; 88; 90; 0])].
Definition ref_exts : list (Z * string) :=
  [(0, ".gz"%string); (0, ".gzip"%string); (1, ".zst"%string); (1, ".zstd"%string);
   (2, ".bz2"%string); (2, ".bzip2"%string); (3, ".xz"%string)].

Fixpoint zlist_eqb (a b : list Z) : bool :=
  match a, b with
  | [], [] => true
  | x :: a', y :: b' => (x =? y) && zlist_eqb a' b'
  | _, _ => false
  end.

Definition ref_is_prefix (p s : bytes) : bool := zlist_eqb p (firstn (List.length p) s).
Definition ref_sig (s : bytes) : Z :=
  match find (fun e => ref_is_prefix (snd e) s) ref_sigs with Some e => fst e | None => -1 end.

Definition ref_upper_to_lower (b : Z) : Z := if (b >=? 65) && (b <? 91) then b + 32 else b.
Definition ref_tail (n : nat) (s : bytes) : bytes := skipn (List.length s - n) s.
Definition ref_has_suffix (e : bytes) (s : bytes) : bool :=
  (List.length e <=? List.length s)%nat && zlist_eqb e (map ref_upper_to_lower (ref_tail (List.length e) s)).
(* every codec whose extension the name carries (reference: list ALL matches) *)
Definition ref_ext_all (name : bytes) : list Z :=
  map fst (filter (fun e => ref_has_suffix (string_bytes (snd e)) name) ref_exts).
Definition ref_ext (name : bytes) : Z :=
  match ref_ext_all name with c :: _ => c | [] => -1 end.

Definition codec_idx (c : codec) : Z :=
  match c with Gzip => 0 | Zstd => 1 | Bzip2 => 2 | Xz => 3 end.
Definition ocodec_idx (o : option codec) : Z :=
  match o with Some c => codec_idx c | None => -1 end.

(* ---------- decoding ---------- *)
Definition writer_of (z : Z) : option writer_ep :=
  nth_error [WJsonlVec; WJsonlPar; WPcJsonl; WPcJsonlPar; WCsvVec; WCsv; WCsvPar; WPcCsv;
             WPcCsvPar; WCloudJsonl; WParquetVec] (Z.to_nat z).
Definition reader_of (z : Z) : option reader_ep :=
  nth_error [RJsonlVec; RJsonlRange; RPcJsonl; RPcJsonlGlob; RJsonlStreamSeq; RJsonlStreamPar;
             RCsvVec; RCsvRange; RPcCsv; RPcCsvGlob; RCsvStreamSeq; RCsvStreamPar;
             RCloudJsonl; RCloudJsonlGlob; RParquetVec] (Z.to_nat z).

Definition dec_rec (j : J) : option (bytes * Z) :=
  match j with
  | JL [k; JI v] => match jbytes k with Some kb => Some (kb, v) | None => None end
  | _ => None
  end.
Definition dec_recs (j : J) : option (list (bytes * Z)) :=
  match j with JL l => omap dec_rec l | _ => None end.

Fixpoint recs_eqb (a b : list (bytes * Z)) : bool :=
  match a, b with
  | [], [] => true
  | (k1, v1) :: a', (k2, v2) :: b' => zlist_eqb k1 k2 && (v1 =? v2) && recs_eqb a' b'
  | _, _ => false
  end.

(* read outcome *)
Inductive outc := OOk (rs : list (bytes * Z)) | OErr | OPanic.
Definition dec_outc (j : J) : option outc :=
  match j with
  | JL [t; rs] => if jtag_is "ok" t then match dec_recs rs with Some l => Some (OOk l) | None => None end
                  else None
  | JL [t] => if jtag_is "err" t then Some OErr else if jtag_is "panic" t then Some OPanic else None
  | _ => None
  end.

Definition is_ok_with (o : outc) (rs : list (bytes * Z)) : bool :=
  match o with OOk l => recs_eqb l rs | _ => false end.

(* how a failing read surfaces.
   - every entry point returns Err, except:
   - `collect_par` on a streaming source panics ("cloneable source") when a partition cannot be
     read (for the JSONL streaming source a failure of the pre-scan build_jsonl_shards is an Err,
     a failure at partition time a panic: both are accepted there);
   - CSV readers with has_headers = true: the csv crate swallows an I/O error raised while it
     reads the header row and then reports end of input, so a decoder failure on the first read
     comes back as Ok(no records) (hdr = true only occurs in kind "raw"). *)
Definition is_csv_reader (r : reader_ep) : bool :=
  match r with
  | RCsvVec | RCsvRange | RPcCsv | RPcCsvGlob | RCsvStreamSeq | RCsvStreamPar => true
  | _ => false
  end.
Definition is_fail (r : reader_ep) (hdr : bool) (o : outc) : bool :=
  match o, r with
  | OErr, _ => true
  | OPanic, (RJsonlStreamPar | RCsvStreamPar) => true
  | OOk [], _ => hdr && is_csv_reader r
  | _, _ => false
  end.

(* a parse failure of the plain parser (no decoder involved) is always an error / panic *)
Definition outc_matches (r : reader_ep) (hdr : bool) (decoder_failed : bool) (expect obs : outc)
  : bool :=
  match expect with
  | OOk rs => is_ok_with obs rs
  | _ => is_fail r (hdr && decoder_failed) obs
  end.

Definition shards_ok (j : J) : bool := match j with JN | JI _ => true | _ => false end.

(* ---------- kind "rt" ---------- *)
Definition check_rt (input output : J) : verdict :=
  match input with
  | JL [JI wz; JI rz; jname; jrecs; jshards] =>
      match writer_of wz, reader_of rz, jbytes jname, dec_recs jrecs, shards_ok jshards with
      | Some w, Some r, Some name, Some recs, true =>
          match output with
          | JL [_; JI osig; JB osame; jhs; jhp; jro] =>
              match jbytes jhs, jbytes jhp, dec_outc jro with
              | Some hs, Some hp, Some ro =>
                  (* --- model: run write / read with the toy codec on the plain text's head --- *)
                  let stored_m := write toy_enc w name hp in
                  let wc := ep_writer_codec w name in
                  let read_m := read toy_dec r name stored_m in
                  let agree :=
                    (osig =? ref_sig stored_m)
                    && Bool.eqb osame (zlist_eqb stored_m hp)
                    && (match wc with None => zlist_eqb hs hp | Some c => starts_with (signature c) hs end)
                    && (match read_m with
                        | Some x => zlist_eqb x hp && is_ok_with ro recs
                        | None => is_fail r false ro
                        end) in
                  (* --- property instance on the observed outcome, independent reference --- *)
                  let e := ref_ext name in
                  let prop :=
                    if writer_detects w then
                      if e =? -1 then
                        (* neutral name: stored verbatim; read back verbatim unless the text
                           really begins with a format signature *)
                        osame && (if ref_sig hp =? -1 then is_ok_with ro recs else true)
                      else
                        (* codec name: stored compressed with that codec, reads back identical *)
                        (osig =? e) && negb osame && is_ok_with ro recs
                    else
                      (* parquet: outside the codec layer; must simply round-trip *)
                      is_ok_with ro recs in
                  ok_verdict agree prop
              | _, _, _ => malformed
              end
          | JL [t] => if jtag_is "werr" t then ok_verdict false false else malformed
          | _ => malformed
          end
      | _, _, _, _, _ => malformed
      end
  | _ => malformed
  end.

(* ---------- kind "raw" ---------- *)
Inductive origin :=
| OLit (content : bytes)
| OEnc (w : writer_ep) (encname : bytes) (recs : list (bytes * Z)).

Definition dec_origin (j : J) : option origin :=
  match j with
  | JL [t; b] => if jtag_is "lit" t then option_map OLit (jbytes b) else None
  | JL [t; JI wz; en; rs; sh] =>
      if jtag_is "enc" t then
        match writer_of wz, jbytes en, dec_recs rs, shards_ok sh with
        | Some w, Some n, Some l, true => Some (OEnc w n l)
        | _, _, _, _ => None
        end
      else None
  | _ => None
  end.

Definition check_raw (input output : J) : verdict :=
  match input with
  | JL [JI rz; jname; jorigin; JB hdr] =>
      match reader_of rz, jbytes jname, dec_origin jorigin with
      | Some r, Some name, Some org =>
          match output with
          | JL [_; jh; jro; jref] =>
              match jbytes jh, dec_outc jro, dec_outc jref with
              | Some h, Some ro, Some ev =>
                  (* ev = harness-side reference: a plain parse of the file content;
                     ed = what decoding gives when the right decoder is applied *)
                  let ed := match org with OEnc _ _ rs => OOk rs | OLit _ => OErr end in
                  (* --- model --- *)
                  let content_m :=
                    match org with OLit b => b | OEnc w en _ => write toy_enc w en [] end in
                  let rc := ep_reader_codec r name content_m in
                  let '(expect, decfail) :=
                    match rc with
                    | None => (ev, false)                         (* handed to the parser verbatim *)
                    | Some c =>
                        match org with
                        | OEnc w en _ =>
                            if ocodec_idx (ep_writer_codec w en) =? codec_idx c then (ed, false)
                            else (OErr, true)
                        | OLit _ => (OErr, true)                  (* decoder on foreign bytes *)
                        end
                    end in
                  let head_ok :=
                    match org with
                    | OLit b => zlist_eqb h (firstn 16 b)
                    | OEnc w en _ =>
                        match ep_writer_codec w en with
                        | Some c => starts_with (signature c) h
                        | None => true
                        end
                    end in
                  let agree := head_ok && outc_matches r hdr decfail expect ro in
                  (* --- property instance --- *)
                  let e := ref_ext name in
                  let s := ref_sig h in
                  let prop :=
                    match org with
                    | OLit _ =>
                        if (e =? -1) && (s =? -1) then outc_matches r hdr false ev ro else true
                    | OEnc w en _ =>
                        let ce := ref_ext en in
                        if ce =? -1 then true
                        else if e =? -1 then (s =? ce) && outc_matches r hdr false ed ro
                        else if e =? ce then outc_matches r hdr false ed ro
                        else true
                    end in
                  ok_verdict agree prop
              | _, _, _ => malformed
              end
          | _ => malformed
          end
      | _, _, _ => malformed
      end
  | _ => malformed
  end.

Definition check_C10 (kind : string) (input output : J) : verdict :=
  if String.eqb kind "rt" then check_rt input output
  else if String.eqb kind "raw" then check_raw input output
  else malformed.
