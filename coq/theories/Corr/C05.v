(* Correspondence for C05 (per-key and global combines equal a fold, once per key, and always
   terminate).  kind "prog": in = [src, steps, partitions_or_null], out = observed outcome.
   agree : observed = engine model (the model never diverges: a ["hang"] disagrees);
   prop  : against the independent list semantics (Denote.d_combine_values, d_combine_globally,
           d_combine_values_grouped, d_distinct ... = the fold of the combiner over the values in
           order): the observed rows equal the reference (comparison mode Canon.cmp_of) and, when the program ends
           in the combine, additionally: per-key combines - keyed rows with pairwise distinct keys,
           as many as distinct input keys; global combine - exactly one element (also for an empty
           input); distinct - no row twice.  Min / Max over nothing is a panic in the reference
           and must be a panic in every mode.  A hang is never accepted.
   known : reorder class (not generated on purpose for this property). *)
From Coq Require Import List ZArith Bool String.
From IB Require Import Util.J Engine.Val Engine.Lang Engine.Denote Engine.Decode Engine.Canon.
Import ListNotations.

Definition combine_shape (s : src) (steps : list step) (rows : list val) : bool :=
  match last_step steps with
  | Some (SCombineValues _) | Some (SCombineValuesLifted _) | Some (STopKPerKey _) =>
      match ref_outcome s (but_last steps) with
      | OOk input =>
          forallb is_row_pair rows && keys_unique rows
          && Nat.eqb (List.length rows) (List.length (keys_of input))
      | _ => true
      end
  | Some (SCombineGlobally _ _ _) => Nat.eqb (List.length rows) 1
  | Some SDistinct | Some SDistinctPerKey => nodup_vals rows
  | _ => true
  end.

Definition combine_prop (s : src) (steps : list step) (o : obs) : bool :=
  meets_ref s steps o &&
  match o with
  | OOk rows => combine_shape s steps rows
  | OHang => false
  | _ => true
  end.

Definition check_C05 (kind : string) (input output : J) : verdict :=
  if String.eqb kind "prog" then
    match dec_prog input, dec_obs output with
    | Some (s, steps, m), Some o =>
        V (agree_model m s steps o) (combine_prop s steps o) (reorder_changes s steps) false
    | _, _ => malformed
    end
  else if String.eqb kind "bigprog" then
    (* big inputs: the observed rows are replaced by Canon.summary (count, key sums, extremes,
       number of integer leaves, hashes); agree against the model's summary, prop against the
       summary of the list interpretation *)
    match dec_prog input, dec_obs output with
    | Some (s, steps, m), Some o =>
        if big_ok steps then
          V (big_agree m s steps o) (big_meets_ref s steps o) (reorder_changes s steps) false
        else malformed
    | _, _ => malformed
    end
  else malformed.
