(* Correspondence for C20: runs the model of src/testing/assertions.rs on the cases the harness
   ran on the real assertions, and decides agreement and the property instance inside Coq. *)
From Coq Require Import List ZArith Bool String Lia Orders Mergesort.
From IB Require Import Util.J Testing.Assertions Testing.AssertionsMore Testing.MockIO.
Import ListNotations.
Open Scope Z_scope.

(* canonical enumeration shared with harness/src/bin/c20.rs:
   all sequences over `syms` of length 0, then 1, ... then maxlen; within one length the first
   element varies slowest. *)
Fixpoint seqs_of_len {A} (syms : list A) (n : nat) : list (list A) :=
  match n with
  | O => [[]]
  | S n' => flat_map (fun s => map (cons s) (seqs_of_len syms n')) syms
  end.
Definition all_seqs {A} (syms : list A) (maxlen : nat) : list (list A) :=
  flat_map (seqs_of_len syms) (seq 0 (S maxlen)).

(* ---------- reference semantics (independent of the model): multiset equality through a
   canonical sort ---------- *)
Fixpoint zinsert (x : Z) (l : list Z) : list Z :=
  match l with [] => [x] | y :: r => if x <=? y then x :: l else y :: zinsert x r end.
Definition zsort (l : list Z) : list Z := fold_right zinsert [] l.
Fixpoint zlist_eqb (a b : list Z) : bool :=
  match a, b with
  | [], [] => true
  | x :: a', y :: b' => (x =? y) && zlist_eqb a' b'
  | _, _ => false
  end.
Definition zmultiset_eqb (a b : list Z) : bool := zlist_eqb (zsort a) (zsort b).

(* lexicographic order on lists of Z, to sort (k, v) pairs and (k, sorted vs) groups *)
Fixpoint zlist_leb (a b : list Z) : bool :=
  match a, b with
  | [], _ => true
  | _ :: _, [] => false
  | x :: a', y :: b' => if x <? y then true else if y <? x then false else zlist_leb a' b'
  end.
Fixpoint linsert (x : list Z) (l : list (list Z)) : list (list Z) :=
  match l with [] => [x] | y :: r => if zlist_leb x y then x :: l else y :: linsert x r end.
Definition lsort (l : list (list Z)) : list (list Z) := fold_right linsert [] l.
Fixpoint llist_eqb (a b : list (list Z)) : bool :=
  match a, b with
  | [], [] => true
  | x :: a', y :: b' => zlist_eqb x y && llist_eqb a' b'
  | _, _ => false
  end.
Definition lmultiset_eqb (a b : list (list Z)) : bool := llist_eqb (lsort a) (lsort b).

Definition kv_code (p : Z * Z) : list Z := [fst p; snd p].
Definition group_code (g : Z * list Z) : list Z := fst g :: zsort (snd g).

Fixpoint nodup_z (l : list Z) : bool :=
  match l with [] => true | x :: r => negb (existsb (Z.eqb x) r) && nodup_z r end.

(* ---------- decoding ---------- *)
Definition dec_kv (j : J) : option (Z * Z) :=
  match j with JL [JI k; JI v] => Some (k, v) | _ => None end.
Definition dec_kvs (j : J) : option (list (Z * Z)) :=
  match j with JL l => omap dec_kv l | _ => None end.
Definition dec_group (j : J) : option (Z * list Z) :=
  match j with JL [JI k; vs] => match jints vs with Some l => Some (k, l) | None => None end
  | _ => None end.
Definition dec_groups (j : J) : option (list (Z * list Z)) :=
  match j with JL l => omap dec_group l | _ => None end.

(* 0, 1, ..., n-1 (counting up in Z: Z.of_nat on every index would make this quadratic) *)
Fixpoint zrange_from (start : Z) (k : nat) : list Z :=
  match k with O => [] | S k' => start :: zrange_from (start + 1) k' end.
Definition zrange (n : Z) : list Z := zrange_from 0 (Z.to_nat n).
(* x, x+1, ... counted modulo m (0 <= x < m): the list i |-> (x + i) mod m without a division per element *)
Fixpoint zcycle (m x : Z) (k : nat) : list Z :=
  match k with O => [] | S k' => x :: zcycle m (if x + 1 =? m then 0 else x + 1) k' end.

(* ---------- one assertion, as (model result, reference result, exact?) ----------
   exact = the property demands `pass <-> reference`; otherwise only `pass -> reference`
   (grouped data in which a key repeats is not "grouped data" in the sense of the property). *)
Definition m_ordered (a b : list Z) := (assert_collections_equal Z.eqb a b, zlist_eqb a b, true).
Definition m_unordered (a b : list Z) :=
  (assert_collections_unordered_equal Z.eqb a b, zmultiset_eqb a b, true).
Definition m_kv (a b : list (Z * Z)) :=
  (assert_kv_collections_equal Z.eqb a b, lmultiset_eqb (map kv_code a) (map kv_code b), true).
Definition m_grouped (a b : list (Z * list Z)) :=
  (assert_grouped_kv_equal Z.eqb a b, lmultiset_eqb (map group_code a) (map group_code b),
   nodup_z (map fst a) && nodup_z (map fst b)).

Definition judge (obs : bool) (m : bool * bool * bool) : bool * bool :=
  let '(model, ref, exact) := m in
  (Bool.eqb obs model, if exact then Bool.eqb obs ref else implb obs ref).

Fixpoint judge_row (obs : list J) (ms : list (bool * bool * bool)) : option (bool * bool) :=
  match obs, ms with
  | [], [] => Some (true, true)
  | JB o :: obs', m :: ms' =>
      match judge_row obs' ms' with
      | Some (a, p) => let '(a1, p1) := judge o m in Some (a1 && a, p1 && p)
      | None => None
      end
  | JS _ :: obs', m :: ms' =>
      (* "unstable": two calls on the same arguments gave different answers *)
      match judge_row obs' ms' with Some _ => Some (false, false) | None => None end
  | _, _ => None
  end.

Definition finish (r : option (bool * bool)) : verdict :=
  match r with Some (a, p) => ok_verdict a p | None => malformed end.

(* ====================================================================================== *)
(* the further assertions of ironbeam::testing, typed elements, long inputs                *)
(* ====================================================================================== *)

(* a faster independent reference for long inputs: merge sort from the standard library *)
Module ZOrder <: TotalLeBool.
  Definition t := Z.
  Definition leb := Z.leb.
  Theorem leb_total : forall a1 a2, leb a1 a2 = true \/ leb a2 a1 = true.
  Proof. intros a1 a2. unfold leb. destruct (Z.leb_spec a1 a2); [left; reflexivity|right; apply Z.leb_le; lia]. Qed.
End ZOrder.
Module ZSort := Sort ZOrder.
Definition zmultiset_eqb_fast (a b : list Z) : bool := zlist_eqb (ZSort.sort a) (ZSort.sort b).

Definition judge1 (o : J) (m : bool * bool * bool) : verdict :=
  match o with
  | JB b => let '(ag, p) := judge b m in ok_verdict ag p
  | JS _ => ok_verdict false false
  | _ => malformed
  end.

Definition usz (z : Z) : Z := if z =? -1 then 2 ^ 64 - 1 else z.

(* elements whose PartialEq is not reflexive: a negative value equals nothing *)
Definition irr_eqb (x y : Z) : bool := (0 <=? x) && (x =? y).

(* ---------- long ordered / unordered ---------- *)
Definition m_ordered_long (a b : list Z) := (assert_collections_equal Z.eqb a b, zlist_eqb a b, true).
(* the model's count comparison in its linear form (Proofs: counts_equal_fast_eq) *)
Definition m_unordered_long (a b : list Z) :=
  (assert_collections_unordered_equal_fast Z.eqb a b, zmultiset_eqb_fast a b, true).

(* ---------- long keyed inputs (same construction as long_kv_b / long_groups_b in c20.rs) ---------- *)
Definition upd {A} (pos : nat) (f : A -> A) (l : list A) : list A :=
  firstn pos l ++ match skipn pos l with [] => [] | x :: r => f x :: r end.
Definition long_kv (n nk : Z) : list (Z * Z) := map (fun i => (i mod nk, i mod 3)) (zrange n).
Definition long_kv_b (a : list (Z * Z)) (nk mode : Z) (pos : nat) : list (Z * Z) :=
  let b :=
    if mode =? 1 then upd pos (fun r => (fst r, (snd r + 1) mod 3)) a
    else if mode =? 2 then upd pos (fun r => ((fst r + 1) mod nk, snd r)) a
    else if mode =? 3 then removelast a
    else if mode =? 4 then
      match nth_error a pos with
      | Some r => upd (Nat.modulo (S pos) (List.length a)) (fun _ => r) a
      | None => a
      end
    else a in
  rev b.
Definition long_groups (n : Z) : list (Z * list Z) :=
  map (fun i => (i, map (fun j => (i + j) mod 3) (zrange (i mod 4)))) (zrange n).
Definition long_groups_b (a : list (Z * list Z)) (mode : Z) (pos : nat) : list (Z * list Z) :=
  let n := Z.of_nat (List.length a) in
  let b :=
    if mode =? 1 then
      upd pos (fun g => (fst g, match snd g with [] => [0] | v :: r => (v + 1) mod 3 :: r end)) a
    else if mode =? 2 then upd pos (fun g => (n + Z.of_nat pos, snd g)) a
    else if mode =? 3 then removelast a
    else if mode =? 4 then upd pos (fun g => (fst g, snd g ++ [1])) a
    else a in
  map (fun g => (fst g, rev (snd g))) (rev b).
(* references through integer codes (values < 3, groups of <= 5 values) *)
Definition kv_z (p : Z * Z) : Z := fst p * 4 + snd p.
Definition group_z (g : Z * list Z) : Z :=
  fst g * 4096 + fold_left (fun acc v => acc * 4 + v + 1) (zsort (snd g)) 0.
Definition m_kv_long (a b : list (Z * Z)) :=
  (assert_kv_collections_equal Z.eqb a b, zmultiset_eqb_fast (map kv_z a) (map kv_z b), true).
Definition m_grouped_long (a b : list (Z * list Z)) :=
  (assert_grouped_kv_equal Z.eqb a b, zmultiset_eqb_fast (map group_z a) (map group_z b), true).

Definition dec_modepos (j : J) : option (Z * nat) :=
  match j with JL [JI m; JI p] => Some (m, Z.to_nat p) | _ => None end.

(* ---------- predicates ---------- *)
(* observed = [accepted, calls] *)
Definition judge_pred (fid : Z) (coll : list Z) (p : Z -> bool) (o : J) : option (bool * bool) :=
  match o with
  | JL [JB ok; JI calls] =>
      let truth := map p coll in
      let '(model, mcalls, ref) :=
        if fid =? 0 then (assert_all p coll, calls_all p coll, forallb (fun b => b) truth)
        else if fid =? 1 then (assert_any p coll, calls_until_hit p coll, existsb (fun b => b) truth)
        else (assert_none p coll, calls_until_hit p coll, negb (existsb (fun b => b) truth)) in
      Some (Bool.eqb ok model && (calls =? Z.of_nat mcalls), Bool.eqb ok ref)
  | JS _ => Some (false, false)
  | _ => None
  end.
Fixpoint judge_preds (fid : Z) (coll : list Z) (ps : list (Z -> bool)) (obs : list J) : option (bool * bool) :=
  match ps, obs with
  | [], [] => Some (true, true)
  | p :: ps', o :: obs' =>
      match judge_pred fid coll p o, judge_preds fid coll ps' obs' with
      | Some (a1, p1), Some (a, pr) => Some (a1 && a, p1 && pr)
      | _, _ => None
      end
  | _, _ => None
  end.

(* ---------- maps ---------- *)
Definition zlast (k : Z) (ins : list (Z * Z)) : option Z :=
  fold_left (fun acc kv => if fst kv =? k then Some (snd kv) else acc) ins None.
(* reference: under every key the last inserted values are equal (veq) or absent on both sides *)
Definition ref_maps (veq : Z -> Z -> bool) (ia ie : list (Z * Z)) : bool :=
  forallb (fun k => match zlast k ia, zlast k ie with
                    | Some x, Some y => veq x y
                    | None, None => true
                    | _, _ => false
                    end) (map fst (ia ++ ie)).
Definition m_maps (veq : Z -> Z -> bool) (ia ie : list (Z * Z)) :=
  (assert_maps_equal Z.eqb veq (map_of Z.eqb ia) (map_of Z.eqb ie), ref_maps veq ia ie, true).
Definition long_map_ins (n mode : Z) (pos : nat) : list (Z * Z) * list (Z * Z) :=
  let a := map (fun i => (i, i mod 7)) (zrange n) in
  let fresh := n + 5 in
  let e :=
    if mode =? 1 then upd pos (fun r => (fst r, snd r + 1)) a
    else if mode =? 2 then upd pos (fun r => (fresh, snd r)) a
    else if mode =? 3 then firstn pos a ++ skipn (S pos) a
    else if mode =? 4 then a ++ [(fresh, 0)]
    else a in
  let a' := if mode =? 5 then upd pos (fun r => (fresh, snd r)) a else a in
  (a', rev e).

(* ---------- files ---------- *)
Inductive fline := LRec (id name : Z) | LBlank | LSpace | LBad | LHeader.
Definition dec_rec (j : J) : option (Z * Z) :=
  match j with JL [JI i; JI n] => Some (i, n) | _ => None end.
Definition dec_recs (j : J) : option (list (Z * Z)) :=
  match j with JL l => omap dec_rec l | _ => None end.
Definition dec_line (j : J) : option fline :=
  match j with
  | JL [JI i; JI n] => Some (LRec i n)
  | JI z => if z =? -1 then Some LBlank else if z =? -2 then Some LSpace
            else if z =? -3 then Some LBad else if z =? -4 then Some LHeader else None
  | _ => None
  end.
Definition dec_lines (j : J) : option (list fline) :=
  match j with JL l => omap dec_line l | _ => None end.
(* Rec's PartialEq: same id, names equal without regard to ASCII case (name 2 = "A", name 1 = "a") *)
Definition nclass (n : Z) : Z := if n =? 2 then 1 else n.
Definition rec_eqb (x y : Z * Z) : bool := (fst x =? fst y) && (nclass (snd x) =? nclass (snd y)).
(* what serde_json / csv do with one line of the harness's line alphabet *)
Definition jl_blank (l : fline) : bool := match l with LBlank | LSpace => true | _ => false end.
Definition jl_parse (l : fline) : option (Z * Z) := match l with LRec i n => Some (i, n) | _ => None end.
Definition csv_blank (l : fline) : bool := match l with LBlank => true | _ => false end.
Definition csv_parse (h l : fline) : option (Z * Z) :=
  match h, l with LHeader, LRec i n => Some (i, n) | _, _ => None end.
Definition print_rec (r : Z * Z) : fline := LRec (fst r) (snd r).

Definition model_file (fmt : Z) (file : option (list fline)) (expected : list (Z * Z)) : bool :=
  if fmt =? 0 then assert_jsonl_equals rec_eqb jl_blank jl_parse file expected
  else assert_csv_equals rec_eqb csv_blank csv_parse file expected.

(* reference, written without the model: drop the lines the format ignores (and the header row);
   what is left must be exactly the expected records, in order *)
Definition is_rec (l : fline) : bool := match l with LRec _ _ => true | _ => false end.
Definition rec_code (l : fline) : list Z := match l with LRec i n => [i; nclass n] | _ => [] end.
Definition ref_file (fmt : Z) (lines : list fline) (expected : list (Z * Z)) : bool :=
  let want := map (fun r => [fst r; nclass (snd r)]) expected in
  if fmt =? 0 then
    let rows := filter (fun l => negb (jl_blank l)) lines in
    forallb is_rec rows && llist_eqb (map rec_code rows) want
  else
    match filter (fun l => negb (csv_blank l)) lines with
    | [] => match expected with [] => true | _ => false end
    | h :: rows =>
        forallb is_rec rows && llist_eqb (map rec_code rows) want
        && match rows with [] => true | _ => match h with LHeader => true | _ => false end end
    end.
Definition m_file (fmt : Z) (lines : list fline) (expected : list (Z * Z)) :=
  (model_file fmt (Some lines) expected, ref_file fmt lines expected, true).

Definition mock_lines (fmt : Z) (wh : bool) (data : list (Z * Z)) : list fline :=
  if fmt =? 0 then mock_jsonl_file print_rec data else mock_csv_file print_rec LHeader data wh.

Definition long_data (n : Z) : list (Z * Z) := map (fun i => (i, i mod 8)) (zrange n).
Definition long_expected (data : list (Z * Z)) (mode : Z) (pos : nat) : list (Z * Z) :=
  if mode =? 1 then upd pos (fun r => (fst r + 1000000, snd r)) data
  else if mode =? 2 then upd pos (fun r => (fst r, (Z.of_nat pos mod 8 + 3) mod 8)) data
  else if mode =? 3 then removelast data
  else if mode =? 4 then data ++ [(-5, 1)]
  else if mode =? 5 then firstn pos data ++ skipn (S pos) data
  else if mode =? 6 then firstn pos data ++ match skipn pos data with [] => [] | x :: r => x :: x :: r end
  else data.
Definition long_lines (fmt bl : Z) (via_mock : bool) (data : list (Z * Z)) : list fline :=
  if via_mock then mock_lines fmt true data
  else
    (if fmt =? 0 then [] else [LHeader]) ++
    flat_map (fun r => (if (0 <? bl) && (fst r mod bl =? bl - 1) then [LBlank] else []) ++ [print_rec r]) data.

Definition check_C20_more (kind : string) (input output : J) : verdict :=
  if String.eqb kind "rowt" then
    match input, output with
    | JL [JI aid; JI _; ja; JI nsym; JI maxlen], JL obs =>
        match jints ja with
        | Some a =>
            let bs := all_seqs (zrange nsym) (Z.to_nat maxlen) in
            if aid =? 0 then finish (judge_row obs (map (m_ordered a) bs))
            else if aid =? 1 then finish (judge_row obs (map (m_unordered a) bs))
            else malformed
        | None => malformed
        end
    | _, _ => malformed
    end
  else if String.eqb kind "pairt" then
    match input with
    | JL [JI aid; JI _; ja; jb] =>
        if aid <? 2 then
          match jints ja, jints jb with
          | Some a, Some b => judge1 output (if aid =? 0 then m_ordered a b else m_unordered a b)
          | _, _ => malformed
          end
        else if aid =? 2 then
          match dec_kvs ja, dec_kvs jb with
          | Some a, Some b => judge1 output (m_kv a b)
          | _, _ => malformed
          end
        else
          match dec_groups ja, dec_groups jb with
          | Some a, Some b => judge1 output (m_grouped a b)
          | _, _ => malformed
          end
    | _ => malformed
    end
  else if String.eqb kind "longs" then
    match input, output with
    | JL [JI aid; JI n; JL jds], JL obs =>
        match omap jints jds with
        | Some ds =>
            let a := zcycle 5 0 (Z.to_nat n) in     (* a[i] = i mod 5 *)
            let mk d := let b := fold_left (fun l p => upd (Z.to_nat p) (fun x => (x + 1) mod 5) l) d a in
                        if aid =? 0 then m_ordered_long a b else m_unordered_long a b in
            finish (judge_row obs (map mk ds))
        | None => malformed
        end
    | _, _ => malformed
    end
  else if String.eqb kind "longkv" then
    match input, output with
    | JL [JI aid; JI n; JI nk; JL jsets], JL obs =>
        match omap dec_modepos jsets with
        | Some sets =>
            if aid =? 2 then
              let a := long_kv n nk in
              finish (judge_row obs (map (fun s => m_kv_long a (long_kv_b a nk (fst s) (snd s))) sets))
            else
              let a := long_groups n in
              finish (judge_row obs (map (fun s => m_grouped_long a (long_groups_b a (fst s) (snd s))) sets))
        | None => malformed
        end
    | _, _ => malformed
    end
  else if String.eqb kind "containsrow" then
    match input, output with
    | JL [JI _; jl; jxs], JL obs =>
        match jints jl, jints jxs with
        | Some l, Some xs =>
            finish (judge_row obs (map (fun x => (assert_contains Z.eqb l x,
                                                  negb (Nat.eqb (List.length (filter (Z.eqb x) l)) 0), true)) xs))
        | _, _ => malformed
        end
    | _, _ => malformed
    end
  else if String.eqb kind "containslong" then
    match input, output with
    | JL [JI n; jps], JL obs =>
        match jints jps with
        | Some ps =>
            let base := zcycle 5 0 (Z.to_nat n) in     (* i mod 5 *)
            finish (judge_row obs (map (fun pos =>
              let l := if pos <? 0 then base else upd (Z.to_nat pos) (fun _ => 7) base in
              (assert_contains Z.eqb l 7, (0 <=? pos) && (pos <? n), true)) ps))
        | None => malformed
        end
    | _, _ => malformed
    end
  else if String.eqb kind "predrow" then
    match input, output with
    | JL [JI fid; JI len], JL obs =>
        let coll := zrange len in
        let ps := map (fun t => fun i => nth (Z.to_nat i) t 0 =? 1) (seqs_of_len [0; 1] (Z.to_nat len)) in
        finish (judge_preds fid coll ps obs)
    | _, _ => malformed
    end
  else if String.eqb kind "predlong" then
    match input, output with
    | JL [JI fid; JI n; JI base; JL jfs], JL obs =>
        match omap jints jfs with
        | Some fs =>
            let coll := zrange n in
            let ps := map (fun f => fun i => xorb (base =? 1) (existsb (Z.eqb i) f)) fs in
            finish (judge_preds fid coll ps obs)
        | None => malformed
        end
    | _, _ => malformed
    end
  else if String.eqb kind "sizerow" then
    match input, output with
    | JL [JI n; JI zst; jms], JL obs =>
        match jints jms with
        | Some ms =>
            let n' := usz n in
            finish (judge_row obs (map (fun m =>
              let m' := usz m in
              ((if n' <? 100000 then assert_collection_size (repeat 7 (Z.to_nat n')) m'
                else assert_collection_size_len n' m'),
               (n' <=? m') && (m' <=? n'), true)) ms))
        | None => malformed
        end
    | _, _ => malformed
    end
  else if String.eqb kind "zstrow" then
    match input, output with
    | JL [JI aid; JI n; jms], JL obs =>
        match jints jms with
        | Some ms =>
            let a := repeat 0 (Z.to_nat n) in
            finish (judge_row obs (map (fun m =>
              let b := repeat 0 (Z.to_nat m) in
              ((if aid =? 0 then assert_collections_equal Z.eqb a b
                else assert_collections_unordered_equal_fast Z.eqb a b), n =? m, true)) ms))
        | None => malformed
        end
    | _, _ => malformed
    end
  else if String.eqb kind "maprow" then
    match input, output with
    | JL [JI _; JI _; ja; JI nk; JI nv; JI maxlen], JL obs =>
        match dec_kvs ja with
        | Some ia =>
            let syms := flat_map (fun k => map (fun v => (k, v)) (zrange nv)) (zrange nk) in
            finish (judge_row obs (map (m_maps Z.eqb ia) (all_seqs syms (Z.to_nat maxlen))))
        | None => malformed
        end
    | _, _ => malformed
    end
  else if String.eqb kind "mappair" then
    match input with
    | JL [JI _; JI _; ja; je] =>
        match dec_kvs ja, dec_kvs je with
        | Some ia, Some ie => judge1 output (m_maps Z.eqb ia ie)
        | _, _ => malformed
        end
    | _ => malformed
    end
  else if String.eqb kind "maplong" then
    match input, output with
    | JL [JI _; JI _; JI n; JL jsets], JL obs =>
        match omap dec_modepos jsets with
        | Some sets =>
            (* both insertion sequences have pairwise distinct keys here, so the maps are equal iff
               the sequences are equal as multisets of (key, value) rows *)
            finish (judge_row obs (map (fun s =>
              let '(ia, ie) := long_map_ins n (fst s) (snd s) in
              (assert_maps_equal Z.eqb Z.eqb (map_of Z.eqb ia) (map_of Z.eqb ie),
               zmultiset_eqb_fast (map (fun p => fst p * 16 + snd p) ia) (map (fun p => fst p * 16 + snd p) ie),
               true)) sets))
        | None => malformed
        end
    | _, _ => malformed
    end
  else if String.eqb kind "rown" then
    match input, output with
    | JL [JI aid; ja; JI maxlen], JL obs =>
        let ml := Z.to_nat maxlen in
        let kvsyms := flat_map (fun k => map (fun v => (k, v)) [-1; 0; 1]) [0; 1] in
        if aid =? 0 then
          match jints ja with
          | Some a =>
              finish (judge_row obs (map (fun b =>
                (assert_collections_equal irr_eqb a b, zlist_eqb a b && forallb (Z.leb 0) a, true))
                (all_seqs [-1; 0; 1] ml)))
          | None => malformed
          end
        else if aid =? 2 then
          match dec_kvs ja with
          | Some a =>
              finish (judge_row obs (map (fun b =>
                (assert_kv_collections_equal irr_eqb a b,
                 lmultiset_eqb (map kv_code a) (map kv_code b) && forallb (fun p => 0 <=? snd p) a, true))
                (all_seqs kvsyms ml)))
          | None => malformed
          end
        else if aid =? 4 then
          match jints ja with
          | Some l =>
              finish (judge_row obs (map (fun x =>
                (assert_contains irr_eqb l x, (0 <=? x) && existsb (Z.eqb x) l, true)) [-1; 0; 1]))
          | None => malformed
          end
        else if aid =? 5 then
          match dec_kvs ja with
          | Some ia => finish (judge_row obs (map (m_maps irr_eqb ia) (all_seqs kvsyms ml)))
          | None => malformed
          end
        else malformed
    | _, _ => malformed
    end
  else if String.eqb kind "selfn" then
    match input with
    | JL [JI aid; ja] =>
        if aid =? 0 then
          match jints ja with
          | Some a => judge1 output (assert_collections_equal irr_eqb a a, forallb (Z.leb 0) a, true)
          | None => malformed
          end
        else if aid =? 2 then
          match dec_kvs ja with
          | Some a => judge1 output (assert_kv_collections_equal irr_eqb a a,
                                     forallb (fun p => 0 <=? snd p) a, true)
          | None => malformed
          end
        else if aid =? 5 then
          match dec_kvs ja with
          | Some ia => judge1 output (m_maps irr_eqb ia ia)
          | None => malformed
          end
        else malformed
    | _ => malformed
    end
  else if String.eqb kind "filerow" then
    match input, output with
    | JL [JI fmt; JI _; jlines; jes; JI maxlen], JL obs =>
        match dec_lines jlines, dec_recs jes with
        | Some lines, Some esyms =>
            finish (judge_row obs (map (m_file fmt lines) (all_seqs esyms (Z.to_nat maxlen))))
        | _, _ => malformed
        end
    | _, _ => malformed
    end
  else if String.eqb kind "filepair" then
    match input with
    | JL [JI fmt; JI _; jlines; jexp] =>
        match dec_lines jlines, dec_recs jexp with
        | Some lines, Some expected => judge1 output (m_file fmt lines expected)
        | _, _ => malformed
        end
    | _ => malformed
    end
  else if String.eqb kind "mockrow" then
    match input, output with
    | JL [JI fmt; JI wh; jdata; jes; JI maxlen], JL obs =>
        match dec_recs jdata, dec_recs jes with
        | Some data, Some esyms =>
            let want := map (fun r => [fst r; nclass (snd r)]) data in
            finish (judge_row obs (map (fun e =>
              (model_file fmt (Some (mock_lines fmt (wh =? 1) data)) e,
               (* written by mock_*_file: the file holds exactly `data` *)
               llist_eqb want (map (fun r => [fst r; nclass (snd r)]) e), true))
              (all_seqs esyms (Z.to_nat maxlen))))
        | _, _ => malformed
        end
    | _, _ => malformed
    end
  else if String.eqb kind "filelong" then
    match input, output with
    | JL [JI fmt; JI _; JI n; JI bl; JI via; JL jsets], JL obs =>
        match omap dec_modepos jsets with
        | Some sets =>
            let data := long_data n in
            let lines := long_lines fmt bl (via =? 1) data in
            finish (judge_row obs (map (fun s =>
              let e := long_expected data (fst s) (snd s) in
              (model_file fmt (Some lines) e,
               llist_eqb (map (fun r => [fst r; nclass (snd r)]) data)
                         (map (fun r => [fst r; nclass (snd r)]) e), true)) sets))
        | None => malformed
        end
    | _, _ => malformed
    end
  else if String.eqb kind "nofile" then
    match input with
    | JL [JI fmt] => judge1 output (model_file fmt None [], false, true)
    | _ => malformed
    end
  else malformed.

Definition check_C20 (kind : string) (input output : J) : verdict :=
  if String.eqb kind "row" then
    (* in = [aid, a, nsym, maxlen]; out = accept bit per b of all_seqs (0..nsym-1) maxlen *)
    match input, output with
    | JL [JI aid; ja; JI nsym; JI maxlen], JL obs =>
        match jints ja with
        | Some a =>
            let bs := all_seqs (zrange nsym) (Z.to_nat maxlen) in
            if aid =? 0 then finish (judge_row obs (map (m_ordered a) bs))
            else if aid =? 1 then finish (judge_row obs (map (m_unordered a) bs))
            else malformed
        | None => malformed
        end
    | _, _ => malformed
    end
  else if String.eqb kind "rowkv" then
    (* in = [a, nk, nv, maxlen]; symbols (k,v) enumerated k-major *)
    match input, output with
    | JL [ja; JI nk; JI nv; JI maxlen], JL obs =>
        match dec_kvs ja with
        | Some a =>
            let syms := flat_map (fun k => map (fun v => (k, v)) (zrange nv)) (zrange nk) in
            finish (judge_row obs (map (m_kv a) (all_seqs syms (Z.to_nat maxlen))))
        | None => malformed
        end
    | _, _ => malformed
    end
  else if String.eqb kind "rowg" then
    (* in = [a, nk, nv, maxvlen, maxlen]; a group symbol is (k, vs), k-major, vs by all_seqs *)
    match input, output with
    | JL [ja; JI nk; JI nv; JI maxvlen; JI maxlen], JL obs =>
        match dec_groups ja with
        | Some a =>
            let vss := all_seqs (zrange nv) (Z.to_nat maxvlen) in
            let syms := flat_map (fun k => map (fun vs => (k, vs)) vss) (zrange nk) in
            finish (judge_row obs (map (m_grouped a) (all_seqs syms (Z.to_nat maxlen))))
        | None => malformed
        end
    | _, _ => malformed
    end
  else if String.eqb kind "pair" then
    (* in = [aid, a, b]; out = accept bit *)
    match input, output with
    | JL [JI aid; ja; jb], JB o =>
        if aid <? 2 then
          match jints ja, jints jb with
          | Some a, Some b =>
              let '(ag, p) := judge o (if aid =? 0 then m_ordered a b else m_unordered a b) in
              ok_verdict ag p
          | _, _ => malformed
          end
        else if aid =? 2 then
          match dec_kvs ja, dec_kvs jb with
          | Some a, Some b => let '(ag, p) := judge o (m_kv a b) in ok_verdict ag p
          | _, _ => malformed
          end
        else
          match dec_groups ja, dec_groups jb with
          | Some a, Some b => let '(ag, p) := judge o (m_grouped a b) in ok_verdict ag p
          | _, _ => malformed
          end
    | _, _ => malformed
    end
  else if String.eqb kind "pairc" then
    (* same as "pair" for the ordered / unordered assertion: the element type only differs in its
       Hash, which the model (and the property) do not depend on *)
    match input, output with
    | JL [JI aid; ja; jb], JB o =>
        match jints ja, jints jb with
        | Some a, Some b =>
            let '(ag, p) := judge o (if aid =? 0 then m_ordered a b else m_unordered a b) in
            ok_verdict ag p
        | _, _ => malformed
        end
    | _, _ => malformed
    end
  else if String.eqb kind "long" then
    (* in = [aid, n, diffs]: a[i] = i mod 5 ; b[i] = (a[i]+1) mod 5 at the listed positions *)
    match input, output with
    | JL [JI aid; JI n; jd], JB o =>
        match jints jd with
        | Some d =>
            let idx := zrange n in
            let a := map (fun i => i mod 5) idx in
            let b := map (fun i => if existsb (Z.eqb i) d then (i mod 5 + 1) mod 5 else i mod 5) idx in
            let '(ag, p) := judge o (if aid =? 0 then m_ordered a b else m_unordered a b) in
            ok_verdict ag p
        | None => malformed
        end
    | _, _ => malformed
    end
  else if String.eqb kind "alias" then
    (* in = [aid, v, i, j]: the two arguments are v[..i] and v[..j] of one buffer *)
    match input, output with
    | JL [JI aid; jv; JI i; JI j], JB o =>
        match jints jv with
        | Some v =>
            let a := firstn (Z.to_nat i) v in
            let b := firstn (Z.to_nat j) v in
            let '(ag, p) := judge o (if aid =? 0 then m_ordered a b else m_unordered a b) in
            ok_verdict ag p
        | None => malformed
        end
    | _, _ => malformed
    end
  else if String.eqb kind "zst" then
    (* in = [aid, n, m]: n and m copies of the unit value *)
    match input, output with
    | JL [JI aid; JI n; JI m], JB o =>
        let a := repeat 0 (Z.to_nat n) in
        let b := repeat 0 (Z.to_nat m) in
        let '(ag, p) := judge o (if aid =? 0 then m_ordered a b else m_unordered a b) in
        ok_verdict ag p
    | _, _ => malformed
    end
  else check_C20_more kind input output.
