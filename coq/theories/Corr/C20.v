(* Correspondence for C20: runs the model of src/testing/assertions.rs on the cases the harness
   ran on the real assertions, and decides agreement and the property instance inside Coq. *)
From Coq Require Import List ZArith Bool String.
From IB Require Import Util.J Testing.Assertions.
Import ListNotations.
Open Scope Z_scope.

(* canonical enumeration shared with harness/src/bin/c20.rs:
   all sequences over `syms` of length 0, then 1, ... then maxlen; within one length the first
   element varies slowest. *)
Fixpoint seqs_of_len {A} (syms : list A) (n : nat) : list (list A) :=
  match n with
  | O => [[]]
  | S n' => flat_map (fun s => map (cons s) (seqs_of_len syms n')) syms
  end.
Definition all_seqs {A} (syms : list A) (maxlen : nat) : list (list A) :=
  flat_map (seqs_of_len syms) (seq 0 (S maxlen)).

(* ---------- reference semantics (independent of the model): multiset equality through a
   canonical sort ---------- *)
Fixpoint zinsert (x : Z) (l : list Z) : list Z :=
  match l with [] => [x] | y :: r => if x <=? y then x :: l else y :: zinsert x r end.
Definition zsort (l : list Z) : list Z := fold_right zinsert [] l.
Fixpoint zlist_eqb (a b : list Z) : bool :=
  match a, b with
  | [], [] => true
  | x :: a', y :: b' => (x =? y) && zlist_eqb a' b'
  | _, _ => false
  end.
Definition zmultiset_eqb (a b : list Z) : bool := zlist_eqb (zsort a) (zsort b).

(* lexicographic order on lists of Z, to sort (k, v) pairs and (k, sorted vs) groups *)
Fixpoint zlist_leb (a b : list Z) : bool :=
  match a, b with
  | [], _ => true
  | _ :: _, [] => false
  | x :: a', y :: b' => if x <? y then true else if y <? x then false else zlist_leb a' b'
  end.
Fixpoint linsert (x : list Z) (l : list (list Z)) : list (list Z) :=
  match l with [] => [x] | y :: r => if zlist_leb x y then x :: l else y :: linsert x r end.
Definition lsort (l : list (list Z)) : list (list Z) := fold_right linsert [] l.
Fixpoint llist_eqb (a b : list (list Z)) : bool :=
  match a, b with
  | [], [] => true
  | x :: a', y :: b' => zlist_eqb x y && llist_eqb a' b'
  | _, _ => false
  end.
Definition lmultiset_eqb (a b : list (list Z)) : bool := llist_eqb (lsort a) (lsort b).

Definition kv_code (p : Z * Z) : list Z := [fst p; snd p].
Definition group_code (g : Z * list Z) : list Z := fst g :: zsort (snd g).

Fixpoint nodup_z (l : list Z) : bool :=
  match l with [] => true | x :: r => negb (existsb (Z.eqb x) r) && nodup_z r end.

(* ---------- decoding ---------- *)
Definition dec_kv (j : J) : option (Z * Z) :=
  match j with JL [JI k; JI v] => Some (k, v) | _ => None end.
Definition dec_kvs (j : J) : option (list (Z * Z)) :=
  match j with JL l => omap dec_kv l | _ => None end.
Definition dec_group (j : J) : option (Z * list Z) :=
  match j with JL [JI k; vs] => match jints vs with Some l => Some (k, l) | None => None end
  | _ => None end.
Definition dec_groups (j : J) : option (list (Z * list Z)) :=
  match j with JL l => omap dec_group l | _ => None end.

Definition zrange (n : Z) : list Z := map Z.of_nat (seq 0 (Z.to_nat n)).

(* ---------- one assertion, as (model result, reference result, exact?) ----------
   exact = the property demands `pass <-> reference`; otherwise only `pass -> reference`
   (grouped data in which a key repeats is not "grouped data" in the sense of the property). *)
Definition m_ordered (a b : list Z) := (assert_collections_equal Z.eqb a b, zlist_eqb a b, true).
Definition m_unordered (a b : list Z) :=
  (assert_collections_unordered_equal Z.eqb a b, zmultiset_eqb a b, true).
Definition m_kv (a b : list (Z * Z)) :=
  (assert_kv_collections_equal Z.eqb a b, lmultiset_eqb (map kv_code a) (map kv_code b), true).
Definition m_grouped (a b : list (Z * list Z)) :=
  (assert_grouped_kv_equal Z.eqb a b, lmultiset_eqb (map group_code a) (map group_code b),
   nodup_z (map fst a) && nodup_z (map fst b)).

Definition judge (obs : bool) (m : bool * bool * bool) : bool * bool :=
  let '(model, ref, exact) := m in
  (Bool.eqb obs model, if exact then Bool.eqb obs ref else implb obs ref).

Fixpoint judge_row (obs : list J) (ms : list (bool * bool * bool)) : option (bool * bool) :=
  match obs, ms with
  | [], [] => Some (true, true)
  | JB o :: obs', m :: ms' =>
      match judge_row obs' ms' with
      | Some (a, p) => let '(a1, p1) := judge o m in Some (a1 && a, p1 && p)
      | None => None
      end
  | _, _ => None
  end.

Definition finish (r : option (bool * bool)) : verdict :=
  match r with Some (a, p) => ok_verdict a p | None => malformed end.

Definition check_C20 (kind : string) (input output : J) : verdict :=
  if String.eqb kind "row" then
    (* in = [aid, a, nsym, maxlen]; out = accept bit per b of all_seqs (0..nsym-1) maxlen *)
    match input, output with
    | JL [JI aid; ja; JI nsym; JI maxlen], JL obs =>
        match jints ja with
        | Some a =>
            let bs := all_seqs (zrange nsym) (Z.to_nat maxlen) in
            if aid =? 0 then finish (judge_row obs (map (m_ordered a) bs))
            else if aid =? 1 then finish (judge_row obs (map (m_unordered a) bs))
            else malformed
        | None => malformed
        end
    | _, _ => malformed
    end
  else if String.eqb kind "rowkv" then
    (* in = [a, nk, nv, maxlen]; symbols (k,v) enumerated k-major *)
    match input, output with
    | JL [ja; JI nk; JI nv; JI maxlen], JL obs =>
        match dec_kvs ja with
        | Some a =>
            let syms := flat_map (fun k => map (fun v => (k, v)) (zrange nv)) (zrange nk) in
            finish (judge_row obs (map (m_kv a) (all_seqs syms (Z.to_nat maxlen))))
        | None => malformed
        end
    | _, _ => malformed
    end
  else if String.eqb kind "rowg" then
    (* in = [a, nk, nv, maxvlen, maxlen]; a group symbol is (k, vs), k-major, vs by all_seqs *)
    match input, output with
    | JL [ja; JI nk; JI nv; JI maxvlen; JI maxlen], JL obs =>
        match dec_groups ja with
        | Some a =>
            let vss := all_seqs (zrange nv) (Z.to_nat maxvlen) in
            let syms := flat_map (fun k => map (fun vs => (k, vs)) vss) (zrange nk) in
            finish (judge_row obs (map (m_grouped a) (all_seqs syms (Z.to_nat maxlen))))
        | None => malformed
        end
    | _, _ => malformed
    end
  else if String.eqb kind "pair" then
    (* in = [aid, a, b]; out = accept bit *)
    match input, output with
    | JL [JI aid; ja; jb], JB o =>
        if aid <? 2 then
          match jints ja, jints jb with
          | Some a, Some b =>
              let '(ag, p) := judge o (if aid =? 0 then m_ordered a b else m_unordered a b) in
              ok_verdict ag p
          | _, _ => malformed
          end
        else if aid =? 2 then
          match dec_kvs ja, dec_kvs jb with
          | Some a, Some b => let '(ag, p) := judge o (m_kv a b) in ok_verdict ag p
          | _, _ => malformed
          end
        else
          match dec_groups ja, dec_groups jb with
          | Some a, Some b => let '(ag, p) := judge o (m_grouped a b) in ok_verdict ag p
          | _, _ => malformed
          end
    | _, _ => malformed
    end
  else if String.eqb kind "pairc" then
    (* same as "pair" for the ordered / unordered assertion: the element type only differs in its
       Hash, which the model (and the property) do not depend on *)
    match input, output with
    | JL [JI aid; ja; jb], JB o =>
        match jints ja, jints jb with
        | Some a, Some b =>
            let '(ag, p) := judge o (if aid =? 0 then m_ordered a b else m_unordered a b) in
            ok_verdict ag p
        | _, _ => malformed
        end
    | _, _ => malformed
    end
  else if String.eqb kind "long" then
    (* in = [aid, n, diffs]: a[i] = i mod 5 ; b[i] = (a[i]+1) mod 5 at the listed positions *)
    match input, output with
    | JL [JI aid; JI n; jd], JB o =>
        match jints jd with
        | Some d =>
            let idx := zrange n in
            let a := map (fun i => i mod 5) idx in
            let b := map (fun i => if existsb (Z.eqb i) d then (i mod 5 + 1) mod 5 else i mod 5) idx in
            let '(ag, p) := judge o (if aid =? 0 then m_ordered a b else m_unordered a b) in
            ok_verdict ag p
        | None => malformed
        end
    | _, _ => malformed
    end
  else if String.eqb kind "alias" then
    (* in = [aid, v, i, j]: the two arguments are v[..i] and v[..j] of one buffer *)
    match input, output with
    | JL [JI aid; jv; JI i; JI j], JB o =>
        match jints jv with
        | Some v =>
            let a := firstn (Z.to_nat i) v in
            let b := firstn (Z.to_nat j) v in
            let '(ag, p) := judge o (if aid =? 0 then m_ordered a b else m_unordered a b) in
            ok_verdict ag p
        | None => malformed
        end
    | _, _ => malformed
    end
  else if String.eqb kind "zst" then
    (* in = [aid, n, m]: n and m copies of the unit value *)
    match input, output with
    | JL [JI aid; JI n; JI m], JB o =>
        let a := repeat 0 (Z.to_nat n) in
        let b := repeat 0 (Z.to_nat m) in
        let '(ag, p) := judge o (if aid =? 0 then m_ordered a b else m_unordered a b) in
        ok_verdict ag p
    | _, _ => malformed
    end
  else malformed.
