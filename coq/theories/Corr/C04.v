(* Correspondence for C04 (group_by_key is an exact partition of its input by key).
   kind "prog": in = [src, steps, partitions_or_null], out = observed outcome.
   agree : observed = engine model (comparison mode Canon.cmp_of: exact sequence, multiset of exact rows after a hash step, nested lists as bags only when Canon.lists_arbitrary);
   prop  : against the independent list semantics.  Program ending in group_by_key: with
           `input` = Denote of the prefix, the observed groups have pairwise distinct keys, the
           key set is that of `input`, flattening the groups gives `input` back as a multiset, and
           each key's list is `values_of k input` AS A MULTISET (the property does not promise an
           order inside a group; the order the model predicts is checked by `agree`).  Any other program
           (group_by_key inside join sides, downstream steps, distinct_per_key): observed =
           Denote of the whole program in the comparison mode Canon.cmp_of.
   known : reorder class (not generated on purpose for this property). *)
From Coq Require Import List ZArith Bool String.
From IB Require Import Util.J Engine.Val Engine.Lang Engine.Denote Engine.Decode Engine.Canon.
Import ListNotations.

(* a program with a group_by_key somewhere (also inside a join side): the reference is compared
   with every nested list as a bag, because the order inside a group is not promised *)
Fixpoint has_gbk (steps : list step) : bool :=
  match steps with
  | [] => false
  | SGroupByKey :: _ => true
  | SJoin _ rs _ :: r => (fix go (l : list step) : bool :=
                            match l with
                            | [] => false
                            | SGroupByKey :: _ => true
                            | _ :: l' => go l'
                            end) rs || has_gbk r
  | _ :: r => has_gbk r
  end.
Definition gbk_meets_ref (s : src) (steps : list step) (o : obs) : bool :=
  if has_gbk steps then obs_meets CDeep (ref_outcome s steps) o else meets_ref s steps o.

Definition gbk_prop (s : src) (steps : list step) (o : obs) : bool :=
  match last_step steps with
  | Some SGroupByKey =>
      let pre := but_last steps in
      match o, ref_outcome s pre with
      | OOk rows, OOk input =>
          let bm := bag_mode steps in
          forallb is_group_row rows
          && keys_unique rows
          && rows_cmp bm (map vfst rows) (keys_of input)
          && rows_cmp bm (flat_map (gf GElems) rows) input
          (* the property pins every group's values as a MULTISET ("each one once, none lost,
             none taken from another key"), not their order inside the group - the order the model
             predicts is part of `agree` only *)
          && forallb (fun r => rows_cmp bm (vlist (vsnd r)) (values_of (vfst r) input)) rows
      | _, _ => meets_ref s steps o
      end
  | _ => gbk_meets_ref s steps o
  end.

Definition check_C04 (kind : string) (input output : J) : verdict :=
  if String.eqb kind "prog" then
    match dec_prog input, dec_obs output with
    | Some (s, steps, m), Some o =>
        V (agree_model m s steps o) (gbk_prop s steps o) (reorder_changes s steps) false
    | _, _ => malformed
    end
  else if String.eqb kind "bigprog" then
    (* big inputs: the observed rows are replaced by Canon.summary (count, key sums, extremes,
       number of integer leaves, hashes); agree against the model's summary, prop against the
       summary of the list interpretation *)
    match dec_prog input, dec_obs output with
    | Some (s, steps, m), Some o =>
        if big_ok steps then
          V (big_agree m s steps o)
            (if has_gbk steps then big_meets_ref_bag s steps o else big_meets_ref s steps o)
            (reorder_changes s steps) false
        else malformed
    | _, _ => malformed
    end
  else malformed.
