(* Correspondence for C04 (group_by_key is an exact partition of its input by key).
   kind "prog": in = [src, steps, partitions_or_null], out = observed outcome.
   agree : observed = engine model (comparison mode Canon.cmp_of: exact sequence, multiset of exact rows after a hash step, nested lists as bags only when Canon.lists_arbitrary);
   prop  : against the independent list semantics.  Program ending in group_by_key: with
           `input` = Denote of the prefix, the observed groups have pairwise distinct keys, the
           key set is that of `input`, flattening the groups gives `input` back as a multiset, and
           each key's list is exactly `values_of k input` in input order (as a multiset when the
           prefix itself contains a hash step, whose row order is arbitrary; values are compared
           exactly unless Canon.lists_arbitrary).  Any other program
           (group_by_key inside join sides, downstream steps, distinct_per_key): observed =
           Denote of the whole program in the comparison mode Canon.cmp_of.
   known : reorder class (not generated on purpose for this property). *)
From Coq Require Import List ZArith Bool String.
From IB Require Import Util.J Engine.Val Engine.Lang Engine.Denote Engine.Decode Engine.Canon.
Import ListNotations.

Definition gbk_prop (s : src) (steps : list step) (o : obs) : bool :=
  match last_step steps with
  | Some SGroupByKey =>
      let pre := but_last steps in
      match o, ref_outcome s pre with
      | OOk rows, OOk input =>
          let bm := bag_mode steps in
          forallb is_group_row rows
          && keys_unique rows
          && rows_cmp bm (map vfst rows) (keys_of input)
          && rows_cmp bm (flat_map (gf GElems) rows) input
          && forallb (fun r =>
                        rows_cmp (if order_exact pre then CExact else bm)
                                 (vlist (vsnd r)) (values_of (vfst r) input)) rows
      | _, _ => meets_ref s steps o
      end
  | _ => meets_ref s steps o
  end.

Definition check_C04 (kind : string) (input output : J) : verdict :=
  if String.eqb kind "prog" then
    match dec_prog input, dec_obs output with
    | Some (s, steps, m), Some o =>
        V (agree_model m s steps o) (gbk_prop s steps o) (reorder_changes s steps) false
    | _, _ => malformed
    end
  else if String.eqb kind "bigprog" then
    (* big inputs: the observed rows are replaced by Canon.summary (count, key sums, extremes,
       number of integer leaves, hashes); agree against the model's summary, prop against the
       summary of the list interpretation *)
    match dec_prog input, dec_obs output with
    | Some (s, steps, m), Some o =>
        if big_ok steps then
          V (big_agree m s steps o) (big_meets_ref s steps o) (reorder_changes s steps) false
        else malformed
    | _, _ => malformed
    end
  else malformed.
