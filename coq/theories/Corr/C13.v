(* Correspondence for C13: runs the model of Window::tumble (debug profile = the harness `dev`
   profile: overflow checks and debug assertions on) and of the window grouping helpers on the
   cases harness/src/bin/c13.rs ran on the real code, and decides agreement and the property
   instance inside Coq.

   kinds
     "tumble"  in  = [ts, size, off]                      out = ["ok",[start,end]] | ["panic"]
     "row"     in  = [size, off, ts0, n]                  out = [o_0 .. o_(n-1)], o_i for ts0+i,
                                                                 o_i = [start,end] | null (panic)
     "kbw"     in  = [keyed, size, off, events, parts, threads]   out = ["ok", tagged] | ["panic"]
     "gbw"     in  = [keyed, size, off, events, parts, threads]   out = ["ok", groups] | ["panic"]
     "gmix"    in  = [s1, s2, off, events, parts, threads]        out = ["ok", groups] | ["panic"]
               (event [sel, ts, v]: window size s1 if sel = 0 else s2; one map + one group_by_key)
     "weq"     in  = [s1, e1, s2, e2]       out = [a == b, hash(a) == hash(b), a.cmp(b), a.partial_cmp(b)]
     "weqrow"  in  = [s1, e1, n]            out = one such entry per (s2, e2) in 0..n x 0..n, s2-major
               (cmp as -1/0/1, partial_cmp likewise or null for None)
   u64 values are JSON ints below 2^62, decimal strings otherwise (both accepted everywhere).
   events = [[k, ts, v] ..] (k is ignored by the unkeyed API, then reported as 0);
   parts = 0: collect_seq, parts = n > 0: collect_par(Some(threads), Some(n));
   tagged = [[k, start, end, v] ..] sorted; groups = [[k, start, end, [v ..sorted]] ..] sorted. *)
From Coq Require Import List ZArith Bool String Ascii.
From IB Require Import Util.J Window.Tumble Window.Grouping.
Import ListNotations.
Open Scope Z_scope.

(* ---------- decoding ---------- *)
Fixpoint digits_val (s : string) (acc : Z) : option Z :=
  match s with
  | EmptyString => Some acc
  | String a r =>
      let d := Z.of_N (N_of_ascii a) - 48 in
      if (0 <=? d) && (d <=? 9) then digits_val r (10 * acc + d) else None
  end.

Definition ju64 (j : J) : option Z :=
  match j with
  | JI z => if in_u64 z then Some z else None
  | JS EmptyString => None
  | JS s => match digits_val s 0 with
            | Some z => if in_u64 z then Some z else None
            | None => None
            end
  | _ => None
  end.

Definition dec_window (j : J) : option (Z * Z) :=
  match j with
  | JL [a; b] => match ju64 a, ju64 b with Some s, Some e => Some (s, e) | _, _ => None end
  | _ => None
  end.

(* observed outcome of one tumble call *)
Definition dec_outcome (j : J) : option (outcome (Z * Z)) :=
  match j with
  | JL [t] => if jtag_is "panic" t then Some Panic else None
  | JL [t; w] => if jtag_is "ok" t then option_map Ok (dec_window w) else None
  | _ => None
  end.
Definition dec_entry (j : J) : option (outcome (Z * Z)) :=
  match j with
  | JN => Some Panic
  | _ => option_map Ok (dec_window j)
  end.

Definition event := (Z * (Z * Z))%type.          (* (k, (ts, v)) *)
Definition dec_event (j : J) : option event :=
  match j with
  | JL [JI k; jt; JI v] => match ju64 jt with Some t => Some (k, (t, v)) | None => None end
  | _ => None
  end.
Definition dec_events (j : J) : option (list event) :=
  match j with JL l => omap dec_event l | _ => None end.

(* a tagged element / a group as a list of integers: [k; start; end; v ..] *)
Definition dec_tagged (j : J) : option (list Z) :=
  match j with
  | JL [JI k; js; je; JI v] =>
      match ju64 js, ju64 je with Some s, Some e => Some [k; s; e; v] | _, _ => None end
  | _ => None
  end.
Definition dec_group (j : J) : option (list Z) :=
  match j with
  | JL [JI k; js; je; jvs] =>
      match ju64 js, ju64 je, jints jvs with
      | Some s, Some e, Some vs => Some (k :: s :: e :: vs)
      | _, _, _ => None
      end
  | _ => None
  end.
(* observed outcome of a collect: Ok list | Panic | Err (the runner returned Err(_)) *)
Inductive lobs := LOk (l : list (list Z)) | LPanic | LErr.
Definition dec_list_outcome (dec : J -> option (list Z)) (j : J) : option lobs :=
  match j with
  | JL [t] => if jtag_is "panic" t then Some LPanic else None
  | JL [t; JL l] => if jtag_is "ok" t then option_map LOk (omap dec l) else None
  | JL [t; JS _] => if jtag_is "err" t then Some LErr else None
  | _ => None
  end.

(* ---------- canonical order (lexicographic on integer lists) ---------- *)
Fixpoint zinsert (x : Z) (l : list Z) : list Z :=
  match l with [] => [x] | y :: r => if x <=? y then x :: l else y :: zinsert x r end.
Definition zsort (l : list Z) : list Z := fold_right zinsert [] l.
Fixpoint zlist_eqb (a b : list Z) : bool :=
  match a, b with
  | [], [] => true
  | x :: a', y :: b' => (x =? y) && zlist_eqb a' b'
  | _, _ => false
  end.
Fixpoint zlist_leb (a b : list Z) : bool :=
  match a, b with
  | [], _ => true
  | _ :: _, [] => false
  | x :: a', y :: b' => if x <? y then true else if y <? x then false else zlist_leb a' b'
  end.
Fixpoint linsert (x : list Z) (l : list (list Z)) : list (list Z) :=
  match l with [] => [x] | y :: r => if zlist_leb x y then x :: l else y :: linsert x r end.
Definition lsort (l : list (list Z)) : list (list Z) := fold_right linsert [] l.
Fixpoint llist_eqb (a b : list (list Z)) : bool :=
  match a, b with
  | [], [] => true
  | x :: a', y :: b' => zlist_eqb x y && llist_eqb a' b'
  | _, _ => false
  end.
Definition lmultiset_eqb (a b : list (list Z)) : bool := llist_eqb (lsort a) (lsort b).
Fixpoint nodup_l (l : list (list Z)) : bool :=
  match l with [] => true | x :: r => negb (existsb (zlist_eqb x) r) && nodup_l r end.

(* ---------- independent reference (NOT the model) ----------
   the anchor's mechanism, over the integers:  start = off + floor((ts - off) / size) * size *)
Definition ref_start (ts size off : Z) : Z := off + size * ((ts - off) / size).

(* the property instance for one timestamp on an observed outcome *)
Definition prop_window (ts size off : Z) (o : outcome (Z * Z)) : bool :=
  if size <? 1 then true                       (* outside the quantifier (size >= 1) *)
  else match o with
       | Ok (s, e) =>
           in_u64 s && in_u64 e && (e - s =? size) && (s <=? ts) && (ts <? e)
           && ((s - off) mod size =? 0)
       | Panic => false                        (* no window was assigned *)
       end.

(* known-finding class C13-unrepresentable-window, decided from the reference (equal to
   Tumble.unrepresentable; see Proofs/WindowProofs.v: unrepresentable_ref) *)
Definition known_class (ts size off : Z) : bool :=
  (1 <=? size) && ((ref_start ts size off <? 0) || (U64 <=? ref_start ts size off + size)).

Definition outcome_eqb (a b : outcome (Z * Z)) : bool :=
  match a, b with
  | Ok x, Ok y => window_eqb x y
  | Panic, Panic => true
  | _, _ => false
  end.

(* ---------- tumble / row ---------- *)
Definition judge_one (ts size off : Z) (obs : outcome (Z * Z)) : bool * bool * bool :=
  (outcome_eqb obs (tumble_debug ts size off), prop_window ts size off obs,
   known_class ts size off).

(* a row is judged entry by entry: agreement is demanded everywhere (the model predicts the
   panic inside the known class exactly), the property only outside the known class *)
Fixpoint judge_row (ts size off : Z) (obs : list J) : option (bool * bool) :=
  match obs with
  | [] => Some (true, true)
  | j :: r =>
      match dec_entry j, judge_row (ts + 1) size off r with
      | Some o, Some (a, p) =>
          let '(a1, p1, k1) := judge_one ts size off o in
          Some (a1 && a, (k1 || p1) && p)
      | _, _ => None
      end
  end.

(* ---------- grouping ---------- *)
(* type_token.rs VecOpsImpl::split and runner.rs `partitions.max(1).min(total_len.max(1))`:
   the partition list the parallel runner produces (only used to run the model on the same
   partitioning; the comparison is insensitive to it) *)
Fixpoint chunks_fuel {A} (fuel c : nat) (l : list A) : list (list A) :=
  match fuel with
  | O => []
  | S f => match l with [] => [] | _ => firstn c l :: chunks_fuel f c (skipn c l) end
  end.
Definition split_parts {A} (parts : Z) (l : list A) : list (list A) :=
  let len := List.length l in
  let n := Nat.min (Nat.max (Z.to_nat parts) 1) (Nat.max len 1) in
  if (n <=? 1)%nat || (len <=? 1)%nat then [l]
  else chunks_fuel len ((len + n - 1) / n)%nat l.

Definition unkey (e : event) : Z * Z := snd e.

Definition code_tagged_u (x : window * Z) : list Z := [0; fst (fst x); snd (fst x); snd x].
Definition code_tagged_k (x : (Z * window) * Z) : list Z :=
  [fst (fst x); fst (snd (fst x)); snd (snd (fst x)); snd x].
Definition code_group_u (g : window * list Z) : list Z :=
  0 :: fst (fst g) :: snd (fst g) :: zsort (snd g).
Definition code_group_k (g : (Z * window) * list Z) : list Z :=
  fst (fst g) :: fst (snd (fst g)) :: snd (snd (fst g)) :: zsort (snd g).

Definition model_kbw (keyed : bool) (size off : Z) (ps : list (list event)) : outcome (list (list Z)) :=
  if keyed then
    t <- key_by_window_keyed tumble_debug size off ps ;; Ok (map code_tagged_k (List.concat t))
  else
    t <- key_by_window_unkeyed tumble_debug size off (map (map unkey) ps) ;;
    Ok (map code_tagged_u (List.concat t)).

Definition model_gbw (keyed : bool) (size off : Z) (ps : list (list event)) : outcome (list (list Z)) :=
  if keyed then
    g <- group_by_key_and_window Z.eqb tumble_debug size off ps ;; Ok (map code_group_k g)
  else
    g <- group_by_window tumble_debug size off (map (map unkey) ps) ;; Ok (map code_group_u g).

Definition loutcome_agree (obs : lobs) (model : outcome (list (list Z))) : bool :=
  match obs, model with
  | LOk a, Ok b => llist_eqb (lsort a) (lsort b)
  | LPanic, Panic => true
  | _, _ => false
  end.

(* reference tagging of one event: [k; start; end; v] *)
Definition ref_tag (keyed : bool) (size off : Z) (e : event) : list Z :=
  let s := ref_start (fst (snd e)) size off in
  [(if keyed then fst e else 0); s; s + size; snd (snd e)].

Definition group_key (g : list Z) : list Z := firstn 3 g.
Definition group_flat (g : list Z) : list (list Z) := map (fun v => group_key g ++ [v]) (skipn 3 g).

Definition prop_kbw (keyed : bool) (size off : Z) (evs : list event) (obs : lobs) : bool :=
  if size <? 1 then true
  else match obs with
       | LOk tagged => lmultiset_eqb tagged (map (ref_tag keyed size off) evs)
       | _ => false
       end.

Definition prop_gbw (keyed : bool) (size off : Z) (evs : list event) (obs : lobs) : bool :=
  if size <? 1 then true
  else match obs with
       | LOk groups =>
           nodup_l (map group_key groups)                               (* one group per key *)
           && forallb (fun g => (3 <? Z.of_nat (List.length g))) groups     (* no empty group *)
           && lmultiset_eqb (flat_map group_flat groups)                 (* nothing lost, *)
                            (map (ref_tag keyed size off) evs)           (* nothing duplicated *)
       | _ => false
       end.

Definition known_events (size off : Z) (evs : list event) : bool :=
  existsb (fun e => known_class (fst (snd e)) size off) evs.

Definition jflag (j : J) : option bool :=
  match j with JB b => Some b | JI z => Some (negb (z =? 0)) | _ => None end.

(* ---------- Window's Eq / Hash / Ord ---------- *)
Definition cmp_code (c : comparison) : Z := match c with Lt => -1 | Eq => 0 | Gt => 1 end.

(* reference (NOT the model): windows as two-element integer lists, list equality and the
   lexicographic list order of this file *)
Definition ref_weq (a b : Z * Z) : bool := zlist_eqb [fst a; snd a] [fst b; snd b].
Definition ref_wcmp (a b : Z * Z) : Z :=
  if ref_weq a b then 0 else if zlist_leb [fst a; snd a] [fst b; snd b] then -1 else 1.

Definition judge_weq (a b : Z * Z) (obs : J) : option (bool * bool) :=
  match obs with
  | JL [JB oeq; JB oheq; JI ocmp; jp] =>
      let opc := match jp with JI z => Some z | _ => None end in
      let pc_is (z : Z) := match opc with Some y => y =? z | None => false end in
      let meq := window_eqb a b in
      let mc := cmp_code (window_cmp a b) in
      let mhash := zlist_eqb (window_hash_feed a) (window_hash_feed b) in
      (* agreement: ==, cmp, partial_cmp as the model says; equal hash feeds => equal hashes
         (different feeds may collide, so nothing is demanded then) *)
      let agree := Bool.eqb oeq meq && (ocmp =? mc) && pc_is mc && implb mhash oheq in
      (* property instance on the observed values: == is equality of (start,end); cmp is the
         order by start, then end; cmp = 0 <-> ==; partial_cmp = Some cmp; == implies equal hashes *)
      let prop := Bool.eqb oeq (ref_weq a b) && (ocmp =? ref_wcmp a b)
                  && Bool.eqb (ocmp =? 0) oeq && pc_is ocmp && implb oeq oheq in
      Some (agree, prop)
  | _ => None
  end.

Definition zrange (n : Z) : list Z := map Z.of_nat (seq 0 (Z.to_nat n)).

Fixpoint judge_weq_row (a : Z * Z) (bs : list (Z * Z)) (obs : list J) : option (bool * bool) :=
  match bs, obs with
  | [], [] => Some (true, true)
  | b :: bs', o :: obs' =>
      match judge_weq a b o, judge_weq_row a bs' obs' with
      | Some (a1, p1), Some (a2, p2) => Some (a1 && a2, p1 && p2)
      | _, _ => None
      end
  | _, _ => None
  end.

(* ---------- two window sizes in one group_by_key ---------- *)
Definition mixed_size (s1 s2 : Z) (e : event) : Z := if fst e =? 0 then s1 else s2.
Definition ref_tag_mixed (s1 s2 off : Z) (e : event) : list Z :=
  let size := mixed_size s1 s2 e in
  let s := ref_start (fst (snd e)) size off in
  [0; s; s + size; snd (snd e)].
Definition model_gmix (s1 s2 off : Z) (ps : list (list event)) : outcome (list (list Z)) :=
  g <- group_by_mixed_window tumble_debug s1 s2 off ps ;; Ok (map code_group_u g).
Definition prop_gmix (s1 s2 off : Z) (evs : list event) (obs : lobs) : bool :=
  if (s1 <? 1) || (s2 <? 1) then true
  else match obs with
       | LOk groups =>
           nodup_l (map group_key groups)
           && forallb (fun g => (3 <? Z.of_nat (List.length g))) groups
           && lmultiset_eqb (flat_map group_flat groups) (map (ref_tag_mixed s1 s2 off) evs)
       | _ => false
       end.
Definition known_events_mixed (s1 s2 off : Z) (evs : list event) : bool :=
  existsb (fun e => known_class (fst (snd e)) (mixed_size s1 s2 e) off) evs.

Definition check_C13 (kind : string) (input output : J) : verdict :=
  if String.eqb kind "tumble" then
    match input with
    | JL [jt; js; jo] =>
        match ju64 jt, ju64 js, ju64 jo, dec_outcome output with
        | Some ts, Some size, Some off, Some obs =>
            let '(a, p, k) := judge_one ts size off obs in V a p k false
        | _, _, _, _ => malformed
        end
    | _ => malformed
    end
  else if String.eqb kind "row" then
    match input, output with
    | JL [js; jo; jt0; JI n], JL obs =>
        match ju64 js, ju64 jo, ju64 jt0 with
        | Some size, Some off, Some ts0 =>
            if (Z.of_nat (List.length obs) =? n) && (ts0 + n <=? U64) then
              match judge_row ts0 size off obs with
              | Some (a, p) => ok_verdict a p
              | None => malformed
              end
            else malformed
        | _, _, _ => malformed
        end
    | _, _ => malformed
    end
  else if String.eqb kind "kbw" || String.eqb kind "gbw" then
    let grouped := String.eqb kind "gbw" in
    match input with
    | JL [jk; js; jo; jevs; JI parts; JI _threads] =>
        match jflag jk, ju64 js, ju64 jo, dec_events jevs,
              dec_list_outcome (if grouped then dec_group else dec_tagged) output with
        | Some keyed, Some size, Some off, Some evs, Some obs =>
            let ps := if parts =? 0 then [evs] else split_parts parts evs in
            if grouped then
              V (loutcome_agree obs (model_gbw keyed size off ps))
                (prop_gbw keyed size off evs obs) (known_events size off evs) false
            else
              V (loutcome_agree obs (model_kbw keyed size off ps))
                (prop_kbw keyed size off evs obs) (known_events size off evs) false
        | _, _, _, _, _ => malformed
        end
    | _ => malformed
    end
  else if String.eqb kind "gmix" then
    match input with
    | JL [j1; j2; jo; jevs; JI parts; JI _threads] =>
        match ju64 j1, ju64 j2, ju64 jo, dec_events jevs, dec_list_outcome dec_group output with
        | Some s1, Some s2, Some off, Some evs, Some obs =>
            let ps := if parts =? 0 then [evs] else split_parts parts evs in
            V (loutcome_agree obs (model_gmix s1 s2 off ps))
              (prop_gmix s1 s2 off evs obs) (known_events_mixed s1 s2 off evs) false
        | _, _, _, _, _ => malformed
        end
    | _ => malformed
    end
  else if String.eqb kind "weq" then
    match input with
    | JL [ja; jb; jc; jd] =>
        match ju64 ja, ju64 jb, ju64 jc, ju64 jd with
        | Some s1, Some e1, Some s2, Some e2 =>
            match judge_weq (s1, e1) (s2, e2) output with
            | Some (a, p) => ok_verdict a p
            | None => malformed
            end
        | _, _, _, _ => malformed
        end
    | _ => malformed
    end
  else if String.eqb kind "weqrow" then
    match input, output with
    | JL [ja; jb; JI n], JL obs =>
        match ju64 ja, ju64 jb with
        | Some s1, Some e1 =>
            let bs := flat_map (fun s2 => map (fun e2 => (s2, e2)) (zrange n)) (zrange n) in
            match judge_weq_row (s1, e1) bs obs with
            | Some (a, p) => ok_verdict a p
            | None => malformed
            end
        | _, _ => malformed
        end
    | _, _ => malformed
    end
  else malformed.
