(* Correspondence for C13: runs the model of Window::tumble (debug profile = the harness `dev`
   profile: overflow checks and debug assertions on) and of the window grouping helpers on the
   cases harness/src/bin/c13.rs ran on the real code, and decides agreement and the property
   instance inside Coq.

   kinds
     "tumble"  in  = [ts, size, off]                      out = ["ok",[start,end]] | ["panic"]
     "row"     in  = [size, off, ts0, n]                  out = [o_0 .. o_(n-1)], o_i for ts0+i,
                                                                 o_i = [start,end] | null (panic)
     "kbw"     in  = [keyed, size, off, events, parts, threads]   out = ["ok", tagged] | ["panic"]
     "gbw"     in  = [keyed, size, off, events, parts, threads]   out = ["ok", groups] | ["panic"]
     "gmix"    in  = [s1, s2, off, events, parts, threads]        out = ["ok", groups] | ["panic"]
               (event [sel, ts, v]: window size s1 if sel = 0 else s2; one map + one group_by_key)
     "weq"     in  = [s1, e1, s2, e2]       out = [a == b, hash(a) == hash(b), a.cmp(b), a.partial_cmp(b)]
     "weqrow"  in  = [s1, e1, n]            out = one such entry per (s2, e2) in 0..n x 0..n, s2-major
               (cmp as -1/0/1, partial_cmp likewise or null for None)
     "wnew"    in  = [s, e]     out = ["ok",[s,e],[s',e']] | ["panic"]   (Window::new, serde round trip)
     "tsp"     in  = [entry, [sel,c], keyed, size, off, events, stage, runs]      out = [outcome per run]
               entry 0 Timestamped::new | 1 attach_timestamps(ts_fn) | 2 to_timestamped (+ key_by when keyed);
               stage 0 stamped stream | 1 key_by_window | 2 group_by_(key_and_)window;
               runs = [[parts, threads, coll] ..] on clones of one collection (parts -1: partitions
               None, -2: collect(); observed run ["=", i] = same outcome as run i); coll 0 collect_seq/par,
               1 collect_*_sorted, 2 collect_par_sorted_by_key, 3 checkpointing runner;
               rows [k,ts,[v]] / [k,start,end,[v]] / [k,start,end,[v..]] in collector order
     "wjoin"   in  = [jkind, keyed, lside, rside, xp, runs]    out = [outcome per run], rows [k,start,end,L,R]
               side = [0, [[k,s,e,val]..]] | [stage, entry, [sel,c], size, off, events]
     "gbig"    in  = [via, keyed, size, off, n, t0, a, m, nk, parts, threads, wb, nt]
               out = ["ok", [[k,start,end,digest..]..sorted]] | ["panic"]
   u64 values are JSON ints below 2^62, decimal strings otherwise (both accepted everywhere).
   events = [[k, ts, v] ..] (k is ignored by the unkeyed API, then reported as 0);
   parts = 0: collect_seq, parts = n > 0: collect_par(Some(threads), Some(n));
   tagged = [[k, start, end, v] ..] sorted; groups = [[k, start, end, [v ..sorted]] ..] sorted. *)
From Coq Require Import List ZArith Bool String Ascii.
From IB Require Import Util.J Window.Tumble Window.Grouping Window.Timestamped Window.Join Window.Collect.
Import ListNotations.
Open Scope Z_scope.

(* ---------- decoding ---------- *)
Fixpoint digits_val (s : string) (acc : Z) : option Z :=
  match s with
  | EmptyString => Some acc
  | String a r =>
      let d := Z.of_N (N_of_ascii a) - 48 in
      if (0 <=? d) && (d <=? 9) then digits_val r (10 * acc + d) else None
  end.

Definition ju64 (j : J) : option Z :=
  match j with
  | JI z => if in_u64 z then Some z else None
  | JS EmptyString => None
  | JS s => match digits_val s 0 with
            | Some z => if in_u64 z then Some z else None
            | None => None
            end
  | _ => None
  end.

Definition dec_window (j : J) : option (Z * Z) :=
  match j with
  | JL [a; b] => match ju64 a, ju64 b with Some s, Some e => Some (s, e) | _, _ => None end
  | _ => None
  end.

(* observed outcome of one tumble call *)
Definition dec_outcome (j : J) : option (outcome (Z * Z)) :=
  match j with
  | JL [t] => if jtag_is "panic" t then Some Panic else None
  | JL [t; w] => if jtag_is "ok" t then option_map Ok (dec_window w) else None
  | _ => None
  end.
Definition dec_entry (j : J) : option (outcome (Z * Z)) :=
  match j with
  | JN => Some Panic
  | _ => option_map Ok (dec_window j)
  end.

Definition event := (Z * (Z * Z))%type.          (* (k, (ts, v)) *)
Definition dec_event (j : J) : option event :=
  match j with
  | JL [JI k; jt; JI v] => match ju64 jt with Some t => Some (k, (t, v)) | None => None end
  | _ => None
  end.
Definition dec_events (j : J) : option (list event) :=
  match j with JL l => omap dec_event l | _ => None end.

(* a tagged element / a group as a list of integers: [k; start; end; v ..] *)
Definition dec_tagged (j : J) : option (list Z) :=
  match j with
  | JL [JI k; js; je; JI v] =>
      match ju64 js, ju64 je with Some s, Some e => Some [k; s; e; v] | _, _ => None end
  | _ => None
  end.
Definition dec_group (j : J) : option (list Z) :=
  match j with
  | JL [JI k; js; je; jvs] =>
      match ju64 js, ju64 je, jints jvs with
      | Some s, Some e, Some vs => Some (k :: s :: e :: vs)
      | _, _, _ => None
      end
  | _ => None
  end.
(* observed outcome of a collect: Ok list | Panic | Err (the runner returned Err(_)) *)
Inductive lobs := LOk (l : list (list Z)) | LPanic | LErr.
Definition dec_list_outcome (dec : J -> option (list Z)) (j : J) : option lobs :=
  match j with
  | JL [t] => if jtag_is "panic" t then Some LPanic else None
  | JL [t; JL l] => if jtag_is "ok" t then option_map LOk (omap dec l) else None
  | JL [t; JS _] => if jtag_is "err" t then Some LErr else None
  | _ => None
  end.

(* ---------- canonical order (lexicographic on integer lists) ---------- *)
Fixpoint zinsert (x : Z) (l : list Z) : list Z :=
  match l with [] => [x] | y :: r => if x <=? y then x :: l else y :: zinsert x r end.
Definition zsort (l : list Z) : list Z := fold_right zinsert [] l.
Fixpoint zlist_eqb (a b : list Z) : bool :=
  match a, b with
  | [], [] => true
  | x :: a', y :: b' => (x =? y) && zlist_eqb a' b'
  | _, _ => false
  end.
Fixpoint zlist_leb (a b : list Z) : bool :=
  match a, b with
  | [], _ => true
  | _ :: _, [] => false
  | x :: a', y :: b' => if x <? y then true else if y <? x then false else zlist_leb a' b'
  end.
Fixpoint linsert (x : list Z) (l : list (list Z)) : list (list Z) :=
  match l with [] => [x] | y :: r => if zlist_leb x y then x :: l else y :: linsert x r end.
Definition lsort (l : list (list Z)) : list (list Z) := fold_right linsert [] l.
Fixpoint llist_eqb (a b : list (list Z)) : bool :=
  match a, b with
  | [], [] => true
  | x :: a', y :: b' => zlist_eqb x y && llist_eqb a' b'
  | _, _ => false
  end.
Definition lmultiset_eqb (a b : list (list Z)) : bool := llist_eqb (lsort a) (lsort b).
Fixpoint nodup_l (l : list (list Z)) : bool :=
  match l with [] => true | x :: r => negb (existsb (zlist_eqb x) r) && nodup_l r end.

(* ---------- independent reference (NOT the model) ----------
   the anchor's mechanism, over the integers:  start = off + floor((ts - off) / size) * size *)
Definition ref_start (ts size off : Z) : Z := off + size * ((ts - off) / size).

(* the property instance for one timestamp on an observed outcome *)
Definition prop_window (ts size off : Z) (o : outcome (Z * Z)) : bool :=
  if size <? 1 then true                       (* outside the quantifier (size >= 1) *)
  else match o with
       | Ok (s, e) =>
           in_u64 s && in_u64 e && (e - s =? size) && (s <=? ts) && (ts <? e)
           && ((s - off) mod size =? 0)
       | Panic => false                        (* no window was assigned *)
       end.

(* known-finding class C13-unrepresentable-window, decided from the reference (equal to
   Tumble.unrepresentable; see Proofs/WindowProofs.v: unrepresentable_ref) *)
Definition known_class (ts size off : Z) : bool :=
  (1 <=? size) && ((ref_start ts size off <? 0) || (U64 <=? ref_start ts size off + size)).

Definition outcome_eqb (a b : outcome (Z * Z)) : bool :=
  match a, b with
  | Ok x, Ok y => window_eqb x y
  | Panic, Panic => true
  | _, _ => false
  end.

(* ---------- tumble / row ---------- *)
Definition judge_one (ts size off : Z) (obs : outcome (Z * Z)) : bool * bool * bool :=
  (outcome_eqb obs (tumble_debug ts size off), prop_window ts size off obs,
   known_class ts size off).

(* a row is judged entry by entry: agreement is demanded everywhere (the model predicts the
   panic inside the known class exactly), the property only outside the known class *)
Fixpoint judge_row (ts size off : Z) (obs : list J) : option (bool * bool) :=
  match obs with
  | [] => Some (true, true)
  | j :: r =>
      match dec_entry j, judge_row (ts + 1) size off r with
      | Some o, Some (a, p) =>
          let '(a1, p1, k1) := judge_one ts size off o in
          Some (a1 && a, (k1 || p1) && p)
      | _, _ => None
      end
  end.

(* ---------- grouping ---------- *)
(* type_token.rs VecOpsImpl::split and runner.rs `partitions.max(1).min(total_len.max(1))`:
   the partition list the parallel runner produces (only used to run the model on the same
   partitioning; the comparison is insensitive to it) *)
Fixpoint chunks_fuel {A} (fuel c : nat) (l : list A) : list (list A) :=
  match fuel with
  | O => []
  | S f => match l with [] => [] | _ => firstn c l :: chunks_fuel f c (skipn c l) end
  end.
Definition split_parts {A} (parts : Z) (l : list A) : list (list A) :=
  let len := List.length l in
  let n := Nat.min (Nat.max (Z.to_nat parts) 1) (Nat.max len 1) in
  if (n <=? 1)%nat || (len <=? 1)%nat then [l]
  else chunks_fuel len ((len + n - 1) / n)%nat l.

Definition unkey (e : event) : Z * Z := snd e.

Definition code_tagged_u (x : window * Z) : list Z := [0; fst (fst x); snd (fst x); snd x].
Definition code_tagged_k (x : (Z * window) * Z) : list Z :=
  [fst (fst x); fst (snd (fst x)); snd (snd (fst x)); snd x].
Definition code_group_u (g : window * list Z) : list Z :=
  0 :: fst (fst g) :: snd (fst g) :: zsort (snd g).
Definition code_group_k (g : (Z * window) * list Z) : list Z :=
  fst (fst g) :: fst (snd (fst g)) :: snd (snd (fst g)) :: zsort (snd g).

Definition model_kbw (keyed : bool) (size off : Z) (ps : list (list event)) : outcome (list (list Z)) :=
  if keyed then
    t <- key_by_window_keyed tumble_debug size off ps ;; Ok (map code_tagged_k (List.concat t))
  else
    t <- key_by_window_unkeyed tumble_debug size off (map (map unkey) ps) ;;
    Ok (map code_tagged_u (List.concat t)).

Definition model_gbw (keyed : bool) (size off : Z) (ps : list (list event)) : outcome (list (list Z)) :=
  if keyed then
    g <- group_by_key_and_window Z.eqb tumble_debug size off ps ;; Ok (map code_group_k g)
  else
    g <- group_by_window tumble_debug size off (map (map unkey) ps) ;; Ok (map code_group_u g).

Definition loutcome_agree (obs : lobs) (model : outcome (list (list Z))) : bool :=
  match obs, model with
  | LOk a, Ok b => llist_eqb (lsort a) (lsort b)
  | LPanic, Panic => true
  | _, _ => false
  end.

(* reference tagging of one event: [k; start; end; v] *)
Definition ref_tag (keyed : bool) (size off : Z) (e : event) : list Z :=
  let s := ref_start (fst (snd e)) size off in
  [(if keyed then fst e else 0); s; s + size; snd (snd e)].

Definition group_key (g : list Z) : list Z := firstn 3 g.
Definition group_flat (g : list Z) : list (list Z) := map (fun v => group_key g ++ [v]) (skipn 3 g).

Definition prop_kbw (keyed : bool) (size off : Z) (evs : list event) (obs : lobs) : bool :=
  if size <? 1 then true
  else match obs with
       | LOk tagged => lmultiset_eqb tagged (map (ref_tag keyed size off) evs)
       | _ => false
       end.

Definition prop_gbw (keyed : bool) (size off : Z) (evs : list event) (obs : lobs) : bool :=
  if size <? 1 then true
  else match obs with
       | LOk groups =>
           nodup_l (map group_key groups)                               (* one group per key *)
           && forallb (fun g => (3 <? Z.of_nat (List.length g))) groups     (* no empty group *)
           && lmultiset_eqb (flat_map group_flat groups)                 (* nothing lost, *)
                            (map (ref_tag keyed size off) evs)           (* nothing duplicated *)
       | _ => false
       end.

Definition known_events (size off : Z) (evs : list event) : bool :=
  existsb (fun e => known_class (fst (snd e)) size off) evs.

Definition jflag (j : J) : option bool :=
  match j with JB b => Some b | JI z => Some (negb (z =? 0)) | _ => None end.

(* ---------- Window's Eq / Hash / Ord ---------- *)
Definition cmp_code (c : comparison) : Z := match c with Lt => -1 | Eq => 0 | Gt => 1 end.

(* reference (NOT the model): windows as two-element integer lists, list equality and the
   lexicographic list order of this file *)
Definition ref_weq (a b : Z * Z) : bool := zlist_eqb [fst a; snd a] [fst b; snd b].
Definition ref_wcmp (a b : Z * Z) : Z :=
  if ref_weq a b then 0 else if zlist_leb [fst a; snd a] [fst b; snd b] then -1 else 1.

Definition judge_weq (a b : Z * Z) (obs : J) : option (bool * bool) :=
  match obs with
  | JL [JB oeq; JB oheq; JI ocmp; jp] =>
      let opc := match jp with JI z => Some z | _ => None end in
      let pc_is (z : Z) := match opc with Some y => y =? z | None => false end in
      let meq := window_eqb a b in
      let mc := cmp_code (window_cmp a b) in
      let mhash := zlist_eqb (window_hash_feed a) (window_hash_feed b) in
      (* agreement: ==, cmp, partial_cmp as the model says; equal hash feeds => equal hashes
         (different feeds may collide, so nothing is demanded then) *)
      let agree := Bool.eqb oeq meq && (ocmp =? mc) && pc_is mc && implb mhash oheq in
      (* property instance on the observed values: == is equality of (start,end); cmp is the
         order by start, then end; cmp = 0 <-> ==; partial_cmp = Some cmp; == implies equal hashes *)
      let prop := Bool.eqb oeq (ref_weq a b) && (ocmp =? ref_wcmp a b)
                  && Bool.eqb (ocmp =? 0) oeq && pc_is ocmp && implb oeq oheq in
      Some (agree, prop)
  | _ => None
  end.

Definition zrange (n : Z) : list Z := map Z.of_nat (seq 0 (Z.to_nat n)).

Fixpoint judge_weq_row (a : Z * Z) (bs : list (Z * Z)) (obs : list J) : option (bool * bool) :=
  match bs, obs with
  | [], [] => Some (true, true)
  | b :: bs', o :: obs' =>
      match judge_weq a b o, judge_weq_row a bs' obs' with
      | Some (a1, p1), Some (a2, p2) => Some (a1 && a2, p1 && p2)
      | _, _ => None
      end
  | _, _ => None
  end.

(* ---------- two window sizes in one group_by_key ---------- *)
Definition mixed_size (s1 s2 : Z) (e : event) : Z := if fst e =? 0 then s1 else s2.
Definition ref_tag_mixed (s1 s2 off : Z) (e : event) : list Z :=
  let size := mixed_size s1 s2 e in
  let s := ref_start (fst (snd e)) size off in
  [0; s; s + size; snd (snd e)].
Definition model_gmix (s1 s2 off : Z) (ps : list (list event)) : outcome (list (list Z)) :=
  g <- group_by_mixed_window tumble_debug s1 s2 off ps ;; Ok (map code_group_u g).
Definition prop_gmix (s1 s2 off : Z) (evs : list event) (obs : lobs) : bool :=
  if (s1 <? 1) || (s2 <? 1) then true
  else match obs with
       | LOk groups =>
           nodup_l (map group_key groups)
           && forallb (fun g => (3 <? Z.of_nat (List.length g))) groups
           && lmultiset_eqb (flat_map group_flat groups) (map (ref_tag_mixed s1 s2 off) evs)
       | _ => false
       end.
Definition known_events_mixed (s1 s2 off : Z) (evs : list event) : bool :=
  existsb (fun e => known_class (fst (snd e)) (mixed_size s1 s2 e) off) evs.

(* =====================================================================================
   entry points of helpers/timestamped.rs, collectors, window groupings feeding joins
   (kinds wnew / tsp / wjoin / gbig)
   ===================================================================================== *)

(* ---------- cells and rows ---------- *)
Inductive cell := CI (z : Z) | CL (l : list Z) | CN.
Definition row := list cell.

Definition dec_cell (j : J) : option cell :=
  match j with
  | JN => Some CN
  | JI z => Some (CI z)
  | JS _ => option_map CI (ju64 j)
  | JL l => option_map CL (omap jint l)
  | _ => None
  end.
Definition dec_row (j : J) : option row := match j with JL l => omap dec_cell l | _ => None end.

Inductive robs := ROk (rows : list row) | RPanic | RErr.
Definition dec_run (j : J) : option robs :=
  match j with
  | JL [t] => if jtag_is "panic" t then Some RPanic else None
  | JL [t; JL l] => if jtag_is "ok" t then option_map ROk (omap dec_row l) else None
  | JL [t; JS _] => if jtag_is "err" t then Some RErr else None
  | _ => None
  end.

(* the derived orders of the Rust row types: integers, Vec<i64> lexicographically (a proper
   prefix is smaller), None < Some, tuples / Window { start, end } component by component *)
Fixpoint zl_cmp (a b : list Z) : comparison :=
  match a, b with
  | [], [] => Eq
  | [], _ :: _ => Lt
  | _ :: _, [] => Gt
  | x :: a', y :: b' => match x ?= y with Eq => zl_cmp a' b' | c => c end
  end.
Definition cell_cmp (a b : cell) : comparison :=
  match a, b with
  | CN, CN => Eq
  | CN, _ => Lt
  | _, CN => Gt
  | CI x, CI y => x ?= y
  | CI _, CL _ => Lt
  | CL _, CI _ => Gt
  | CL x, CL y => zl_cmp x y
  end.
Fixpoint row_cmp (a b : row) : comparison :=
  match a, b with
  | [], [] => Eq
  | [], _ :: _ => Lt
  | _ :: _, [] => Gt
  | x :: a', y :: b' => match cell_cmp x y with Eq => row_cmp a' b' | c => c end
  end.
Definition key3 (r : row) : row := firstn 3 r.
Definition key_cmp (a b : row) : comparison := row_cmp (key3 a) (key3 b).
Definition row_eqb (a b : row) : bool := match row_cmp a b with Eq => true | _ => false end.
Fixpoint rows_eqb (a b : list row) : bool :=
  match a, b with
  | [], [] => true
  | x :: a', y :: b' => row_eqb x y && rows_eqb a' b'
  | _, _ => false
  end.
Definition rows_multiset_eqb (a b : list row) : bool :=
  rows_eqb (sort_by row_cmp a) (sort_by row_cmp b).
Fixpoint sorted_by (cmp : row -> row -> comparison) (l : list row) : bool :=
  match l with
  | x :: ((y :: _) as r) => le_of cmp x y && sorted_by cmp r
  | _ => true
  end.

(* ---------- the collectors ---------- *)
Definition apply_coll (coll : Z) (rows : list row) : list row :=
  if coll =? 1 then sort_by row_cmp rows
  else if coll =? 2 then sort_by key_cmp rows
  else rows.
(* the collector's output order is determined (no HashMap iteration shows through) *)
Definition exact_order (hashed : bool) (coll : Z) : bool := (coll =? 1) || (coll =? 2) || negb hashed.
Definition coll_ok (stage parts coll : Z) : bool :=
  (0 <=? coll) && (coll <=? 3) && (-2 <=? parts)
  && implb (coll =? 2) ((1 <=? parts) || (parts =? -1))
  && implb (stage =? 0) ((coll =? 0) || (coll =? 3)).

Definition agree_run (hashed : bool) (coll : Z) (obs : robs) (model : outcome (list row)) : bool :=
  match obs, model with
  | ROk rows, Ok m =>
      let m' := apply_coll coll m in
      if exact_order hashed coll then rows_eqb rows m' else rows_multiset_eqb rows m'
  | RPanic, Panic => true
  | _, _ => false
  end.
(* reference side: nothing lost / duplicated / misplaced, and the sorted collectors sort *)
Definition prop_run (coll : Z) (obs : robs) (ref_rows : list row) : bool :=
  match obs with
  | ROk rows =>
      rows_multiset_eqb rows ref_rows
      && (if coll =? 1 then sorted_by row_cmp rows else if coll =? 2 then sorted_by key_cmp rows else true)
  | _ => false
  end.

(* ---------- the stamped stream ---------- *)
Definition ev_k (e : event) : Z := fst e.
Definition ev_ts (e : event) : Z := fst (snd e).
Definition ev_v (e : event) : Z := snd (snd e).

(* the harness's ts_fn family [sel, c] over u64 *)
Definition tsf_apply (sel c x : Z) : Z :=
  if sel =? 0 then x else if sel =? 1 then c else if sel =? 2 then (x + c) mod U64 else U64 - 1 - x.

Fixpoint iota (fuel : nat) (i : Z) : list Z :=
  match fuel with O => [] | S f => i :: iota f (i + 1) end.
(* entry >= 1: the harness looks timestamps / keys up by value, so v must be the event index *)
Definition indexed (evs : list event) : bool := zlist_eqb (map ev_v evs) (iota (List.length evs) 0).
Definition entry_ok (entry sel : Z) (evs : list event) : bool :=
  (0 <=? entry) && (entry <=? 2) && (0 <=? sel) && (sel <=? 3)
  && ((entry =? 1) || (sel =? 0)) && ((entry =? 0) || indexed evs).

(* model: the source partition `p` of the event list `all` through the entry point *)
Definition stamp_u (entry sel c : Z) (all p : list event) : list (Z * Z) :=
  if entry =? 0 then map (fun e => timestamped_new (ev_ts e) (ev_v e)) p
  else if entry =? 1 then
    attach_timestamps (fun v => tsf_apply sel c (nth (Z.to_nat v) (map ev_ts all) 0)) (map ev_v p)
  else to_timestamped (map (fun e => (ev_ts e, ev_v e)) p).
Definition stamp_k (entry sel c : Z) (all p : list event) : list (Z * (Z * Z)) :=
  if entry =? 0 then map (fun e => (ev_k e, timestamped_new (ev_ts e) (ev_v e))) p
  else key_by (fun tv : Z * Z => nth (Z.to_nat (snd tv)) (map ev_k all) 0) (stamp_u entry sel c all p).

Definition cells3 (k s e : Z) : row := [CI k; CI s; CI e].
Definition row_stamp_u (x : Z * Z) : row := [CI 0; CI (fst x); CL [snd x]].
Definition row_stamp_k (x : Z * (Z * Z)) : row := [CI (fst x); CI (fst (snd x)); CL [snd (snd x)]].
Definition row_tag_u (x : window * Z) : row := cells3 0 (fst (fst x)) (snd (fst x)) ++ [CL [snd x]].
Definition row_tag_k (x : (Z * window) * Z) : row :=
  cells3 (fst (fst x)) (fst (snd (fst x))) (snd (snd (fst x))) ++ [CL [snd x]].
Definition row_grp_u (g : window * list Z) : row := cells3 0 (fst (fst g)) (snd (fst g)) ++ [CL (snd g)].
Definition row_grp_k (g : (Z * window) * list Z) : row :=
  cells3 (fst (fst g)) (fst (snd (fst g))) (snd (snd (fst g))) ++ [CL (snd g)].

Definition model_tsp (entry sel c : Z) (keyed : bool) (size off : Z) (evs : list event) (stage : Z)
           (ps : list (list event)) : outcome (list row) :=
  if keyed then
    let sps := map (stamp_k entry sel c evs) ps in
    if stage =? 0 then Ok (map row_stamp_k (List.concat sps))
    else if stage =? 1 then
      t <- key_by_window_keyed tumble_debug size off sps ;; Ok (map row_tag_k (List.concat t))
    else g <- group_by_key_and_window Z.eqb tumble_debug size off sps ;; Ok (map row_grp_k g)
  else
    let sps := map (stamp_u entry sel c evs) ps in
    if stage =? 0 then Ok (map row_stamp_u (List.concat sps))
    else if stage =? 1 then
      t <- key_by_window_unkeyed tumble_debug size off sps ;; Ok (map row_tag_u (List.concat t))
    else g <- group_by_window tumble_debug size off sps ;; Ok (map row_grp_u g).

(* ---------- reference (NOT the model): list comprehension over the events ---------- *)
Definition ref_ts (entry sel c : Z) (e : event) : Z :=
  if entry =? 1 then tsf_apply sel c (ev_ts e) else ev_ts e.
Definition ref_key (entry sel c : Z) (keyed : bool) (size off : Z) (e : event) : list Z :=
  let s := ref_start (ref_ts entry sel c e) size off in
  [(if keyed then ev_k e else 0); s; s + size].
Definition dedup_l (l : list (list Z)) : list (list Z) :=
  fold_left (fun acc x => if existsb (zlist_eqb x) acc then acc else acc ++ [x]) l [].
(* (key, values) rows of the three stages *)
Definition ref_side (entry sel c : Z) (keyed : bool) (size off : Z) (evs : list event) (stage : Z)
  : list (list Z * list Z) :=
  if stage =? 0 then map (fun e => ([(if keyed then ev_k e else 0); ref_ts entry sel c e], [ev_v e])) evs
  else if stage =? 1 then map (fun e => (ref_key entry sel c keyed size off e, [ev_v e])) evs
  else
    map (fun k => (k, map ev_v (filter (fun e => zlist_eqb (ref_key entry sel c keyed size off e) k) evs)))
        (dedup_l (map (ref_key entry sel c keyed size off) evs)).
Definition ref_row (kv : list Z * list Z) : row := map CI (fst kv) ++ [CL (snd kv)].

Definition known_side (entry sel c size off : Z) (evs : list event) (stage : Z) : bool :=
  (1 <=? stage) && existsb (fun e => known_class (ref_ts entry sel c e) size off) evs.

(* runs = [[parts, threads, coll] ..] *)
Definition dec_runspec (j : J) : option (Z * Z) :=
  match j with JL [JI parts; JI _threads; JI coll] => Some (parts, coll) | _ => None end.

(* parts > 0: collect_par(_, Some(parts)); 0: collect_seq; -2: collect() (= collect_seq);
   -1: collect_par(_, None) - the partition count is the runner's / planner's choice, the model is
   run on the unsplit input (nothing compared depends on the partitioning: c13_grouping_mode_independent,
   c13_window_join_mode_independent) *)
Definition parts_of {A} (parts : Z) (l : list A) : list (list A) :=
  if parts <=? 0 then [l] else split_parts parts l.

(* a run printed as ["=", i] had the same outcome as run i of the same case *)
Definition resolve_runs (obs : list J) : list J :=
  map (fun o => match o with
                | JL [JS "="%string; JI i] => nth (Z.to_nat i) obs JN
                | _ => o
                end) obs.

(* all runs of one case: (every run well-formed, every run agrees, every run meets the reference) *)
Fixpoint judge_runs (stage : Z) (hashed vacuous : bool) (model : Z -> outcome (list row))
         (ref_rows : list row) (runs : list (Z * Z)) (obs : list J) : option (bool * bool) :=
  match runs, obs with
  | [], [] => Some (true, true)
  | (parts, coll) :: runs', o :: obs' =>
      match dec_run o, judge_runs stage hashed vacuous model ref_rows runs' obs' with
      | Some ob, Some (a, p) =>
          if coll_ok stage parts coll then
            Some (agree_run hashed coll ob (model parts) && a,
                  (vacuous || prop_run coll ob ref_rows) && p)
          else None
      | _, _ => None
      end
  | _, _ => None
  end.

Definition check_tsp (input output : J) : verdict :=
  match input, output with
  | JL [JI entry; JL [JI sel; jc]; jk; js; jo; jevs; JI stage; JL jruns], JL obs =>
      match ju64 jc, jflag jk, ju64 js, ju64 jo, dec_events jevs, omap dec_runspec jruns with
      | Some c, Some keyed, Some size, Some off, Some evs, Some runs =>
          if entry_ok entry sel evs && (0 <=? stage) && (stage <=? 2) then
            let model := fun parts => model_tsp entry sel c keyed size off evs stage (parts_of parts evs) in
            let ref_rows := map ref_row (ref_side entry sel c keyed size off evs stage) in
            let vacuous := (1 <=? stage) && (size <? 1) in
            match judge_runs stage (stage =? 2) vacuous model ref_rows runs (resolve_runs obs) with
            | Some (a, p) => V a p (known_side entry sel c size off evs stage) false
            | None => malformed
            end
          else malformed
      | _, _, _, _, _, _ => malformed
      end
  | _, _ => malformed
  end.

(* ---------- window groupings feeding joins ---------- *)
Inductive sidespec :=
| STab (rows : list (list Z))
| SWin (stage entry sel c size off : Z) (evs : list event).

Definition dec_tabrow (j : J) : option (list Z) :=
  match j with
  | JL [JI k; js; je; JI v] =>
      match ju64 js, ju64 je with Some s, Some e => Some [k; s; e; v] | _, _ => None end
  | _ => None
  end.
Definition dec_side (j : J) : option sidespec :=
  match j with
  | JL [JI 0; JL rows] => option_map STab (omap dec_tabrow rows)
  | JL [JI stage; JI entry; JL [JI sel; jc]; js; jo; jevs] =>
      match ju64 jc, ju64 js, ju64 jo, dec_events jevs with
      | Some c, Some size, Some off, Some evs =>
          if ((stage =? 1) || (stage =? 2)) && entry_ok entry sel evs
          then Some (SWin stage entry sel c size off evs) else None
      | _, _, _, _ => None
      end
  | _ => None
  end.

Definition jkey : Type := (Z * window)%type.
Definition jkey_eqb : jkey -> jkey -> bool := kw_eqb Z.eqb.

(* one side's sub-plan: the typed model functions, their result embedded into (K = (k, window)
   with k = 0 for the unkeyed API, values as lists: a single value v as [v]) *)
Definition side_model (keyed : bool) (sp : sidespec) (parts : Z) : outcome (list (list (jkey * list Z))) :=
  match sp with
  | STab rows =>
      Ok [map (fun r => match r with
                        | [k; s; e; v] => (((if keyed then k else 0), (s, e)), [v])
                        | _ => ((0, (0, 0)), [])
                        end) rows]
  | SWin stage entry sel c size off evs =>
      let ps := parts_of parts evs in
      if keyed then
        let sps := map (stamp_k entry sel c evs) ps in
        if stage =? 1 then
          t <- key_by_window_keyed tumble_debug size off sps ;;
          Ok (map (map (fun x : (Z * window) * Z => (fst x, [snd x]))) t)
        else sub_group_by_key_and_window Z.eqb tumble_debug size off sps
      else
        let sps := map (stamp_u entry sel c evs) ps in
        if stage =? 1 then
          t <- key_by_window_unkeyed tumble_debug size off sps ;;
          Ok (map (map (fun x : window * Z => ((0, fst x), [snd x]))) t)
        else
          g <- sub_group_by_window tumble_debug size off sps ;;
          Ok (map (map (fun x : window * list Z => ((0, fst x), snd x))) g)
  end.

Definition ocell (o : option (list Z)) : cell := match o with Some l => CL l | None => CN end.
Definition row_join (x : jkey * (option (list Z) * option (list Z))) : row :=
  cells3 (fst (fst x)) (fst (snd (fst x))) (snd (snd (fst x))) ++ [ocell (fst (snd x)); ocell (snd (snd x))].

Definition dec_jkind (z : Z) : option jkind :=
  if z =? 0 then Some JInner else if z =? 1 then Some JLeft else if z =? 2 then Some JRight
  else if z =? 3 then Some JFull else None.

Definition model_wjoin (jk : jkind) (keyed : bool) (l r : sidespec) (parts : Z) : outcome (list row) :=
  rows <- cogroup jkey_eqb jk (side_model keyed l parts) (side_model keyed r parts) ;;
  Ok (map row_join rows).

(* reference join: nested list comprehension over the two reference sides *)
Definition ref_side_of (keyed : bool) (sp : sidespec) : list (list Z * list Z) :=
  match sp with
  | STab rows => map (fun r => match r with
                               | [k; s; e; v] => ([(if keyed then k else 0); s; e], [v])
                               | _ => ([], [])
                               end) rows
  | SWin stage entry sel c size off evs => ref_side entry sel c keyed size off evs stage
  end.
Definition ref_jrow (k : list Z) (l r : option (list Z)) : row := map CI k ++ [ocell l; ocell r].
Definition ref_join (jk : jkind) (L R : list (list Z * list Z)) : list row :=
  let inner := flat_map (fun l => flat_map (fun r => if zlist_eqb (fst l) (fst r)
                                                     then [ref_jrow (fst l) (Some (snd l)) (Some (snd r))]
                                                     else []) R) L in
  let lonly := flat_map (fun l => if existsb (fun r => zlist_eqb (fst l) (fst r)) R then []
                                  else [ref_jrow (fst l) (Some (snd l)) None]) L in
  let ronly := flat_map (fun r => if existsb (fun l => zlist_eqb (fst l) (fst r)) L then []
                                  else [ref_jrow (fst r) None (Some (snd r))]) R in
  match jk with
  | JInner => inner
  | JLeft => inner ++ lonly
  | JRight => inner ++ ronly
  | JFull => inner ++ lonly ++ ronly
  end.
Definition side_vacuous (sp : sidespec) : bool :=
  match sp with STab _ => false | SWin _ _ _ _ size _ _ => size <? 1 end.
Definition side_known (sp : sidespec) : bool :=
  match sp with
  | STab _ => false
  | SWin stage entry sel c size off evs => known_side entry sel c size off evs stage
  end.

Definition check_wjoin (input output : J) : verdict :=
  match input, output with
  | JL [JI jkz; jk; jl; jr; JI _xp; JL jruns], JL obs =>
      match dec_jkind jkz, jflag jk, dec_side jl, dec_side jr, omap dec_runspec jruns with
      | Some jkd, Some keyed, Some l, Some r, Some runs =>
          let model := model_wjoin jkd keyed l r in
          let ref_rows := ref_join jkd (ref_side_of keyed l) (ref_side_of keyed r) in
          let vacuous := side_vacuous l || side_vacuous r in
          match judge_runs 2 true vacuous model ref_rows runs (resolve_runs obs) with
          | Some (a, p) => V a p (side_known l || side_known r) false
          | None => malformed
          end
      | _, _, _, _, _ => malformed
      end
  | _, _ => malformed
  end.

(* ---------- big event sets given by a formula, observed through per-group digests ---------- *)
Definition big_events (n t0 a m nk : Z) : list event :=
  map (fun i => (i mod nk, (t0 + (i * a) mod m, i))) (iota (Z.to_nat n) 0).

Definition dg_cells (d : dg) : list Z := let '(n, s, f, l) := d in [n; s; f; l].
Definition dg_none : list Z := [-1; 0; 0; 0].
Definition odg_cells (o : option dg) : list Z := match o with Some d => dg_cells d | None => dg_none end.
Definition big_table (keyed : bool) (size nk wb nt : Z) : list (jkey * dg) :=
  flat_map (fun j => map (fun k => ((k, (wb + j * size, wb + j * size + size)), digest [j]))
                         (if keyed then iota (Z.to_nat nk) 0 else [0]))
           (iota (Z.to_nat nt) 0).

(* model: every event tagged by the model of Window::tumble, the one-pass digest table of the
   grouping (= the digests of the model's groups for every partitioning: Props/C13.v,
   c13_digest_table_correct), and the model join run on the digests *)
Definition model_gbig (via : Z) (keyed : bool) (size off : Z) (evs : list event) (nk wb nt : Z)
  : outcome (list (list Z)) :=
  tagged <- map_outcome (fun e => w <- tumble_debug (ev_ts e) size off ;;
                                  Ok (((if keyed then ev_k e else 0), w), ev_v e)) evs ;;
  let groups := digest_table jkey_eqb tagged in
  let krow (k : jkey) := [fst k; fst (snd k); snd (snd k)] in
  if via =? 3 then
    Ok (map (fun x : jkey * (option dg * option dg) => krow (fst x) ++ odg_cells (fst (snd x)) ++ odg_cells (snd (snd x)))
            (join_exec jkey_eqb JInner groups (big_table keyed size nk wb nt)))
  else if via =? 4 then
    Ok (map (fun x : jkey * (option dg * option dg) => krow (fst x) ++ odg_cells (fst (snd x)) ++ odg_cells (snd (snd x)))
            (join_exec jkey_eqb JLeft (big_table keyed size nk wb nt) groups))
  else Ok (map (fun g => krow (fst g) ++ dg_cells (snd g)) groups).

(* reference: floor-division windows, groups by filtering, digests by length / sum / hd / last *)
Definition ref_digest (vs : list Z) : list Z :=
  [Z.of_nat (List.length vs); fold_right Z.add 0 vs; hd 0 vs; last vs 0].
Definition ref_gbig (via : Z) (keyed : bool) (size off : Z) (evs : list event) (nk wb nt : Z)
  : list (list Z) :=
  let keyed_evs := map (fun e => (ref_key 0 0 0 keyed size off e, ev_v e)) evs in
  let group k := map snd (filter (fun kv => zlist_eqb (fst kv) k) keyed_evs) in
  let table := flat_map (fun j => map (fun k => ([k; wb + j * size; wb + j * size + size], j))
                                      (if keyed then iota (Z.to_nat nk) 0 else [0]))
                        (iota (Z.to_nat nt) 0) in
  if via =? 3 then
    flat_map (fun t => match group (fst t) with
                       | [] => []
                       | vs => [fst t ++ ref_digest vs ++ ref_digest [snd t]]
                       end) table
  else if via =? 4 then
    map (fun t => match group (fst t) with
                  | [] => fst t ++ ref_digest [snd t] ++ dg_none
                  | vs => fst t ++ ref_digest [snd t] ++ ref_digest vs
                  end) table
  else map (fun k => k ++ ref_digest (group k)) (dedup_l (map fst keyed_evs)).

Definition dec_zrow (j : J) : option (list Z) :=
  match j with
  | JL l => omap (fun x => match x with JI z => Some z | JS _ => ju64 x | _ => None end) l
  | _ => None
  end.

Definition check_gbig (input output : J) : verdict :=
  match input with
  | JL [JI via; jk; js; jo; JI n; jt0; ja; jm; JI nk; JI _parts; JI _threads; jwb; JI nt] =>
      match jflag jk, ju64 js, ju64 jo, ju64 jt0, ju64 ja, ju64 jm, ju64 jwb,
            dec_list_outcome dec_zrow output with
      | Some keyed, Some size, Some off, Some t0, Some a, Some m, Some wb, Some obs =>
          if (0 <=? via) && (via <=? 4) && (0 <=? n) && (1 <=? m) && (1 <=? nk) && (0 <=? nt)
             && (t0 + m <=? U64) && (n * a <? U64) && (wb + (nt + 1) * size <? U64) then
            let evs := big_events n t0 a m nk in
            V (loutcome_agree obs (model_gbig via keyed size off evs nk wb nt))
              (if size <? 1 then true
               else match obs with
                    | LOk rows => lmultiset_eqb rows (ref_gbig via keyed size off evs nk wb nt)
                    | _ => false
                    end)
              (known_events size off evs) false
          else malformed
      | _, _, _, _, _, _, _, _ => malformed
      end
  | _ => malformed
  end.

(* ---------- Window::new ---------- *)
Definition check_wnew (input output : J) : verdict :=
  match input with
  | JL [js; je] =>
      match ju64 js, ju64 je with
      | Some s, Some e =>
          let obs := match output with
                     | JL [t] => if jtag_is "panic" t then Some None else None
                     | JL [t; w1; w2] =>
                         if jtag_is "ok" t then
                           match dec_window w1, dec_window w2 with
                           | Some a, Some b => Some (Some (a, b))
                           | _, _ => None
                           end
                         else None
                     | _ => None
                     end in
          match obs with
          | Some o =>
              let agree := match o, window_new_debug s e with
                           | Some (a, b), Ok w => window_eqb a w && window_eqb b w
                           | None, Panic => true
                           | _, _ => false
                           end in
              (* reference: a window is returned (and survives serde) iff end >= start *)
              let prop := match o with
                          | Some (a, b) => (s <=? e) && zlist_eqb [fst a; snd a; fst b; snd b] [s; e; s; e]
                          | None => e <? s
                          end in
              ok_verdict agree prop
          | None => malformed
          end
      | _, _ => malformed
      end
  | _ => malformed
  end.

Definition check_C13 (kind : string) (input output : J) : verdict :=
  if String.eqb kind "tsp" then check_tsp input output
  else if String.eqb kind "wjoin" then check_wjoin input output
  else if String.eqb kind "gbig" then check_gbig input output
  else if String.eqb kind "wnew" then check_wnew input output
  else if String.eqb kind "tumble" then
    match input with
    | JL [jt; js; jo] =>
        match ju64 jt, ju64 js, ju64 jo, dec_outcome output with
        | Some ts, Some size, Some off, Some obs =>
            let '(a, p, k) := judge_one ts size off obs in V a p k false
        | _, _, _, _ => malformed
        end
    | _ => malformed
    end
  else if String.eqb kind "row" then
    match input, output with
    | JL [js; jo; jt0; JI n], JL obs =>
        match ju64 js, ju64 jo, ju64 jt0 with
        | Some size, Some off, Some ts0 =>
            if (Z.of_nat (List.length obs) =? n) && (ts0 + n <=? U64) then
              match judge_row ts0 size off obs with
              | Some (a, p) => ok_verdict a p
              | None => malformed
              end
            else malformed
        | _, _, _ => malformed
        end
    | _, _ => malformed
    end
  else if String.eqb kind "kbw" || String.eqb kind "gbw" then
    let grouped := String.eqb kind "gbw" in
    match input with
    | JL [jk; js; jo; jevs; JI parts; JI _threads] =>
        match jflag jk, ju64 js, ju64 jo, dec_events jevs,
              dec_list_outcome (if grouped then dec_group else dec_tagged) output with
        | Some keyed, Some size, Some off, Some evs, Some obs =>
            let ps := if parts =? 0 then [evs] else split_parts parts evs in
            if grouped then
              V (loutcome_agree obs (model_gbw keyed size off ps))
                (prop_gbw keyed size off evs obs) (known_events size off evs) false
            else
              V (loutcome_agree obs (model_kbw keyed size off ps))
                (prop_kbw keyed size off evs obs) (known_events size off evs) false
        | _, _, _, _, _ => malformed
        end
    | _ => malformed
    end
  else if String.eqb kind "gmix" then
    match input with
    | JL [j1; j2; jo; jevs; JI parts; JI _threads] =>
        match ju64 j1, ju64 j2, ju64 jo, dec_events jevs, dec_list_outcome dec_group output with
        | Some s1, Some s2, Some off, Some evs, Some obs =>
            let ps := if parts =? 0 then [evs] else split_parts parts evs in
            V (loutcome_agree obs (model_gmix s1 s2 off ps))
              (prop_gmix s1 s2 off evs obs) (known_events_mixed s1 s2 off evs) false
        | _, _, _, _, _ => malformed
        end
    | _ => malformed
    end
  else if String.eqb kind "weq" then
    match input with
    | JL [ja; jb; jc; jd] =>
        match ju64 ja, ju64 jb, ju64 jc, ju64 jd with
        | Some s1, Some e1, Some s2, Some e2 =>
            match judge_weq (s1, e1) (s2, e2) output with
            | Some (a, p) => ok_verdict a p
            | None => malformed
            end
        | _, _, _, _ => malformed
        end
    | _ => malformed
    end
  else if String.eqb kind "weqrow" then
    match input, output with
    | JL [ja; jb; JI n], JL obs =>
        match ju64 ja, ju64 jb with
        | Some s1, Some e1 =>
            let bs := flat_map (fun s2 => map (fun e2 => (s2, e2)) (zrange n)) (zrange n) in
            match judge_weq_row (s1, e1) bs obs with
            | Some (a, p) => ok_verdict a p
            | None => malformed
            end
        | _, _ => malformed
        end
    | _, _ => malformed
    end
  else malformed.
