(* Correspondence for C09: runs the models IO/Shards.v + IO/Jsonl.v on the cases the harness
   (harness/src/bin/c09.rs) ran on the real readers / writers, and decides inside Coq
     agree = every observed value is what the MODEL computes,
     prop  = the property instance on the OBSERVED values against references written from the
             property text (ids read back = ids written; streamed = whole; parallel file = sequential
             file; ranges tile) -- none of them calls `ranges`, `par_ranges`, `split_ranges`,
             `group_ranges` or the read loops.

   Library stand-ins used to RUN the model (the real libraries are validated by the harness'
   `payload_ok` bit and by the ids that come back):
     - JSONL record of the written-file kinds: one abstract token 1000+id per record;
     - CSV: header = token 999, row = token 1000+id followed by \n;
     - Parquet: row group k of a file written with max row-group size g holds rows
       [k*g, min((k+1)*g, n)); ironbeam's own writer uses the default g = 1048576;
     - glob: which of the three generated patterns matches a path (depth + extension).
   Floats (kinds jf, jb): the contract is 'every finite f64 comes back bit-exact from all three
   formats'; agree and prop coincide there (nothing but the libraries is involved).
   For the `jl` kind the model runs on the real bytes of the file: `lines`, `blank_line` and a
   strict parser for the one line shape the generator emits ({"id":N,"s":"alnum"}). *)
From Coq Require Import List ZArith NArith Bool String.
From IB Require Import Util.J IO.Shards IO.Jsonl IO.Exec.
Import ListNotations.
Open Scope Z_scope.

(* ---------- small helpers ---------- *)
Fixpoint zlist_eqb (a b : list Z) : bool :=
  match a, b with
  | [], [] => true
  | x :: a', y :: b' => (x =? y) && zlist_eqb a' b'
  | _, _ => false
  end.
Definition zrange (n : Z) : list Z := map Z.of_nat (seq 0 (Z.to_nat n)).
Definition range_eqb (a b : range) : bool := (fst a =? fst b)%N && (snd a =? snd b)%N.
Fixpoint ranges_eqb (a b : list range) : bool :=
  match a, b with
  | [], [] => true
  | x :: a', y :: b' => range_eqb x y && ranges_eqb a' b'
  | _, _ => false
  end.
Definition rec_eqb (a b : Z * list Z) : bool := (fst a =? fst b) && zlist_eqb (snd a) (snd b).
Fixpoint recs_eqb (a b : list (Z * list Z)) : bool :=
  match a, b with
  | [], [] => true
  | x :: a', y :: b' => rec_eqb x y && recs_eqb a' b'
  | _, _ => false
  end.
Definition outcome_eqb {A} (eqb : A -> A -> bool) (a b : outcome A) : bool :=
  match a, b with
  | Ok x, Ok y => eqb x y
  | Err, Err => true
  | Panic, Panic => true
  | _, _ => false
  end.

Definition dec_range (j : J) : option range :=
  match j with JL [JI a; JI b] => Some (Z.to_N a, Z.to_N b) | _ => None end.
Definition dec_ranges (j : J) : option (list range) :=
  match j with JL l => omap dec_range l | _ => None end.
Definition dec_opt_n (j : J) : option (option N) :=
  match j with JN => Some None | JI z => Some (Some (Z.to_N z)) | _ => None end.

(* reference for "the ranges tile [0,total)": a chain from 0 to total of non-empty ranges of size
   at most max per 1 (independent of the model's `ranges`) *)
Definition tiles_ref (rs : list range) (total per : N) : bool :=
  chainb 0%N rs total
  && forallb (fun r => (fst r <? snd r)%N && (snd r - fst r <=? N.max per 1)%N) rs.

(* ---------- the strict line parser of the `jl` kind ---------- *)
Definition json_ws (b : Z) : bool := (b =? 32) || (b =? 9) || (b =? 10) || (b =? 13).
Fixpoint skip_ws (l : list Z) : list Z :=
  match l with b :: r => if json_ws b then skip_ws r else l | [] => [] end.
Fixpoint strip_prefix (p l : list Z) : option (list Z) :=
  match p, l with
  | [], _ => Some l
  | x :: p', y :: l' => if x =? y then strip_prefix p' l' else None
  | _ :: _, [] => None
  end.
Definition is_digit (b : Z) : bool := (48 <=? b) && (b <=? 57).
Definition is_alnum (b : Z) : bool :=
  is_digit b || ((65 <=? b) && (b <=? 90)) || ((97 <=? b) && (b <=? 122)).
Fixpoint take_while (f : Z -> bool) (l : list Z) : list Z * list Z :=
  match l with
  | b :: r => if f b then let '(a, rest) := take_while f r in (b :: a, rest) else ([], l)
  | [] => ([], [])
  end.
Definition digits_val (ds : list Z) : Z := fold_left (fun acc d => acc * 10 + (d - 48)) ds 0.
Definition all_ws (l : list Z) : bool := forallb json_ws l.

(* {"id":<u64 without leading zeros>,"s":"<alnum*>"} surrounded by JSON whitespace *)
Definition de_small (l : list Z) : option (Z * list Z) :=
  match strip_prefix [123; 34; 105; 100; 34; 58] (skip_ws l) with
  | None => None
  | Some r1 =>
      let '(ds, r2) := take_while is_digit r1 in
      match ds with
      | [] => None
      | d0 :: dr =>
          if (d0 =? 48) && negb (match dr with [] => true | _ => false end) then None
          else if 18446744073709551615 <? digits_val ds then None
          else match strip_prefix [44; 34; 115; 34; 58; 34] r2 with
               | None => None
               | Some r3 =>
                   let '(s, r4) := take_while is_alnum r3 in
                   match strip_prefix [34; 125] r4 with
                   | Some r5 => if all_ws r5 then Some (digits_val ds, s) else None
                   | None => None
                   end
               end
      end
  end.

(* ---------- decoding / encoding of read outcomes ---------- *)
Definition dec_small (j : J) : option (Z * list Z) :=
  match j with
  | JL [JI id; s] => match jbytes s with Some b => Some (id, b) | None => None end
  | _ => None
  end.
Definition dec_read {A} (dec : J -> option A) (j : J) : option (outcome A) :=
  match j with
  | JL [t; v] => if jtag_is "ok" t then match dec v with Some a => Some (Ok a) | None => None end else None
  | JL [t] => if jtag_is "err" t then Some Err else if jtag_is "panic" t then Some Panic else None
  | _ => None
  end.
Definition dec_smalls (j : J) : option (list (Z * list Z)) :=
  match j with JL l => omap dec_small l | _ => None end.
(* "same records or both failed" (the failure kinds of the paths differ by design: Err / Panic) *)
Definition same_or_both_fail {A} (eqb : A -> A -> bool) (a b : outcome A) : bool :=
  match a, b with
  | Ok x, Ok y => eqb x y
  | Ok _, _ | _, Ok _ => false
  | _, _ => true
  end.

(* ---------- abstract record tokens for the written-file kinds ---------- *)
Definition tok_ser (id : Z) : list Z := [1000 + id].
Definition tok_de (l : list Z) : option Z :=
  match l with [z] => if 1000 <=? z then Some (z - 1000) else None | _ => None end.
Definition csv_out_tok (h : bool) (ids : list Z) : list Z :=
  (if h then match ids with [] => [] | _ => [999; 10] end else [])
  ++ List.concat (map (fun id => [1000 + id; 10]) ids).
(* model of the csv reader on token files: drop the header line when has_headers *)
Definition csv_read_tok (h : bool) (bs : list Z) : outcome (list Z) :=
  let ls := lines bs in
  read_vec tok_de (if h then tl ls else ls).

Definition eol_bytes (e : Z) : list Z := if e =? 0 then [10] else if e =? 1 then [13; 10] else [].
Definition dec_item (j : J) : option (list Z) :=
  match j with
  | JL [t; JI e] => match jbytes t with Some b => Some (b ++ eol_bytes e) | None => None end
  | _ => None
  end.

(* ---------- glob ---------- *)
Definition ext_bytes (fmt : Z) : list Z :=
  if fmt =? 0 then [46; 106; 115; 111; 110; 108]            (* .jsonl *)
  else if fmt =? 1 then [46; 99; 115; 118]                  (* .csv *)
  else [46; 112; 97; 114; 113; 117; 101; 116].              (* .parquet *)
Definition ends_with (suf l : list Z) : bool :=
  let n := List.length l in let k := List.length suf in
  (k <=? n)%nat && zlist_eqb (skipn (n - k) l) suf.
Definition glob_matches (fmt pat : Z) (comps : path) : bool :=
  let depth := Z.of_nat (List.length comps) in
  (if pat =? 0 then depth =? 1 else if pat =? 1 then depth =? 2 else 1 <=? depth)
  && ends_with (ext_bytes fmt) (last comps []).
Definition dec_comps (j : J) : option path :=
  match j with JL l => omap jbytes l | _ => None end.
Definition dec_file (j : J) : option (path * Z) :=
  match j with
  | JL [c; JI cnt] => match dec_comps c with Some p => Some (p, cnt) | None => None end
  | _ => None
  end.
(* ids are handed out in input order to every entry that is a file (count >= 0) *)
Fixpoint assign_ids (next : Z) (fs : list (path * Z)) : list (path * list Z) :=
  match fs with
  | [] => []
  | (p, cnt) :: r =>
      if cnt <? 0 then assign_ids next r
      else (p, map (fun k => next + k) (zrange cnt)) :: assign_ids (next + cnt) r
  end.
Fixpoint path_eqb (a b : path) : bool :=
  match a, b with
  | [], [] => true
  | x :: a', y :: b' => zlist_eqb x y && path_eqb a' b'
  | _, _ => false
  end.
Fixpoint lookup (p : path) (fs : list (path * list Z)) : outcome (list Z) :=
  match fs with
  | [] => Err
  | (q, ids) :: r => if path_eqb p q then Ok ids else lookup p r
  end.
(* reference order: byte order of the components joined by a separator smaller than every byte of
   a file name (0), sorted by repeated minimum extraction *)
Definition flat_key (p : path) : list Z := List.concat (map (fun c => 0 :: map (fun b => b + 1) c) p).
Fixpoint zl_ltb (a b : list Z) : bool :=
  match a, b with
  | [], _ :: _ => true
  | _, [] => false
  | x :: a', y :: b' => if x <? y then true else if y <? x then false else zl_ltb a' b'
  end.
Fixpoint min_first (fuel : nat) (l : list (list Z * list Z)) : list (list Z * list Z) :=
  match fuel with
  | O => []
  | S f =>
      match l with
      | [] => []
      | x :: r =>
          let m := fold_left (fun m y => if zl_ltb (fst y) (fst m) then y else m) r x in
          m :: min_first f (filter (fun y => negb (zlist_eqb (fst y) (fst m))) l)
      end
  end.

(* ---------- summaries of big reads: [count; first; last; sum; consecutive] ---------- *)
Definition dec_summary (j : J) : option (list Z) :=
  match j with
  | JL [JI c; JI f; JI l; JI sm; JB consec] => Some [c; f; l; sm; if consec then 1 else 0]
  | _ => None
  end.
(* the summary of the ids 0, 1, ..., n-1 in order, by arithmetic *)
Definition summary_of_range (n : Z) : list Z :=
  [n; if n =? 0 then -1 else 0; n - 1; n * (n - 1) / 2; 1].

(* ---------- two generations of one file behind ONE source handle ----------
   The shard ranges are computed when the source is built (generation 0); every collect reads the
   file as it is then: partitions = the build-time ranges applied to the current content. *)
Definition gen_ids (n g : Z) : list Z := map (fun k => 1000 * g + k) (zrange n).
Definition gen_model (fmt n rg : Z) (per : N) (g : Z) : outcome (list Z) * outcome (list Z) :=
  let ids0 := gen_ids n 0 in
  let ids := gen_ids n g in
  if fmt =? 0 then
    let ls0 := lines (write_all tok_ser ids0) in
    let ls := lines (write_all tok_ser ids) in
    (match vec_split tok_de ls (build_shards ls0 per) with
     | Some parts => Ok (List.concat parts)
     | None => Panic
     end,
     match read_range tok_de ls (0%N, total_lines ls0) with Ok v => Ok v | _ => Err end)
  else if fmt =? 1 then
    (Ok (List.concat (map (rows_read_range ids) (ranges (nlen ids0) per))),
     Ok (rows_read_range ids (0%N, nlen ids0)))
  else
    let rgsz := if rg =? 0 then 1048576%N else Z.to_N rg in
    let groups0 := map (slice ids0) (ranges (nlen ids0) rgsz) in
    let groups := map (slice ids) (ranges (nlen ids) rgsz) in
    let rs := group_ranges (nlen groups0) per in
    (Ok (List.concat (map (pq_read groups) rs)),
     Ok (pq_read groups (0%N, match rev rs with r :: _ => snd r | [] => 0%N end))).

(* ---------- execution configurations (kinds rx, g2, vo) ---------- *)
(* engine class of the harness' configuration i (harness: engine_run) *)
Definition engine_of (i : nat) : engine :=
  match i with
  | 0 => ESeq | 1 => EPar | 2 => ESeqCk | 3 => EParCk
  | 4 => ESeq | 5 => ESeq | 6 => EParCk | _ => EPar
  end%nat.
(* the 18 runs of an rx case: the 8 configurations on the source, seq+ck / par+ck on source+filter,
   then the four basic engines on the left-side join and on the right-side join *)
Definition rx_plain : list engine := map engine_of (seq 0 8) ++ [ESeqCk; EParCk].
(* row groups of a written Parquet file: rg = 0 is ironbeam's writer (default max row-group size) *)
Definition pq_groups (ids : list Z) (rg : Z) : list (list Z) :=
  let rgsz := if rg =? 0 then 1048576%N else Z.to_N rg in
  map (slice ids) (ranges (nlen ids) rgsz).
(* the source payload of a file that holds `ids0` when the source is built and `ids` when it is read *)
Definition fmt_adapter (fmt : Z) (ids0 ids : list Z) (rg0 rg : Z) (per : N) : adapter Z :=
  if fmt =? 0 then
    let ls0 := lines (write_all tok_ser ids0) in
    jsonl_adapter tok_de (lines (write_all tok_ser ids)) (build_shards ls0 per) (total_lines ls0)
  else if fmt =? 1 then rows_adapter ids (ranges (nlen ids0) per) (nlen ids0)
  else
    let g0 := pq_groups ids0 rg0 in
    pq_adapter (pq_groups ids rg) (group_ranges (nlen g0) per) (nlen ids0).
(* the in-memory side of the rx joins: key k occurs k mod 3 times, k < n + 2 *)
Definition rx_other (n : Z) : list Z := flat_map (fun k => repeat k (Z.to_nat (k mod 3))) (zrange (n + 2)).
(* reference for the join result, written from the case description (not from join_keys) *)
Definition rx_join_ref (n : Z) : list Z :=
  flat_map (fun k => if k mod 3 =? 0 then [] else if k mod 3 =? 1 then [k] else [k; k]) (zrange n).

(* a direct adapter call: ["ok", null] = None (Err), ["ok", x] = Some x, ["panic"] *)
Definition dec_opt_call {A} (dec : J -> option A) (j : J) : option (outcome A) :=
  match j with
  | JL [t; JN] => if jtag_is "ok" t then Some Err else None
  | JL [t; v] => if jtag_is "ok" t then match dec v with Some a => Some (Ok a) | None => None end else None
  | JL [t] => if jtag_is "panic" t then Some Panic else None
  | _ => None
  end.
Definition dec_parts (j : J) : option (list (list Z)) :=
  match j with JL l => omap jints l | _ => None end.
Fixpoint zparts_eqb (a b : list (list Z)) : bool :=
  match a, b with
  | [], [] => true
  | x :: a', y :: b' => zlist_eqb x y && zparts_eqb a' b'
  | _, _ => false
  end.
(* CSV: `slice` counts in unary; hand-built ranges may reach 2^40, so both ends are clamped to the
   number of rows first -- Proofs/ExecProofs.v slice_clamp: this does not change the slice *)
Definition clampr (len : N) (r : range) : range := (N.min (fst r) len, N.min (snd r) len).
Definition hand_adapter (fmt : Z) (ids : list Z) (rg : Z) (rs : list range) (tot : N) : adapter Z :=
  if fmt =? 0 then jsonl_adapter tok_de (lines (write_all tok_ser ids)) rs tot
  else if fmt =? 1 then
    let a := rows_adapter ids (map (clampr (nlen ids)) rs) (N.min tot (nlen ids)) in
    mk_adapter (Some tot) (ad_split a) (ad_clone a)
  else pq_adapter (pq_groups ids rg) rs tot.
(* number of shardable units of a file: lines / rows / row groups *)
Definition fmt_units (fmt : Z) (ids : list Z) (rg : Z) : N :=
  if fmt =? 2 then nlen (pq_groups ids rg) else nlen ids.
Definition pairwise_same (l : list (outcome (list Z))) : bool :=
  match l with
  | [] => true
  | x :: r => forallb (same_or_both_fail zlist_eqb x) r
  end.

(* ---------- the check ---------- *)
Definition all_true (l : list bool) : bool := forallb (fun b => b) l.

Definition check_main (kind : string) (input output : J) : verdict :=
  if String.eqb kind "jl" then
    match input, output with
    | JL [JL items; JI per; JI _; JI parts],
      JL [tag; JL [JI total; jranges; jwhole; jseq; jpar; jseqck; jparck]] =>
        match omap dec_item items, dec_ranges jranges,
              dec_read dec_smalls jwhole, dec_read dec_smalls jseq, dec_read dec_smalls jpar,
              dec_read dec_smalls jseqck, dec_read dec_smalls jparck with
        | Some chunks, Some oranges, Some owhole, Some oseq, Some opar, Some oseqck, Some oparck =>
            let ls := lines (List.concat chunks) in
            let per := Z.to_N per in
            let agree :=
              jtag_is "ok" tag
              && (Z.to_N total =? total_lines ls)%N
              && ranges_eqb oranges (build_shards ls per)
              && outcome_eqb recs_eqb owhole (read_vec de_small ls)
              && outcome_eqb recs_eqb oseq (stream_seq de_small ls per)
              && outcome_eqb recs_eqb opar (stream_par de_small ls per)
              && outcome_eqb recs_eqb oseqck (exec_source ESeqCk (Z.to_N parts) (jsonl_source de_small ls per))
              && outcome_eqb recs_eqb oparck (exec_source EParCk (Z.to_N parts) (jsonl_source de_small ls per)) in
            let prop :=
              tiles_ref oranges (Z.to_N total) per
              && same_or_both_fail recs_eqb oseq owhole
              && same_or_both_fail recs_eqb opar owhole
              && same_or_both_fail recs_eqb oseqck owhole
              && same_or_both_fail recs_eqb oparck owhole in
            ok_verdict agree prop
        | _, _, _, _, _, _, _ => malformed
        end
    | _, _ => malformed
    end
  else if String.eqb kind "js" then
    match input, output with
    | JL [JI n; JI _; JI per; JI _; JI _; JI _],
      JL [tag; JL [JI count; JI total; jranges; jw; js; jq; JB pay]] =>
        match dec_ranges jranges, jints jw, jints js, jints jq with
        | Some oranges, Some ow, Some os, Some oq =>
            let ids := zrange n in
            let per := Z.to_N per in
            let ls := lines (write_all tok_ser ids) in
            let agree :=
              jtag_is "ok" tag && (count =? n) && pay
              && (Z.to_N total =? total_lines ls)%N
              && ranges_eqb oranges (build_shards ls per)
              && outcome_eqb zlist_eqb (Ok ow) (read_vec tok_de ls)
              && outcome_eqb zlist_eqb (Ok os) (stream_seq tok_de ls per)
              && outcome_eqb zlist_eqb (Ok oq) (stream_par tok_de ls per) in
            let prop :=
              (count =? n) && pay && (total =? n) && tiles_ref oranges (Z.to_N total) per
              && zlist_eqb ow ids && zlist_eqb os ids && zlist_eqb oq ids in
            ok_verdict agree prop
        | _, _, _, _ => malformed
        end
    | _, _ => malformed
    end
  else if String.eqb kind "jw" then
    match input with
    | JL [JI n; JI _; jsh; JI _] =>
        match dec_opt_n jsh, output with
        | Some osh, JL [tag; JL [JI ncpu; JI count; JB eq; JI la; JI lb; JI ca; JI cb; JI leftover; jia; jib; JB pay]] =>
            match jints jia, jints jib with
            | Some ia, Some ib =>
                let ids := zrange n in
                let sh := match osh with Some s => s | None => jsonl_default_shards (Z.to_N ncpu) end in
                let fa := write_all tok_ser ids in
                let agree :=
                  jtag_is "ok" tag
                  && match write_par tok_ser ids sh with
                     | Ok fb =>
                         (count =? n) && pay && (leftover =? 0)
                         && Bool.eqb eq (zlist_eqb fa fb)
                         && outcome_eqb zlist_eqb (Ok ia) (read_vec tok_de (lines fa))
                         && outcome_eqb zlist_eqb (Ok ib) (read_vec tok_de (lines fb))
                     | _ => false
                     end in
                let prop :=
                  eq && (la =? lb) && (ca =? cb) && (count =? n) && (leftover =? 0) && pay
                  && zlist_eqb ia ids && zlist_eqb ib ids in
                ok_verdict agree prop
            | _, _ => malformed
            end
        | Some (Some sh), JL [tag] =>
            (* the writer panicked: the model must say so too; the property instance fails *)
            if jtag_is "panic" tag then
              ok_verdict (match write_par tok_ser (zrange n) sh with Panic => true | _ => false end) false
            else malformed
        | Some None, JL [tag] => if jtag_is "panic" tag then ok_verdict false false else malformed
        | _, _ => malformed
        end
    | _ => malformed
    end
  else if String.eqb kind "cw" then
    match input with
    | JL [JI n; JI _; JB h; jsh; JI via] =>
        match dec_opt_n jsh, output with
        | Some osh, JL [tag; JL [JI ncpu; JI count; JB eq; JI la; JI lb; JI ca; JI cb; JI leftover; jia; jib; JB pay]] =>
            match jints jia, jints jib with
            | Some ia, Some ib =>
                let ids := zrange n in
                let sh := match osh with Some s => s | None => csv_default_shards (Z.to_N ncpu) end in
                let fa := csv_write_seq csv_out_tok h ids in
                (* via = 1: PCollection::write_csv_par = collect_par + the sequential writer *)
                let mb := if via =? 1 then Ok fa else csv_write_par csv_out_tok h ids sh in
                let agree :=
                  jtag_is "ok" tag
                  && match mb with
                     | Ok fb =>
                         (count =? n) && pay && (leftover =? 0)
                         && Bool.eqb eq (zlist_eqb fa fb)
                         && outcome_eqb zlist_eqb (Ok ia) (csv_read_tok h fa)
                         && outcome_eqb zlist_eqb (Ok ib) (csv_read_tok h fb)
                     | _ => false
                     end in
                let prop :=
                  eq && (la =? lb) && (ca =? cb) && (count =? n) && (leftover =? 0) && pay
                  && zlist_eqb ia ids && zlist_eqb ib ids in
                ok_verdict agree prop
            | _, _ => malformed
            end
        | Some _, JL [tag] => if jtag_is "panic" tag then ok_verdict false false else malformed
        | _, _ => malformed
        end
    | _ => malformed
    end
  else if String.eqb kind "cs" then
    match input, output with
    | JL [JI n; JI _; JB _; JI per; JI _; JI _; JI _],
      JL [tag; JL [JI count; JI total; jranges; jw; js; jq; JB pay]] =>
        match dec_ranges jranges, jints jw, jints js, jints jq with
        | Some oranges, Some ow, Some os, Some oq =>
            let ids := zrange n in
            let per := Z.to_N per in
            let agree :=
              jtag_is "ok" tag && (count =? n) && pay && (total =? n)
              && ranges_eqb oranges (ranges (nlen ids) per)
              && zlist_eqb ow ids
              && zlist_eqb os (rows_stream_seq ids per)
              && zlist_eqb oq (rows_stream_par ids per) in
            let prop :=
              (count =? n) && pay && (total =? n) && tiles_ref oranges (Z.to_N total) per
              && zlist_eqb ow ids && zlist_eqb os ids && zlist_eqb oq ids in
            ok_verdict agree prop
        | _, _, _, _ => malformed
        end
    | _, _ => malformed
    end
  else if String.eqb kind "ps" then
    match input, output with
    | JL [JI n; JI _; JI rg; JI per; JI _; JI _],
      JL [tag; JL [JI total; jranges; jw; js; jq; JB pay]] =>
        match dec_ranges jranges, jints jw, jints js, jints jq with
        | Some oranges, Some ow, Some os, Some oq =>
            let ids := zrange n in
            let per := Z.to_N per in
            let rgsz := if rg =? 0 then 1048576%N else Z.to_N rg in
            let groups := map (slice ids) (ranges (nlen ids) rgsz) in
            let ng := nlen groups in
            let agree :=
              jtag_is "ok" tag && pay && (total =? n)
              && ranges_eqb oranges (group_ranges ng per)
              && zlist_eqb ow (pq_whole groups)
              && zlist_eqb os (pq_stream_seq groups per)
              && zlist_eqb oq (pq_stream_par groups per) in
            let prop :=
              pay && (total =? n)
              && tiles_ref oranges (match rev oranges with r :: _ => snd r | [] => 0%N end) per
              && zlist_eqb ow ids && zlist_eqb os ids && zlist_eqb oq ids in
            ok_verdict agree prop
        | _, _, _, _ => malformed
        end
    | _, _ => malformed
    end
  else if String.eqb kind "gl" then
    match input with
    | JL [JI fmt; JB _; JI pat; JL jfiles; JI _] =>
        match omap dec_file jfiles with
        | Some files =>
            let withids := assign_ids 0 files in
            let matched := filter (fun f => glob_matches fmt pat (fst f)) withids in
            let model := read_glob (fun p => lookup p matched) (map fst matched) in
            let ref := List.concat (map snd (min_first (List.length matched)
                                          (map (fun f => (flat_key (fst f), snd f)) matched))) in
            match output with
            | JL [tag; JL [jids; JB pay; JL jothers]] =>
                (* jothers: the same (eagerly loaded, in-memory) collection under collect_par,
                   Runner{Sequential, checkpointing}, Runner{Parallel, checkpointing} *)
                match jints jids, omap (dec_read jints) jothers with
                | Some oids, Some others =>
                    let mothers :=
                      match model with
                      | Ok v => map (fun e => exec_source e 3%N (mem_adapter v)) [EPar; ESeqCk; EParCk]
                      | _ => []
                      end in
                    ok_verdict (jtag_is "ok" tag && pay && outcome_eqb zlist_eqb (Ok oids) model
                                && (List.length others =? 3)%nat
                                && forallb (fun xy => outcome_eqb zlist_eqb (fst xy) (snd xy)) (combine others mothers))
                               (pay && negb (match matched with [] => true | _ => false end)
                                && zlist_eqb oids ref
                                && (List.length others =? 3)%nat
                                && forallb (fun o => outcome_eqb zlist_eqb o (Ok ref)) others)
                | _, _ => malformed
                end
            | JL [tag; _] =>
                if jtag_is "err" tag then
                  (* documented: a pattern without any matching file is an error *)
                  let none := match matched with [] => true | _ => false end in
                  ok_verdict (outcome_eqb zlist_eqb Err model) none
                else malformed
            | JL [tag] => if jtag_is "panic" tag then ok_verdict false false else malformed
            | _ => malformed
            end
        | None => malformed
        end
    | _ => malformed
    end
  else if String.eqb kind "jf" then
    match input, output with
    (* the integer k as f64 (|k| < 2^53): every format returns it bit-exact (the library contract
       de (ser r) = Some r; before commit dbceed9 serde_json lost e.g. 9007199254740991.0) *)
    | JL [JI k], JL [tag; JL [JB ej; JB ec; JB ep]] =>
        if (Z.abs k <? 9007199254740992) then
          ok_verdict (jtag_is "ok" tag && ej && ec && ep) (ej && ec && ep)
        else malformed
    | _, _ => malformed
    end
  else if String.eqb kind "jb" then
    (* the finite f64 with bit pattern hi * 2^32 + lo *)
    match input, output with
    | JL [JI hi; JI lo], JL [tag; JL [JB ej; JB ec; JB ep]] =>
        if (0 <=? hi) && (hi <? 4294967296) && (0 <=? lo) && (lo <? 4294967296)
           && negb (Z.land (Z.shiftr hi 20) 2047 =? 2047) then
          ok_verdict (jtag_is "ok" tag && ej && ec && ep) (ej && ec && ep)
        else malformed
    | _, _ => malformed
    end
  else if String.eqb kind "jz" || String.eqb kind "cz" then
    (* codec dimension: [n; pseed; ext; (h;) shards; via; per; t; p]. The tiling model is unchanged
       and codec transparency (dec (enc b) = b) is C10's hypothesis, so the prediction is plainly
       "all eight read paths (sequential file and parallel file, each whole / streamed seq / streamed
       par, and the parallel file under seq+checkpoint / par+checkpoint) return the written ids in
       order"; agree = prop. *)
    match input, output with
    | JL (JI n :: JI _ :: _ :: _), JL [tag; JL [JI ca; JI cb; JL outs; JB pay; JI leftover]] =>
        match omap (dec_read jints) outs with
        | Some rs =>
            let ids := zrange n in
            let good :=
              jtag_is "ok" tag && (ca =? n) && (cb =? n) && pay && (leftover =? 0)
              && (Z.of_nat (List.length rs) =? 8)
              && forallb (fun r => outcome_eqb zlist_eqb r (Ok ids)) rs in
            ok_verdict good good
        | None => malformed
        end
    | _, _ => malformed
    end
  else if String.eqb kind "ow" then
    (* overwrite: [fmt; ext; h; w1; w2; n1; n2; pseed; shards]: n1 records (ids 1000..) are written,
       then n2 records (ids 0..) to the same path. Model: a write REPLACES the content of the file
       (every writer opens its target with File::create), so the file is what the second write
       alone produces, and by the writer theorems that reads back as ids 0..n2-1 on all three read
       paths; no part file is left. agree = prop. *)
    match input, output with
    | JL [JI _; _; JB _; JI _; JI _; JI n1; JI n2; JI _; _],
      JL [tag; JL [JI c1; JI c2; JL outs; JB pay; JI leftover]] =>
        match omap (dec_read jints) outs with
        | Some rs =>
            let good :=
              jtag_is "ok" tag && (c1 =? n1) && (c2 =? n2) && pay && (leftover =? 0)
              && (Z.of_nat (List.length rs) =? 3)
              && forallb (fun r => outcome_eqb zlist_eqb r (Ok (zrange n2))) rs in
            ok_verdict good good
        | None => malformed
        end
    | _, _ => malformed
    end
  else if String.eqb kind "big" then
    (* [fmt; n; rg; per; t; p]: n tiny records; the ranges are the model's, the content of every
       read path is ids 0..n-1 (c09_streamed_eq_whole_rows / _parquet), compared through summaries
       computed by arithmetic *)
    match input, output with
    | JL [JI fmt; JI n; JI rg; JI per; JI _; JI _],
      JL [tag; JL [JI total; jranges; jw; js; jq; jsc; jqc]] =>
        match dec_ranges jranges, dec_read dec_summary jw,
              omap (dec_read dec_summary) [js; jq; jsc; jqc] with
        | Some oranges, Some ow, Some engs =>
            let per := Z.to_N per in
            let nn := Z.to_N n in
            let rgsz := if rg =? 0 then 1048576%N else Z.to_N rg in
            let units := if fmt =? 2 then (if n =? 0 then 0%N else div_ceil nn rgsz) else nn in
            let mranges := if fmt =? 2 then group_ranges units per else ranges units per in
            let want := Ok (summary_of_range n) in
            let same := outcome_eqb zlist_eqb ow want
                        && forallb (fun o => outcome_eqb zlist_eqb o want) engs in
            ok_verdict (jtag_is "ok" tag && (total =? n) && ranges_eqb oranges mranges && same)
                       ((total =? n)
                        && tiles_ref oranges (match rev oranges with r :: _ => snd r | [] => 0%N end) per
                        && same)
        | _, _, _ => malformed
        end
    | _, _ => malformed
    end
  else if String.eqb kind "gen" then
    match input, output with
    | JL [JI fmt; JB _; JI n; JI rg; JI per; JI _; JI _; JI _; JI _; JI _], JL [tag; JL gens] =>
        let judge_gen (g : Z) (j : J) : option (bool * bool) :=
          match j with
          | JL [jw; jp; js; JB pay] =>
              match dec_read jints jw, dec_read jints jp, dec_read jints js with
              | Some ow, Some op, Some os =>
                  let '(mp, ms) := gen_model fmt n rg (Z.to_N per) g in
                  let cur := Ok (gen_ids n g) in
                  Some (pay && outcome_eqb zlist_eqb ow cur && outcome_eqb zlist_eqb op mp
                        && outcome_eqb zlist_eqb os ms,
                        pay && outcome_eqb zlist_eqb ow cur && outcome_eqb zlist_eqb op cur
                        && outcome_eqb zlist_eqb os cur)
              | _, _, _ => None
              end
          | _ => None
          end in
        match gens with
        | [g0; g1] =>
            match judge_gen 0 g0, judge_gen 1 g1 with
            | Some (a0, p0), Some (a1, p1) => ok_verdict (jtag_is "ok" tag && a0 && a1) (p0 && p1)
            | _, _ => malformed
            end
        | _ => malformed
        end
    | _, _ => malformed
    end
  else if String.eqb kind "rx" then
    (* [fmt; h; n; rg; per; pseed; t; p; pol; rec]: one source handle under every execution
       configuration; the model runs the engine of each configuration on the format's adapter; the
       property instance: every run returns the written ids (joins: the reference join) *)
    match input, output with
    | JL [JI fmt; JB _; JI n; JI rg; JI per; JI _; JI _; JI parts; JI _; JB _],
      JL [tag; JL [jwhole; JL jouts; JB pay]] =>
        match dec_read jints jwhole, omap (dec_read jints) jouts with
        | Some owhole, Some outs =>
            let ids := zrange n in
            let a := fmt_adapter fmt ids ids rg rg (Z.to_N per) in
            let other := rx_other n in
            let model :=
              map (fun e => exec_source e (Z.to_N parts) a) rx_plain
              ++ map (fun e => join_side_ids e (Z.to_N parts) a other) all_engines
              ++ map (fun e => join_side_ids e (Z.to_N parts) a other) all_engines in
            let eq_all (xs ys : list (outcome (list Z))) :=
              (List.length xs =? List.length ys)%nat
              && forallb (fun xy => outcome_eqb zlist_eqb (fst xy) (snd xy)) (combine xs ys) in
            let reference :=
              repeat (Ok ids) (List.length rx_plain) ++ repeat (Ok (rx_join_ref n)) 8 in
            ok_verdict (jtag_is "ok" tag && pay && outcome_eqb zlist_eqb owhole (Ok ids) && eq_all outs model)
                       (pay && outcome_eqb zlist_eqb owhole (Ok ids) && eq_all outs reference)
        | _, _ => malformed
        end
    | _, _ => malformed
    end
  else if String.eqb kind "g2" then
    (* [fmt; h; n1; n2; rg1; rg2; per; order; t; p; ps1; ps2]: the handle is built over generation 0
       (ids 0..n1-1, row-group size rg1); generation 1 holds ids 1000..1000+n2-1 (rg2). Model: the
       build-time ranges / total applied to the current content, per engine. Property instance:
       generation 0 = whole on all four engines; in generation 1 the four engines agree with each
       other (same records or all fail), equal the whole read when the number of lines / rows /
       row groups is unchanged, and for JSONL / CSV equal the first n1 records of the new file *)
    match input, output with
    | JL [JI fmt; JB _; JI n1; JI n2; JI rg1; JI rg2; JI per; JI _; JI _; JI parts; JI _; JI _], JL [tag; JL [g0; g1]] =>
        let ids0 := zrange n1 in
        let ids1 := map (fun k => 1000 + k) (zrange n2) in
        let judge (ids : list Z) (rg : Z) (first : bool) (j : J) : option (bool * bool) :=
          match j with
          | JL [jw; JL jouts; JB pay] =>
              match dec_read jints jw, omap (dec_read jints) jouts with
              | Some ow, Some outs =>
                  let a := fmt_adapter fmt ids0 ids rg1 rg (Z.to_N per) in
                  let model := map (fun e => exec_source e (Z.to_N parts) a) all_engines in
                  let agree :=
                    pay && outcome_eqb zlist_eqb ow (Ok ids)
                    && (List.length outs =? 4)%nat
                    && forallb (fun xy => outcome_eqb zlist_eqb (fst xy) (snd xy)) (combine outs model) in
                  let same_units := (fmt_units fmt ids0 rg1 =? fmt_units fmt ids rg)%N in
                  let prop :=
                    pay && outcome_eqb zlist_eqb ow (Ok ids) && (List.length outs =? 4)%nat
                    && pairwise_same outs
                    && (if first || same_units
                        then forallb (fun o => outcome_eqb zlist_eqb o (Ok ids)) outs else true)
                    && (if fmt <? 2
                        then forallb (fun o => outcome_eqb zlist_eqb o (Ok (firstn (Z.to_nat n1) ids))) outs
                        else true) in
                  Some (agree, prop)
              | _, _ => None
              end
          | _ => None
          end in
        match judge ids0 rg1 true g0, judge ids1 rg2 false g1 with
        | Some (a0, p0), Some (a1, p1) => ok_verdict (jtag_is "ok" tag && a0 && a1) (p0 && p1)
        | _, _ => malformed
        end
    | _, _ => malformed
    end
  else if String.eqb kind "vo" then
    (* [fmt; h; na; nb; rg; tot; ranges; pseed]: ONE adapter instance, hand-built shard structs with
       the given ranges / total over file A (ids 0..na-1), file B (ids 1000..), file A again.
       Property instance (reference): foreign payloads give None; the third round repeats the first
       (the adapter keeps no state); whenever the ranges tile [0, tot) and tot is the number of
       lines / rows / row groups of the file, split concatenates to the file and clone_any is the file *)
    match input, output with
    | JL [JI fmt; JB _; JI na; JI nb; JI rg; JI tot; jranges; JI _], JL [tag; JL [JL [r1; r2; r3]; JB allnone; JB pay]] =>
        match dec_ranges jranges with
        | Some rs =>
            let tot := Z.to_N tot in
            let idsA := zrange na in
            let idsB := map (fun k => 1000 + k) (zrange nb) in
            let dec_round (j : J) :=
              match j with
              | JL [jl; jsplit; jc] =>
                  match dec_opt_call jint jl, dec_opt_call dec_parts jsplit, dec_opt_call jints jc with
                  | Some l, Some sp, Some c => Some (l, sp, c)
                  | _, _, _ => None
                  end
              | _ => None
              end in
            let agree_round (ids : list Z) (n : N) (o : outcome Z * outcome (list (list Z)) * outcome (list Z)) :=
              let '(l, sp, c) := o in
              let a := hand_adapter fmt ids rg rs tot in
              outcome_eqb Z.eqb l (match ad_len a with Some x => Ok (Z.of_N x) | None => Err end)
              && outcome_eqb zparts_eqb sp (ad_split a n)
              && outcome_eqb zlist_eqb c (ad_clone a) in
            let prop_round (ids : list Z) (o : outcome Z * outcome (list (list Z)) * outcome (list Z)) :=
              let '(l, sp, c) := o in
              outcome_eqb Z.eqb l (Ok (Z.of_N tot))
              && (if chainb 0%N rs tot && (tot =? fmt_units fmt ids rg)%N
                  then match sp with Ok parts => zlist_eqb (List.concat parts) ids | _ => false end
                       && outcome_eqb zlist_eqb c (Ok ids)
                  else true) in
            let round_eqb (x y : outcome Z * outcome (list (list Z)) * outcome (list Z)) :=
              let '(l1, s1, c1) := x in let '(l2, s2, c2) := y in
              outcome_eqb Z.eqb l1 l2 && outcome_eqb zparts_eqb s1 s2 && outcome_eqb zlist_eqb c1 c2 in
            match dec_round r1, dec_round r2, dec_round r3 with
            | Some o1, Some o2, Some o3 =>
                ok_verdict (jtag_is "ok" tag && allnone && pay
                            && agree_round idsA 1%N o1 && agree_round idsB 3%N o2 && agree_round idsA 0%N o3)
                           (allnone && pay && round_eqb o1 o3
                            && prop_round idsA o1 && prop_round idsB o2 && prop_round idsA o3)
            | _, _, _ => malformed
            end
        | None => malformed
        end
    | _, _ => malformed
    end
  else malformed.

(* a panic of the code under test (or an Err where the harness unwraps) in a place where the model
   has no failure at all is a disagreement and a failed property instance, not a malformed case *)
Definition is_panic (o : J) : bool := match o with JL [t] => jtag_is "panic" t | _ => false end.
Definition known_kind (k : string) : bool :=
  existsb (String.eqb k) ["jl"; "js"; "jw"; "cw"; "cs"; "ps"; "gl"; "jf"; "jb"; "jz"; "cz"; "ow"; "big"; "gen"; "rx"; "g2"; "vo"]%string.
Definition check_C09 (kind : string) (input output : J) : verdict :=
  let v := check_main kind input output in
  if v_malformed v && is_panic output && known_kind kind then ok_verdict false false else v.
