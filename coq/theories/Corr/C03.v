(* Correspondence for C03 (plan optimisation never changes what a pipeline computes).

   The harness (harness/src/bin/c03.rs) takes a node chain - either the backwalk of a REAL pipeline
   built from a step-language program, or a synthetic chain assembled from hand-made Stateless /
   Materialized nodes and barrier nodes harvested from real builders - and runs the REAL private
   planner passes (hooks planner::verif_passes) and the REAL engines (runner::verif_exec) on it.
   Everything is judged here:

   agree = (i) the structure of every pass output equals the model pass (Planner.v) on the model
           chain, operator identity = the operator OBJECT (first position of that Arc / op_uid among the
           raw chain's operators; an object may occur several times); the capability flags / cost hints
           of the real operator objects equal the model's; (ii) each of the four runs
           (seq/par x optimised/literal) returns what Exec.v predicts on the corresponding model
           chain; (iii) build_plan().chain, explain() and run_collect agree with the model plan.
   prop  = on the OBSERVED data only: every pass output is a legal rewrite of its input (fusion only
           erases boundaries between adjacent Stateless nodes; reorder only permutes operators
           inside one node, and is the identity outside the known class; lift only replaces
           GroupByKey + CombineValues{local_groups: Some} by CombineValues{local_groups: None};
           drop_mid only removes non-terminal Materialized), the optimised and the literal chain
           return the same rows on the real engines, and explain()'s node types are the kinds of the
           chain build_plan returns, which is the composition of the four passes and what
           run_collect executes.
   known = the chain lies in the open class C03-reorder (some fused all-value-only block of >= 2
           operators is actually re-ordered by the stable sort by (cost != 1, cost); decided with
           Planner.reorder_ops on the fused MODEL chain, i.e. with the model's flag / cost table)
           AND the model predicts the real behaviour exactly AND every pass is a legal rewrite.
           So inside the class only the (expected) difference between optimised and literal
           execution is excused; any other discrepancy is still reported.

   Definitions only. *)
From Coq Require Import List ZArith Bool Arith String.
From IB Require Import Util.J Engine.Val Engine.Ops Engine.AMap Engine.Nodes Engine.Exec
     Engine.Planner Engine.Lang Engine.Decode Engine.Canon Combiners.Lawful Engine.Auto.
Import ListNotations.
Local Open Scope nat_scope.

(* ------------------------------------------------------------------ chain descriptors *)
Inductive ndesc :=
| DSrc | DSt (ids : list nat) | DGbk | DCv (lg : bool) | DCg (fanout : option nat) | DCogroup
| DMat.

Definition dec_nats (j : J) : option (list nat) :=
  match j with JL l => omap dec_nat l | _ => None end.

Definition dec_ndesc (j : J) : option ndesc :=
  match j with
  | JL [JS t] =>
      if tag_is t "src" then Some DSrc else if tag_is t "gbk" then Some DGbk
      else if tag_is t "cogroup" then Some DCogroup else if tag_is t "mat" then Some DMat
      else None
  | JL [JS t; a] =>
      if tag_is t "st" then option_map DSt (dec_nats a)
      else if tag_is t "cv" then option_map DCv (jbool a)
      else if tag_is t "cg" then option_map DCg (dec_fanout a)
      else None
  | _ => None
  end.
Definition dec_desc (j : J) : option (list ndesc) :=
  match j with JL l => omap dec_ndesc l | _ => None end.

Definition onat_eqb (a b : option nat) : bool :=
  match a, b with
  | None, None => true
  | Some x, Some y => Nat.eqb x y
  | _, _ => false
  end.
Definition ndesc_eqb (a b : ndesc) : bool :=
  match a, b with
  | DSrc, DSrc | DGbk, DGbk | DCogroup, DCogroup | DMat, DMat => true
  | DSt x, DSt y => nat_list_eqb x y
  | DCv x, DCv y => Bool.eqb x y
  | DCg x, DCg y => onat_eqb x y
  | _, _ => false
  end.
Fixpoint desc_eqb (a b : list ndesc) : bool :=
  match a, b with
  | [], [] => true
  | x :: a', y :: b' => ndesc_eqb x y && desc_eqb a' b'
  | _, _ => false
  end.

(* the model chain as a descriptor; an operator is named by the position of its uid among the
   operators of the raw chain (the harness does the same with Arc pointers) *)
Fixpoint index_of (u : nat) (l : list nat) : nat :=
  match l with [] => 0 | x :: r => if Nat.eqb x u then 0 else S (index_of u r) end.
Definition chain_ops (c : list node) : list dynop :=
  flat_map (fun n => match n with NB (BStateless ops) => ops | _ => [] end) c.
Definition desc_of (ru : list nat) (n : node) : ndesc :=
  match n with
  | NB (BSource _) => DSrc
  | NB (BStateless ops) => DSt (map (fun o => index_of (op_uid o) ru) ops)
  | NB (BGroupByKey _ _) => DGbk
  | NB (BCombineValues _ _ _ _ lg) => DCv lg
  | NB (BCombineGlobal _ _ _ _ f) => DCg f
  | NB (BMaterialized _ _) => DMat
  | NCoGroup _ _ _ _ _ _ => DCogroup
  end.

(* ------------------------------------------------------------------ legal rewrites (reference) *)
(* fusion: erasing the boundaries between Stateless nodes gives the same sequence of operators and
   other nodes (so every operator is kept exactly once, in order, and none crosses a barrier) *)
Definition flat_items (d : list ndesc) : list ndesc :=
  flat_map (fun n => match n with DSt ids => map (fun i => DSt [i]) ids | _ => [n] end) d.
Definition fuse_legal (a b : list ndesc) : bool := desc_eqb (flat_items a) (flat_items b).

Fixpoint ninsert (x : nat) (l : list nat) : list nat :=
  match l with [] => [x] | y :: r => if Nat.leb x y then x :: l else y :: ninsert x r end.
Definition nsort (l : list nat) : list nat := fold_right ninsert [] l.
(* reorder: node by node; a Stateless node keeps its multiset of operators, others are untouched *)
Fixpoint reorder_legal (a b : list ndesc) : bool :=
  match a, b with
  | [], [] => true
  | DSt x :: a', DSt y :: b' => nat_list_eqb (nsort x) (nsort y) && reorder_legal a' b'
  | x :: a', y :: b' => ndesc_eqb x y && reorder_legal a' b'
  | _, _ => false
  end.
(* lift: some occurrences of [gbk; cv(true)] are replaced by [cv(false)], nothing else changes *)
Fixpoint lift_legal (a b : list ndesc) {struct a} : bool :=
  match a with
  | [] => match b with [] => true | _ => false end
  | x :: a' =>
      match b with
      | [] => false
      | y :: b' =>
          (ndesc_eqb x y && lift_legal a' b')
          || match x, a' with
             | DGbk, DCv true :: a'' => ndesc_eqb y (DCv false) && lift_legal a'' b'
             | _, _ => false
             end
      end
  end.
(* drop_mid: only Materialized nodes that are not the last node may disappear *)
Fixpoint drop_legal (a b : list ndesc) {struct a} : bool :=
  match a with
  | [] => match b with [] => true | _ => false end
  | x :: a' =>
      match a' with
      | [] => match b with [y] => ndesc_eqb x y | _ => false end
      | _ :: _ =>
          (match b with y :: b' => ndesc_eqb x y && drop_legal a' b' | [] => false end)
          || (match x with DMat => drop_legal a' b | _ => false end)
      end
  end.

(* ------------------------------------------------------------------ model runs *)
(* Lang.comb_minmax has a total finish (VNone for the empty accumulator) where the real Min / Max
   `expect`: the run panics. A combiner with that sentinel panics when a global combine receives no
   row, or a lifted per-key combine meets a key all of whose groups are empty (the same condition in
   both engines: it depends only on the rows reaching the node). The walkers below follow the
   engines node by node and stop at the first such node; a model failure met earlier wins. *)
Definition sentinel (c : vcomb) : bool :=
  match c_finish (vc_c c) (c_create (vc_c c)) with VNone => true | _ => false end.
Definition fin_panics (b : bnode) (rows : list val) : bool :=
  match b with
  | BCombineGlobal c _ _ _ _ => sentinel c && is_nil rows
  | BCombineValues c _ _ _ true => sentinel c && some_key_empty rows
  | _ => false
  end.
Definition bnode_sentinel (b : bnode) : bool :=
  match b with
  | BCombineGlobal c _ _ _ _ => sentinel c
  | BCombineValues c _ _ _ _ => sentinel c
  | _ => false
  end.
Definition snode_sentinel (s : snode) : bool :=
  match s with SB b => bnode_sentinel b | SNestedCoGroup => false end.
Definition has_sentinel (c : list node) : bool :=
  existsb (fun n => match n with
                    | NB b => bnode_sentinel b
                    | NCoGroup l r _ _ _ _ => existsb snode_sentinel l || existsb snode_sentinel r
                    end) c.

Definition buf_rows (buf : option part) : list val :=
  match buf with Some p => snd p | None => [] end.
Definition buf_fp (b : bnode) (buf : option part) : bool :=
  match buf with Some p => fin_panics b (snd p) | None => false end.

Fixpoint fp_seq_sub (site : nat) (chain : list snode) (buf : option part) : bool :=
  match chain with
  | [] => false
  | SNestedCoGroup :: _ => false
  | SB b :: r =>
      buf_fp b buf
      || match seq_bnode id_sh site 0 true b buf with
         | Ok p => fp_seq_sub (next_site site b) r (Some p)
         | _ => false
         end
  end.
Fixpoint fp_seq (i : nat) (term : tag) (chain : list node) (buf : option part) : bool :=
  match chain with
  | [] => false
  | NB b :: r =>
      buf_fp b buf
      || match seq_bnode id_sh i term false b buf with
         | Ok p => fp_seq (next_site i b) term r (Some p)
         | _ => false
         end
  | NCoGroup lc rc kind tl tr tout :: r =>
      fp_seq_sub (1000 * S i) lc None
      || match run_subplan_seq id_sh (1000 * S i) lc with
         | Ok lp =>
             fp_seq_sub (2000 * S i) rc None
             || match run_subplan_seq id_sh (2000 * S i) rc with
                | Ok rp => match run_cogroup id_sh i kind tl tr tout [lp] [rp] with
                           | Ok p => fp_seq (S i) term r (Some p)
                           | _ => false
                           end
                | _ => false
                end
         | _ => false
         end
  end.

Definition parts_rows (curr : list part) : list val := List.concat (map snd curr).
Fixpoint fp_par_rest (site : nat) (chain : list snode) (curr : list part) : bool :=
  match chain with
  | [] => false
  | SNestedCoGroup :: _ => false
  | SB b :: r =>
      fin_panics b (parts_rows curr)
      || match par_bnode id_sh site b curr with
         | Ok curr' => fp_par_rest (next_site site b) r curr'
         | _ => false
         end
  end.
Definition fp_par_sub (site : nat) (chain : list snode) (partitions : nat) : bool :=
  match chain with
  | SB (BSource s) :: rest => fp_par_rest site rest (source_parts s partitions)
  | _ => false
  end.
Fixpoint fp_par_main (i : nat) (partitions : nat) (chain : list node) (curr : list part) : bool :=
  match chain with
  | [] => false
  | NB b :: r =>
      fin_panics b (parts_rows curr)
      || match par_bnode id_sh i b curr with
         | Ok curr' => fp_par_main (next_site i b) partitions r curr'
         | _ => false
         end
  | NCoGroup lc rc kind tl tr tout :: r =>
      fp_par_sub (1000 * S i) lc partitions
      || match run_subplan_par id_sh (1000 * S i) lc partitions with
         | Ok lps =>
             fp_par_sub (2000 * S i) rc partitions
             || match run_subplan_par id_sh (2000 * S i) rc partitions with
                | Ok rps => match run_cogroup id_sh i kind tl tr tout lps rps with
                            | Ok p => fp_par_main (S i) partitions r [p]
                            | _ => false
                            end
                | _ => false
                end
         | _ => false
         end
  end.
Definition fp_par (chain : list node) (partitions : nat) : bool :=
  match chain with
  | NB (BSource s) :: rest => fp_par_main 0 partitions rest (source_parts s partitions)
  | _ => false
  end.

Definition m_seq (term : tag) (chain : list node) : obs :=
  if has_sentinel chain && fp_seq 0 term chain None then OPanic
  else obs_of (exec_seq id_sh term chain).
Definition m_par (term : tag) (chain : list node) (partitions : nat) : obs :=
  if has_sentinel chain && fp_par chain partitions then OPanic
  else obs_of (exec_par id_sh term chain partitions).

(* How two results of a chain are compared (Canon.cmp_mode), decided from the chain's node kinds
   exactly as Canon.cmp_of decides it from a program's steps:
   CExact : no node iterates a hash map (Source / Stateless / Materialized / a global combine whose
            output is not a drained HashSet);
   CRows  : some node does (GroupByKey, CombineValues, a DistinctSet combine): multiset of rows,
            each row compared exactly;
   CDeep  : some list INSIDE the rows follows a map's iteration order: a GroupByKey downstream of a
            hash node, or the output list of a DistinctSet combiner.
   A synthetic chain is classified from its JSON description (the combiner ids are visible there);
   markers and extra sources are kept conservative (they do not reset "unordered"). *)
Inductive nkind := NKPlain | NKGbk | NKHash | NKDistinct.
Definition is_distinct (c : cid) : bool := match c with CDistinct => true | _ => false end.
Definition dec_nkind (j : J) : option nkind :=
  match j with
  | JL [JS t] => if tag_is t "gbk" then Some NKGbk else None
  | JL [JS t; _] => if tag_is t "st" then Some NKPlain else None
  | JL [JS t; a; _] =>
      if tag_is t "src" then Some NKPlain else if tag_is t "mat" then Some NKPlain
      else if tag_is t "cv" then
        option_map (fun c => if is_distinct c then NKDistinct else NKHash) (dec_cid a)
      else None
  | JL [JS t; a; _; _] =>
      if tag_is t "cg" then
        option_map (fun c => if is_distinct c then NKDistinct else NKPlain) (dec_cid a)
      else None
  | _ => None
  end.
Definition nk_hash (k : nkind) : bool := match k with NKPlain => false | _ => true end.
Fixpoint nk_lists_arbitrary (unord : bool) (ks : list nkind) : bool :=
  match ks with
  | [] => false
  | k :: r =>
      (match k with NKGbk => unord | NKDistinct => true | _ => false end)
      || nk_lists_arbitrary (unord || nk_hash k) r
  end.
Definition mode_of_kinds (ks : list nkind) : cmp_mode :=
  if negb (existsb nk_hash ks) then CExact
  else if nk_lists_arbitrary false ks then CDeep else CRows.

(* ------------------------------------------------------------------ observed data *)
Record opinfo := { oi_kp : bool; oi_vo : bool; oi_rs : bool; oi_cost : nat }.
Definition dec_opinfo (j : J) : option opinfo :=
  match j with
  | JL [JB kp; JB vo; JB rs; c] =>
      option_map (fun n => {| oi_kp := kp; oi_vo := vo; oi_rs := rs; oi_cost := n |}) (dec_nat c)
  | _ => None
  end.
Definition opinfo_agrees (o : dynop) (i : opinfo) : bool :=
  Bool.eqb (op_kp o) (oi_kp i) && Bool.eqb (op_vo o) (oi_vo i) && Bool.eqb (op_rs o) (oi_rs i)
  && Nat.eqb (op_cost o) (oi_cost i).
Fixpoint opinfos_agree (ops : list dynop) (is : list opinfo) : bool :=
  match ops, is with
  | [], [] => true
  | o :: ops', i :: is' => opinfo_agrees o i && opinfos_agree ops' is'
  | _, _ => false
  end.

Fixpoint descs_agree (ru : list nat) (ms : list (list node)) (ds : list (list ndesc)) : bool :=
  match ms, ds with
  | [], [] => true
  | m :: ms', d :: ds' => desc_eqb (map (desc_of ru) m) d && descs_agree ru ms' ds'
  | _, _ => false
  end.

(* the eight chains the harness reports, in this order *)
Definition passes (c : list node) : list (list node) :=
  let p1 := fuse c in
  let q2 := reorder p1 in
  let q3 := lift q2 in
  [c; p1; reorder c; lift c; drop_mid c; q2; q3; drop_mid q3].

Definition struct_legal (ds : list (list ndesc)) : bool :=
  match ds with
  | [d0; d1; d2; d3; d4; d5; d6; d7] =>
      fuse_legal d0 d1 && reorder_legal d0 d2 && lift_legal d0 d3 && drop_legal d0 d4
      && reorder_legal d1 d5 && lift_legal d5 d6 && drop_legal d6 d7
  | _ => false
  end.
(* the real reorder pass moved nothing: on the raw chain (pass run alone) / on the fused chain *)
Definition no_reorder_raw (ds : list (list ndesc)) : bool :=
  match ds with [d0; _; d2; _; _; _; _; _] => desc_eqb d0 d2 | _ => false end.
Definition no_reorder_fused (ds : list (list ndesc)) : bool :=
  match ds with [_; d1; _; _; _; d5; _; _] => desc_eqb d1 d5 | _ => false end.
Definition optimised_desc (ds : list (list ndesc)) : list ndesc := nth 7 ds [].

(* the class C03-reorder, decided with the MODEL's flag / cost table: the chain the pass is given
   holds a block the stable sort really re-orders.  `in_reorder_class` (the fused raw chain, i.e.
   what build_plan sorts) is the known-finding class of the case; `reorders_alone` only excuses the
   structural "moved nothing" test of the pass run alone on a raw chain that has a pre-fused block. *)
Definition in_reorder_class (raw : list node) : bool := existsb node_reorders (fuse raw).
Definition reorders_alone (raw : list node) : bool := existsb node_reorders raw.

(* non-terminal Materialized nodes of the raw chain: (index, tag, payload) *)
Fixpoint mid_mats (i : nat) (c : list node) : list (nat * tag * list val) :=
  match c with
  | [] => []
  | n :: r =>
      match r with
      | [] => []
      | _ :: _ =>
          match n with
          | NB (BMaterialized t pl) => (i, t, pl) :: mid_mats (S i) r
          | _ => mid_mats (S i) r
          end
      end
  end.

(* the four runs: [seq optimised; seq literal; par optimised; par literal] *)
Definition execs_agree (ex : cmp_mode) (term : tag) (raw : list node) (parts : nat) (os : list obs)
  : bool :=
  let opt := optimise raw in
  match os with
  | [so; sl; po; pl] =>
      obs_agree ex (m_seq term opt) so && obs_agree ex (m_seq term raw) sl
      && obs_agree ex (m_par term opt parts) po && obs_agree ex (m_par term raw parts) pl
  | _ => false
  end.

(* markers: the observed value of each prefix (real sequential engine, literal) *)
Fixpoint prefixes_agree (pm : nat -> cmp_mode) (raw : list node) (ms : list (nat * tag * list val))
         (os : list obs) : bool :=
  match ms, os with
  | [], [] => true
  | (i, t, _) :: ms', o :: os' =>
      let pre := firstn i raw in
      obs_agree (pm i) (m_seq t pre) o && prefixes_agree pm raw ms' os'
  | _, _ => false
  end.
(* a marker is consistent when its payload is the (observed) value of its prefix *)
Fixpoint markers_consistent (pm : nat -> cmp_mode) (ms : list (nat * tag * list val))
         (os : list obs) : bool :=
  match ms, os with
  | [], [] => true
  | (i, _, pl) :: ms', o :: os' =>
      obs_agree (pm i) (OOk pl) o && markers_consistent pm ms' os'
  | _, _ => false
  end.

(* optimised and literal execution return the same thing (observed against observed).
   With a non-terminal marker the literal chain is not a meaningful reference unless the marker is
   consistent and of the terminal row type (else the sequential engine answers "terminal type
   mismatch"); the parallel engine refuses every literal chain that contains a marker. *)
Definition sem_prop (ex : cmp_mode) (pm : nat -> cmp_mode) (term : tag) (raw : list node)
           (os : list obs) (pre : list obs) : bool :=
  let ms := mid_mats 0 raw in
  match os with
  | [so; sl; po; pl] =>
      match ms with
      | [] => obs_agree ex sl so && obs_agree ex pl po
      | _ =>
          if markers_consistent pm ms pre
             && forallb (fun m => Nat.eqb (snd (fst m)) term) ms
          then obs_agree ex sl so
          else true
      end
  | _ => false
  end.

Definition kind_name (k : node_kind) : string :=
  match k with
  | KSource => "Source" | KStateless _ => "Stateless" | KGroupByKey => "GroupByKey"
  | KCombineValues _ => "CombineValues" | KCoGroup => "CoGroup"
  | KCombineGlobal _ => "CombineGlobal" | KMaterialized => "Materialized"
  end.
Definition ndesc_name (d : ndesc) : string :=
  match d with
  | DSrc => "Source" | DSt _ => "Stateless" | DGbk => "GroupByKey" | DCv _ => "CombineValues"
  | DCogroup => "CoGroup" | DCg _ => "CombineGlobal" | DMat => "Materialized"
  end.
Fixpoint strs_eqb (a b : list string) : bool :=
  match a, b with
  | [], [] => true
  | x :: a', y :: b' => String.eqb x y && strs_eqb a' b'
  | _, _ => false
  end.
Definition dec_strs (j : J) : option (list string) :=
  match j with
  | JL l => omap (fun x => match x with JS s => Some s | _ => None end) l
  | _ => None
  end.

(* ------------------------------------------------------------------ explain
   Everything Plan::explain states that is determined by the plan (planner.rs: explain, build_plan):
   per step the 1-based index, node type, is_barrier, cost hint and the facts of the description;
   the summary cost_estimate {barriers, total_ops, stateless_ops, source_size}; suggested_partitions
   and the list of optimisation decisions.  `expl_*` compute what explain must say from a chain
   DESCRIPTOR and an operator table (cost hint / all-three-flags per operator id); the same
   functions are used with the model's descriptors and table (agree) and with the observed
   descriptors of the chain that ran and the flags read off the real operator objects (prop). *)
Inductive edetail :=
| EDNone | EDUnparsed | EDSrc (n : option nat) | EDOps (n : nat) (costs : list nat) | EDCv (lg : bool)
| EDFan (f : option nat).
Record estep := { es_idx : nat; es_type : string; es_barrier : bool; es_cost : nat;
                  es_detail : edetail }.
Inductive eopt :=
| EOFused (before after n : nat) | EOReordered (n : nat) (by_cost : bool) | EOLifted (rb : bool)
| EODropped (n : nat) | EOParts (len : option nat) (p : nat).
Record eexplain := { ee_steps : list estep; ee_barriers : nat; ee_total : nat; ee_stateless : nat;
                     ee_source : option nat; ee_suggested : option nat; ee_opts : list eopt;
                     ee_cpus : option nat }.

Definition dec_onat (j : J) : option (option nat) :=
  match j with JN => Some None | _ => option_map Some (dec_nat j) end.
Definition dec_edetail (j : J) : option edetail :=
  match j with
  | JN => Some EDUnparsed
  | JL [JS t] => if tag_is t "none" then Some EDNone
                 else if tag_is t "src_unknown" then Some (EDSrc None) else None
  | JL [JS t; a] =>
      if tag_is t "src" then option_map (fun n => EDSrc (Some n)) (dec_nat a)
      else if tag_is t "cv" then option_map EDCv (jbool a)
      else if tag_is t "fanout" then option_map EDFan (dec_onat a)
      else None
  | JL [JS t; a; b] =>
      if tag_is t "ops" then
        match dec_nat a, dec_nats b with Some n, Some cs => Some (EDOps n cs) | _, _ => None end
      else None
  | _ => None
  end.
Definition dec_estep (j : J) : option estep :=
  match j with
  | JL [i; JS ty; JB b; c; d] =>
      match dec_nat i, dec_nat c, dec_edetail d with
      | Some i', Some c', Some d' =>
          Some {| es_idx := i'; es_type := ty; es_barrier := b; es_cost := c'; es_detail := d' |}
      | _, _, _ => None
      end
  | _ => None
  end.
Definition dec_eopt (j : J) : option eopt :=
  match j with
  | JL [JS t; a] =>
      if tag_is t "lifted" then option_map EOLifted (jbool a)
      else if tag_is t "dropped" then option_map EODropped (dec_nat a) else None
  | JL [JS t; a; b] =>
      if tag_is t "reordered" then
        match dec_nat a, jbool b with Some n, Some c => Some (EOReordered n c) | _, _ => None end
      else if tag_is t "parts" then
        match dec_onat a, dec_nat b with Some l, Some p => Some (EOParts l p) | _, _ => None end
      else None
  | JL [JS t; a; b; c] =>
      if tag_is t "fused" then
        match dec_nat a, dec_nat b, dec_nat c with
        | Some x, Some y, Some z => Some (EOFused x y z)
        | _, _, _ => None
        end
      else None
  | _ => None
  end.
Definition dec_explain_with (cpus : option nat) (steps : list J) (b t s src sug : J) (opts : list J)
  : option eexplain :=
  match omap dec_estep steps, dec_nat b, dec_nat t, dec_nat s, dec_onat src, dec_onat sug,
        omap dec_eopt opts with
  | Some st, Some b', Some t', Some s', Some src', Some sug', Some o' =>
      Some {| ee_steps := st; ee_barriers := b'; ee_total := t'; ee_stateless := s';
              ee_source := src'; ee_suggested := sug'; ee_opts := o'; ee_cpus := cpus |}
  | _, _, _, _, _, _, _ => None
  end.
(* the optional last element is num_cpus::get() on the machine that produced the explanation *)
Definition dec_explain (j : J) : option eexplain :=
  match j with
  | JL [JL steps; JL [b; t; s; src]; sug; JL opts] => dec_explain_with None steps b t s src sug opts
  | JL [JL steps; JL [b; t; s; src]; sug; JL opts; c] =>
      match dec_nat c with
      | Some n => dec_explain_with (Some n) steps b t s src sug opts
      | None => None
      end
  | _ => None
  end.

Definition d_barrier (d : ndesc) : bool :=
  match d with DGbk | DCv _ | DCogroup | DCg _ => true | _ => false end.
Definition nsum (l : list nat) : nat := fold_left Nat.add l 0.
Definition d_cost (cost_of : nat -> nat) (d : ndesc) : nat :=
  match d with
  | DSrc => 1 | DSt ids => nsum (map cost_of ids) | DGbk => 100 | DCv _ => 80 | DCogroup => 150
  | DCg _ => 90 | DMat => 1
  end.
Definition detail_ok (cost_of : nat -> nat) (d : ndesc) (e : edetail) : bool :=
  match e, d with
  | EDUnparsed, _ => true        (* the wording is not recognised: no fact is claimed *)
  | EDSrc _, DSrc => true        (* the size is checked against the source itself, below *)
  | EDOps n cs, DSt ids => Nat.eqb n (List.length ids) && nat_list_eqb cs (map cost_of ids)
  | EDCv lg, DCv lg' => Bool.eqb lg lg'
  | EDFan f, DCg f' => onat_eqb f f'
  | EDNone, (DGbk | DCogroup | DMat) => true
  | _, _ => false
  end.
Fixpoint expl_steps_ok (cost_of : nat -> nat) (i : nat) (ds : list ndesc) (es : list estep) : bool :=
  match ds, es with
  | [], [] => true
  | d :: ds', e :: es' =>
      Nat.eqb (es_idx e) (S i) && String.eqb (es_type e) (ndesc_name d)
      && Bool.eqb (es_barrier e) (d_barrier d) && Nat.eqb (es_cost e) (d_cost cost_of d)
      && detail_ok cost_of d (es_detail e) && expl_steps_ok cost_of (S i) ds' es'
  | _, _ => false
  end.
Definition d_ops (d : ndesc) : nat := match d with DSt ids => List.length ids | _ => 0 end.
Definition d_total (d : ndesc) : nat :=
  match d with DSt ids => List.length ids | DSrc => 0 | _ => 1 end.
Definition is_dst (d : ndesc) : bool := match d with DSt _ => true | _ => false end.
Definition count_b {A} (f : A -> bool) (l : list A) : nat := List.length (filter f l).
Definition expl_summary_ok (ds : list ndesc) (e : eexplain) : bool :=
  Nat.eqb (ee_barriers e) (count_b d_barrier ds)
  && Nat.eqb (ee_total e) (nsum (map d_total ds))
  && Nat.eqb (ee_stateless e) (nsum (map d_ops ds)).

(* the sizes the Source steps state, in order (None = not stated) *)
Definition stated_sizes (es : list estep) : list (option (option nat)) :=
  flat_map (fun e => if String.eqb (es_type e) "Source"
                     then [match es_detail e with EDSrc n => Some n | _ => None end] else []) es.
(* source_size of the summary is the size of the LAST Source step; checked where stated *)
Definition summary_source_consistent (e : eexplain) : bool :=
  match rev (stated_sizes (ee_steps e)) with
  | [] => onat_eqb (ee_source e) None
  | Some n :: _ => onat_eqb (ee_source e) n
  | None :: _ => true
  end.
Fixpoint sizes_ok (model : list (option nat)) (stated : list (option (option nat))) : bool :=
  match model, stated with
  | [], [] => true
  | m :: model', s :: stated' =>
      match s with Some n => onat_eqb n m | None => true end && sizes_ok model' stated'
  | _, _ => false
  end.
Definition model_src_sizes (c : list node) : list (option nat) :=
  flat_map (fun n => match n with NB (BSource s) => [s_hint s] | _ => [] end) c.

(* the optimisation decisions build_plan records, from the eight descriptors of `passes` *)
Definition expl_opts (safe : nat -> bool) (ds : list (list ndesc)) : list eopt :=
  match ds with
  | [d0; d1; _; _; _; d5; d6; d7] =>
      let bb := count_b is_dst d0 in
      let ba := count_b is_dst d1 in
      (if ba <? bb then [EOFused bb ba (nsum (map d_ops d0))] else [])
      ++ flat_map (fun d => match d with
                            | DSt ids => if forallb safe ids && (1 <? List.length ids)
                                         then [EOReordered (List.length ids) true] else []
                            | _ => []
                            end) d1
      ++ (if desc_eqb d5 d6 then [] else [EOLifted true])
      ++ (let k := List.length d6 - List.length d7 in if 0 <? k then [EODropped k] else [])
  | _ => []
  end.
Definition eopt_eqb (a b : eopt) : bool :=
  match a, b with
  | EOFused x y z, EOFused x' y' z' => Nat.eqb x x' && Nat.eqb y y' && Nat.eqb z z'
  | EOReordered n c, EOReordered n' c' => Nat.eqb n n' && Bool.eqb c c'
  | EOLifted r, EOLifted r' => Bool.eqb r r'
  | EODropped n, EODropped n' => Nat.eqb n n'
  | EOParts l p, EOParts l' p' => onat_eqb l l' && Nat.eqb p p'
  | _, _ => false
  end.
Fixpoint eopts_eqb (a b : list eopt) : bool :=
  match a, b with
  | [], [] => true
  | x :: a', y :: b' => eopt_eqb x y && eopts_eqb a' b'
  | _, _ => false
  end.
(* build_plan: the pass decisions, then PartitionSuggestion iff a partition count is suggested;
   the count depends on the machine: it must equal Auto.suggest_partitions of the reported length
   hint and the core count the harness reports (num_cpus::get()), and be >= 2.
   `first_len` = Some h when the caller knows the length hint h (None = "unknown") of the raw
   chain's first-node Source *)
Definition expl_opts_ok (strict : bool) (safe : nat -> bool) (ds : list (list ndesc))
           (first_is_src : bool) (first_len : option (option nat)) (e : eexplain) : bool :=
  let expected := expl_opts safe ds in
  match ee_suggested e with
  | None =>
      (* nothing suggested: the chain does not start with a Source, or that Source cannot tell its
         length (VecOps::len = None) *)
      (negb first_is_src || match first_len with Some None => true | _ => false end)
      && eopts_eqb expected (ee_opts e)
  | Some p =>
      first_is_src && ((if strict then 2 else 1) <=? p)
      && match rev (ee_opts e) with
         | EOParts (Some n) p' :: r =>
             Nat.eqb p p' && eopts_eqb expected (rev r)
             && match first_len with
                | Some (Some m) => Nat.eqb m n
                | Some None => false
                | None => true
                end
             (* the count is exactly planner.rs's formula of the reported length hint and the
                machine's core count *)
             (* `strict` (the agree side) only: the property asks that explain reports the plan
                that runs, not a particular sizing heuristic *)
             && match ee_cpus e with
                | Some c => negb strict || onat_eqb (suggest_partitions (Some n) c) (Some p)
                | None => true
                end
         | _ => false       (* without a length hint there is no suggestion *)
         end
  end.
(* a bare chain handed to Plan::explain (synthetic cases): nothing suggested, nothing recorded *)
Definition expl_bare_ok (e : eexplain) : bool :=
  onat_eqb (ee_suggested e) None && match ee_opts e with [] => true | _ => false end.

Definition first_is_source (d : list ndesc) : bool :=
  match d with DSrc :: _ => true | _ => false end.
(* explain against one descriptor + operator table *)
Definition expl_chain_ok (cost_of : nat -> nat) (d : list ndesc) (e : eexplain) : bool :=
  expl_steps_ok cost_of 0 d (ee_steps e) && expl_summary_ok d e && summary_source_consistent e.

(* operator tables *)
Definition m_cost (raw : list node) (id : nat) : nat :=
  match nth_error (chain_ops raw) id with Some o => op_cost o | None => 0 end.
Definition m_safe (raw : list node) (id : nat) : bool :=
  match nth_error (chain_ops raw) id with
  | Some o => op_vo o && op_kp o && op_rs o
  | None => false
  end.
Definition o_cost (ois : list opinfo) (id : nat) : nat :=
  match nth_error ois id with Some i => oi_cost i | None => 0 end.
Definition o_safe (ois : list opinfo) (id : nat) : bool :=
  match nth_error ois id with Some i => oi_vo i && oi_kp i && oi_rs i | None => false end.

(* agree: explain says what the model plan determines (incl. every Source's size) *)
Definition explain_agrees (raw : list node) (planned : bool) (e : eexplain) : bool :=
  let ru := map op_uid (chain_ops raw) in
  let mplan := optimise raw in
  let mds := map (map (desc_of ru)) (passes raw) in
  expl_chain_ok (m_cost raw) (map (desc_of ru) mplan) e
  && strs_eqb (map kind_name (explain mplan)) (map es_type (ee_steps e))
  && sizes_ok (model_src_sizes mplan) (stated_sizes (ee_steps e))
  && (if planned
      then expl_opts_ok true (m_safe raw) mds (first_is_source (nth 0 mds []))
                        (match raw with NB (BSource s) :: _ => Some (s_hint s) | _ => None end) e
      else expl_bare_ok e).
(* prop: explain describes the chain that ran (observed descriptor `plan_d`, real operators' hints)
   and the decisions match the passes that changed the observed chain *)
Definition explain_prop (ds : list (list ndesc)) (ois : list opinfo) (plan_d : list ndesc)
           (planned : bool) (e : eexplain) : bool :=
  expl_chain_ok (o_cost ois) plan_d e
  && (if planned
      then expl_opts_ok false (o_safe ois) ds (first_is_source (nth 0 ds []))
                        (match stated_sizes (ee_steps e) with Some n :: _ => Some n | _ => None end) e
      else expl_bare_ok e).

Definition dec_obss (j : J) : option (list obs) :=
  match j with JL l => omap dec_obs l | _ => None end.
Definition dec_descs (j : J) : option (list (list ndesc)) :=
  match j with JL l => omap dec_desc l | _ => None end.
Definition dec_opinfos (j : J) : option (list opinfo) :=
  match j with JL l => omap dec_opinfo l | _ => None end.

(* common part of both kinds: out = ["ok", descs, opinfo, execs, extra] *)
Record common := { cm_agree : bool; cm_struct : bool; cm_reorder_ok : bool; cm_class : bool }.
Definition judge_common (ex : cmp_mode) (term : tag) (raw : list node) (parts : nat)
           (ds : list (list ndesc)) (ois : list opinfo) (os : list obs) : common :=
  let ru := map op_uid (chain_ops raw) in
  let cls := in_reorder_class raw in
  {| cm_agree := descs_agree ru (passes raw) ds && opinfos_agree (chain_ops raw) ois
                 && execs_agree ex term raw parts os;
     cm_struct := struct_legal ds;
     cm_reorder_ok := (no_reorder_raw ds || reorders_alone raw) && (no_reorder_fused ds || cls);
     cm_class := cls |}.

Definition finish (c : common) (agree_extra prop_extra sem : bool) : verdict :=
  let agree := cm_agree c && agree_extra in
  let legal := cm_struct c && cm_reorder_ok c in
  (* known: the chain is in the reorder class and every pass output is a legal rewrite.  (It used
     to require `agree` as well; check.py now reports a disagreement inside a known class by
     itself, and tying the class to `agree` turned any harmless deviation from the model - e.g. a
     different partition-sizing heuristic - into unexcused property failures of the open finding.) *)
  V agree (legal && sem && prop_extra) (cm_class c && legal) false.

(* ------------------------------------------------------------------ synthetic chains *)
Definition dec_tagname (j : J) : option tag :=
  match j with
  | JS t => if tag_is t "u" then Some TU else if tag_is t "kv" then Some TKV
            else if tag_is t "kg" then Some TKG else if tag_is t "kw" then Some TKW
            else if tag_is t "l" then Some TL else None
  | _ => None
  end.

(* the tiny table of operator bodies shared with the harness (custom DynOps, arbitrary flags) *)
Definition dec_opfn (j : J) : option (list val -> option (list val)) :=
  match j with
  | JL [JS t; a] =>
      if tag_is t "map" then option_map (fun f l => Some (map (ef f) l)) (dec_efun a)
      else if tag_is t "filter" then option_map (fun p l => Some (filter (pf p) l)) (dec_pfun a)
      else if tag_is t "mapv" then
        option_map (fun f l => Some (map (on_snd (ef f)) l)) (dec_efun a)
      else if tag_is t "filtv" then
        option_map (fun p l => Some (filter (fun kv => pf p (vsnd kv)) l)) (dec_pfun a)
      else None
  | _ => None
  end.
(* op = [in_tag, out_tag, body, key_preserving, value_only, reorder_safe, cost] *)
Definition dec_op (uid : nat) (j : J) : option dynop :=
  match j with
  | JL [ti; to; k; JB kp; JB vo; JB rs; c] =>
      match dec_tagname ti, dec_tagname to, dec_opfn k, dec_nat c with
      | Some i, Some o, Some fn, Some cost => Some (mk_op i o fn kp vo rs cost uid)
      | _, _, _, _ => None
      end
  | _ => None
  end.
(* An operator item is either a definition (a fresh operator OBJECT; its uid is the number of
   definitions before it) or ["ref", k]: the SAME object as the k-th definition of the chain (a
   clone of that Arc) - same uid, same body, same flags.  `defs` = the definitions so far. *)
Definition dec_op_item (defs : list dynop) (j : J) : option (dynop * list dynop) :=
  match j with
  | JL [JS t; k] =>
      if tag_is t "ref" then
        match dec_nat k with
        | Some n => match nth_error defs n with Some o => Some (o, defs) | None => None end
        | None => None
        end
      else None
  | _ => match dec_op (List.length defs) j with
         | Some o => Some (o, defs ++ [o])
         | None => None
         end
  end.
Fixpoint dec_ops (defs : list dynop) (l : list J) : option (list dynop * list dynop) :=
  match l with
  | [] => Some ([], defs)
  | j :: r =>
      match dec_op_item defs j with
      | Some (o, defs1) =>
          match dec_ops defs1 r with
          | Some (os, defs2) => Some (o :: os, defs2)
          | None => None
          end
      | None => None
      end
  end.

Definition dec_node (defs : list dynop) (j : J) : option (node * list dynop) :=
  match j with
  | JL [JS t] =>
      if tag_is t "gbk" then Some (NB (BGroupByKey TKV TKG), defs) else None
  | JL [JS t; JL ops] =>
      if tag_is t "st" then
        option_map (fun r => (NB (BStateless (fst r)), snd r)) (dec_ops defs ops)
      else None
  | JL [JS t; a; b] =>
      if tag_is t "src" then
        match dec_tagname a, dec_vals b with
        | Some tg, Some rows => Some (NB (BSource (vec_source tg rows)), defs)
        | _, _ => None
        end
      else if tag_is t "mat" then
        match dec_tagname a, dec_vals b with
        | Some tg, Some rows => Some (NB (BMaterialized tg rows), defs)
        | _, _ => None
        end
      else if tag_is t "cv" then
        match dec_cid a, jbool b with
        | Some c, Some lg =>
            Some (NB (BCombineValues (comb_of c) TKV TKG (comb_out_tag c) lg), defs)
        | _, _ => None
        end
      else None
  | JL [JS t; a; b; c] =>
      if tag_is t "cg" then
        match dec_cid a, jbool b, dec_fanout c with
        | Some cd, Some lifted, Some f =>
            Some (NB (BCombineGlobal (comb_of cd) lifted TU (if comb_list_out cd then TL else TU) f),
                  defs)
        | _, _, _ => None
        end
      else None
  | _ => None
  end.
Fixpoint dec_nodes (defs : list dynop) (l : list J) : option (list node) :=
  match l with
  | [] => Some []
  | j :: r =>
      match dec_node defs j with
      | Some (n, defs') => match dec_nodes defs' r with
                           | Some ns => Some (n :: ns)
                           | None => None
                           end
      | None => None
      end
  end.

(* ------------------------------------------------------------------ the judge *)
(* a chain that is the backwalk of a REAL pipeline: additionally build_plan / explain / run_collect *)
Definition judge_planned (ex : cmp_mode) (term : tag) (raw : list node) (parts : nat)
           (ds : list (list ndesc)) (ois : list opinfo) (os : list obs)
           (plan_d : list ndesc) (exp : eexplain) (cs cp : obs) : verdict :=
  let ru := map op_uid (chain_ops raw) in
  let c := judge_common ex term raw parts ds ois os in
  let mplan := optimise raw in
  let agree_extra :=
      desc_eqb (map (desc_of ru) mplan) plan_d
      && explain_agrees raw true exp
      && obs_agree ex (m_seq term mplan) cs
      && obs_agree ex (m_par term mplan parts) cp in
  let prop_extra :=
      (* build_plan = the four passes composed; explain = its kinds; run_collect runs it *)
      desc_eqb plan_d (optimised_desc ds)
      && explain_prop ds ois plan_d true exp
      && match os with
         | [so; _; po; _] => obs_agree ex so cs && obs_agree ex po cp
         | _ => false
         end in
  finish c agree_extra prop_extra (sem_prop ex (fun _ => ex) term raw os []).

Definition check_C03 (kind : string) (input output : J) : verdict :=
  if String.eqb kind "syn" then
    (* in = [term_tag, nodes, partitions];
       out = ["ok", descs, opinfo, execs, [prefix_values, explain node types of the optimised chain]] *)
    match input, output with
    | JL [jt; JL jnodes; jp], JL [JS ok; jd; jo; je; JL [jx; jexp]] =>
        match dec_tagname jt, dec_nodes [] jnodes, dec_nat jp,
              dec_descs jd, dec_opinfos jo, dec_obss je, dec_obss jx, dec_explain jexp,
              omap dec_nkind jnodes with
        | Some term, Some raw, Some parts, Some ds, Some ois, Some os, Some pre, Some exp, Some ks =>
            if tag_is ok "ok" then
              let ex := mode_of_kinds ks in
              let pm := fun i => mode_of_kinds (firstn i ks) in
              let c := judge_common ex term raw parts ds ois os in
              finish c
                     (prefixes_agree pm raw (mid_mats 0 raw) pre
                      && explain_agrees raw false exp)
                     (explain_prop ds ois (optimised_desc ds) false exp)
                     (sem_prop ex pm term raw os pre)
            else malformed
        | _, _, _, _, _, _, _, _, _ => malformed
        end
    | _, _ => malformed
    end
  else if String.eqb kind "prog" then
    (* in = [src, steps, partitions];
       out = ["ok", descs, opinfo, execs, [plan_desc, explain node types, [collect_seq, collect_par]]] *)
    match input, output with
    | JL [js; jst; jp], JL [JS ok; jd; jo; je; JL [jplan; jexp; jcol]] =>
        match dec_src js, dec_steps jst, dec_nat jp,
              dec_descs jd, dec_opinfos jo, dec_obss je with
        | Some s, Some steps, Some parts, Some ds, Some ois, Some os =>
            match dec_desc jplan, dec_explain jexp, dec_obss jcol with
            | Some plan_d, Some exp, Some [cs; cp] =>
                if tag_is ok "ok" then
                  let cst := compile s steps in
                  judge_planned (cmp_of steps) (cs_tag cst) (cs_chain cst) parts ds ois os
                                plan_d exp cs cp
                else malformed
            | _, _, _ => malformed
            end
        | _, _, _, _, _, _ => malformed
        end
    | _, _ => malformed
    end
  else if String.eqb kind "xf" then
    (* a real pipeline built with from_vec + apply_transform (one Stateless node per item, operator
       objects possibly REUSED) + the barrier builders; described like a synthetic chain.
       in = [term_tag, nodes, partitions]; out as for "prog" *)
    match input, output with
    | JL [jt; JL jnodes; jp], JL [JS ok; jd; jo; je; JL [jplan; jexp; jcol]] =>
        match dec_tagname jt, dec_nodes [] jnodes, dec_nat jp,
              dec_descs jd, dec_opinfos jo, dec_obss je, omap dec_nkind jnodes with
        | Some term, Some raw, Some parts, Some ds, Some ois, Some os, Some ks =>
            match dec_desc jplan, dec_explain jexp, dec_obss jcol with
            | Some plan_d, Some exp, Some [cs; cp] =>
                if tag_is ok "ok" then
                  judge_planned (mode_of_kinds ks) term raw parts ds ois os plan_d exp cs cp
                else malformed
            | _, _, _ => malformed
            end
        | _, _, _, _, _, _, _ => malformed
        end
    | _, _ => malformed
    end
  else malformed.
