(* Correspondence for C02 (element-wise pipelines compute the steps as written, in order).
   kind "prog": in = [src, steps, partitions_or_null], out = observed outcome of the REAL pipeline
   (collect_seq for null, collect_par(threads, partitions) otherwise).
   agree : the observed outcome is exactly what the engine model (Lang.run_seq / run_par) predicts;
   prop  : the observed rows are exactly `Denote.denote` of the program (the independent list
           interpretation): no panic, no error, nothing dropped / duplicated / reordered;
   known : the program is in the open known-finding class "C02-reorder" (Canon.reorder_changes). *)
From Coq Require Import List ZArith Bool String.
From IB Require Import Util.J Engine.Val Engine.Lang Engine.Denote Engine.Decode Engine.Canon
     Engine.Sorted.
Import ListNotations.

(* `header` (prepend a marker to every chunk), `rev` and `drop_last` are chunk-sensitive: the list
   interpretation chunks the WHOLE list, which is what a sequential run does; they are admitted in
   sequential cases only (there the result must be exactly `denote`). Everything else must be
   element-wise. *)
Definition c02_step (m : mode) (st : step) : bool :=
  elementwise_step st ||
  match st, m with
  | SMapBatches _ _, MSeq => true
  | SMapValuesBatches _ (BEach _ | BRevChunk), MSeq => true   (* length-preserving only *)
  | _, _ => false
  end.

Definition c02_program (m : mode) (steps : list step) : bool :=
  forallb (c02_step m) steps && try_only_last steps.
Definition is_exactly (s : src) (steps : list step) (o : obs) : bool :=
  match o with OOk rows => rows_eqb rows (denote s steps) | _ => false end.

(* kind "prog"     : in = [src, steps, partitions_or_null]; a trailing try_map is observed as rows
                     VSome v (Ok v) / VNone (Err).
   kind "failfast" : in = [src, steps ending in try_map, null], out = collect_fail_fast: the Ok
                     payloads in order, or ["err","fail_fast", x] iff some element fails, x being
                     the FIRST failing element in order (the harness's error message carries it).
   kind "branch"   : in = [src, prefix, a, b, partitions_or_null]; the handles base = prefix,
                     A = prefix ++ a, B = prefix ++ b are all built first (A before B), then base,
                     B, A are collected in that order; out = [base, B, A].  Each handle must return
                     what ITS OWN steps denote (branches do not interfere). *)
Definition check_C02 (kind : string) (input output : J) : verdict :=
  if String.eqb kind "prog" then
    match dec_prog input, dec_obs output with
    | Some (s, steps, m), Some o =>
        if c02_program m steps then
          V (agree_model m s steps o) (is_exactly s steps o) (reorder_changes s steps) false
        else malformed
    | _, _ => malformed
    end
  else if String.eqb kind "failfast" then
    match dec_prog input, dec_ff output with
    | Some (s, steps, MSeq), Some o =>
        match last_step steps with
        | Some (STryMap f p) =>
            let pre := but_last steps in
            if c02_program MSeq steps then
              (* agree: the model's rows reaching the try_map; prop: the list interpretation's *)
              V (ff_eqb (ff_expected (model_outcome MSeq s pre) f p) o)
                (ff_eqb (ff_expected (OOk (denote s pre)) f p) o)
                (reorder_changes s steps) false
            else malformed
        | _ => malformed
        end
    | _, _ => malformed
    end
  else if String.eqb kind "branch" then
    match dec_branch input, dec_triple output with
    | Some (s, pre, a, b, m), Some (o0, ob, oa) =>
        let sa := pre ++ a in
        let sb := pre ++ b in
        if c02_program m sa && c02_program m sb && negb (existsb is_try sa) && negb (existsb is_try sb) then
          V (agree_model m s pre o0 && agree_model m s sb ob && agree_model m s sa oa)
            (is_exactly s pre o0 && is_exactly s sb ob && is_exactly s sa oa)
            (reorder_changes s pre || reorder_changes s sa || reorder_changes s sb) false
        else malformed
    | _, _ => malformed
    end
  else if String.eqb kind "sorted" then
    (* in = [src, steps, partitions_or_null, which]: the program collected through
       collect_seq_sorted (which = 0, sequential), collect_par_sorted (1) or
       collect_par_sorted_by_key (2; the rows must be pairs).
       agree: the model's plain outcome, sorted by Sorted.sorted_collect;
       prop : the sorted list interpretation - exactly, also for rows with equal keys *)
    match input with
    | JL [js; jst; jm; jw] =>
        match dec_prog (JL [js; jst; jm]), dec_nat jw, dec_obs output with
        | Some (s, steps, m), Some which, Some o =>
            if c02_program m steps && negb (existsb is_try steps) && (which <=? 2)%nat
               && (match which, m with O, MSeq => true | O, _ => false | _, MSeq => false | _, _ => true end)
            then
              let expect :=
                match model_outcome m s steps with
                | OOk rows => OOk (sorted_collect which rows)
                | other => other
                end in
              V (obs_agree CExact expect o)
                (obs_agree CExact (OOk (sorted_collect which (denote s steps))) o)
                (reorder_changes s steps) false
            else malformed
        | _, _, _ => malformed
        end
    | _ => malformed
    end
  else if String.eqb kind "bigprog" then
    (* as "prog", the observed rows replaced by Canon.summary (big inputs) *)
    match dec_prog input, dec_obs output with
    | Some (s, steps, m), Some o =>
        if c02_program m steps && negb (existsb is_try steps) then
          V (big_agree m s steps o)
            (obs_agree CExact (summarise true (OOk (denote s steps))) (observed_summary true o))
            (reorder_changes s steps) false
        else malformed
    | _, _ => malformed
    end
  else malformed.
