(* Correspondence for C02 (element-wise pipelines compute the steps as written, in order).
   kind "prog": in = [src, steps, partitions_or_null], out = observed outcome of the REAL pipeline
   (collect_seq for null, collect_par(threads, partitions) otherwise).
   agree : the observed outcome is exactly what the engine model (Lang.run_seq / run_par) predicts;
   prop  : the observed rows are exactly `Denote.denote` of the program (the independent list
           interpretation): no panic, no error, nothing dropped / duplicated / reordered;
   known : the program is in the open known-finding class "C02-reorder" (Canon.reorder_changes). *)
From Coq Require Import List ZArith Bool String.
From IB Require Import Util.J Engine.Val Engine.Lang Engine.Denote Engine.Decode Engine.Canon.
Import ListNotations.

(* `header` (prepend a marker to every chunk) is chunk-sensitive: the list interpretation chunks
   the WHOLE list, which is what a sequential run does; it is admitted in sequential cases only
   (there the result must be exactly `denote`). Everything else must be element-wise. *)
Definition c02_step (m : mode) (st : step) : bool :=
  elementwise_step st ||
  match st, m with SMapBatches _ BHeader, MSeq => true | _, _ => false end.

Definition check_C02 (kind : string) (input output : J) : verdict :=
  if String.eqb kind "prog" then
    match dec_prog input, dec_obs output with
    | Some (s, steps, m), Some o =>
        if forallb (c02_step m) steps then
          let agree := agree_model m s steps o in
          let prop := match o with
                      | OOk rows => rows_eqb rows (denote s steps)
                      | _ => false
                      end in
          V agree prop (reorder_changes s steps) false
        else malformed
    | _, _ => malformed
    end
  else malformed.
