(* Proofs about Testing/AssertionsMore.v: predicate assertions, size, contains, maps, and the
   linear form of the count comparison. *)
From Coq Require Import List ZArith Bool Arith Lia Permutation.
From IB Require Import Testing.Assertions Testing.AssertionsMore Proofs.AssertionsProofs.
Import ListNotations.

(* ---------- assert_all / assert_any / assert_none ---------- *)
Section Predicates.
  Variable A : Type.
  Variable p : A -> bool.

  Lemma all_forallb : forall l, assert_all p l = forallb p l.
  Proof.
    induction l as [|x l IH]; cbn [assert_all forallb]; [reflexivity|].
    destruct (p x); cbn [andb]; [exact IH|reflexivity].
  Qed.

  Lemma any_existsb : forall l, assert_any p l = existsb p l.
  Proof.
    induction l as [|x l IH]; cbn [assert_any existsb]; [reflexivity|].
    destruct (p x); cbn [orb]; [reflexivity|exact IH].
  Qed.

  Lemma all_iff : forall l, assert_all p l = true <-> Forall (fun x => p x = true) l.
  Proof.
    intros l. rewrite all_forallb, forallb_forall, Forall_forall. reflexivity.
  Qed.

  Lemma any_iff : forall l, assert_any p l = true <-> Exists (fun x => p x = true) l.
  Proof.
    intros l. rewrite any_existsb, existsb_exists, Exists_exists. reflexivity.
  Qed.

  Lemma none_iff : forall l, assert_none p l = true <-> Forall (fun x => p x = false) l.
  Proof.
    induction l as [|x l IH]; cbn [assert_none].
    - split; [constructor|reflexivity].
    - destruct (p x) eqn:Hx.
      + split; [discriminate|]. intros H. inversion H as [|y r Hy Hr]; subst. congruence.
      + rewrite IH. split.
        * intros H. constructor; assumption.
        * intros H. inversion H; subst; assumption.
  Qed.

  Lemma any_none : forall l, assert_any p l = negb (assert_none p l).
  Proof.
    induction l as [|x l IH]; cbn [assert_any assert_none negb]; [reflexivity|].
    destruct (p x); [reflexivity|exact IH].
  Qed.

  Lemma none_all_negb : forall l, assert_none p l = assert_all (fun x => negb (p x)) l.
  Proof.
    induction l as [|x l IH]; cbn [assert_all assert_none]; [reflexivity|].
    destruct (p x); cbn [negb]; [reflexivity|exact IH].
  Qed.

  Lemma all_app : forall l1 l2, assert_all p (l1 ++ l2) = assert_all p l1 && assert_all p l2.
  Proof. intros l1 l2. rewrite !all_forallb. apply forallb_app. Qed.

  (* the outcome does not depend on the order of the collection *)
  Lemma all_perm : forall l l', Permutation l l' -> assert_all p l = assert_all p l'.
  Proof.
    intros l l' H. induction H as [|x l l' _ IH|x y l|l l' l'' _ IH1 _ IH2]; cbn [assert_all].
    - reflexivity.
    - rewrite IH. reflexivity.
    - destruct (p x), (p y); reflexivity.
    - congruence.
  Qed.

  Lemma none_perm : forall l l', Permutation l l' -> assert_none p l = assert_none p l'.
  Proof.
    intros l l' H. induction H as [|x l l' _ IH|x y l|l l' l'' _ IH1 _ IH2]; cbn [assert_none].
    - reflexivity.
    - rewrite IH. reflexivity.
    - destruct (p x), (p y); reflexivity.
    - congruence.
  Qed.

  Lemma any_perm : forall l l', Permutation l l' -> assert_any p l = assert_any p l'.
  Proof. intros l l' H. rewrite !any_none, (none_perm l l' H). reflexivity. Qed.

  (* how far the walk gets *)
  Lemma all_calls_pass : forall l, assert_all p l = true -> calls_all p l = length l.
  Proof.
    induction l as [|x l IH]; cbn [assert_all calls_all length]; [reflexivity|].
    destruct (p x); [|discriminate]. intros H. rewrite (IH H). reflexivity.
  Qed.

  Lemma all_calls_fail : forall l,
      assert_all p l = false ->
      exists l1 x l2, l = l1 ++ x :: l2 /\ Forall (fun y => p y = true) l1 /\ p x = false /\
                      calls_all p l = S (length l1).
  Proof.
    induction l as [|x l IH]; cbn [assert_all calls_all]; [discriminate|].
    destruct (p x) eqn:Hx.
    - intros H. destruct (IH H) as [l1 [y [l2 [Hl [Hall [Hy Hc]]]]]].
      exists (x :: l1), y, l2. cbn [app length]. rewrite Hl at 1. split; [reflexivity|].
      split; [constructor; assumption|]. split; [exact Hy|]. rewrite Hc. reflexivity.
    - intros _. exists [], x, l. cbn [app length]. split; [reflexivity|].
      split; [constructor|]. split; [exact Hx|reflexivity].
  Qed.

  Lemma hit_calls_miss : forall l, assert_any p l = false -> calls_until_hit p l = length l.
  Proof.
    induction l as [|x l IH]; cbn [assert_any calls_until_hit length]; [reflexivity|].
    destruct (p x); [discriminate|]. intros H. rewrite (IH H). reflexivity.
  Qed.

  Lemma hit_calls_hit : forall l,
      assert_any p l = true ->
      exists l1 x l2, l = l1 ++ x :: l2 /\ Forall (fun y => p y = false) l1 /\ p x = true /\
                      calls_until_hit p l = S (length l1).
  Proof.
    induction l as [|x l IH]; cbn [assert_any calls_until_hit]; [discriminate|].
    destruct (p x) eqn:Hx.
    - intros _. exists [], x, l. cbn [app length]. split; [reflexivity|].
      split; [constructor|]. split; [exact Hx|reflexivity].
    - intros H. destruct (IH H) as [l1 [y [l2 [Hl [Hall [Hy Hc]]]]]].
      exists (x :: l1), y, l2. cbn [app length]. rewrite Hl at 1. split; [reflexivity|].
      split; [constructor; assumption|]. split; [exact Hy|]. rewrite Hc. reflexivity.
  Qed.

  Lemma all_calls_spec : forall l,
      (assert_all p l = true -> calls_all p l = length l) /\
      (assert_all p l = false ->
       exists l1 x l2, l = l1 ++ x :: l2 /\ Forall (fun y => p y = true) l1 /\ p x = false /\
                       calls_all p l = S (length l1)).
  Proof. intros l. split; [apply all_calls_pass|apply all_calls_fail]. Qed.

  Lemma hit_calls_spec : forall l,
      (assert_any p l = false -> calls_until_hit p l = length l) /\
      (assert_any p l = true ->
       exists l1 x l2, l = l1 ++ x :: l2 /\ Forall (fun y => p y = false) l1 /\ p x = true /\
                       calls_until_hit p l = S (length l1)).
  Proof. intros l. split; [apply hit_calls_miss|apply hit_calls_hit]. Qed.
End Predicates.

(* ---------- assert_collection_size ---------- *)
Lemma size_iff : forall (A : Type) (l : list A) (n : Z),
    assert_collection_size l n = true <-> Z.of_nat (length l) = n.
Proof.
  intros A l n. unfold assert_collection_size, assert_collection_size_len. apply Z.eqb_eq.
Qed.

Lemma size_len_iff : forall len n : Z, assert_collection_size_len len n = true <-> len = n.
Proof. intros len n. unfold assert_collection_size_len. apply Z.eqb_eq. Qed.

(* ---------- assert_contains ---------- *)
Section Contains.
  Variable A : Type.
  Variable eqb : A -> A -> bool.

  Lemma contains_any : forall l x, assert_contains eqb l x = assert_any (fun y => eqb y x) l.
  Proof.
    intros l x. induction l as [|y l IH]; cbn [assert_contains assert_any]; [reflexivity|].
    rewrite IH. reflexivity.
  Qed.

  (* for any PartialEq whatsoever *)
  Lemma contains_iff_exists : forall l x,
      assert_contains eqb l x = true <-> Exists (fun y => eqb y x = true) l.
  Proof. intros l x. rewrite contains_any. apply any_iff. Qed.

  Hypothesis eqb_spec : forall x y, reflect (x = y) (eqb x y).

  Lemma contains_iff_in : forall l x, assert_contains eqb l x = true <-> In x l.
  Proof.
    intros l x. rewrite contains_iff_exists, Exists_exists. split.
    - intros [y [Hy He]]. destruct (eqb_spec y x) as [->|]; [exact Hy|discriminate].
    - intros Hi. exists x. split; [exact Hi|]. destruct (eqb_spec x x) as [_|Hn]; [reflexivity|].
      exfalso. apply Hn. reflexivity.
  Qed.

  Lemma contains_iff_count : forall (dec : forall x y : A, {x = y} + {x <> y}) l x,
      assert_contains eqb l x = true <-> count_occ dec l x > 0.
  Proof. intros dec l x. rewrite contains_iff_in. apply count_occ_In. Qed.

  Lemma contains_perm : forall l l' x,
      Permutation l l' -> assert_contains eqb l x = assert_contains eqb l' x.
  Proof. intros l l' x H. rewrite !contains_any. apply any_perm. exact H. Qed.
End Contains.

(* ---------- the ordered assertion for an arbitrary PartialEq ---------- *)
Section OrderedAnyEq.
  Variable A : Type.
  Variable eqb : A -> A -> bool.

  Lemma ordered_iff_forall2 : forall a e,
      assert_collections_equal eqb a e = true <-> Forall2 (fun x y => eqb x y = true) a e.
  Proof.
    intros a e. unfold assert_collections_equal. rewrite andb_true_iff, Nat.eqb_eq. split.
    - intros [Hlen Hp]. revert e Hlen Hp.
      induction a as [|x a IH]; intros [|y e] Hlen Hp; cbn [length] in Hlen; try discriminate.
      + constructor.
      + cbn [pairwise_eqb] in Hp. apply andb_true_iff in Hp. destruct Hp as [Hxy Hp].
        constructor; [exact Hxy|]. apply IH; [lia|exact Hp].
    - intros H. induction H as [|x y a e Hxy _ [IHl IHp]]; [split; reflexivity|].
      cbn [length pairwise_eqb]. split; [lia|]. rewrite Hxy, IHp. reflexivity.
  Qed.

  Lemma forall2_diag : forall a b,
      Forall2 (fun x y => eqb x y = true) a b -> a = b -> forall y, In y a -> eqb y y = true.
  Proof.
    intros a b HF. induction HF as [|x y a b Hxy _ IH]; intros Heq z Hz; [destruct Hz|].
    injection Heq as -> ->. destruct Hz as [->|Hz]; [exact Hxy|]. apply IH; [reflexivity|exact Hz].
  Qed.

  (* an element that is not equal to itself (a NaN) makes a collection differ from itself *)
  Lemma ordered_self_irreflexive : forall a x,
      In x a -> eqb x x = false -> assert_collections_equal eqb a a = false.
  Proof.
    intros a x Hin Hx. apply not_true_is_false. intros H. apply ordered_iff_forall2 in H.
    rewrite (forall2_diag a a H eq_refl x Hin) in Hx. discriminate.
  Qed.

  (* slices of zero-sized (or otherwise indistinguishable) elements: only the lengths matter *)
  Lemma ordered_repeat : forall x n m,
      eqb x x = true -> assert_collections_equal eqb (repeat x n) (repeat x m) = Nat.eqb n m.
  Proof.
    intros x n m Hx. unfold assert_collections_equal. rewrite !repeat_length.
    destruct (Nat.eqb n m) eqn:Hnm; [|reflexivity]. apply Nat.eqb_eq in Hnm. subst m.
    cbn [andb]. induction n as [|n IH]; cbn [repeat pairwise_eqb]; [reflexivity|].
    rewrite Hx, IH. reflexivity.
  Qed.
End OrderedAnyEq.

(* ---------- assert_maps_equal ---------- *)
Section Maps.
  Variable K V : Type.
  Variable keqb : K -> K -> bool.
  Variable veqb : V -> V -> bool.
  Hypothesis keqb_spec : forall x y, reflect (x = y) (keqb x y).

  Lemma keqb_refl : forall k, keqb k k = true.
  Proof. intros k. destruct (keqb_spec k k) as [_|Hn]; [reflexivity|exfalso; apply Hn; reflexivity]. Qed.

  Lemma lookup_none : forall k (m : list (K * V)), lookup keqb k m = None <-> ~ In k (map fst m).
  Proof.
    intros k m. induction m as [|[k' v] m IH]; cbn [lookup map fst In].
    - split; [intros _ []|reflexivity].
    - destruct (keqb_spec k k') as [->|Hne].
      + split; [discriminate|]. intros H. exfalso. apply H. left. reflexivity.
      + rewrite IH. split.
        * intros H [He|Hi]; [apply Hne; symmetry; exact He|apply H; exact Hi].
        * intros H Hi. apply H. right. exact Hi.
  Qed.

  Lemma lookup_in : forall k v (m : list (K * V)),
      NoDup (map fst m) -> (lookup keqb k m = Some v <-> In (k, v) m).
  Proof.
    intros k v m. induction m as [|[k' v'] m IH]; intros Hnd; cbn [lookup In].
    - split; [discriminate|intros []].
    - cbn [map fst] in Hnd. apply NoDup_cons_iff in Hnd. destruct Hnd as [Hnin Hnd].
      destruct (keqb_spec k k') as [->|Hne].
      + split.
        * intros H. injection H as ->. left. reflexivity.
        * intros [H|H]; [injection H as ->; reflexivity|].
          exfalso. apply Hnin. apply (in_map fst) in H. exact H.
      + rewrite (IH Hnd). split.
        * intros H. right. exact H.
        * intros [H|H]; [injection H as -> _; exfalso; apply Hne; reflexivity|exact H].
  Qed.

  Lemma lookup_app : forall k (l1 l2 : list (K * V)),
      lookup keqb k (l1 ++ l2) =
      match lookup keqb k l1 with Some v => Some v | None => lookup keqb k l2 end.
  Proof.
    intros k l1 l2. induction l1 as [|[k' v'] l1 IH]; cbn [app lookup]; [reflexivity|].
    destruct (keqb k k'); [reflexivity|exact IH].
  Qed.

  Lemma lookup_insert : forall k v k' (m : list (K * V)),
      lookup keqb k' (insert keqb k v m) = if keqb k' k then Some v else lookup keqb k' m.
  Proof.
    intros k v k' m. induction m as [|[k0 v0] m IH]; cbn [insert lookup].
    - destruct (keqb k' k); reflexivity.
    - destruct (keqb_spec k k0) as [->|Hne]; cbn [lookup].
      + destruct (keqb k' k0); reflexivity.
      + rewrite IH. destruct (keqb_spec k' k0) as [->|Hne'].
        * destruct (keqb_spec k0 k) as [He|_]; [exfalso; apply Hne; symmetry; exact He|reflexivity].
        * reflexivity.
  Qed.

  Lemma in_keys_iff : forall k (m : list (K * V)), In k (map fst m) <-> lookup keqb k m <> None.
  Proof.
    intros k m. split.
    - intros Hi Hn. apply lookup_none in Hn. contradiction.
    - intros Hn. destruct (in_dec (dec_of_reflect K keqb keqb_spec) k (map fst m)) as [Hi|Hni]; [exact Hi|].
      apply lookup_none in Hni. contradiction.
  Qed.

  Lemma insert_keys_in : forall k v k' (m : list (K * V)),
      In k' (map fst (insert keqb k v m)) <-> k' = k \/ In k' (map fst m).
  Proof.
    intros k v k' m. rewrite !in_keys_iff, lookup_insert. destruct (keqb_spec k' k) as [->|Hne].
    - split; [intros _; left; reflexivity|intros _; discriminate].
    - split; [intros H; right; exact H|intros [H|H]; [contradiction|exact H]].
  Qed.

  Lemma insert_nodup : forall k v (m : list (K * V)),
      NoDup (map fst m) -> NoDup (map fst (insert keqb k v m)).
  Proof.
    intros k v m. induction m as [|[k0 v0] m IH]; intros Hnd; cbn [insert].
    - cbn [map fst]. constructor; [intros []|constructor].
    - cbn [map fst] in Hnd. apply NoDup_cons_iff in Hnd. destruct Hnd as [Hnin Hnd].
      destruct (keqb_spec k k0) as [->|Hne]; cbn [map fst].
      + constructor; assumption.
      + constructor; [|apply IH; exact Hnd].
        intros Hi. apply insert_keys_in in Hi. destruct Hi as [Hi|Hi]; [apply Hne; symmetry; exact Hi|contradiction].
  Qed.

  Lemma fold_insert_nodup : forall ins (acc : list (K * V)),
      NoDup (map fst acc) ->
      NoDup (map fst (fold_left (fun m kv => insert keqb (fst kv) (snd kv) m) ins acc)).
  Proof.
    induction ins as [|x ins IH]; intros acc Hnd; cbn [fold_left]; [exact Hnd|].
    apply IH. apply insert_nodup. exact Hnd.
  Qed.

  Lemma map_of_nodup : forall ins : list (K * V), NoDup (map fst (map_of keqb ins)).
  Proof. intros ins. unfold map_of. apply fold_insert_nodup. constructor. Qed.

  Lemma fold_insert_lookup : forall k ins (acc : list (K * V)),
      lookup keqb k (fold_left (fun m kv => insert keqb (fst kv) (snd kv) m) ins acc) =
      match lookup keqb k (rev ins) with Some v => Some v | None => lookup keqb k acc end.
  Proof.
    intros k ins. induction ins as [|[k0 v0] ins IH]; intros acc; cbn [fold_left rev]; [reflexivity|].
    rewrite IH, lookup_app, lookup_insert. cbn [fst snd lookup].
    destruct (lookup keqb k (rev ins)); [reflexivity|]. destruct (keqb k k0); reflexivity.
  Qed.

  (* the last value inserted under a key is the one the map holds *)
  Lemma lookup_map_of : forall k (ins : list (K * V)),
      lookup keqb k (map_of keqb ins) = lookup keqb k (rev ins).
  Proof.
    intros k ins. unfold map_of. rewrite fold_insert_lookup. cbn [lookup].
    destruct (lookup keqb k (rev ins)); reflexivity.
  Qed.

  (* the relation the assertion decides, key by key *)
  Definition entry_rel (oa oe : option V) : Prop :=
    match oa, oe with
    | Some x, Some y => veqb x y = true
    | None, None => True
    | _, _ => False
    end.

  Lemma maps_equal_iff : forall a e : list (K * V),
      NoDup (map fst a) -> NoDup (map fst e) ->
      (assert_maps_equal keqb veqb a e = true <->
       forall k, entry_rel (lookup keqb k a) (lookup keqb k e)).
  Proof.
    intros a e Hnda Hnde. unfold assert_maps_equal.
    rewrite andb_true_iff, Nat.eqb_eq, forallb_forall. split.
    - intros [Hlen Hall].
      assert (Hsub : incl (map fst e) (map fst a)).
      { intros k Hk. apply in_map_iff in Hk. destruct Hk as [[k' ev] [Hk' Hin]]. cbn [fst] in Hk'. subst k'.
        specialize (Hall _ Hin). unfold entry_ok in Hall. cbn [fst snd] in Hall.
        destruct (lookup keqb k a) eqn:Hl; [|discriminate].
        destruct (in_dec (dec_of_reflect K keqb keqb_spec) k (map fst a)) as [Hi|Hn]; [exact Hi|].
        apply lookup_none in Hn. congruence. }
      assert (Hsup : incl (map fst a) (map fst e)).
      { apply NoDup_length_incl; [exact Hnde| |exact Hsub]. rewrite !map_length. lia. }
      intros k. unfold entry_rel. destruct (lookup keqb k e) as [ev|] eqn:He.
      + apply (lookup_in k ev e Hnde) in He. specialize (Hall _ He). unfold entry_ok in Hall.
        cbn [fst snd] in Hall. destruct (lookup keqb k a); [exact Hall|discriminate].
      + destruct (lookup keqb k a) as [av|] eqn:Ha; [|exact I].
        apply lookup_none in He. apply He. apply Hsup.
        apply (lookup_in k av a Hnda) in Ha. apply (in_map fst) in Ha. exact Ha.
    - intros Hrel. split.
      + assert (Hp : Permutation (map fst a) (map fst e)).
        { apply NoDup_Permutation; [exact Hnda|exact Hnde|]. intros k. specialize (Hrel k).
          unfold entry_rel in Hrel.
          destruct (lookup keqb k a) eqn:Ha, (lookup keqb k e) eqn:He; try contradiction.
          - split; intros _.
            + destruct (in_dec (dec_of_reflect K keqb keqb_spec) k (map fst e)) as [Hi|Hn]; [exact Hi|].
              apply lookup_none in Hn. congruence.
            + destruct (in_dec (dec_of_reflect K keqb keqb_spec) k (map fst a)) as [Hi|Hn]; [exact Hi|].
              apply lookup_none in Hn. congruence.
          - apply lookup_none in Ha. apply lookup_none in He. split; intros Hi; contradiction. }
        apply Permutation_length in Hp. rewrite !map_length in Hp. exact Hp.
      + intros [k ev] Hin. unfold entry_ok. cbn [fst snd].
        apply (lookup_in k ev e Hnde) in Hin. specialize (Hrel k). unfold entry_rel in Hrel.
        rewrite Hin in Hrel. destruct (lookup keqb k a); [exact Hrel|contradiction].
  Qed.

  (* the loop over `expected` runs in the HashMap's own order: the outcome does not depend on it,
     nor on the order of `actual` *)
  Lemma lookup_perm : forall k (m m' : list (K * V)),
      NoDup (map fst m) -> Permutation m m' -> lookup keqb k m = lookup keqb k m'.
  Proof.
    intros k m m' Hnd Hp.
    assert (Hnd' : NoDup (map fst m')).
    { eapply Permutation_NoDup; [apply Permutation_map; exact Hp|exact Hnd]. }
    destruct (lookup keqb k m) as [v|] eqn:Hl.
    - symmetry. apply (lookup_in k v m' Hnd'). eapply Permutation_in; [exact Hp|].
      apply (lookup_in k v m Hnd). exact Hl.
    - symmetry. apply lookup_none. apply lookup_none in Hl. intros Hi. apply Hl.
      eapply Permutation_in; [apply Permutation_sym, Permutation_map; exact Hp|exact Hi].
  Qed.

  Lemma maps_equal_perm_invariant : forall a a' e e' : list (K * V),
      NoDup (map fst a) -> NoDup (map fst e) -> Permutation a a' -> Permutation e e' ->
      assert_maps_equal keqb veqb a e = assert_maps_equal keqb veqb a' e'.
  Proof.
    intros a a' e e' Hnda Hnde Hpa Hpe.
    assert (Hnda' : NoDup (map fst a')).
    { eapply Permutation_NoDup; [apply Permutation_map; exact Hpa|exact Hnda]. }
    assert (Hnde' : NoDup (map fst e')).
    { eapply Permutation_NoDup; [apply Permutation_map; exact Hpe|exact Hnde]. }
    apply eq_true_iff_eq.
    rewrite (maps_equal_iff a e Hnda Hnde), (maps_equal_iff a' e' Hnda' Hnde').
    split; intros H k; specialize (H k).
    - rewrite <- (lookup_perm k a a' Hnda Hpa), <- (lookup_perm k e e' Hnde Hpe). exact H.
    - rewrite (lookup_perm k a a' Hnda Hpa), (lookup_perm k e e' Hnde Hpe). exact H.
  Qed.

  (* ----- values with a lawful equality ----- *)
  Hypothesis veqb_spec : forall x y, reflect (x = y) (veqb x y).

  Lemma entry_rel_eq : forall oa oe, entry_rel oa oe <-> oa = oe.
  Proof.
    intros [x|] [y|]; unfold entry_rel.
    - split.
      + intros H. destruct (veqb_spec x y) as [->|]; [reflexivity|discriminate].
      + intros H. injection H as ->.
        destruct (veqb_spec y y) as [_|Hn]; [reflexivity|exfalso; apply Hn; reflexivity].
    - split; [intros []|discriminate].
    - split; [intros []|discriminate].
    - split; [reflexivity|intros _; exact I].
  Qed.

  Lemma maps_equal_iff_lookup : forall a e : list (K * V),
      NoDup (map fst a) -> NoDup (map fst e) ->
      (assert_maps_equal keqb veqb a e = true <-> forall k, lookup keqb k a = lookup keqb k e).
  Proof.
    intros a e Hnda Hnde. rewrite (maps_equal_iff a e Hnda Hnde).
    split; intros H k; apply entry_rel_eq; apply H.
  Qed.

  Lemma nodup_pairs : forall m : list (K * V), NoDup (map fst m) -> NoDup m.
  Proof.
    induction m as [|x m IH]; intros Hnd; [constructor|].
    cbn [map] in Hnd. apply NoDup_cons_iff in Hnd. destruct Hnd as [Hnin Hnd].
    constructor; [|apply IH; exact Hnd]. intros Hi. apply Hnin. apply in_map. exact Hi.
  Qed.

  Lemma maps_equal_iff_perm : forall a e : list (K * V),
      NoDup (map fst a) -> NoDup (map fst e) ->
      (assert_maps_equal keqb veqb a e = true <-> Permutation a e).
  Proof.
    intros a e Hnda Hnde. rewrite (maps_equal_iff_lookup a e Hnda Hnde). split.
    - intros H. apply NoDup_Permutation; [apply nodup_pairs; exact Hnda|apply nodup_pairs; exact Hnde|].
      intros [k v]. rewrite <- (lookup_in k v a Hnda), <- (lookup_in k v e Hnde), (H k). reflexivity.
    - intros Hp k. apply lookup_perm; assumption.
  Qed.

  (* in the words of the property: the same keys, and the same value under every key *)
  Lemma maps_equal_iff_same_keys_values : forall a e : list (K * V),
      NoDup (map fst a) -> NoDup (map fst e) ->
      (assert_maps_equal keqb veqb a e = true <->
       (forall k, In k (map fst a) <-> In k (map fst e)) /\
       (forall k va ve, In (k, va) a -> In (k, ve) e -> va = ve)).
  Proof.
    intros a e Hnda Hnde. rewrite (maps_equal_iff_lookup a e Hnda Hnde). split.
    - intros H. split.
      + intros k. rewrite !in_keys_iff, (H k). reflexivity.
      + intros k va ve Ha He. apply (lookup_in k va a Hnda) in Ha. apply (lookup_in k ve e Hnde) in He.
        rewrite (H k) in Ha. congruence.
    - intros [Hk Hv] k. destruct (lookup keqb k a) as [va|] eqn:Ha.
      + assert (Hia : In (k, va) a) by (apply (lookup_in k va a Hnda); exact Ha).
        destruct (lookup keqb k e) as [ve|] eqn:He.
        * apply (lookup_in k ve e Hnde) in He. rewrite (Hv k va ve Hia He). reflexivity.
        * exfalso. apply lookup_none in He. apply He. apply Hk. apply (in_map fst) in Hia. exact Hia.
      + destruct (lookup keqb k e) as [ve|] eqn:He; [|reflexivity].
        exfalso. apply lookup_none in Ha. apply Ha. apply Hk.
        apply (lookup_in k ve e Hnde) in He. apply (in_map fst) in He. exact He.
  Qed.

  (* maps given by the way they were built *)
  Lemma maps_of_inserts_iff : forall ia ie : list (K * V),
      assert_maps_equal keqb veqb (map_of keqb ia) (map_of keqb ie) = true <->
      forall k, lookup keqb k (rev ia) = lookup keqb k (rev ie).
  Proof.
    intros ia ie. rewrite (maps_equal_iff_lookup _ _ (map_of_nodup ia) (map_of_nodup ie)).
    split; intros H k; specialize (H k); rewrite ?lookup_map_of in *; exact H.
  Qed.

  Lemma maps_reject_extra_key : forall (a e : list (K * V)) k,
      NoDup (map fst a) -> NoDup (map fst e) ->
      In k (map fst a) -> ~ In k (map fst e) -> assert_maps_equal keqb veqb a e = false.
  Proof.
    intros a e k Hnda Hnde Hin Hnin. apply not_true_is_false. intros H.
    apply (maps_equal_iff_same_keys_values a e Hnda Hnde) in H. destruct H as [Hk _].
    apply Hnin. apply Hk. exact Hin.
  Qed.

  Lemma maps_reject_missing_key : forall (a e : list (K * V)) k,
      NoDup (map fst a) -> NoDup (map fst e) ->
      ~ In k (map fst a) -> In k (map fst e) -> assert_maps_equal keqb veqb a e = false.
  Proof.
    intros a e k Hnda Hnde Hnin Hin. apply not_true_is_false. intros H.
    apply (maps_equal_iff_same_keys_values a e Hnda Hnde) in H. destruct H as [Hk _].
    apply Hnin. apply Hk. exact Hin.
  Qed.

  Lemma maps_reject_value : forall (a e : list (K * V)) k va ve,
      NoDup (map fst a) -> NoDup (map fst e) ->
      In (k, va) a -> In (k, ve) e -> va <> ve -> assert_maps_equal keqb veqb a e = false.
  Proof.
    intros a e k va ve Hnda Hnde Ha He Hne. apply not_true_is_false. intros H.
    apply (maps_equal_iff_same_keys_values a e Hnda Hnde) in H. destruct H as [_ Hv].
    apply Hne. apply (Hv k); assumption.
  Qed.
End Maps.

(* ---------- the linear form of the count comparison ---------- *)
Section Fast.
  Variable A : Type.
  Variable eqb : A -> A -> bool.
  Hypothesis eqb_spec : forall x y, reflect (x = y) (eqb x y).

  Lemma mem_in : forall x l, mem eqb x l = true <-> In x l.
  Proof.
    intros x l. induction l as [|y l IH]; cbn [mem In]; [split; [discriminate|intros []]|].
    destruct (eqb_spec x y) as [->|Hne].
    - split; [intros _; left; reflexivity|reflexivity].
    - rewrite IH. split; [intros H; right; exact H|intros [H|H]; [exfalso; apply Hne; symmetry; exact H|exact H]].
  Qed.

  Lemma distinct_acc_in : forall l acc x, In x (distinct_acc eqb acc l) <-> In x acc \/ In x l.
  Proof.
    induction l as [|y l IH]; intros acc x; cbn [distinct_acc In].
    - split; [intros H; left; exact H|intros [H|[]]; exact H].
    - destruct (mem eqb y acc) eqn:Hm; rewrite IH.
      + apply mem_in in Hm. split.
        * intros [H|H]; [left; exact H|right; right; exact H].
        * intros [H|[H|H]]; [left; exact H|subst y; left; exact Hm|right; exact H].
      + cbn [In]. split.
        * intros [[H|H]|H]; [right; left; exact H|left; exact H|right; right; exact H].
        * intros [H|[H|H]]; [left; right; exact H|left; left; exact H|right; exact H].
  Qed.

  Lemma forallb_same_members : forall (f : A -> bool) l1 l2,
      (forall x, In x l1 <-> In x l2) -> forallb f l1 = forallb f l2.
  Proof.
    intros f l1 l2 H. apply eq_true_iff_eq. rewrite !forallb_forall.
    split; intros Hall x Hx; apply Hall; apply H; exact Hx.
  Qed.

  Lemma counts_equal_fast_eq : forall a e, counts_equal_fast eqb a e = counts_equal eqb a e.
  Proof.
    intros a e. unfold counts_equal_fast, counts_equal. apply forallb_same_members.
    intros x. rewrite distinct_acc_in. cbn [In]. split; [intros [[]|H]; exact H|intros H; right; exact H].
  Qed.

  Lemma unordered_fast_eq : forall a e,
      assert_collections_unordered_equal_fast eqb a e = assert_collections_unordered_equal eqb a e.
  Proof.
    intros a e. unfold assert_collections_unordered_equal_fast, assert_collections_unordered_equal.
    rewrite counts_equal_fast_eq. reflexivity.
  Qed.
End Fast.
