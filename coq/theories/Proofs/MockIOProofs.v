(* Proofs about Testing/MockIO.v: the file-content assertions. *)
From Coq Require Import List ZArith Bool Arith Lia.
From IB Require Import Testing.Assertions Testing.MockIO Proofs.AssertionsProofs.
Import ListNotations.

Section Files.
  Variable L R : Type.
  Variable reqb : R -> R -> bool.
  Hypothesis reqb_spec : forall x y, reflect (x = y) (reqb x y).

  Variable blank : L -> bool.
  Variable parse : L -> option R.

  Definition nonblank (l : L) : bool := negb (blank l).

  (* `recs` is what the lines parse to, one record per line *)
  Definition parses_to (lines : list L) (recs : list R) : Prop :=
    Forall2 (fun l x => parse l = Some x) lines recs.

  Lemma read_jsonl_spec : forall lines recs,
      read_jsonl blank parse lines = Some recs <-> parses_to (filter nonblank lines) recs.
  Proof.
    unfold parses_to, nonblank. induction lines as [|l lines IH]; intros recs; cbn [read_jsonl filter].
    - split.
      + intros H. injection H as <-. constructor.
      + intros H. inversion H. reflexivity.
    - destruct (blank l); cbn [negb]; [apply IH|].
      destruct (parse l) as [x|] eqn:Hp.
      + destruct (read_jsonl blank parse lines) as [xs|] eqn:Hr.
        * split.
          -- intros H. injection H as <-. constructor; [exact Hp|]. apply IH. reflexivity.
          -- intros H. inversion H as [|l0 y ls ys Hy Hys]; subst.
             apply IH in Hys. injection Hys as <-. congruence.
        * split; [discriminate|].
          intros H. inversion H as [|l0 y ls ys Hy Hys]; subst. apply IH in Hys. discriminate.
      + split; [discriminate|]. intros H. inversion H as [|l0 y ls ys Hy Hys]; subst. congruence.
  Qed.

  (* blank lines, wherever they are, do not matter *)
  Lemma read_jsonl_skips_blank : forall lines,
      read_jsonl blank parse (filter nonblank lines) = read_jsonl blank parse lines.
  Proof.
    unfold nonblank. induction lines as [|l lines IH]; cbn [filter read_jsonl]; [reflexivity|].
    destruct (blank l) eqn:Hb; cbn [negb]; [exact IH|].
    cbn [read_jsonl]. rewrite Hb, IH. reflexivity.
  Qed.

  Lemma records_iff : forall actual expected,
      assert_records reqb actual expected = true <-> actual = Some expected.
  Proof.
    intros [a|] expected; cbn [assert_records].
    - rewrite (ordered_iff R reqb reqb_spec). split; [intros ->; reflexivity|intros H; injection H as ->; reflexivity].
    - split; discriminate.
  Qed.

  Lemma jsonl_iff : forall lines expected,
      assert_jsonl_equals reqb blank parse (Some lines) expected = true <->
      parses_to (filter nonblank lines) expected.
  Proof.
    intros lines expected. cbn [assert_jsonl_equals]. rewrite records_iff. apply read_jsonl_spec.
  Qed.

  Lemma jsonl_no_file : forall expected,
      assert_jsonl_equals reqb blank parse None expected = false.
  Proof. reflexivity. Qed.

  (* a line that is neither blank nor a record makes the assertion fail, whatever is expected *)
  Lemma jsonl_bad_line : forall lines l expected,
      In l lines -> blank l = false -> parse l = None ->
      assert_jsonl_equals reqb blank parse (Some lines) expected = false.
  Proof.
    intros lines l expected Hin Hb Hp. apply not_true_is_false. intros H. apply jsonl_iff in H.
    assert (Hin' : In l (filter nonblank lines)).
    { apply filter_In. split; [exact Hin|]. unfold nonblank. rewrite Hb. reflexivity. }
    unfold parses_to in H. clear Hin. induction H as [|l0 x ls xs Hx _ IH]; [destruct Hin'|].
    destruct Hin' as [->|Hi]; [congruence|apply IH; exact Hi].
  Qed.

  Lemma jsonl_count : forall lines expected,
      assert_jsonl_equals reqb blank parse (Some lines) expected = true ->
      length (filter nonblank lines) = length expected.
  Proof.
    intros lines expected H. apply jsonl_iff in H. apply (Forall2_same_length _ _ _ H).
  Qed.

  (* ----- CSV ----- *)
  Variable cblank : L -> bool.
  Variable cparse : L -> L -> option R.
  Definition cnonblank (l : L) : bool := negb (cblank l).

  Lemma parse_rows_spec : forall h rows recs,
      parse_rows cparse h rows = Some recs <-> Forall2 (fun l x => cparse h l = Some x) rows recs.
  Proof.
    intros h. induction rows as [|l rows IH]; intros recs; cbn [parse_rows].
    - split.
      + intros H. injection H as <-. constructor.
      + intros H. inversion H. reflexivity.
    - destruct (cparse h l) as [x|] eqn:Hp.
      + destruct (parse_rows cparse h rows) as [xs|] eqn:Hr.
        * split.
          -- intros H. injection H as <-. constructor; [exact Hp|]. apply IH. reflexivity.
          -- intros H. inversion H as [|l0 y ls ys Hy Hys]; subst.
             apply IH in Hys. injection Hys as <-. congruence.
        * split; [discriminate|].
          intros H. inversion H as [|l0 y ls ys Hy Hys]; subst. apply IH in Hys. discriminate.
      + split; [discriminate|]. intros H. inversion H as [|l0 y ls ys Hy Hys]; subst. congruence.
  Qed.

  (* the first non-empty row is the header and is never compared; the rest must be the expected
     records, deserialized against that header *)
  Lemma csv_iff : forall lines expected,
      assert_csv_equals reqb cblank cparse (Some lines) expected = true <->
      match filter cnonblank lines with
      | [] => expected = []
      | h :: rows => Forall2 (fun l x => cparse h l = Some x) rows expected
      end.
  Proof.
    intros lines expected. cbn [assert_csv_equals]. rewrite records_iff. unfold read_csv, cnonblank.
    destruct (filter (fun l => negb (cblank l)) lines) as [|h rows].
    - split; [intros H; injection H as <-; reflexivity|intros ->; reflexivity].
    - apply parse_rows_spec.
  Qed.

  Lemma csv_no_file : forall expected,
      assert_csv_equals reqb cblank cparse None expected = false.
  Proof. reflexivity. Qed.

  (* ----- written by mock_*_file, read back by assert_*_equals ----- *)
  Variable print : R -> L.
  Variable header : L.

  Lemma jsonl_roundtrip :
    (forall x, parse (print x) = Some x) -> (forall x, blank (print x) = false) ->
    forall data expected,
      assert_jsonl_equals reqb blank parse (Some (mock_jsonl_file print data)) expected = true <->
      data = expected.
  Proof.
    intros Hpp Hnb data expected. rewrite jsonl_iff. unfold mock_jsonl_file, parses_to.
    assert (Hf : filter nonblank (map print data) = map print data).
    { induction data as [|x data IH]; cbn [map filter]; [reflexivity|].
      unfold nonblank at 1. rewrite Hnb. cbn [negb]. rewrite IH. reflexivity. }
    rewrite Hf. clear Hf. revert expected. induction data as [|x data IH]; intros expected; cbn [map].
    - split; [intros H; inversion H; reflexivity|intros <-; constructor].
    - split.
      + intros H. inversion H as [|l0 y ls ys Hy Hys]; subst. rewrite Hpp in Hy. injection Hy as ->.
        f_equal. apply IH. exact Hys.
      + intros <-. constructor; [apply Hpp|]. apply IH. reflexivity.
  Qed.

  Lemma csv_roundtrip :
    (forall x, cparse header (print x) = Some x) -> cblank header = false ->
    (forall x, cblank (print x) = false) ->
    forall data expected with_header,
      assert_csv_equals reqb cblank cparse (Some (mock_csv_file print header data with_header)) expected = true <->
      data = expected.
  Proof.
    intros Hpp Hh Hnb data expected wh. rewrite csv_iff. unfold mock_csv_file.
    destruct data as [|d data]; cbn [filter].
    - split; intros H; symmetry; exact H.
    - unfold cnonblank at 1. rewrite Hh. cbn [negb].
      assert (Hf : filter cnonblank (map print (d :: data)) = map print (d :: data)).
      { generalize (d :: data) as l. induction l as [|x l IH]; cbn [map filter]; [reflexivity|].
        unfold cnonblank at 1. rewrite Hnb. cbn [negb]. rewrite IH. reflexivity. }
      rewrite Hf. clear Hf. generalize (d :: data) as l. clear d data. intros l. revert expected.
      induction l as [|x l IH]; intros expected; cbn [map].
      + split; [intros H; inversion H; reflexivity|intros <-; constructor].
      + split.
        * intros H. inversion H as [|l0 y ls ys Hy Hys]; subst. rewrite Hpp in Hy. injection Hy as ->.
          f_equal. apply IH. exact Hys.
        * intros <-. constructor; [apply Hpp|]. apply IH. reflexivity.
  Qed.

  (* a CSV file without a header row loses its first record to the reader *)
  Lemma csv_headerless_loses_first : forall x data expected,
      (forall y, cblank (print y) = false) ->
      (assert_csv_equals reqb cblank cparse (Some (map print (x :: data))) expected = true <->
       Forall2 (fun l y => cparse (print x) l = Some y) (map print data) expected).
  Proof.
    intros x data expected Hnb. rewrite csv_iff. cbn [map filter]. unfold cnonblank at 1.
    rewrite Hnb. cbn [negb].
    assert (Hf : filter cnonblank (map print data) = map print data).
    { induction data as [|y l IH]; cbn [map filter]; [reflexivity|].
      unfold cnonblank at 1. rewrite Hnb. cbn [negb]. rewrite IH. reflexivity. }
    rewrite Hf. reflexivity.
  Qed.
End Files.
