(* The key-sorted (key, value) assertion for value types that only have a PartialEq (no law
   assumed for ==, not even reflexivity): acceptance means the rows pair off one-to-one with equal
   keys and `expected value == actual value`. *)
From Coq Require Import List ZArith Bool Arith Lia Permutation.
From IB Require Import Testing.Assertions Proofs.AssertionsProofs.
Import ListNotations.

Section KvAnyEq.
  Variable V : Type.
  Variable veqb : V -> V -> bool.

  (* x is a row of `actual`, y the row of `expected` it is matched with *)
  Definition row_rel (x y : Z * V) : Prop := fst x = fst y /\ veqb (snd y) (snd x) = true.

  Lemma find_unused_pick : forall ak av run used o,
      find_unused veqb ak av run used = Some o ->
      exists v, veqb v av = true /\
                Permutation (unused V run used) ((ak, v) :: unused V run (set_used o used)).
  Proof.
    intros ak av run. induction run as [|[k v] run IH]; intros used o Hf; [discriminate|].
    destruct used as [|u used]; [discriminate|]. cbn [find_unused] in Hf.
    assert (Hrec : forall o', find_unused veqb ak av run used = Some o' ->
              exists v', veqb v' av = true /\
                Permutation (unused V ((k, v) :: run) (u :: used))
                            ((ak, v') :: unused V ((k, v) :: run) (set_used (S o') (u :: used)))).
    { intros o' Ho'. destruct (IH used o' Ho') as [v' [Hv' Hp]]. exists v'. split; [exact Hv'|].
      cbn [unused set_used]. destruct u; [exact Hp|].
      eapply Permutation_trans; [|apply perm_swap]. constructor. exact Hp. }
    destruct u; cbn [negb andb] in Hf.
    - destruct (find_unused veqb ak av run used) as [o'|] eqn:Hr; [|discriminate].
      injection Hf as <-. apply Hrec. reflexivity.
    - destruct (Z.eqb_spec k ak) as [Hk|Hk]; cbn [andb] in Hf.
      + destruct (veqb v av) eqn:Hv.
        * injection Hf as <-. subst k. exists v. split; [exact Hv|].
          cbn [unused set_used]. apply Permutation_refl.
        * destruct (find_unused veqb ak av run used) as [o'|] eqn:Hr; [|discriminate].
          injection Hf as <-. apply Hrec. reflexivity.
      + destruct (find_unused veqb ak av run used) as [o'|] eqn:Hr; [|discriminate].
        injection Hf as <-. apply Hrec. reflexivity.
  Qed.

  Lemma match_run_sound_any : forall arun erun used,
      match_run veqb arun erun used = true ->
      exists picks rest, Forall2 row_rel arun picks /\ Permutation (unused V erun used) (picks ++ rest).
  Proof.
    induction arun as [|[ak av] arun IH]; intros erun used Hm; cbn [match_run] in Hm.
    - exists [], (unused V erun used). split; [constructor|apply Permutation_refl].
    - destruct (find_unused veqb ak av erun used) as [o|] eqn:Hf; [|discriminate].
      destruct (find_unused_pick _ _ _ _ _ Hf) as [v [Hv Hp]].
      destruct (IH erun (set_used o used) Hm) as [picks [rest [HF Hp']]].
      exists ((ak, v) :: picks), rest. split.
      + constructor; [split; [reflexivity|exact Hv]|exact HF].
      + eapply Permutation_trans; [exact Hp|]. cbn [app]. constructor. exact Hp'.
  Qed.

  Lemma match_run_fresh_sound_any : forall arun erun n,
      length arun = n -> length erun = n ->
      match_run veqb arun erun (repeat false n) = true ->
      exists picks, Forall2 row_rel arun picks /\ Permutation erun picks.
  Proof.
    intros arun erun n Ha He Hm.
    destruct (match_run_sound_any _ _ _ Hm) as [picks [rest [HF Hp]]].
    rewrite unused_fresh in Hp by lia.
    assert (Hl := Permutation_length Hp). rewrite app_length in Hl.
    assert (Hlp := Forall2_same_length _ _ _ HF).
    destruct rest as [|r rest]; [|cbn [length] in Hl; lia].
    rewrite app_nil_r in Hp. exists picks. split; assumption.
  Qed.

  Lemma match_runs_sound_any : forall fuel a e,
      length a = length e -> match_runs veqb fuel a e = true ->
      exists e', Permutation e e' /\ Forall2 row_rel a e'.
  Proof.
    induction fuel as [|fuel IH]; intros a e Hlen Hm; cbn [match_runs] in Hm.
    - destruct a; [|discriminate]. destruct e; [|discriminate]. exists []. split; constructor.
    - destruct a as [|[k v] a'].
      { destruct e; [|discriminate]. exists []. split; constructor. }
      set (n := S (run_len k a')) in *. apply andb_true_iff in Hm. destruct Hm as [Hrun Hrest].
      assert (Hn : n <= length ((k, v) :: a')).
      { unfold n. cbn [length]. pose proof (run_len_le V k a'). lia. }
      apply (match_run_fresh_sound_any _ _ n) in Hrun;
        [|rewrite firstn_length; lia|rewrite firstn_length; lia].
      destruct Hrun as [p1 [HF1 Hp1]].
      apply IH in Hrest; [|rewrite !skipn_length; lia]. destruct Hrest as [p2 [Hp2 HF2]].
      exists (p1 ++ p2). split.
      + rewrite <- (firstn_skipn n e) at 1. apply Permutation_app; assumption.
      + rewrite <- (firstn_skipn n ((k, v) :: a')). apply Forall2_app; assumption.
  Qed.

  Lemma kv_sound_any_eq : forall a e : list (Z * V),
      assert_kv_collections_equal veqb a e = true ->
      exists a' e', Permutation a a' /\ Permutation e e' /\ Forall2 row_rel a' e'.
  Proof.
    intros a e H. unfold assert_kv_collections_equal in H.
    apply andb_true_iff in H. destruct H as [Hlen Hm]. apply Nat.eqb_eq in Hlen.
    destruct (match_runs_sound_any _ _ _ Hlen Hm) as [e' [Hp HF]].
    exists (sort_by_key a), e'. split; [apply Permutation_sym, sort_by_key_perm|].
    split; [|exact HF].
    eapply Permutation_trans; [apply Permutation_sym, sort_by_key_perm|exact Hp].
  Qed.

  (* a row whose value is == to no value at all (a NaN) is never accepted *)
  Lemma kv_rejects_unmatchable : forall (a e : list (Z * V)) k v,
      In (k, v) a -> (forall w, veqb w v = false) -> assert_kv_collections_equal veqb a e = false.
  Proof.
    intros a e k v Hin Hno. apply not_true_is_false. intros H.
    destruct (kv_sound_any_eq a e H) as [a' [e' [Hpa [_ HF]]]].
    assert (Hin' : In (k, v) a') by (eapply Permutation_in; eassumption).
    clear - Hin' HF Hno. induction HF as [|x y a' e' [_ Hv] _ IH]; [destruct Hin'|].
    destruct Hin' as [->|Hi]; [cbn [snd] in Hv; rewrite Hno in Hv; discriminate|apply IH; exact Hi].
  Qed.
End KvAnyEq.
