(* C02, declarative consequences of `sem_ops`: an element-wise chain acts element by element
   (it is ONE flat_map), commutes with concatenation (hence with any partitioning), chains of maps
   are positional, chains of filters select a subsequence that does not depend on the order in
   which the filters were written. Used by Props/C02.v. *)
From Coq Require Import List ZArith Bool Arith Permutation Lia.
From IB Require Import Engine.Val Engine.Ops Engine.Static Proofs.EngineElementwise.
Import ListNotations.
Local Close Scope Z_scope.

(* ---------------- 1. the chain is one flat_map ---------------- *)

Lemma sem_ops_pointwise : forall ops l,
    Forall ew ops -> sem_ops ops l = flat_map (fun x => sem_ops ops [x]) l.
Proof.
  intros ops l H. induction l as [|x l IH]; cbn [flat_map].
  - apply sem_ops_nil_data. exact H.
  - change (x :: l) with ([x] ++ l). rewrite sem_ops_app_data by exact H.
    rewrite IH. reflexivity.
Qed.

Lemma sem_ops_is_flat_map : forall ops,
    Forall ew ops -> exists g : val -> list val, forall l, sem_ops ops l = flat_map g l.
Proof.
  intros ops H. exists (fun x => sem_ops ops [x]). intros l. apply sem_ops_pointwise. exact H.
Qed.

(* the function is determined by the chain: any g that works is x |-> sem_ops ops [x] *)
Lemma sem_ops_flat_map_unique : forall ops (g : val -> list val),
    (forall l, sem_ops ops l = flat_map g l) -> forall x, g x = sem_ops ops [x].
Proof.
  intros ops g H x. rewrite H. cbn [flat_map]. rewrite app_nil_r. reflexivity.
Qed.

Lemma flat_map_flat_map : forall (A B C : Type) (f : A -> list B) (g : B -> list C) l,
    flat_map g (flat_map f l) = flat_map (fun x => flat_map g (f x)) l.
Proof.
  intros A B C f g l. induction l as [|x l IH]; cbn [flat_map]; [reflexivity|].
  rewrite flat_map_app, IH. reflexivity.
Qed.

(* with the per-operator functions named: the chain is the flat_map of their Kleisli composition
   in written order *)
Lemma ew_fn_ew : forall ops gs, Forall2 ew_fn ops gs -> Forall ew ops.
Proof.
  intros ops gs H. induction H as [|o g ops gs Ho Hr IH]; constructor; [|exact IH].
  exists g. exact Ho.
Qed.

Lemma sem_ops_fold_fns : forall ops gs,
    Forall2 ew_fn ops gs ->
    forall l, sem_ops ops l = fold_left (fun acc g => flat_map g acc) gs l.
Proof.
  intros ops gs H. induction H as [|o g ops gs Ho Hr IH]; intros l; [reflexivity|].
  rewrite sem_ops_cons. unfold step_list. rewrite (Ho l). cbn [fold_left]. apply IH.
Qed.

Lemma sem_ops_flat_map_compose : forall ops gs,
    Forall2 ew_fn ops gs ->
    forall l, sem_ops ops l
              = flat_map (fun x => fold_left (fun acc g => flat_map g acc) gs [x]) l.
Proof.
  intros ops gs H l. rewrite (sem_ops_pointwise ops l (ew_fn_ew ops gs H)).
  apply flat_map_ext. intros x. apply sem_ops_fold_fns. exact H.
Qed.

(* ---------------- 2. concatenation / partitioning ---------------- *)

Lemma sem_ops_app_nil : forall ops,
    Forall ew ops ->
    (forall l1 l2, sem_ops ops (l1 ++ l2) = sem_ops ops l1 ++ sem_ops ops l2) /\
    sem_ops ops [] = [].
Proof.
  intros ops H. split.
  - intros l1 l2. apply sem_ops_app_data. exact H.
  - apply sem_ops_nil_data. exact H.
Qed.

Lemma sem_ops_any_partitioning : forall ops l parts,
    Forall ew ops -> concat parts = l -> concat (map (sem_ops ops) parts) = sem_ops ops l.
Proof. intros ops l parts H E. subst l. apply sem_ops_concat. exact H. Qed.

(* ---------------- 3. chains of maps are positional ---------------- *)

Lemma sem_ops_maps : forall ops (fs : list (val -> val)),
    Forall2 (fun o f => forall l, op_fn o l = Some (map f l)) ops fs ->
    forall l, sem_ops ops l = map (fun x => fold_left (fun acc f => f acc) fs x) l.
Proof.
  intros ops fs H. induction H as [|o f ops fs Ho Hr IH]; intros l.
  - cbn [fold_left sem_ops]. symmetry. apply map_id.
  - rewrite sem_ops_cons. unfold step_list. rewrite (Ho l). rewrite IH, map_map. reflexivity.
Qed.

Lemma sem_ops_maps_positional : forall ops (fs : list (val -> val)),
    Forall2 (fun o f => forall l, op_fn o l = Some (map f l)) ops fs ->
    forall l,
      sem_ops ops l = map (fun x => fold_left (fun acc f => f acc) fs x) l /\
      length (sem_ops ops l) = length l /\
      forall i, nth_error (sem_ops ops l) i
                = option_map (fun x => fold_left (fun acc f => f acc) fs x) (nth_error l i).
Proof.
  intros ops fs H l. pose proof (sem_ops_maps ops fs H l) as E. split; [exact E|]. split.
  - rewrite E. apply map_length.
  - intros i. rewrite E. apply nth_error_map.
Qed.

Lemma maps_are_ew : forall ops (fs : list (val -> val)),
    Forall2 (fun o f => forall l, op_fn o l = Some (map f l)) ops fs -> Forall ew ops.
Proof.
  intros ops fs H. induction H as [|o f ops fs Ho Hr IH]; constructor; [|exact IH].
  exists (fun x => [f x]). intros l. rewrite Ho, map_as_flat_map. reflexivity.
Qed.

(* ---------------- 4. chains of filters select a subsequence ---------------- *)

Lemma filter_filter : forall (A : Type) (p q : A -> bool) l,
    filter q (filter p l) = filter (fun x => p x && q x) l.
Proof.
  intros A p q l. induction l as [|x l IH]; cbn [filter]; [reflexivity|].
  destruct (p x); cbn [filter andb]; [|exact IH]. rewrite IH. reflexivity.
Qed.

Lemma filter_true : forall (A : Type) (l : list A), filter (fun _ => true) l = l.
Proof. intros A l. induction l as [|x l IH]; cbn [filter]; [reflexivity|]. rewrite IH. reflexivity. Qed.

Lemma filter_length_le_local : forall (A : Type) (p : A -> bool) l,
    length (filter p l) <= length l.
Proof.
  intros A p l. induction l as [|x l IH]; cbn [filter length]; [lia|].
  destruct (p x); cbn [length]; lia.
Qed.

Lemma sem_ops_filters : forall ops (ps : list (val -> bool)),
    Forall2 (fun o p => forall l, op_fn o l = Some (filter p l)) ops ps ->
    forall l, sem_ops ops l = filter (fun x => forallb (fun p => p x) ps) l.
Proof.
  intros ops ps H. induction H as [|o p ops ps Ho Hr IH]; intros l.
  - cbn [forallb sem_ops]. symmetry. apply filter_true.
  - rewrite sem_ops_cons. unfold step_list. rewrite (Ho l). rewrite IH, filter_filter.
    reflexivity.
Qed.

Lemma forallb_perm : forall (A : Type) (f : A -> bool) l l',
    Permutation l l' -> forallb f l = forallb f l'.
Proof.
  intros A f l l' H. induction H; cbn [forallb].
  - reflexivity.
  - rewrite IHPermutation. reflexivity.
  - destruct (f x), (f y); reflexivity.
  - rewrite IHPermutation1. exact IHPermutation2.
Qed.

(* the selected elements keep their original relative order and multiplicity: the result is the
   input with some positions erased (an explicit keep/erase mask), nothing else *)
Fixpoint mask_select (A : Type) (m : list bool) (l : list A) : list A :=
  match m, l with
  | b :: m', x :: l' => if b then x :: mask_select A m' l' else mask_select A m' l'
  | _, _ => []
  end.

Lemma filter_is_mask : forall (A : Type) (p : A -> bool) l,
    filter p l = mask_select A (map p l) l.
Proof.
  intros A p l. induction l as [|x l IH]; cbn [filter map mask_select]; [reflexivity|].
  rewrite IH. reflexivity.
Qed.

Lemma sem_ops_filters_subsequence : forall ops (ps : list (val -> bool)),
    Forall2 (fun o p => forall l, op_fn o l = Some (filter p l)) ops ps ->
    forall l,
      sem_ops ops l = filter (fun x => forallb (fun p => p x) ps) l /\
      (forall x, In x (sem_ops ops l) <-> In x l /\ forall p, In p ps -> p x = true) /\
      length (sem_ops ops l) <= length l /\
      exists mask, length mask = length l /\ sem_ops ops l = mask_select val mask l.
Proof.
  intros ops ps H l. pose proof (sem_ops_filters ops ps H l) as E. split; [exact E|].
  split; [|split].
  - intros x. rewrite E, filter_In, forallb_forall. reflexivity.
  - rewrite E. apply filter_length_le_local.
  - exists (map (fun x => forallb (fun p => p x) ps) l). split; [apply map_length|].
    rewrite E. apply filter_is_mask.
Qed.

Lemma sem_ops_filters_order_irrelevant : forall ops ops' (ps ps' : list (val -> bool)),
    Forall2 (fun o p => forall l, op_fn o l = Some (filter p l)) ops ps ->
    Forall2 (fun o p => forall l, op_fn o l = Some (filter p l)) ops' ps' ->
    Permutation ps ps' ->
    forall l, sem_ops ops l = sem_ops ops' l.
Proof.
  intros ops ops' ps ps' H H' P l.
  rewrite (sem_ops_filters ops ps H), (sem_ops_filters ops' ps' H').
  apply filter_ext. intros x. apply forallb_perm. exact P.
Qed.

Lemma filters_are_ew : forall ops (ps : list (val -> bool)),
    Forall2 (fun o p => forall l, op_fn o l = Some (filter p l)) ops ps -> Forall ew ops.
Proof.
  intros ops ps H. induction H as [|o p ops ps Ho Hr IH]; constructor; [|exact IH].
  exists (fun x => if p x then [x] else []). intros l. rewrite Ho, filter_as_flat_map.
  reflexivity.
Qed.

(* the library's constructors have these shapes *)
Lemma op_map_is_map : forall i o f uid l, op_fn (op_map i o f uid) l = Some (map f l).
Proof. reflexivity. Qed.
Lemma op_map_values_is_map : forall i o f uid l,
    op_fn (op_map_values i o f uid) l = Some (map (on_snd f) l).
Proof. reflexivity. Qed.
Lemma op_filter_is_filter : forall i p uid l, op_fn (op_filter i p uid) l = Some (filter p l).
Proof. reflexivity. Qed.
Lemma op_filter_values_is_filter : forall i p uid l,
    op_fn (op_filter_values i p uid) l = Some (filter (fun kv => p (vsnd kv)) l).
Proof. reflexivity. Qed.
