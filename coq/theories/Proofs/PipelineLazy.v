(* C08 proofs, part 4: the state machine commutes with any renaming of the function names. *)
From Coq Require Import List Arith Bool Lia.
From IB Require Import Pipeline.Graph Pipeline.History Pipeline.Rename.
Import ListNotations.

Section PL.
  Variables V F G F' G' : Type.
  Variable phi : F -> F'.
  Variable psi : G -> G'.
  Notation mnode := (map_node (V:=V) phi psi).
  Notation mnodes := (map_nodes (V:=V) phi psi).
  Notation mstate := (map_state (V:=V) phi psi).
  Notation mhandle := (map_handle (V:=V) phi psi).
  Notation mlineage := (map_lineage (V:=V) phi psi).
  Notation mplan := (map_plan (V:=V) phi psi).
  Notation mts := (map_tstate (V:=V) phi psi).
  Notation mevent := (map_event (V:=V) phi psi).
  Notation mlabel := (map_label (V:=V) phi psi).

  Lemma lookup_map : forall (m : list (nat * node V F G)) i,
      lookup i (mnodes m) = option_map mnode (lookup i m).
  Proof.
    induction m as [|[k n] m IH]; intros i; cbn; [reflexivity|].
    destruct (k =? i); [reflexivity|apply IH].
  Qed.

  Lemma remove_map : forall (m : list (nat * node V F G)) i,
      remove_key i (mnodes m) = mnodes (remove_key i m).
  Proof.
    induction m as [|[k n] m IH]; intros i; cbn; [reflexivity|].
    destruct (k =? i); cbn; now rewrite IH.
  Qed.

  Lemma backwalk_map : forall fuel (ns : list (nat * node V F G)) es cur acc,
      backwalk fuel (mnodes ns) es cur (map mnode acc) = mplan (backwalk fuel ns es cur acc).
  Proof.
    induction fuel as [|fuel IH]; intros ns es cur acc; cbn [backwalk]; [reflexivity|].
    rewrite lookup_map. destruct (lookup cur ns) as [n|]; cbn [option_map]; [|reflexivity].
    destruct (pred_of es cur) as [from|]; [|reflexivity].
    rewrite remove_map. change (mnode n :: map mnode acc) with (map mnode (n :: acc)). apply IH.
  Qed.

  Lemma chain_from_map : forall (s : state V F G) i,
      chain_from (snapshot (mstate s)) i = mplan (chain_from (snapshot s) i).
  Proof.
    intros s i. unfold chain_from, snapshot, map_state. cbn [fst snd nodes edges].
    unfold map_nodes at 1. rewrite map_length.
    change (@nil (node V F' G')) with (map mnode []). apply backwalk_map.
  Qed.

  Lemma nth_error_map_handle : forall (pool : list (handle V F G)) p,
      nth_error (map mhandle pool) p = option_map mhandle (nth_error pool p).
  Proof. intros. apply nth_error_map. Qed.

  (* one atomic step of one thread *)
  Lemma tstep_map : forall t (s : state V F G) pool ts oc,
      tstep t (mstate s) (map mhandle pool) (mts ts) (option_map (map_call phi psi) oc) =
      option_map (map_tresult phi psi) (tstep t s pool ts oc).
  Proof.
    intros t s pool ts oc.
    destruct ts as [|p|]; destruct oc as [c|]; cbn [tstep map_tstate option_map]; try reflexivity.
    - destruct c as [d|f pi|g li ri|xi]; cbn [start_call map_call].
      + reflexivity.
      + rewrite nth_error_map_handle. destruct (nth_error pool pi); reflexivity.
      + rewrite !nth_error_map_handle.
        destruct (nth_error pool li) as [lh|]; cbn [option_map]; [|reflexivity].
        destruct (nth_error pool ri) as [rh|]; cbn [option_map]; [|reflexivity].
        cbn [map_handle h_id]. rewrite chain_from_map.
        destruct (chain_from (snapshot s) (h_id lh)); reflexivity.
      + rewrite nth_error_map_handle. destruct (nth_error pool xi); reflexivity.
    - destruct p; cbn [continue_call map_pc map_handle h_id h_lin]; try reflexivity.
      + rewrite chain_from_map. destruct (chain_from (snapshot s) (h_id r)); reflexivity.
      + rewrite chain_from_map. reflexivity.
  Qed.

  Definition related (c : config V F G) (c' : config V F' G') : Prop :=
    c_state c' = mstate (c_state c) /\
    c_pool c' = map mhandle (c_pool c) /\
    forall t, c_threads c' t = mts (c_threads c t).

  Lemma cstep_map : forall (c : config V F G) c2 l c1 evs,
      related c c2 -> cstep c l = Some (c1, evs) ->
      exists c2', cstep c2 (mlabel l) = Some (c2', map mevent evs) /\ related c1 c2'.
  Proof.
    intros c c2 [t oc] c1 evs (Rs & Rp & Rt) Hs. unfold cstep in *. unfold map_label. cbn [fst snd].
    rewrite Rs, Rp, Rt, tstep_map.
    destruct (tstep t (c_state c) (c_pool c) (c_threads c t) oc) as [[[[s' ts'] oh] e]|];
      [|discriminate].
    inversion Hs; subst; clear Hs. cbn [option_map map_tresult].
    eexists. split; [reflexivity|]. repeat split; cbn [c_state c_pool c_threads].
    - destruct oh; cbn [option_map]; [|reflexivity]. now rewrite map_app.
    - intros u. unfold set_thread. destruct (u =? t); [reflexivity|apply Rt].
  Qed.

  Lemma run_map : forall ls (c : config V F G) c2 c1 evs,
      related c c2 -> run c ls = Some (c1, evs) ->
      exists c2', run c2 (map mlabel ls) = Some (c2', map mevent evs) /\ related c1 c2'.
  Proof.
    induction ls as [|l ls IH]; intros c c2 c1 evs R Hr; cbn [run map] in *.
    - inversion Hr; subst. exists c2. split; [reflexivity|exact R].
    - destruct (cstep c l) as [[ca ea]|] eqn:Es; [|discriminate].
      destruct (run ca ls) as [[cb eb]|] eqn:Er; [|discriminate].
      inversion Hr; subst; clear Hr.
      destruct (cstep_map _ _ _ _ _ R Es) as (ca' & Es' & Ra).
      destruct (IH _ _ _ _ Ra Er) as (cb' & Er' & Rb).
      exists cb'. rewrite Es', Er', map_app. split; [reflexivity|exact Rb].
  Qed.

  Theorem lazy_renaming : forall (h : list (label V F G)) (c : config V F G) evs,
      run init_config h = Some (c, evs) ->
      exists c' : config V F' G',
        run init_config (map mlabel h) = Some (c', map mevent evs) /\
        c_state c' = mstate (c_state c) /\
        c_pool c' = map mhandle (c_pool c) /\
        forall t, c_threads c' t = mts (c_threads c t).
  Proof.
    intros h c evs Hr.
    assert (R0 : related (@init_config V F G) (@init_config V F' G')).
    { repeat split. }
    destruct (run_map _ _ _ _ _ R0 Hr) as (c' & Hr' & Rs & Rp & Rt).
    exists c'. auto.
  Qed.
End PL.
