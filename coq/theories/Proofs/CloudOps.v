(* Proofs about the model of the cloud operation helpers (Cloud/Ops.v): retry, timeout, wrappers.
   Batch and pagination are in Proofs/CloudOpsBatch.v. *)
From Coq Require Import List NArith Bool Arith Lia.
From IB Require Import Cloud.Ops.
Import ListNotations.

(* ------------------------------------------------------------------ specification vocabulary *)

(* the effective attempt budget: max(1, max_attempts) *)
Definition budget (c : retry_cfg) : nat := N.to_nat (N.max 1 (max_attempts c)).

(* an outcome after which retry_with_backoff may try again *)
Definition transient_err {X M} (r : res X M) : bool :=
  match r with RErr k _ => transient k | ROk _ => false end.

(* the delays the code would sleep: d, next d, next (next d), ... (n of them) *)
Fixpoint delay_seq (c : retry_cfg) (d : N) (n : nat) : list N :=
  match n with O => [] | S n' => d :: delay_seq c (next_delay c d) n' end.

(* the transient kinds, as a list *)
Definition transient_kinds : list kind := [Network; Timeout; ServiceUnavailable; RateLimited].

(* ------------------------------------------------------------------ the transient set *)

Lemma transient_iff : forall k, transient k = true <-> In k transient_kinds.
Proof.
  intros k. unfold transient_kinds. destruct k; simpl; split; intros H;
    try reflexivity; try discriminate; auto 6;
    repeat (destruct H as [H|H]; try discriminate H); try contradiction.
Qed.

Lemma permanent_iff : forall k,
    transient k = false <->
    In k [Authentication; Authorization; NotFound; AlreadyExists; InvalidInput; InternalError; Other].
Proof.
  intros k. destruct k; simpl; split; intros H;
    try reflexivity; try discriminate; auto 10;
    repeat (destruct H as [H|H]; try discriminate H); try contradiction.
Qed.

(* ------------------------------------------------------------------ delays *)

Lemma delay_seq_length : forall c n d, length (delay_seq c d n) = n.
Proof. induction n as [|n IH]; intros d; simpl; [reflexivity|]. now rewrite IH. Qed.

Lemma next_delay_le_cap : forall c d, (next_delay c d <= max_delay_ms c)%N.
Proof. intros c d. unfold next_delay. apply N.le_min_r. Qed.

Lemma delay_seq_nth0 : forall c d n, (0 < n)%nat -> nth 0 (delay_seq c d n) 0%N = d.
Proof. intros c d [|n] H; [lia|reflexivity]. Qed.

Lemma delay_seq_tail_le_cap : forall c n d j,
    (1 <= j)%nat -> (j < n)%nat -> (nth j (delay_seq c d n) 0%N <= max_delay_ms c)%N.
Proof.
  induction n as [|n IH]; intros d j H1 Hj; [lia|].
  destruct j as [|j]; [lia|]. simpl.
  destruct j as [|j].
  - destruct n as [|n]; [lia|]. simpl. apply next_delay_le_cap.
  - apply IH; lia.
Qed.

(* iterated next_delay and its closed form *)
Fixpoint delay_at (c : retry_cfg) (d : N) (j : nat) : N :=
  match j with O => d | S j' => delay_at c (next_delay c d) j' end.

Lemma delay_seq_nth : forall c n d j, (j < n)%nat -> nth j (delay_seq c d n) 0%N = delay_at c d j.
Proof.
  induction n as [|n IH]; intros d j Hj; [lia|].
  destruct j as [|j]; [reflexivity|]. simpl. apply IH. lia.
Qed.

Lemma delay_at_succ : forall c j d, delay_at c d (S j) = next_delay c (delay_at c d j).
Proof.
  induction j as [|j IH]; intros d; [reflexivity|].
  change (delay_at c d (S (S j))) with (delay_at c (next_delay c d) (S j)).
  rewrite IH. reflexivity.
Qed.

Lemma delay_at_closed : forall c d j,
    (max_delay_ms c <= u64_max)%N ->
    delay_at c d (S j) =
    if mult_ge2 c then N.min (2 ^ N.of_nat (S j) * d) (max_delay_ms c)
    else N.min d (max_delay_ms c).
Proof.
  intros c d j Hcap. induction j as [|j IH].
  - simpl delay_at. unfold next_delay. destruct (mult_ge2 c).
    + change (2 ^ N.of_nat 1)%N with 2%N. lia.
    + reflexivity.
  - rewrite delay_at_succ, IH. unfold next_delay. destruct (mult_ge2 c).
    + replace (2 ^ N.of_nat (S (S j)))%N with (2 * 2 ^ N.of_nat (S j))%N
        by (rewrite (Nat2N.inj_succ (S j)), N.pow_succ_r'; reflexivity).
      set (p := (2 ^ N.of_nat (S j) * d)%N).
      replace (2 * 2 ^ N.of_nat (S j) * d)%N with (2 * p)%N by (unfold p; lia).
      lia.
    + lia.
Qed.

(* ------------------------------------------------------------------ retry: the loop *)

Section Retry.
  Variables X M : Type.
  Variable c : retry_cfg.
  Variable op : nat -> res X M.

  (* Everything the loop does, from any state in which `fuel` is exactly the number of attempts
     the budget still allows. *)
  Lemma retry_loop_spec : forall fuel attempt delay idx,
      (N.to_nat attempt + fuel = budget c)%nat -> (1 <= fuel)%nat ->
      exists a,
        (1 <= a <= fuel)%nat /\
        run_calls (retry_loop c op fuel attempt delay idx) = a /\
        run_out (retry_loop c op fuel attempt delay idx) = Done (op (idx + (a - 1))%nat) /\
        (forall j, (j < a - 1)%nat -> transient_err (op (idx + j)%nat) = true) /\
        (a = fuel \/ transient_err (op (idx + (a - 1))%nat) = false) /\
        run_sleeps (retry_loop c op fuel attempt delay idx) = delay_seq c delay (a - 1).
  Proof.
    unfold budget.
    induction fuel as [|f IH]; intros attempt delay idx Hinv Hf; [lia|].
    cbn [retry_loop].
    destruct (op idx) as [v|k m] eqn:Hop.
    - exists 1%nat. cbn [run_calls run_out run_sleeps Nat.sub delay_seq].
      rewrite Nat.add_0_r, Hop. repeat split; try lia.
      right. reflexivity.
    - destruct (negb (transient k) || (max_attempts c <=? attempt + 1)%N) eqn:Hstop.
      + exists 1%nat. cbn [run_calls run_out run_sleeps Nat.sub delay_seq].
        rewrite Nat.add_0_r, Hop. repeat split; try lia.
        apply orb_true_iff in Hstop. destruct Hstop as [Hp|Hb].
        * right. cbn [transient_err]. now apply negb_true_iff in Hp.
        * left. apply N.leb_le in Hb. lia.
      + apply orb_false_iff in Hstop. destruct Hstop as [Hp Hb].
        apply negb_false_iff in Hp. apply N.leb_gt in Hb.
        assert (Hf' : (1 <= f)%nat) by lia.
        destruct (IH (attempt + 1)%N (next_delay c delay) (S idx)) as
            (a & Ha & Hcalls & Hout & Hpre & Hlast & Hsl); [lia|exact Hf'|].
        exists (S a). cbn [run_calls run_out run_sleeps].
        rewrite Hcalls, Hout, Hsl.
        replace (S a - 1)%nat with (S (a - 1)) by lia.
        replace (S idx + (a - 1))%nat with (idx + S (a - 1))%nat in * by lia.
        repeat split; try lia.
        * intros j Hj. destruct j as [|j].
          -- rewrite Nat.add_0_r, Hop. exact Hp.
          -- replace (idx + S j)%nat with (S idx + j)%nat by lia. apply Hpre. lia.
        * destruct Hlast as [->|Hl]; [left; reflexivity|right; exact Hl].
  Qed.

  (* the public function *)
  Lemma retry_spec : forall idx,
      exists a,
        (1 <= a <= budget c)%nat /\
        run_calls (retry c op idx) = a /\
        run_out (retry c op idx) = Done (op (idx + (a - 1))%nat) /\
        (forall j, (j < a - 1)%nat -> transient_err (op (idx + j)%nat) = true) /\
        (a = budget c \/ transient_err (op (idx + (a - 1))%nat) = false) /\
        run_sleeps (retry c op idx) = delay_seq c (initial_delay_ms c) (a - 1).
  Proof.
    intros idx. unfold retry. fold (budget c).
    apply retry_loop_spec; unfold budget; lia.
  Qed.

  (* more fuel than the budget changes nothing (used by the correspondence for huge budgets) *)
  Lemma retry_loop_fuel : forall fuel attempt delay idx extra,
      (N.to_nat attempt + fuel = budget c)%nat -> (1 <= fuel)%nat ->
      retry_loop c op (fuel + extra) attempt delay idx = retry_loop c op fuel attempt delay idx.
  Proof.
    unfold budget.
    induction fuel as [|f IH]; intros attempt delay idx extra Hinv Hf; [lia|].
    cbn [retry_loop Nat.add].
    destruct (op idx) as [v|k m]; [reflexivity|].
    destruct (negb (transient k) || (max_attempts c <=? attempt + 1)%N) eqn:Hstop; [reflexivity|].
    apply orb_false_iff in Hstop. destruct Hstop as [_ Hb]. apply N.leb_gt in Hb.
    rewrite IH by lia. reflexivity.
  Qed.

  (* a run that did not run out of fuel is the run for every larger fuel: the correspondence may
     evaluate a huge budget (u32::MAX) with fuel = script length + 2 and treat Diverge as a
     disagreement *)
  Lemma retry_loop_enough_fuel : forall fuel fuel' attempt delay idx,
      run_out (retry_loop c op fuel attempt delay idx) <> Diverge ->
      (fuel <= fuel')%nat ->
      retry_loop c op fuel' attempt delay idx = retry_loop c op fuel attempt delay idx.
  Proof.
    induction fuel as [|f IH]; intros fuel' attempt delay idx Hnd Hle.
    - cbn in Hnd. contradiction.
    - destruct fuel' as [|f']; [lia|]. cbn [retry_loop] in *.
      destruct (op idx) as [v|k m]; [reflexivity|].
      destruct (negb (transient k) || (max_attempts c <=? attempt + 1)%N); [reflexivity|].
      cbn [run_out] in Hnd. rewrite (IH f') by (assumption || lia). reflexivity.
  Qed.
End Retry.

Arguments retry_spec {X M}.
Arguments retry_loop_spec {X M}.

(* ---- corollaries, one per clause of the property ---- *)

Lemma retry_never_diverges : forall X M (c : retry_cfg) (op : nat -> res X M) idx,
    exists r, run_out (retry c op idx) = Done r.
Proof.
  intros. destruct (retry_spec c op idx) as (a & _ & _ & Hout & _). eauto.
Qed.

Lemma retry_attempts_bound : forall X M (c : retry_cfg) (op : nat -> res X M) idx,
    (1 <= run_calls (retry c op idx) <= N.to_nat (N.max 1 (max_attempts c)))%nat.
Proof.
  intros. destruct (retry_spec c op idx) as (a & Ha & Hc & _). rewrite Hc. exact Ha.
Qed.

Lemma retry_result_is_last_attempt : forall X M (c : retry_cfg) (op : nat -> res X M) idx,
    run_out (retry c op idx) = Done (op (idx + (run_calls (retry c op idx) - 1))%nat).
Proof.
  intros. destruct (retry_spec c op idx) as (a & _ & Hc & Hout & _). rewrite Hc. exact Hout.
Qed.

Lemma retry_only_after_transient : forall X M (c : retry_cfg) (op : nat -> res X M) idx j,
    (j < run_calls (retry c op idx) - 1)%nat ->
    exists k m, op (idx + j)%nat = RErr k m /\ transient k = true.
Proof.
  intros X M c op idx j Hj.
  destruct (retry_spec c op idx) as (a & _ & Hc & _ & Hpre & _). rewrite Hc in Hj.
  specialize (Hpre j Hj). destruct (op (idx + j)%nat) as [v|k m]; [discriminate|].
  exists k, m. split; [reflexivity|exact Hpre].
Qed.

Lemma retry_stops_early_only_when_final : forall X M (c : retry_cfg) (op : nat -> res X M) idx,
    (run_calls (retry c op idx) < N.to_nat (N.max 1 (max_attempts c)))%nat ->
    transient_err (op (idx + (run_calls (retry c op idx) - 1))%nat) = false.
Proof.
  intros X M c op idx Hlt.
  destruct (retry_spec c op idx) as (a & _ & Hc & _ & _ & Hlast & _). rewrite Hc in *.
  destruct Hlast as [->|H]; [unfold budget in Hlt; lia|exact H].
Qed.

(* the number of attempts is determined: it is the least a >= 1 that is the budget or whose
   outcome is final *)
Lemma retry_attempts_unique : forall X M (c : retry_cfg) (op : nat -> res X M) idx a,
    (1 <= a <= budget c)%nat ->
    (forall j, (j < a - 1)%nat -> transient_err (op (idx + j)%nat) = true) ->
    (a = budget c \/ transient_err (op (idx + (a - 1))%nat) = false) ->
    run_calls (retry c op idx) = a.
Proof.
  intros X M c op idx a Ha Hpre Hlast.
  destruct (retry_spec c op idx) as (a' & Ha' & Hc & _ & Hpre' & Hlast' & _). rewrite Hc.
  destruct (Nat.lt_trichotomy a a') as [Hlt|[Heq|Hgt]]; [|auto|].
  - destruct Hlast as [->|Hl]; [lia|].
    rewrite Hpre' in Hl by lia. discriminate.
  - destruct Hlast' as [->|Hl]; [lia|].
    rewrite Hpre in Hl by lia. discriminate.
Qed.

Lemma retry_sleeps : forall X M (c : retry_cfg) (op : nat -> res X M) idx,
    run_sleeps (retry c op idx) =
    delay_seq c (initial_delay_ms c) (run_calls (retry c op idx) - 1).
Proof.
  intros. destruct (retry_spec c op idx) as (a & _ & Hc & _ & _ & _ & Hs). rewrite Hc. exact Hs.
Qed.

Lemma retry_sleeps_spec : forall X M (c : retry_cfg) (op : nat -> res X M) idx,
    let r := retry c op idx in
    length (run_sleeps r) = (run_calls r - 1)%nat /\
    ((0 < run_calls r - 1)%nat -> nth 0 (run_sleeps r) 0%N = initial_delay_ms c) /\
    (forall j, (1 <= j < run_calls r - 1)%nat ->
               (nth j (run_sleeps r) 0%N <= max_delay_ms c)%N).
Proof.
  intros X M c op idx r. unfold r. rewrite retry_sleeps. split; [apply delay_seq_length|]. split.
  - apply delay_seq_nth0.
  - intros j [H1 H2]. now apply delay_seq_tail_le_cap.
Qed.

Lemma retry_sleep_values : forall X M (c : retry_cfg) (op : nat -> res X M) idx j,
    (max_delay_ms c <= u64_max)%N ->
    (S j < run_calls (retry c op idx) - 1)%nat ->
    nth (S j) (run_sleeps (retry c op idx)) 0%N =
    if mult_ge2 c then N.min (2 ^ N.of_nat (S j) * initial_delay_ms c) (max_delay_ms c)
    else N.min (initial_delay_ms c) (max_delay_ms c).
Proof.
  intros X M c op idx j Hcap Hj. rewrite retry_sleeps, delay_seq_nth by exact Hj.
  now apply delay_at_closed.
Qed.

(* ------------------------------------------------------------------ timeout *)

Lemma with_timeout_ok : forall X M (tmsg : M) timeout elapsed (v : X),
    with_timeout tmsg timeout elapsed (Done (ROk v)) =
    if (timeout <? elapsed)%N then Done (RErr Timeout tmsg) else Done (ROk v).
Proof. reflexivity. Qed.

Lemma with_timeout_overrun : forall X M (tmsg : M) timeout elapsed (v : X),
    (timeout < elapsed)%N ->
    with_timeout tmsg timeout elapsed (Done (ROk v)) = Done (RErr Timeout tmsg).
Proof.
  intros X M tmsg timeout elapsed v H. cbn [with_timeout].
  apply N.ltb_lt in H. now rewrite H.
Qed.

Lemma with_timeout_in_time : forall X M (tmsg : M) timeout elapsed (v : X),
    (elapsed <= timeout)%N ->
    with_timeout tmsg timeout elapsed (Done (ROk v)) = Done (ROk v).
Proof.
  intros X M tmsg timeout elapsed v H. cbn [with_timeout].
  apply N.ltb_ge in H. now rewrite H.
Qed.

Lemma with_timeout_err : forall X M (tmsg : M) timeout elapsed k (m : M),
    with_timeout (X := X) tmsg timeout elapsed (Done (RErr k m)) = Done (RErr k m).
Proof. reflexivity. Qed.

(* ------------------------------------------------------------------ wrappers *)

Lemma wrappers_are_retry : forall X M (tmsg : M) (c : retry_cfg) (op : nat -> res X M) idx el,
    run_with_retry c op idx = retry c op idx /\
    run_cloud_io_with_retry c op idx = retry c op idx /\
    builder_execute tmsg (Some c) None el op idx = retry c op idx /\
    executor_execute tmsg (Some c) None el op idx = retry c op idx.
Proof. intros. repeat split; reflexivity. Qed.

Lemma executor_is_builder : forall X M (tmsg : M) rc t el (op : nat -> res X M) idx,
    executor_execute tmsg rc t el op idx = builder_execute tmsg rc t el op idx.
Proof. intros. destruct rc, t; reflexivity. Qed.

Lemma timeout_retry_wrappers : forall X M (tmsg : M) (c : retry_cfg) t el (op : nat -> res X M) idx,
    let r := retry c op idx in
    let w := mk_run (with_timeout tmsg t el (run_out r)) (run_calls r) (run_sleeps r) in
    run_with_timeout_and_retry tmsg c t el op idx = w /\
    run_cloud_io_with_retry_and_timeout tmsg c t el op idx = w /\
    builder_execute tmsg (Some c) (Some t) el op idx = w /\
    executor_execute tmsg (Some c) (Some t) el op idx = w.
Proof. intros. repeat split; reflexivity. Qed.

Lemma no_retry_wrappers : forall X M (tmsg : M) t el (op : nat -> res X M) idx,
    builder_execute tmsg None None el op idx = mk_run (Done (op idx)) 1 [] /\
    builder_execute tmsg None (Some t) el op idx =
      mk_run (with_timeout tmsg t el (Done (op idx))) 1 [].
Proof. intros. split; reflexivity. Qed.

(* every wrapper calls the closure between 1 and max(1, budget) times (exactly once without a
   retry configuration), whatever the closure does and whatever the clock says *)
Lemma builder_calls_bound : forall X M (tmsg : M) rc t el (op : nat -> res X M) idx,
    let r := builder_execute tmsg rc t el op idx in
    (1 <= run_calls r)%nat /\
    (run_calls r <= match rc with Some c => N.to_nat (N.max 1 (max_attempts c)) | None => 1 end)%nat.
Proof.
  intros X M tmsg rc t el op idx. destruct rc as [c|], t as [t|]; cbn; try lia;
    apply retry_attempts_bound.
Qed.

(* with a timeout the attempts made are those of the plain retry: the timeout never interrupts or
   shortens the retry loop, it only relabels a late success *)
Lemma timeout_does_not_change_attempts :
  forall X M (tmsg : M) (c : retry_cfg) t el (op : nat -> res X M) idx,
    run_calls (run_with_timeout_and_retry tmsg c t el op idx) = run_calls (retry c op idx) /\
    run_sleeps (run_with_timeout_and_retry tmsg c t el op idx) = run_sleeps (retry c op idx).
Proof. intros. split; reflexivity. Qed.

(* ------------------------------------------------------------------ builder construction *)

(* the last with_retry / with_timeout argument of a setter sequence, if any *)
Fixpoint last_retry (ss : list setter) : option retry_cfg :=
  match ss with
  | [] => None
  | s :: r => match last_retry r with
              | Some c => Some c
              | None => match s with SetRetry c => Some c | SetTimeout _ => None end
              end
  end.
Fixpoint last_timeout (ss : list setter) : option N :=
  match ss with
  | [] => None
  | s :: r => match last_timeout r with
              | Some t => Some t
              | None => match s with SetTimeout t => Some t | SetRetry _ => None end
              end
  end.

Lemma setters_commute : forall b c t,
    apply_setter (apply_setter b (SetRetry c)) (SetTimeout t) =
    apply_setter (apply_setter b (SetTimeout t)) (SetRetry c).
Proof. reflexivity. Qed.

Lemma setter_retry_last_wins : forall b c1 c2,
    apply_setter (apply_setter b (SetRetry c1)) (SetRetry c2) = apply_setter b (SetRetry c2).
Proof. reflexivity. Qed.

Lemma setter_timeout_last_wins : forall b t1 t2,
    apply_setter (apply_setter b (SetTimeout t1)) (SetTimeout t2) = apply_setter b (SetTimeout t2).
Proof. reflexivity. Qed.

Lemma build_swap : forall pre post c t,
    build (pre ++ SetRetry c :: SetTimeout t :: post) =
    build (pre ++ SetTimeout t :: SetRetry c :: post).
Proof. intros. unfold build. rewrite !fold_left_app. reflexivity. Qed.

Lemma fold_setters_fields : forall ss b,
    b_retry (fold_left apply_setter ss b) =
      match last_retry ss with Some c => Some c | None => b_retry b end /\
    b_timeout (fold_left apply_setter ss b) =
      match last_timeout ss with Some t => Some t | None => b_timeout b end.
Proof.
  induction ss as [|s ss IH]; intros b; [split; reflexivity|].
  cbn [fold_left last_retry last_timeout]. destruct (IH (apply_setter b s)) as [Hr Ht].
  rewrite Hr, Ht. split.
  - destruct (last_retry ss); [reflexivity|]. destruct s; reflexivity.
  - destruct (last_timeout ss); [reflexivity|]. destruct s; reflexivity.
Qed.

Lemma build_fields : forall ss,
    b_retry (build ss) = last_retry ss /\ b_timeout (build ss) = last_timeout ss.
Proof.
  intros ss. unfold build. destruct (fold_setters_fields ss builder_new) as [Hr Ht].
  rewrite Hr, Ht. split; [destruct (last_retry ss)|destruct (last_timeout ss)]; reflexivity.
Qed.

Lemma builder_run_final_config : forall X M (tmsg : M) ss el (op : nat -> res X M) idx,
    builder_run tmsg ss el op idx =
      builder_execute tmsg (last_retry ss) (last_timeout ss) el op idx /\
    executor_run tmsg ss el op idx =
      builder_execute tmsg (last_retry ss) (last_timeout ss) el op idx.
Proof.
  intros. unfold builder_run, executor_run. destruct (build_fields ss) as [-> ->].
  split; [reflexivity|apply executor_is_builder].
Qed.

(* what a builder does, by the LAST value given to each setter, whatever the order and number
   of setter calls *)
Lemma builder_by_final_config : forall X M (tmsg : M) ss el (op : nat -> res X M) idx,
    builder_run tmsg ss el op idx =
    match last_retry ss, last_timeout ss with
    | Some c, Some t =>
        let r := retry c op idx in
        mk_run (with_timeout tmsg t el (run_out r)) (run_calls r) (run_sleeps r)
    | Some c, None => retry c op idx
    | None, Some t => mk_run (with_timeout tmsg t el (Done (op idx))) 1 []
    | None, None => mk_run (Done (op idx)) 1 []
    end.
Proof.
  intros. destruct (builder_run_final_config X M tmsg ss el op idx) as [-> _].
  destruct (last_retry ss), (last_timeout ss); reflexivity.
Qed.

Lemma builder_run_calls_bound : forall X M (tmsg : M) ss el (op : nat -> res X M) idx,
    let r := builder_run tmsg ss el op idx in
    (1 <= run_calls r)%nat /\
    (run_calls r <= match last_retry ss with
                    | Some c => N.to_nat (N.max 1 (max_attempts c)) | None => 1 end)%nat.
Proof.
  intros X M tmsg ss el op idx. cbv zeta.
  destruct (builder_run_final_config X M tmsg ss el op idx) as [-> _].
  apply builder_calls_bound.
Qed.

Lemma executor_run_is_builder_run : forall X M (tmsg : M) ss el (op : nat -> res X M) idx,
    executor_run tmsg ss el op idx = builder_run tmsg ss el op idx.
Proof.
  intros. destruct (builder_run_final_config X M tmsg ss el op idx) as [-> ->]. reflexivity.
Qed.

(* ------------------------------------------------------------------ run_parallel *)

Lemma run_parallel_all_ok : forall X M (vs : list X),
    run_parallel (map (fun v => ROk (M := M) v) vs) = (ROk vs, length vs).
Proof.
  induction vs as [|v vs IH]; [reflexivity|]. cbn [map run_parallel]. now rewrite IH.
Qed.

Lemma run_parallel_first_err : forall X M (vs : list X) k (m : M) rest,
    run_parallel (map (fun v => ROk v) vs ++ RErr k m :: rest) = (RErr k m, S (length vs)).
Proof.
  induction vs as [|v vs IH]; intros k m rest; [reflexivity|].
  cbn [map app run_parallel]. now rewrite IH.
Qed.
