(* C08 proofs, part 2: the invariant of the concurrent state machine and its preservation by
   every atomic step of every thread, for any number of threads and any interleaving. *)
From Coq Require Import List Arith Bool Lia.
From IB Require Import Pipeline.Graph Pipeline.History Pipeline.Invariant Proofs.PipelineGraph.
Import ListNotations.

Section PI.
  Variables V F G : Type.
  Notation node := (node V F G).
  Notation state := (state V F G).
  Notation lineage := (lineage V F G).
  Notation handle := (handle V F G).
  Notation config := (config V F G).
  Notation tstate := (tstate V F G).
  Notation pc := (pc V F G).
  Notation event := (event V F G).
  Notation call := (call V F G).





  Lemma Inv_init : Inv (@init_config V F G).
  Proof.
    constructor; cbn; try tauto; try discriminate.
    - apply GInv_init.
    - constructor.
  Qed.

  (* ---------- a pending node is a key, is not a source, has no incoming edge ---------- *)
  Lemma pending_facts : forall (s : state) ts i,
      TInv s ts -> pending ts = Some i ->
      exists n, lookup i (nodes s) = Some n /\ not_source n /\ pred_of (edges s) i = None.
  Proof.
    intros s ts i HT Hp. destruct ts as [|p|]; try discriminate.
    destruct p; try discriminate; cbn in Hp; inversion Hp; subst; cbn in HT.
    - destruct HT as (_ & Hl & Hp' & _). eexists; repeat split; eauto. exact I.
    - destruct HT as (_ & _ & Hl & Hp' & _). eexists; repeat split; eauto. exact I.
  Qed.

  (* ---------- preservation of a thread's knowledge by OTHER threads' steps ---------- *)
  Lemma PInv_insert : forall (s : state) n p, GInv s -> PInv s p -> PInv (snd (insert_node s n)) p.
  Proof.
    intros s n p HG H. unfold hrepr in *.
    destruct p; cbn [PInv] in *; unfold hrepr in *;
      repeat match goal with H : _ /\ _ |- _ => destruct H end;
      repeat split; auto using repr_insert, lookup_insert_old.
  Qed.

  Lemma TInv_insert : forall (s : state) n ts, GInv s -> TInv s ts -> TInv (snd (insert_node s n)) ts.
  Proof. intros s n [|p|] HG H; cbn [TInv] in *; auto using PInv_insert. Qed.

  Lemma PInv_connect : forall (s : state) a b nb p,
      lookup b (nodes s) = Some nb -> not_source nb ->
      pending (Busy p) <> Some b ->
      PInv s p -> PInv (connect s a b) p.
  Proof.
    intros s a b nb p Hb Hk Hne H.
    assert (Hd : forall d, lookup d (nodes s) = Some NDummy -> d <> b).
    { intros d Hd. eapply neq_by_kind; eauto. }
    destruct p; cbn [PInv pending] in *; unfold hrepr in *;
      repeat match goal with H : _ /\ _ |- _ => destruct H end;
      repeat split; eauto using repr_connect;
      try (apply pred_connect_keep_none; [assumption|]; auto; congruence).
  Qed.

  Lemma TInv_connect : forall (s : state) a b nb ts,
      lookup b (nodes s) = Some nb -> not_source nb ->
      pending ts <> Some b ->
      TInv s ts -> TInv (connect s a b) ts.
  Proof. intros s a b nb [|p|] Hb Hk Hne H; cbn [TInv] in *; eauto using PInv_connect. Qed.

  (* ---------- bookkeeping of the thread map ---------- *)
  Lemma set_thread_same : forall (ts : nat -> tstate) t x, set_thread ts t x t = x.
  Proof. intros. unfold set_thread. now rewrite Nat.eqb_refl. Qed.

  Lemma set_thread_other : forall (ts : nat -> tstate) t x u, u <> t -> set_thread ts t x u = ts u.
  Proof. intros. unfold set_thread. destruct (Nat.eqb_spec u t); [congruence|reflexivity]. Qed.

  (* generic re-establishment of Inv after thread t moved *)
  Lemma Inv_update : forall (c : config) t s' ts' pool',
      Inv c ->
      GInv s' ->
      (forall x, In x pool' -> hrepr s' x) ->
      NoDup (map h_id pool') ->
      TInv s' ts' ->
      (forall u, u <> t -> TInv s' (c_threads c u)) ->
      (forall u i, u <> t -> pending ts' = Some i -> pending (c_threads c u) = Some i -> False) ->
      Inv (mk_config s' (set_thread (c_threads c) t ts') pool').
  Proof.
    intros c t s' ts' pool' HI HG Hpool Hids HT Hoth Hpend. constructor; cbn; auto.
    - intros u. destruct (Nat.eq_dec u t) as [->|Hne].
      + now rewrite set_thread_same.
      + rewrite set_thread_other by assumption. now apply Hoth.
    - intros t1 t2 i Hne H1 H2.
      destruct (Nat.eq_dec t1 t) as [->|H1t]; destruct (Nat.eq_dec t2 t) as [->|H2t];
        try congruence.
      + rewrite set_thread_same in H1. rewrite set_thread_other in H2 by assumption.
        eapply Hpend; eauto.
      + rewrite set_thread_same in H2. rewrite set_thread_other in H1 by assumption.
        eapply Hpend; eauto.
      + rewrite set_thread_other in H1, H2 by assumption.
        eapply (i_pending c HI t1 t2); eauto.
  Qed.

  Lemma in_pool_app : forall (pool : list handle) h x,
      In x (pool ++ [h]) -> In x pool \/ x = h.
  Proof. intros. apply in_app_or in H. destruct H as [H|[H|[]]]; auto. Qed.

  Lemma nodup_ids_app : forall (pool : list handle) h,
      NoDup (map h_id pool) -> ~ In (h_id h) (map h_id pool) -> NoDup (map h_id (pool ++ [h])).
  Proof.
    intros. rewrite map_app. cbn. apply NoDup_app_single; assumption.
  Qed.

  (* a fresh id is nobody's *)
  Lemma fresh_not_in_pool : forall (c : config), Inv c -> ~ In (next_id (c_state c)) (map h_id (c_pool c)).
  Proof.
    intros c HI Hin. apply in_map_iff in Hin. destruct Hin as (x & Hx & Hin).
    apply (i_pool c HI) in Hin. apply repr_key in Hin.
    apply (g_keys_lt _ (i_graph c HI)) in Hin. lia.
  Qed.

  Lemma pending_not_in_pool : forall (c : config) i n,
      Inv c -> lookup i (nodes (c_state c)) = Some n -> not_source n ->
      pred_of (edges (c_state c)) i = None -> ~ In i (map h_id (c_pool c)).
  Proof.
    intros c i n HI Hl Hk Hp Hin. apply in_map_iff in Hin. destruct Hin as (x & Hx & Hin).
    apply (i_pool c HI) in Hin. unfold hrepr in Hin. rewrite Hx in Hin.
    eapply repr_not_pending; eauto.
  Qed.

  Lemma others_pending_lt : forall (c : config) u i,
      Inv c -> pending (c_threads c u) = Some i -> i < next_id (c_state c).
  Proof.
    intros c u i HI Hp.
    destruct (pending_facts _ _ _ (i_threads c HI u) Hp) as (n & Hl & _).
    apply lookup_in_keys in Hl. now apply (g_keys_lt _ (i_graph c HI)).
  Qed.

  (* ---------- the three shapes of an atomic step ---------- *)
  (* (a) the graph does not change *)
  Lemma Inv_same_state : forall (c : config) t ts',
      Inv c -> TInv (c_state c) ts' -> pending ts' = None ->
      Inv (mk_config (c_state c) (set_thread (c_threads c) t ts') (c_pool c)).
  Proof.
    intros c t ts' HI HT Hp. apply Inv_update; auto.
    - apply (i_graph c HI).
    - apply (i_pool c HI).
    - apply (i_ids c HI).
    - intros u _. apply (i_threads c HI).
    - intros u i _ H. congruence.
  Qed.

  (* (b) insert_node, no handle returned yet *)
  Lemma Inv_insert : forall (c : config) t n ts',
      Inv c ->
      TInv (snd (insert_node (c_state c) n)) ts' ->
      (forall i, pending ts' = Some i -> i = next_id (c_state c)) ->
      Inv (mk_config (snd (insert_node (c_state c) n)) (set_thread (c_threads c) t ts') (c_pool c)).
  Proof.
    intros c t n ts' HI HT Hp. pose proof (i_graph c HI) as HG. apply Inv_update; auto.
    - now apply GInv_insert.
    - intros x Hx. apply repr_insert; [assumption|]. now apply (i_pool c HI).
    - apply (i_ids c HI).
    - intros u _. apply TInv_insert; [assumption|]. apply (i_threads c HI).
    - intros u i _ H1 H2. apply Hp in H1. subst.
      pose proof (others_pending_lt c u _ HI H2). lia.
  Qed.

  (* (c) the final connect of a build call: edge a -> b into the thread's own pending node b,
     the call returns the handle (b, x) *)
  Lemma Inv_connect : forall (c : config) t a b nb x,
      Inv c ->
      pending (c_threads c t) = Some b ->
      lookup b (nodes (c_state c)) = Some nb -> not_source nb ->
      pred_of (edges (c_state c)) b = None ->
      a < b -> In a (keys (c_state c)) ->
      repr (connect (c_state c) a b) b x ->
      Inv (mk_config (connect (c_state c) a b) (set_thread (c_threads c) t Idle)
                     (c_pool c ++ [mk_handle b x])).
  Proof.
    intros c t a b nb x HI Hpend Hl Hk Hp Hlt Ha Hr.
    pose proof (i_graph c HI) as HG. apply Inv_update; auto.
    - apply GInv_connect; auto. eapply lookup_in_keys; eauto.
    - intros y Hy. apply in_pool_app in Hy. destruct Hy as [Hy| ->].
      + unfold hrepr. eapply repr_connect; eauto. now apply (i_pool c HI).
      + exact Hr.
    - apply nodup_ids_app; [apply (i_ids c HI)|]. cbn. eapply pending_not_in_pool; eauto.
    - exact I.
    - intros u Hne. eapply TInv_connect; eauto; [|apply (i_threads c HI)].
      intros E. eapply (i_pending c HI u t); eauto.
    - intros u i _ H. discriminate.
  Qed.

  (* ---------- every atomic step preserves the invariant ---------- *)
  Theorem inv_step : forall (c : config) l c' evs, Inv c -> cstep c l = Some (c', evs) -> Inv c'.
  Proof.
    intros c [t oc] c' evs HI Hs. unfold cstep in Hs.
    pose proof (i_graph c HI) as HG.
    pose proof (i_threads c HI t) as HT.
    destruct (c_threads c t) as [|p|] eqn:Ets; destruct oc as [cl|]; cbn [tstep] in Hs;
      try discriminate.
    - (* an idle thread starts a call *)
      destruct cl as [d|f pi|g li ri|xi]; cbn [start_call] in Hs.
      + (* from_vec: insert, handle returned at once *)
        inversion Hs; subst; clear Hs. cbn [insert_node fst snd].
        change (mk_state (S (next_id (c_state c))) ((next_id (c_state c), NSource d) :: nodes (c_state c))
                         (edges (c_state c))) with (snd (insert_node (c_state c) (NSource d))).
        apply Inv_update; [exact HI| | | | | | ].
        * now apply GInv_insert.
        * intros y Hy. apply in_pool_app in Hy. destruct Hy as [Hy| ->].
          -- apply repr_insert; [assumption|]. now apply (i_pool c HI).
          -- unfold hrepr. cbn [h_id h_lin]. apply repr_src.
             ++ cbn. now rewrite Nat.eqb_refl.
             ++ cbn. apply pred_of_none_iff. intros Hin. apply in_map_iff in Hin.
                destruct Hin as ([a b] & Hb & Hin). cbn in Hb. subst.
                destruct (g_edges _ HG a _ Hin) as (_ & _ & Hk).
                apply (g_keys_lt _ HG) in Hk. lia.
        * apply nodup_ids_app; [apply (i_ids c HI)|]. cbn. now apply fresh_not_in_pool.
        * exact I.
        * intros u _. apply TInv_insert; [assumption|]. apply (i_threads c HI).
        * intros u i _ H. discriminate.
      + (* derive: insert *)
        destruct (nth_error (c_pool c) pi) as [ph|] eqn:Eph; [|discriminate].
        inversion Hs; subst; clear Hs. cbn [insert_node fst snd].
        change (mk_state (S (next_id (c_state c)))
                         ((next_id (c_state c), NStateless f) :: nodes (c_state c))
                         (edges (c_state c))) with (snd (insert_node (c_state c) (NStateless f))).
        apply nth_error_In in Eph. pose proof (i_pool c HI _ Eph) as Hph.
        apply Inv_insert; auto.
        * cbn [TInv PInv]. repeat split.
          -- now apply repr_insert.
          -- cbn. now rewrite Nat.eqb_refl.
          -- cbn. apply pred_of_none_iff. intros Hin. apply in_map_iff in Hin.
             destruct Hin as ([a b] & Hb & Hin). cbn in Hb. subst.
             destruct (g_edges _ HG a _ Hin) as (_ & _ & Hk).
             apply (g_keys_lt _ HG) in Hk. lia.
          -- apply repr_key in Hph. now apply (g_keys_lt _ HG) in Hph.
        * cbn. intros i E. now inversion E.
      + (* join: first snapshot *)
        destruct (nth_error (c_pool c) li) as [lh|] eqn:El; [|discriminate].
        destruct (nth_error (c_pool c) ri) as [rh|] eqn:Er; [|discriminate].
        apply nth_error_In in El. apply nth_error_In in Er.
        pose proof (i_pool c HI _ El) as Hl. pose proof (i_pool c HI _ Er) as Hr.
        rewrite (chain_from_repr _ _ _ _ _ _ Hl) in Hs.
        inversion Hs; subst; clear Hs.
        apply Inv_same_state; auto. cbn. auto.
      + (* collect: record_metrics_start *)
        destruct (nth_error (c_pool c) xi) as [xh|] eqn:Ex; [|discriminate].
        apply nth_error_In in Ex. pose proof (i_pool c HI _ Ex) as Hx.
        inversion Hs; subst; clear Hs.
        apply Inv_same_state; auto.
    - (* a busy thread continues *)
      cbn [TInv] in HT.
      destruct p as [f ph i|g lh rh lc|g lh rh lc rc|g lh rh lc rc d|g lh rh d i|xh|xh plan];
        cbn [continue_call] in Hs; cbn [PInv] in HT.
      + (* derive: connect *)
        destruct HT as (Hph & Hl & Hp & Hlt).
        inversion Hs; subst; clear Hs.
        eapply Inv_connect; eauto.
        * now rewrite Ets.
        * exact I.
        * eapply repr_key; eauto.
        * eapply repr_derive.
          -- exact Hl.
          -- cbn. rewrite pred_of_app, Hp. now rewrite Nat.eqb_refl.
          -- exact Hlt.
          -- eapply repr_connect; eauto. exact I.
      + (* join: second snapshot *)
        destruct HT as (Hl & Hr & Hlc).
        rewrite (chain_from_repr _ _ _ _ _ _ Hr) in Hs.
        inversion Hs; subst; clear Hs.
        apply Inv_same_state; auto. cbn. auto.
      + (* join: insert dummy source *)
        destruct HT as (Hl & Hr & Hlc & Hrc).
        inversion Hs; subst; clear Hs. cbn [insert_node fst snd].
        change (mk_state (S (next_id (c_state c))) ((next_id (c_state c), NDummy) :: nodes (c_state c))
                         (edges (c_state c))) with (snd (insert_node (c_state c) (@NDummy V F G))).
        apply Inv_insert; auto.
        * cbn [TInv PInv]. repeat split.
          -- cbn. now rewrite Nat.eqb_refl.
          -- cbn. apply pred_of_none_iff. intros Hin. apply in_map_iff in Hin.
             destruct Hin as ([a b] & Hb & Hin). cbn in Hb. subst.
             destruct (g_edges _ HG a _ Hin) as (_ & _ & Hk).
             apply (g_keys_lt _ HG) in Hk. lia.
        * cbn. discriminate.
      + (* join: insert CoGroup *)
        destruct HT as (Hlc & Hrc & Hd & Hpd).
        inversion Hs; subst; clear Hs. cbn [insert_node fst snd].
        change (mk_state (S (next_id (c_state c)))
                         ((next_id (c_state c), NCoGroup (chain_of (h_lin lh)) (chain_of (h_lin rh)) g)
                            :: nodes (c_state c))
                         (edges (c_state c)))
          with (snd (insert_node (c_state c) (NCoGroup (chain_of (h_lin lh)) (chain_of (h_lin rh)) g))).
        apply Inv_insert; auto.
        * cbn [TInv PInv]. repeat split.
          -- now apply lookup_insert_old.
          -- exact Hpd.
          -- cbn. now rewrite Nat.eqb_refl.
          -- cbn. apply pred_of_none_iff. intros Hin. apply in_map_iff in Hin.
             destruct Hin as ([a b] & Hb & Hin). cbn in Hb. subst.
             destruct (g_edges _ HG a _ Hin) as (_ & _ & Hk).
             apply (g_keys_lt _ HG) in Hk. lia.
          -- apply lookup_in_keys in Hd. now apply (g_keys_lt _ HG) in Hd.
        * cbn. intros i E. now inversion E.
      + (* join: connect dummy -> CoGroup *)
        destruct HT as (Hd & Hpd & Hl & Hp & Hlt).
        inversion Hs; subst; clear Hs.
        eapply Inv_connect; eauto.
        * now rewrite Ets.
        * exact I.
        * eapply lookup_in_keys; eauto.
        * eapply repr_join.
          -- exact Hl.
          -- cbn. rewrite pred_of_app, Hp. now rewrite Nat.eqb_refl.
          -- exact Hlt.
          -- exact Hd.
          -- apply pred_connect_keep_none; [assumption|]. lia.
      + (* collect: snapshot + backwalk *)
        inversion Hs; subst; clear Hs.
        apply Inv_same_state; auto. cbn [TInv PInv].
        now apply chain_from_repr.
      + (* collect: record_metrics_end *)
        inversion Hs; subst; clear Hs.
        apply Inv_same_state; [exact HI|exact I|reflexivity].
  Qed.

  Theorem inv_run : forall ls (c : config) c' evs, Inv c -> run c ls = Some (c', evs) -> Inv c'.
  Proof.
    induction ls as [|l ls IH]; intros c c' evs HI Hr; cbn in Hr.
    - inversion Hr; subst. exact HI.
    - destruct (cstep c l) as [[c1 e1]|] eqn:Es; [|discriminate].
      destruct (run c1 ls) as [[c2 e2]|] eqn:Er; [|discriminate].
      inversion Hr; subst. eapply IH; [|exact Er]. eapply inv_step; eauto.
  Qed.
End PI.

