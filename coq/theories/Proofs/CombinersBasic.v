(* Lawfulness of Count, Sum, Min, Max, AverageF64 (models in Combiners/Basic.v). *)
From Coq Require Import List ZArith QArith Lia Permutation Morphisms Setoid.
From IB Require Import Combiners.Lawful Combiners.Basic.
Import ListNotations.
Open Scope Z_scope.

(* ===================== Count ===================== *)
Lemma count_lawful : forall V : Type, lawful (count_combiner V) count_R count_spec.
Proof.
  intros V. constructor; unfold count_R, count_spec; cbn [count_combiner c_create c_add c_merge
    c_finish c_build].
  - reflexivity.
  - intros a m v ->. cbn [length]. lia.
  - intros a b m m' -> ->. rewrite app_length. lia.
  - reflexivity.
  - intros a m m' -> HP. rewrite (Permutation_length HP). reflexivity.
  - intros a m ->. reflexivity.
Qed.

(* ===================== Sum ===================== *)
Lemma zsum_app : forall m m', zsum (m ++ m') = zsum m + zsum m'.
Proof.
  induction m as [|x m IH]; intros m'; unfold zsum in *; cbn [app fold_right].
  - lia.
  - rewrite IH. lia.
Qed.
Lemma zsum_perm : forall m m', Permutation m m' -> zsum m = zsum m'.
Proof.
  induction 1 as [|x l l' _ IH|x y l|l l' l'' _ IH1 _ IH2]; unfold zsum in *; cbn [fold_right];
    lia.
Qed.
Lemma sum_fold_left : forall vs a, fold_left (fun a v => a + v) vs a = a + zsum vs.
Proof.
  induction vs as [|v vs IH]; intros a; unfold zsum in *; cbn [fold_left fold_right].
  - lia.
  - rewrite IH. lia.
Qed.
Lemma sum_lawful : lawful sum_combiner sum_R sum_spec.
Proof.
  constructor; unfold sum_R, sum_spec; cbn [sum_combiner c_create c_add c_merge c_finish c_build].
  - reflexivity.
  - intros a m v ->. unfold zsum. cbn [fold_right]. lia.
  - intros a b m m' -> ->. rewrite zsum_app. reflexivity.
  - intros vs. rewrite sum_fold_left. lia.
  - intros a m m' -> HP. apply zsum_perm. exact HP.
  - intros a m ->. reflexivity.
Qed.

(* ===================== Min ===================== *)
Lemma iter_min_fold : forall r x,
    let y := fold_left (fun m v => if v <? m then v else m) r x in
    In y (x :: r) /\ forall z, In z (x :: r) -> y <= z.
Proof.
  induction r as [|v r IH]; intros x; cbn [fold_left].
  - split; [left; reflexivity|]. intros z [<-|[]]. lia.
  - specialize (IH (if v <? x then v else x)). cbv zeta in IH. destruct IH as [Hin Hle].
    split.
    + destruct Hin as [Hin|Hin]; [|right; right; exact Hin].
      rewrite <- Hin. destruct (Z.ltb_spec v x); [right; left|left]; reflexivity.
    + intros z Hz.
      assert (Hm : (if v <? x then v else x) <= x /\ (if v <? x then v else x) <= v)
        by (destruct (Z.ltb_spec v x); lia).
      pose proof (Hle _ (or_introl eq_refl)) as H0.
      destruct Hz as [<-|[<-|Hz]]; [lia|lia|]. apply Hle. right. exact Hz.
Qed.

Lemma min_lawful : lawful min_combiner min_R min_spec.
Proof.
  constructor; cbn [min_combiner c_create c_add c_merge c_finish c_build].
  - reflexivity.
  - intros a m v Ha. unfold min_add, min_R in *. destruct a as [cur|].
    + destruct Ha as [Hin Hle]. destruct (Z.ltb_spec v cur) as [Hlt|Hge].
      * split; [left; reflexivity|]. intros y [<-|Hy]; [lia|]. specialize (Hle _ Hy). lia.
      * split; [right; exact Hin|]. intros y [<-|Hy]; [lia|]. apply Hle. exact Hy.
    + subst m. split; [left; reflexivity|]. intros y [<-|[]]. lia.
  - intros a b m m' Ha Hb. unfold min_merge, min_R in *. destruct b as [b|].
    + destruct Hb as [Hinb Hleb]. destruct a as [a|].
      * destruct Ha as [Hina Hlea]. destruct (Z.ltb_spec b a) as [Hlt|Hge].
        -- split; [apply in_or_app; right; exact Hinb|].
           intros y Hy. apply in_app_or in Hy. destruct Hy as [Hy|Hy].
           ++ specialize (Hlea _ Hy). lia.
           ++ apply Hleb. exact Hy.
        -- split; [apply in_or_app; left; exact Hina|].
           intros y Hy. apply in_app_or in Hy. destruct Hy as [Hy|Hy].
           ++ apply Hlea. exact Hy.
           ++ specialize (Hleb _ Hy). lia.
      * subst m. cbn [app]. split; assumption.
    + subst m'. rewrite app_nil_r. exact Ha.
  - intros [|x r]; unfold iter_min, min_R; [reflexivity|]. apply iter_min_fold.
  - intros a m m' Ha HP. unfold min_R in *. destruct a as [x|].
    + destruct Ha as [Hin Hle]. split.
      * apply (Permutation_in _ HP). exact Hin.
      * intros y Hy. apply Hle. apply (Permutation_in _ (Permutation_sym HP)). exact Hy.
    + subst m. apply Permutation_nil. exact HP.
  - intros a m Ha. unfold min_R, min_spec in *. destruct a as [x|].
    + right. exists x. split; [reflexivity|exact Ha].
    + left. split; [exact Ha|reflexivity].
Qed.

(* ===================== Max ===================== *)
Lemma iter_max_fold : forall r x,
    let y := fold_left (fun m v => if v >=? m then v else m) r x in
    In y (x :: r) /\ forall z, In z (x :: r) -> z <= y.
Proof.
  induction r as [|v r IH]; intros x; cbn [fold_left].
  - split; [left; reflexivity|]. intros z [<-|[]]. lia.
  - specialize (IH (if v >=? x then v else x)). cbv zeta in IH. destruct IH as [Hin Hle].
    split.
    + destruct Hin as [Hin|Hin]; [|right; right; exact Hin].
      rewrite <- Hin. destruct (Z.geb_spec v x); [right; left|left]; reflexivity.
    + intros z Hz.
      assert (Hm : x <= (if v >=? x then v else x) /\ v <= (if v >=? x then v else x))
        by (destruct (Z.geb_spec v x); lia).
      pose proof (Hle _ (or_introl eq_refl)) as H0.
      destruct Hz as [<-|[<-|Hz]]; [lia|lia|]. apply Hle. right. exact Hz.
Qed.

Lemma max_lawful : lawful max_combiner max_R max_spec.
Proof.
  constructor; cbn [max_combiner c_create c_add c_merge c_finish c_build].
  - reflexivity.
  - intros a m v Ha. unfold max_add, max_R in *. destruct a as [cur|].
    + destruct Ha as [Hin Hle]. destruct (Z.gtb_spec v cur) as [Hlt|Hge].
      * split; [left; reflexivity|]. intros y [<-|Hy]; [lia|]. specialize (Hle _ Hy). lia.
      * split; [right; exact Hin|]. intros y [<-|Hy]; [lia|]. apply Hle. exact Hy.
    + subst m. split; [left; reflexivity|]. intros y [<-|[]]. lia.
  - intros a b m m' Ha Hb. unfold max_merge, max_R in *. destruct b as [b|].
    + destruct Hb as [Hinb Hleb]. destruct a as [a|].
      * destruct Ha as [Hina Hlea]. destruct (Z.gtb_spec b a) as [Hlt|Hge].
        -- split; [apply in_or_app; right; exact Hinb|].
           intros y Hy. apply in_app_or in Hy. destruct Hy as [Hy|Hy].
           ++ specialize (Hlea _ Hy). lia.
           ++ apply Hleb. exact Hy.
        -- split; [apply in_or_app; left; exact Hina|].
           intros y Hy. apply in_app_or in Hy. destruct Hy as [Hy|Hy].
           ++ apply Hlea. exact Hy.
           ++ specialize (Hleb _ Hy). lia.
      * subst m. cbn [app]. split; assumption.
    + subst m'. rewrite app_nil_r. exact Ha.
  - intros [|x r]; unfold iter_max, max_R; [reflexivity|]. apply iter_max_fold.
  - intros a m m' Ha HP. unfold max_R in *. destruct a as [x|].
    + destruct Ha as [Hin Hle]. split.
      * apply (Permutation_in _ HP). exact Hin.
      * intros y Hy. apply Hle. apply (Permutation_in _ (Permutation_sym HP)). exact Hy.
    + subst m. apply Permutation_nil. exact HP.
  - intros a m Ha. unfold max_R, max_spec in *. destruct a as [x|].
    + right. exists x. split; [reflexivity|exact Ha].
    + left. split; [exact Ha|reflexivity].
Qed.

(* the specifications determine the output *)
Lemma count_spec_functional : forall V (m : list V) o o',
    count_spec m o -> count_spec m o' -> o = o'.
Proof. unfold count_spec. intros. congruence. Qed.
Lemma sum_spec_functional : forall m o o', sum_spec m o -> sum_spec m o' -> o = o'.
Proof. unfold sum_spec. intros. congruence. Qed.
Lemma min_spec_functional : forall m o o', min_spec m o -> min_spec m o' -> o = o'.
Proof.
  unfold min_spec. intros m o o' [[Hm ->]|[x [-> [Hin Hle]]]] [[Hm' ->]|[x' [-> [Hin' Hle']]]].
  - reflexivity.
  - subst m. destruct Hin'.
  - subst m. destruct Hin.
  - f_equal. specialize (Hle _ Hin'). specialize (Hle' _ Hin). lia.
Qed.
Lemma max_spec_functional : forall m o o', max_spec m o -> max_spec m o' -> o = o'.
Proof.
  unfold max_spec. intros m o o' [[Hm ->]|[x [-> [Hin Hle]]]] [[Hm' ->]|[x' [-> [Hin' Hle']]]].
  - reflexivity.
  - subst m. destruct Hin'.
  - subst m. destruct Hin.
  - f_equal. specialize (Hle _ Hin'). specialize (Hle' _ Hin). lia.
Qed.
(* Min/Max finish "panics" (None) exactly on the empty group *)
Lemma min_spec_none_iff : forall m o, min_spec m o -> (o = None <-> m = []).
Proof.
  unfold min_spec. intros m o [[-> ->]|[x [-> [Hin _]]]]; split; try reflexivity; intros H.
  - discriminate.
  - subst m. destruct Hin.
Qed.
Lemma max_spec_none_iff : forall m o, max_spec m o -> (o = None <-> m = []).
Proof.
  unfold max_spec. intros m o [[-> ->]|[x [-> [Hin _]]]]; split; try reflexivity; intros H.
  - discriminate.
  - subst m. destruct Hin.
Qed.

(* ===================== AverageF64 (exact rationals) ===================== *)
Open Scope Q_scope.
Lemma qsum_app : forall m m', qsum (m ++ m') == qsum m + qsum m'.
Proof.
  induction m as [|x m IH]; intros m'; unfold qsum in *; cbn [app fold_right].
  - ring.
  - rewrite IH. ring.
Qed.
Lemma qsum_perm : forall m m', Permutation m m' -> qsum m == qsum m'.
Proof.
  induction 1 as [|x l l' _ IH|x y l|l l' l'' _ IH1 _ IH2]; unfold qsum in *; cbn [fold_right].
  - reflexivity.
  - rewrite IH. reflexivity.
  - ring.
  - rewrite IH1. exact IH2.
Qed.
Lemma qsum_fold_left : forall vs a, fold_left Qplus vs a == a + qsum vs.
Proof.
  induction vs as [|v vs IH]; intros a; unfold qsum in *; cbn [fold_left fold_right].
  - ring.
  - rewrite IH. ring.
Qed.

Lemma average_lawful : lawful average_combiner average_R average_spec.
Proof.
  constructor; unfold average_R;
    cbn [average_combiner c_create c_add c_merge c_finish c_build fst snd].
  - split; reflexivity.
  - intros a m v [Hs Hn]. split.
    + unfold qsum in *. cbn [fold_right]. rewrite Hs. ring.
    + rewrite Hn. cbn [length]. lia.
  - intros a b m m' [Hs Hn] [Hs' Hn']. split.
    + rewrite qsum_app, Hs, Hs'. reflexivity.
    + rewrite app_length. lia.
  - intros vs. split; [|reflexivity]. rewrite qsum_fold_left. ring.
  - intros a m m' [Hs Hn] HP. split.
    + rewrite Hs. apply qsum_perm. exact HP.
    + rewrite Hn, (Permutation_length HP). reflexivity.
  - intros [s n] m [Hs Hn]. cbn [fst snd] in *. unfold average_spec, avg_finish, mean.
    cbn [fst snd]. subst n. destruct m as [|x m].
    + reflexivity.
    + replace (Z.of_nat (length (x :: m)) =? 0)%Z with false
        by (symmetry; apply Z.eqb_neq; cbn [length]; lia).
      rewrite Hs. reflexivity.
Qed.
Lemma average_spec_functional : forall m o o',
    average_spec m o -> average_spec m o' -> o == o'.
Proof. unfold average_spec. intros m o o' -> ->. reflexivity. Qed.
Close Scope Q_scope.
