(* Lawfulness of TopK (model in Combiners/TopK.v): after any sequence of add_input / merge /
   build_from_group the accumulator holds exactly the k largest values, and finish returns
   `firstn k (sort_desc all_values)`: including k = 0, ties, |a|+|b| = k (fast path) and k > n. *)
From Coq Require Import List ZArith Lia Permutation Sorted Bool Arith.
From IB Require Import Combiners.Lawful Combiners.TopK.
Import ListNotations.
Open Scope Z_scope.

Notation asc := (StronglySorted Z.le).
Notation desc := (StronglySorted Z.ge).

(* ------------------------------------------------------------------ sorted lists *)
Lemma SS_app : forall (R : Z -> Z -> Prop) l1 l2,
    StronglySorted R l1 -> StronglySorted R l2 ->
    (forall a b, In a l1 -> In b l2 -> R a b) -> StronglySorted R (l1 ++ l2).
Proof.
  induction l1 as [|x l1 IH]; intros l2 H1 H2 HR; cbn [app]; [exact H2|].
  inversion H1 as [|? ? H1' Hall]; subst. constructor.
  - apply IH; [exact H1'|exact H2|]. intros a b Ha Hb. apply HR; [right; exact Ha|exact Hb].
  - apply Forall_app. split; [exact Hall|]. apply Forall_forall. intros b Hb.
    apply HR; [left; reflexivity|exact Hb].
Qed.

Lemma asc_rev : forall l, asc l -> desc (rev l).
Proof.
  induction l as [|x l IH]; intros H; cbn [rev]; [constructor|].
  inversion H as [|? ? H' Hall]; subst. apply SS_app; [apply IH; exact H'|repeat constructor|].
  intros a b Ha [<-|[]]. apply in_rev in Ha. rewrite Forall_forall in Hall.
  specialize (Hall _ Ha). lia.
Qed.
Lemma desc_rev : forall l, desc l -> asc (rev l).
Proof.
  induction l as [|x l IH]; intros H; cbn [rev]; [constructor|].
  inversion H as [|? ? H' Hall]; subst. apply SS_app; [apply IH; exact H'|repeat constructor|].
  intros a b Ha [<-|[]]. apply in_rev in Ha. rewrite Forall_forall in Hall.
  specialize (Hall _ Ha). lia.
Qed.

Lemma In_firstn_local : forall (k : nat) (l : list Z) x, In x (firstn k l) -> In x l.
Proof.
  induction k as [|k IH]; intros [|y l] x H; cbn [firstn] in H; try contradiction.
  destruct H as [<-|H]; [left; reflexivity|right; apply IH; exact H].
Qed.
Lemma In_skipn_local : forall (k : nat) (l : list Z) x, In x (skipn k l) -> In x l.
Proof.
  induction k as [|k IH]; intros [|y l] x H; cbn [skipn] in H; try contradiction; try exact H.
  right. apply IH. exact H.
Qed.

Lemma SS_firstn : forall (R : Z -> Z -> Prop) k l,
    StronglySorted R l -> StronglySorted R (firstn k l).
Proof.
  induction k as [|k IH]; intros l H; cbn [firstn]; [constructor|].
  destruct l as [|x l]; [constructor|]. inversion H as [|? ? H' Hall]; subst.
  constructor; [apply IH; exact H'|]. rewrite Forall_forall in *. intros y Hy.
  apply Hall. eapply In_firstn_local; eauto.
Qed.

Lemma asc_perm_eq : forall l1, asc l1 -> forall l2, asc l2 -> Permutation l1 l2 -> l1 = l2.
Proof.
  induction l1 as [|a l1 IH]; intros H1 l2 H2 HP.
  - apply Permutation_nil in HP. subst. reflexivity.
  - destruct l2 as [|b l2]; [apply Permutation_sym, Permutation_nil in HP; discriminate|].
    inversion H1 as [|? ? H1' Ha]; subst. inversion H2 as [|? ? H2' Hb]; subst.
    rewrite Forall_forall in Ha, Hb.
    assert (Hab : a = b).
    { assert (Hi : In a (b :: l2)) by (apply (Permutation_in _ HP); left; reflexivity).
      assert (Hj : In b (a :: l1))
        by (apply (Permutation_in _ (Permutation_sym HP)); left; reflexivity).
      destruct Hi as [Hi|Hi]; [congruence|]. destruct Hj as [Hj|Hj]; [congruence|].
      specialize (Ha _ Hj). specialize (Hb _ Hi). lia. }
    subst b. f_equal. apply IH; [exact H1'|exact H2'|].
    apply Permutation_cons_inv with (a := a). exact HP.
Qed.
Lemma desc_perm_eq : forall l1 l2, desc l1 -> desc l2 -> Permutation l1 l2 -> l1 = l2.
Proof.
  intros l1 l2 H1 H2 HP. rewrite <- (rev_involutive l1), <- (rev_involutive l2). f_equal.
  apply asc_perm_eq; [apply desc_rev; exact H1|apply desc_rev; exact H2|].
  rewrite <- !Permutation_rev. exact HP.
Qed.

(* ------------------------------------------------------------------ the heap operations *)
Lemma heap_push_perm : forall x h, Permutation (heap_push x h) (x :: h).
Proof.
  induction h as [|y h IH]; cbn [heap_push]; [reflexivity|].
  destruct (x <=? y); [reflexivity|].
  apply perm_trans with (y :: x :: h); [apply perm_skip; exact IH|apply perm_swap].
Qed.
Lemma heap_push_length : forall x h, length (heap_push x h) = S (length h).
Proof. intros x h. apply (Permutation_length (heap_push_perm x h)). Qed.
Lemma heap_push_asc : forall x h, asc h -> asc (heap_push x h).
Proof.
  induction h as [|y h IH]; intros Hs; cbn [heap_push]; [repeat constructor|].
  inversion Hs as [|? ? Hs' Hall]; subst. rewrite Forall_forall in Hall.
  destruct (Z.leb_spec x y) as [Hle|Hgt].
  - constructor; [exact Hs|]. apply Forall_forall. intros z [<-|Hz]; [exact Hle|].
    specialize (Hall _ Hz). lia.
  - constructor; [apply IH; exact Hs'|]. apply Forall_forall. intros z Hz.
    apply (Permutation_in _ (heap_push_perm x h)) in Hz. destruct Hz as [<-|Hz]; [lia|auto].
Qed.

Lemma sort_asc_perm : forall l, Permutation (sort_asc l) l.
Proof.
  induction l as [|x l IH]; unfold sort_asc in *; cbn [fold_right]; [reflexivity|].
  apply perm_trans with (x :: fold_right heap_push [] l); [apply heap_push_perm|].
  apply perm_skip. exact IH.
Qed.
Lemma sort_asc_asc : forall l, asc (sort_asc l).
Proof.
  induction l as [|x l IH]; unfold sort_asc in *; cbn [fold_right]; [constructor|].
  apply heap_push_asc. exact IH.
Qed.
Lemma sort_asc_length : forall l, length (sort_asc l) = length l.
Proof. intros l. apply (Permutation_length (sort_asc_perm l)). Qed.
Lemma sort_asc_unique : forall s l, asc s -> Permutation s l -> sort_asc l = s.
Proof.
  intros s l Hs HP. apply asc_perm_eq; [apply sort_asc_asc|exact Hs|].
  apply perm_trans with l; [apply sort_asc_perm|symmetry; exact HP].
Qed.
Lemma sort_asc_congr : forall l l', Permutation l l' -> sort_asc l = sort_asc l'.
Proof.
  intros l l' HP. apply sort_asc_unique; [apply sort_asc_asc|].
  apply perm_trans with l'; [apply sort_asc_perm|symmetry; exact HP].
Qed.

Lemma sort_desc_perm : forall l, Permutation (sort_desc l) l.
Proof.
  intros l. unfold sort_desc. apply perm_trans with (sort_asc l);
    [symmetry; apply Permutation_rev|apply sort_asc_perm].
Qed.
Lemma sort_desc_desc : forall l, desc (sort_desc l).
Proof. intros l. apply asc_rev. apply sort_asc_asc. Qed.
Lemma sort_desc_length : forall l, length (sort_desc l) = length l.
Proof. intros l. apply (Permutation_length (sort_desc_perm l)). Qed.
Lemma sort_desc_unique : forall s l, desc s -> Permutation s l -> sort_desc l = s.
Proof.
  intros s l Hs HP. apply desc_perm_eq; [apply sort_desc_desc|exact Hs|].
  apply perm_trans with l; [apply sort_desc_perm|symmetry; exact HP].
Qed.
Lemma sort_desc_congr : forall l l', Permutation l l' -> sort_desc l = sort_desc l'.
Proof. intros l l' HP. unfold sort_desc. rewrite (sort_asc_congr l l' HP). reflexivity. Qed.

Lemma heap_extend_perm : forall xs h, Permutation (heap_extend h xs) (xs ++ h).
Proof.
  induction xs as [|x xs IH]; intros h; unfold heap_extend in *; cbn [fold_left app];
    [reflexivity|].
  apply perm_trans with (xs ++ heap_push x h); [apply IH|].
  apply perm_trans with (xs ++ x :: h); [apply Permutation_app_head; apply heap_push_perm|].
  symmetry. apply Permutation_middle.
Qed.
Lemma heap_extend_asc : forall xs h, asc h -> asc (heap_extend h xs).
Proof.
  induction xs as [|x xs IH]; intros h Hs; unfold heap_extend in *; cbn [fold_left];
    [exact Hs|].
  apply IH. apply heap_push_asc. exact Hs.
Qed.

(* ------------------------------------------------------------------ the two-pointer merge *)
Lemma tp_Forall : forall (P : Z -> Prop) n v1 v2,
    Forall P v1 -> Forall P v2 -> Forall P (two_pointer n v1 v2).
Proof.
  induction n as [|n IH]; intros v1 v2 H1 H2; cbn [two_pointer]; [constructor|].
  destruct v1 as [|x v1], v2 as [|y v2]; [constructor| | |].
  - inversion H2; subst. constructor; [assumption|]. apply IH; [constructor|assumption].
  - inversion H1; subst. constructor; [assumption|]. apply IH; [assumption|constructor].
  - destruct (x >=? y).
    + inversion H1; subst. constructor; [assumption|]. apply IH; assumption.
    + inversion H2; subst. constructor; [assumption|]. apply IH; assumption.
Qed.

Lemma tp_desc : forall n v1 v2, desc v1 -> desc v2 -> desc (two_pointer n v1 v2).
Proof.
  induction n as [|n IH]; intros v1 v2 H1 H2; cbn [two_pointer]; [constructor|].
  destruct v1 as [|x v1], v2 as [|y v2]; [constructor| | |].
  - inversion H2 as [|? ? H2' Hall]; subst. constructor; [apply IH; [constructor|exact H2']|].
    apply tp_Forall; [constructor|exact Hall].
  - inversion H1 as [|? ? H1' Hall]; subst. constructor; [apply IH; [exact H1'|constructor]|].
    apply tp_Forall; [exact Hall|constructor].
  - destruct (Z.geb_spec x y) as [Hge|Hlt].
    + inversion H1 as [|? ? H1' Hall]; subst. constructor; [apply IH; [exact H1'|exact H2]|].
      apply tp_Forall; [exact Hall|].
      inversion H2 as [|? ? H2' Hall2]; subst. constructor; [lia|].
      eapply Forall_impl; [|exact Hall2]. cbv beta. intros z Hz. lia.
    + inversion H2 as [|? ? H2' Hall]; subst. constructor; [apply IH; [exact H1|exact H2']|].
      apply tp_Forall; [|exact Hall].
      inversion H1 as [|? ? H1' Hall1]; subst. constructor; [lia|].
      eapply Forall_impl; [|exact Hall1]. cbv beta. intros z Hz. lia.
Qed.

Lemma tp_perm : forall n v1 v2,
    (length v1 + length v2 <= n)%nat -> Permutation (two_pointer n v1 v2) (v1 ++ v2).
Proof.
  induction n as [|n IH]; intros v1 v2 Hn.
  - destruct v1, v2; cbn [length] in Hn; try lia. reflexivity.
  - cbn [two_pointer]. destruct v1 as [|x v1], v2 as [|y v2]; [reflexivity| | |].
    + cbn [app]. apply perm_skip. apply (IH [] v2). cbn [length] in *. lia.
    + cbn [app]. apply perm_skip. apply (IH v1 []). cbn [length] in *. lia.
    + destruct (x >=? y).
      * cbn [app]. apply perm_skip. apply IH. cbn [length] in *. lia.
      * apply perm_trans with (y :: (x :: v1) ++ v2);
          [apply perm_skip; apply IH; cbn [length] in *; lia|apply Permutation_middle].
Qed.

Lemma tp_firstn : forall k n v1 v2,
    (k <= n)%nat -> firstn k (two_pointer n v1 v2) = two_pointer k v1 v2.
Proof.
  induction k as [|k IH]; intros n v1 v2 Hk; [reflexivity|].
  destruct n as [|n]; [lia|]. cbn [two_pointer].
  destruct v1 as [|x v1], v2 as [|y v2]; [reflexivity| | |].
  - cbn [firstn]. f_equal. apply IH. lia.
  - cbn [firstn]. f_equal. apply IH. lia.
  - destruct (x >=? y); cbn [firstn]; f_equal; apply IH; lia.
Qed.

(* only the first k elements of either vector can be consumed by k steps *)
Lemma tp_prefix_l : forall k n v1 v2,
    (k <= n)%nat -> two_pointer k (firstn n v1) v2 = two_pointer k v1 v2.
Proof.
  induction k as [|k IH]; intros n v1 v2 Hk; [reflexivity|].
  destruct n as [|n]; [lia|]. destruct v1 as [|x v1]; [reflexivity|].
  cbn [firstn two_pointer]. destruct v2 as [|y v2].
  - f_equal. apply IH. lia.
  - destruct (x >=? y); f_equal.
    + apply IH. lia.
    + change (x :: firstn n v1) with (firstn (S n) (x :: v1)). apply IH. lia.
Qed.

(* the loop of TopK::merge computes the k largest of the two descending vectors *)
Lemma tp_topk : forall k v1 v2,
    desc v1 -> desc v2 -> two_pointer k v1 v2 = firstn k (sort_desc (v1 ++ v2)).
Proof.
  intros k v1 v2 H1 H2.
  set (n := (k + (length v1 + length v2))%nat).
  rewrite <- (tp_firstn k n v1 v2) by (unfold n; lia). f_equal.
  symmetry. apply sort_desc_unique; [apply tp_desc; assumption|].
  apply tp_perm. unfold n. lia.
Qed.

(* ------------------------------------------------------------------ top-k of a multiset *)
Lemma topk_of_desc : forall k m, desc (topk_of k m).
Proof. intros k m. unfold topk_of. apply SS_firstn. apply sort_desc_desc. Qed.
Lemma topk_of_length : forall k m, length (topk_of k m) = Nat.min k (length m).
Proof. intros k m. unfold topk_of. rewrite firstn_length, sort_desc_length. reflexivity. Qed.
Lemma topk_of_congr : forall k m m', Permutation m m' -> topk_of k m = topk_of k m'.
Proof. intros k m m' HP. unfold topk_of. rewrite (sort_desc_congr m m' HP). reflexivity. Qed.
Lemma sort_desc_of_desc : forall l, desc l -> sort_desc l = l.
Proof. intros l H. apply sort_desc_unique; [exact H|reflexivity]. Qed.

(* the k largest of x ++ y are the k largest of (the k largest of x) ++ y *)
Lemma topk_of_app_l : forall k x y, topk_of k (x ++ y) = topk_of k (topk_of k x ++ y).
Proof.
  intros k x y.
  assert (E1 : topk_of k (x ++ y) = two_pointer k (sort_desc x) (sort_desc y)).
  { unfold topk_of.
    rewrite (sort_desc_congr (x ++ y) (sort_desc x ++ sort_desc y))
      by (apply Permutation_app; symmetry; apply sort_desc_perm).
    symmetry. apply tp_topk; apply sort_desc_desc. }
  assert (E2 : topk_of k (topk_of k x ++ y) = two_pointer k (topk_of k x) (sort_desc y)).
  { unfold topk_of at 1.
    rewrite (sort_desc_congr (topk_of k x ++ y) (topk_of k x ++ sort_desc y))
      by (apply Permutation_app_head; symmetry; apply sort_desc_perm).
    symmetry. apply tp_topk; [apply topk_of_desc|apply sort_desc_desc]. }
  rewrite E1, E2. unfold topk_of. symmetry. apply tp_prefix_l. lia.
Qed.
Lemma topk_of_app : forall k x y, topk_of k (x ++ y) = topk_of k (topk_of k x ++ topk_of k y).
Proof.
  intros k x y. rewrite topk_of_app_l.
  rewrite (topk_of_congr k _ _ (Permutation_app_comm (topk_of k x) y)).
  rewrite topk_of_app_l.
  apply topk_of_congr. apply Permutation_app_comm.
Qed.
Lemma topk_of_small : forall k m, (length m <= k)%nat -> topk_of k m = sort_desc m.
Proof. intros k m H. unfold topk_of. apply firstn_all2. rewrite sort_desc_length. exact H. Qed.

(* an accumulator that represents something is an ascending list of at most k values *)
Lemma topk_R_asc : forall k a m, topk_R k a m -> asc a.
Proof. intros k a m ->. apply desc_rev. apply topk_of_desc. Qed.
Lemma topk_R_length : forall k a m, topk_R k a m -> (length a <= k)%nat.
Proof. intros k a m ->. rewrite rev_length, topk_of_length. lia. Qed.

Lemma sort_asc_rev_desc : forall l, desc l -> sort_asc l = rev l.
Proof.
  intros l H. apply sort_asc_unique; [apply desc_rev; exact H|].
  symmetry. apply Permutation_rev.
Qed.
Lemma sort_desc_rev : forall l, sort_desc (rev l) = sort_desc l.
Proof. intros l. apply sort_desc_congr. symmetry. apply Permutation_rev. Qed.

(* ------------------------------------------------------------------ the laws *)
Lemma topk_add_R : forall k a m v, topk_R k a m -> topk_R k (topk_add k a v) (v :: m).
Proof.
  intros k a m v Ha. pose proof (topk_R_asc _ _ _ Ha) as Hasc.
  pose proof (topk_R_length _ _ _ Ha) as Hlen. unfold topk_R in *.
  (* the k largest of v :: m are the k largest of v :: (the k largest of m) *)
  rewrite (topk_of_congr k (v :: m) (m ++ [v])) by (apply Permutation_cons_append).
  rewrite topk_of_app_l.
  rewrite (topk_of_congr k (topk_of k m ++ [v]) (v :: a)).
  2:{ apply perm_trans with (v :: topk_of k m);
        [symmetry; apply Permutation_cons_append|apply perm_skip; subst a; apply Permutation_rev]. }
  unfold topk_of at 1. unfold sort_desc, sort_asc. cbn [fold_right]. fold (sort_asc a).
  rewrite (sort_asc_unique a a Hasc) by reflexivity.
  unfold topk_add, heap_pop.
  pose proof (heap_push_length v a) as Hl.
  destruct (Nat.ltb_spec k (length (heap_push v a))) as [Hgt|Hle].
  - (* one too many: the minimum is dropped *)
    destruct (heap_push v a) as [|h0 t] eqn:E; [cbn [length] in Hl; lia|].
    cbn [tl rev]. cbn [length] in Hl, Hgt.
    assert (Hk : length (rev t) = k) by (rewrite rev_length; lia).
    rewrite firstn_app, Hk, Nat.sub_diag. cbn [firstn]. rewrite app_nil_r.
    rewrite firstn_all2 by lia. rewrite rev_involutive. reflexivity.
  - rewrite firstn_all2 by (rewrite rev_length; lia). rewrite rev_involutive. reflexivity.
Qed.

Lemma topk_merge_R : forall k a b m m',
    topk_R k a m -> topk_R k b m' -> topk_R k (topk_merge k a b) (m ++ m').
Proof.
  intros k a b m m' Ha Hb.
  pose proof (topk_R_asc _ _ _ Ha) as Hasca. pose proof (topk_R_asc _ _ _ Hb) as Hascb.
  unfold topk_R in *. rewrite topk_of_app.
  assert (Hra : topk_of k m = rev a) by (subst a; rewrite rev_involutive; reflexivity).
  assert (Hrb : topk_of k m' = rev b) by (subst b; rewrite rev_involutive; reflexivity).
  rewrite Hra, Hrb. clear Ha Hb Hra Hrb.
  unfold topk_merge. destruct (Nat.leb_spec (length a + length b) k) as [Hfit|Hbig].
  - (* fast path: everything fits *)
    rewrite topk_of_small by (rewrite app_length, !rev_length; exact Hfit).
    unfold sort_desc. rewrite rev_involutive. symmetry. apply sort_asc_unique.
    + apply heap_extend_asc. exact Hasca.
    + apply perm_trans with (b ++ a); [apply heap_extend_perm|].
      apply perm_trans with (a ++ b); [apply Permutation_app_comm|].
      apply Permutation_app; apply Permutation_rev.
  - (* two-pointer path *)
    rewrite (sort_asc_unique b b Hascb) by reflexivity.
    rewrite tp_topk by (apply asc_rev; assumption).
    fold (topk_of k (rev a ++ rev b)).
    assert (Hd : desc (topk_of k (rev a ++ rev b))) by apply topk_of_desc.
    rewrite <- (sort_asc_rev_desc _ Hd). symmetry. apply sort_asc_unique.
    + apply heap_extend_asc. constructor.
    + apply perm_trans with (topk_of k (rev a ++ rev b) ++ []); [apply heap_extend_perm|].
      rewrite app_nil_r. reflexivity.
Qed.

Lemma topk_create_R : forall k, topk_R k [] [].
Proof. intros k. unfold topk_R, topk_of, sort_desc, sort_asc. cbn. rewrite firstn_nil. reflexivity. Qed.

Lemma topk_perm_R : forall k a m m', topk_R k a m -> Permutation m m' -> topk_R k a m'.
Proof. intros k a m m' -> HP. unfold topk_R. rewrite (topk_of_congr k m m' HP). reflexivity. Qed.

Lemma topk_build_R : forall k vs, topk_R k (topk_build k vs) vs.
Proof.
  intros k vs. unfold topk_build.
  assert (H : forall vs a m, topk_R k a m -> topk_R k (fold_left (topk_add k) vs a) (rev vs ++ m)).
  { induction vs0 as [|v vs0 IH]; intros a m Ha; cbn [fold_left rev app]; [exact Ha|].
    rewrite <- app_assoc. cbn [app]. apply IH. apply topk_add_R. exact Ha. }
  apply topk_perm_R with (m := rev vs ++ []); [apply H; apply topk_create_R|].
  rewrite app_nil_r. symmetry. apply Permutation_rev.
Qed.

Lemma topk_lawful : forall k, lawful (topk_combiner k) (topk_R k) (topk_spec k).
Proof.
  intros k. constructor; cbn [topk_combiner c_create c_add c_merge c_finish c_build].
  - apply topk_create_R.
  - apply topk_add_R.
  - apply topk_merge_R.
  - apply topk_build_R.
  - apply topk_perm_R.
  - intros a m ->. unfold topk_spec, topk_finish. apply rev_involutive.
Qed.

Lemma topk_spec_functional : forall k m o o', topk_spec k m o -> topk_spec k m o' -> o = o'.
Proof. unfold topk_spec. intros. congruence. Qed.

(* what `firstn k (sort_desc m)` means: sort_desc m is THE descending arrangement of m *)
Lemma sort_desc_characterisation : forall m s,
    s = sort_desc m <-> (desc s /\ Permutation s m).
Proof.
  intros m s. split.
  - intros ->. split; [apply sort_desc_desc|apply sort_desc_perm].
  - intros [Hd HP]. symmetry. apply sort_desc_unique; assumption.
Qed.

(* a relational reading of the top-k output: a descending list of min k |m| values of m such
   that everything left over is no larger than anything kept *)
Lemma topk_of_characterisation : forall k m,
    desc (topk_of k m) /\ length (topk_of k m) = Nat.min k (length m) /\
    exists rest, Permutation (topk_of k m ++ rest) m /\
                 forall x y, In x (topk_of k m) -> In y rest -> y <= x.
Proof.
  intros k m. split; [apply topk_of_desc|]. split; [apply topk_of_length|].
  exists (skipn k (sort_desc m)). unfold topk_of. split.
  - rewrite firstn_skipn. apply sort_desc_perm.
  - pose proof (sort_desc_desc m) as Hd. revert Hd. generalize (sort_desc m). clear m.
    induction k as [|k IH]; intros s Hd x y Hx Hy; cbn [firstn skipn] in *; [contradiction|].
    destruct s as [|z s]; [contradiction|]. inversion Hd as [|? ? Hd' Hall]; subst.
    cbn [firstn skipn] in *. destruct Hx as [<-|Hx].
    + rewrite Forall_forall in Hall. assert (In y s) by (eapply In_skipn_local; eauto).
      specialize (Hall _ H). lia.
    + eapply IH; eauto.
Qed.
