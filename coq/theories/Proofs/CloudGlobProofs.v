(* Proofs about the glob -> regex translation, the listing prefix and glob expansion
   (models: IO/Regex.v, IO/CloudGlob.v). *)
From Coq Require Import List NArith Bool Lia Btauto Sorted Permutation.
From IB Require Import IO.Regex IO.CloudGlob.
Import ListNotations.
Open Scope N_scope.

(* ================================================================================ *)
(* 0. small facts                                                                    *)
(* ================================================================================ *)
Definition no_nl (s : list N) : bool := forallb not_nl s.

Definition tok_atom (t : gtok) : atom :=
  match t with
  | GStar => ASegStar
  | GStarStar => AAnyStar
  | GQuest => AAny
  | GChar c => ALit c
  end.

Lemma is_meta_split : forall c,
  is_meta c = (c =? c_star) || (c =? c_quest) || (c =? c_dot) || is_escaped_by_glob c.
Proof. intros c. unfold is_meta, is_escaped_by_glob. btauto. Qed.

Lemma is_meta_false : forall c, is_meta c = false ->
  (c =? c_dollar) = false /\ (c =? c_bslash) = false /\ (c =? c_dot) = false /\
  (c =? c_lbrack) = false.
Proof.
  intros c H. unfold is_meta in H.
  repeat (apply orb_false_elim in H; destruct H as [H ?]). repeat split; assumption.
Qed.

(* ================================================================================ *)
(* 1. the parser on the five syntactic forms glob_to_regex emits                      *)
(* ================================================================================ *)
Lemma parse_body_lit : forall c s, is_meta c = false ->
  parse_body (c :: s) = ocons (ALit c) (parse_body s).
Proof.
  intros c s H. destruct (is_meta_false c H) as (H1 & H2 & H3 & H4).
  cbn [parse_body]. rewrite H1, H2, H3, H4, H. reflexivity.
Qed.

Lemma parse_body_esc : forall e s, is_meta e = true ->
  parse_body (c_bslash :: e :: s) = ocons (ALit e) (parse_body s).
Proof. intros e s H. cbn [parse_body]. change (c_bslash =? c_dollar) with false.
  change (c_bslash =? c_bslash) with true. cbv iota. rewrite H. reflexivity. Qed.

Lemma parse_body_anystar : forall s,
  parse_body (c_dot :: c_star :: s) = ocons AAnyStar (parse_body s).
Proof. reflexivity. Qed.

Lemma parse_body_any : forall d s, (d =? c_star) = false ->
  parse_body (c_dot :: d :: s) = ocons AAny (parse_body (d :: s)).
Proof.
  intros d s H. cbn [parse_body]. change (c_dot =? c_dollar) with false.
  change (c_dot =? c_bslash) with false. change (c_dot =? c_dot) with true. cbv iota.
  rewrite H. reflexivity.
Qed.

Lemma parse_body_segstar : forall s,
  parse_body (seg_star_text ++ s) = ocons ASegStar (parse_body s).
Proof. reflexivity. Qed.

(* what follows a translated `?` is never a bare `*` *)
Lemma body_head_not_star : forall p, exists d rest,
  glob_to_regex_body p ++ [c_dollar] = d :: rest /\ (d =? c_star) = false.
Proof.
  intros [|c p'].
  - exists c_dollar, []. split; reflexivity.
  - cbn [glob_to_regex_body].
    destruct (c =? c_star) eqn:Hs.
    { destruct p' as [|c2 p''].
      - eexists _, _. split; [reflexivity|reflexivity].
      - destruct (c2 =? c_star); eexists _, _; (split; [reflexivity|reflexivity]). }
    destruct (c =? c_quest). { eexists _, _. split; reflexivity. }
    destruct (c =? c_dot). { eexists _, _. split; reflexivity. }
    destruct (is_escaped_by_glob c). { eexists _, _. split; reflexivity. }
    exists c, (glob_to_regex_body p' ++ [c_dollar]). split; [reflexivity|exact Hs].
Qed.

Lemma parse_body_glob_n : forall n p, (length p <= n)%nat ->
  parse_body (glob_to_regex_body p ++ [c_dollar]) = Some (map tok_atom (glob_tokens p)).
Proof.
  induction n as [|n IH]; intros p Hlen.
  - destruct p; [reflexivity | cbn in Hlen; lia].
  - destruct p as [|c p']; [reflexivity|].
    cbn [length] in Hlen.
    cbn [glob_to_regex_body glob_tokens].
    destruct (c =? c_star) eqn:Hs.
    { destruct p' as [|c2 p'']; [reflexivity|].
      cbn [length] in Hlen.
      destruct (c2 =? c_star) eqn:Hs2.
      - cbn [app]. rewrite parse_body_anystar, IH by lia. reflexivity.
      - rewrite <- app_assoc, parse_body_segstar, IH by (cbn [length]; lia). reflexivity. }
    destruct (c =? c_quest) eqn:Hq.
    { cbn [app]. destruct (body_head_not_star p') as (d & rest & Hd & Hns).
      pose proof (IH p' ltac:(lia)) as IHp. rewrite Hd in IHp |- *.
      rewrite parse_body_any by exact Hns. rewrite IHp. reflexivity. }
    destruct (c =? c_dot) eqn:Hd.
    { apply N.eqb_eq in Hd. subst c. cbn [app].
      rewrite parse_body_esc by reflexivity. rewrite IH by lia. reflexivity. }
    destruct (is_escaped_by_glob c) eqn:He.
    { cbn [app]. rewrite parse_body_esc.
      - rewrite IH by lia. reflexivity.
      - rewrite is_meta_split, He. apply orb_true_r. }
    cbn [app]. rewrite parse_body_lit.
    + rewrite IH by lia. reflexivity.
    + rewrite is_meta_split, Hs, Hq, Hd, He. reflexivity.
Qed.

(* glob_to_regex never leaves the modelled fragment, and parsing its output gives the
   token-by-token translation of the pattern under the flag `s` *)
Lemma parse_glob_to_regex : forall p,
  parse (glob_to_regex p) = Some (true, map tok_atom (glob_tokens p)).
Proof.
  intros p. unfold glob_to_regex, flag_s_text, parse. cbn [app].
  change ((c_lparen =? c_lparen) && (c_quest =? c_quest) && (c_s =? c_s) && (c_rparen =? c_rparen))
    with true. cbv iota.
  unfold parse_anchored. change (c_caret =? c_caret) with true. cbv iota.
  rewrite (parse_body_glob_n (length p)) by lia. reflexivity.
Qed.

(* the translation before the fix dae5143: same atoms, flag off *)
Lemma parse_glob_to_regex_old : forall p,
  parse (glob_to_regex_old p) = Some (false, map tok_atom (glob_tokens p)).
Proof.
  intros p.
  assert (Ha : parse_anchored (glob_to_regex_old p) = Some (map tok_atom (glob_tokens p))).
  { unfold glob_to_regex_old, parse_anchored. change (c_caret =? c_caret) with true. cbv iota.
    apply (parse_body_glob_n (length p)). lia. }
  unfold parse.
  assert (Hhd : exists rest, glob_to_regex_old p = c_caret :: rest) by (eexists; reflexivity).
  destruct Hhd as (rest & E). rewrite E in *.
  destruct rest as [|b [|c [|d rest']]];
    try change (c_caret =? c_lparen) with false; cbn [andb]; rewrite Ha; reflexivity.
Qed.

(* ================================================================================ *)
(* 2. the two matchers agree on haystacks without line feed                           *)
(* ================================================================================ *)
Lemma star_by_congr : forall (P : list N -> Prop) ok1 ok2 k1 k2,
  (forall x t, P (x :: t) -> P t) ->
  (forall t, P t -> k1 t = k2 t) ->
  (forall x t, P (x :: t) -> ok1 x = ok2 x) ->
  forall s, P s -> star_by ok1 k1 s = star_by ok2 k2 s.
Proof.
  intros P ok1 ok2 k1 k2 Htl Hk Hok. induction s as [|x s IH]; intros HP.
  - cbn. rewrite (Hk [] HP). reflexivity.
  - cbn [star_by]. rewrite (Hk _ HP), (Hok _ _ HP), (IH (Htl _ _ HP)). reflexivity.
Qed.

Lemma no_nl_tail : forall x t, no_nl (x :: t) = true -> no_nl t = true.
Proof. intros x t H. cbn in H. apply andb_true_iff in H. tauto. Qed.
Lemma no_nl_head : forall x t, no_nl (x :: t) = true -> not_nl x = true.
Proof. intros x t H. cbn in H. apply andb_true_iff in H. tauto. Qed.

(* under (?s) the two matchers agree on EVERY haystack *)
Lemma amatch_tmatch : forall ts s, amatch true (map tok_atom ts) s = tmatch ts s.
Proof.
  induction ts as [|t ts IH]; intros s.
  - reflexivity.
  - destruct t; cbn [map tok_atom amatch tmatch].
    + apply (star_by_congr (fun _ => True)); auto.
    + apply (star_by_congr (fun _ => True)); auto.
    + destruct s as [|x s']; [reflexivity|]. rewrite IH. reflexivity.
    + destruct s as [|x s']; [reflexivity|]. rewrite IH. reflexivity.
Qed.

(* without the flag they agree on haystacks without line feed only *)
Lemma amatch_old_tmatch : forall ts s, no_nl s = true ->
  amatch false (map tok_atom ts) s = tmatch ts s.
Proof.
  induction ts as [|t ts IH]; intros s Hs.
  - reflexivity.
  - destruct t; cbn [map tok_atom amatch tmatch].
    + (* GStar *)
      apply (star_by_congr (fun t => no_nl t = true));
        [exact no_nl_tail | exact IH | intros; reflexivity | exact Hs].
    + (* GStarStar *)
      apply (star_by_congr (fun t => no_nl t = true));
        [exact no_nl_tail | exact IH | intros x t H; exact (no_nl_head _ _ H) | exact Hs].
    + (* GQuest *)
      destruct s as [|x s']; [reflexivity|]. unfold any_ok.
      rewrite (no_nl_head _ _ Hs), (IH _ (no_nl_tail _ _ Hs)). reflexivity.
    + (* GChar *)
      destruct s as [|x s']; [reflexivity|].
      rewrite (IH _ (no_nl_tail _ _ Hs)). reflexivity.
Qed.

Theorem glob_regex_correct : forall p s,
  regex_is_match (glob_to_regex p) s = Some (glob_match p s).
Proof.
  intros p s. unfold regex_is_match, glob_match, rmatch.
  rewrite parse_glob_to_regex. cbn [fst snd]. rewrite amatch_tmatch. reflexivity.
Qed.

Theorem glob_regex_old_correct : forall p s, no_nl s = true ->
  regex_is_match (glob_to_regex_old p) s = Some (glob_match p s).
Proof.
  intros p s Hs. unfold regex_is_match, glob_match, rmatch.
  rewrite parse_glob_to_regex_old. cbn [fst snd]. rewrite amatch_old_tmatch by exact Hs.
  reflexivity.
Qed.

(* the regression repaired by dae5143: without the flag, `?` and `**` refused a line feed *)
Lemma glob_regex_old_newline_refuted :
  regex_is_match (glob_to_regex_old [c_quest]) [c_nl] = Some false /\
  glob_match [c_quest] [c_nl] = true /\
  regex_is_match (glob_to_regex_old [c_star; c_star]) [c_nl] = Some false /\
  glob_match [c_star; c_star] [c_nl] = true /\
  regex_is_match (glob_to_regex_old [c_star]) [c_nl] = Some true /\
  regex_is_match (glob_to_regex [c_quest]) [c_nl] = Some true /\
  regex_is_match (glob_to_regex [c_star; c_star]) [c_nl] = Some true.
Proof. repeat split; vm_compute; reflexivity. Qed.

(* ================================================================================ *)
(* 3. declarative semantics of the regex fragment and of glob patterns                *)
(* ================================================================================ *)
Lemma star_by_spec : forall ok k s,
  star_by ok k s = true <->
  exists w t, s = w ++ t /\ forallb ok w = true /\ k t = true.
Proof.
  intros ok k. induction s as [|x s IH].
  - cbn. rewrite orb_false_r. split.
    + intros H. exists [], []. auto.
    + intros (w & t & E & _ & Hk). symmetry in E. apply app_eq_nil in E. destruct E; subst. exact Hk.
  - cbn [star_by]. rewrite orb_true_iff, andb_true_iff, IH. split.
    + intros [H | (Hx & w & t & E & Hw & Hk)].
      * exists [], (x :: s). auto.
      * exists (x :: w), t. subst s. cbn. rewrite Hx, Hw. auto.
    + intros (w & t & E & Hw & Hk). destruct w as [|y w].
      * cbn in E. subst t. left. exact Hk.
      * cbn in E. injection E as -> ->. cbn in Hw. apply andb_true_iff in Hw as [Hy Hw].
        right. split; [exact Hy|]. exists w, t. auto.
Qed.

(* language of one atom / of an anchored regex, for a given value d of the flag `s` *)
Inductive amatches (d : bool) : atom -> list N -> Prop :=
| am_lit : forall c, amatches d (ALit c) [c]
| am_any : forall x, d = true \/ x <> c_nl -> amatches d AAny [x]
| am_anystar : forall w, Forall (fun x => d = true \/ x <> c_nl) w -> amatches d AAnyStar w
| am_segstar : forall w, Forall (fun x => x <> c_slash) w -> amatches d ASegStar w.
Inductive rmatches (d : bool) : list atom -> list N -> Prop :=
| rm_nil : rmatches d [] []
| rm_cons : forall a r w t, amatches d a w -> rmatches d r t -> rmatches d (a :: r) (w ++ t).

Lemma forallb_neq : forall c w,
  forallb (fun x => negb (x =? c)) w = true <-> Forall (fun x => x <> c) w.
Proof.
  intros c w. rewrite forallb_forall, Forall_forall. split; intros H x Hx.
  - specialize (H x Hx). apply negb_true_iff, N.eqb_neq in H. exact H.
  - apply negb_true_iff, N.eqb_neq. auto.
Qed.

Lemma any_ok_iff : forall d x, any_ok d x = true <-> (d = true \/ x <> c_nl).
Proof.
  intros d x. unfold any_ok, not_nl. rewrite orb_true_iff, negb_true_iff, N.eqb_neq. tauto.
Qed.

Lemma forallb_any_ok : forall d w,
  forallb (any_ok d) w = true <-> Forall (fun x => d = true \/ x <> c_nl) w.
Proof.
  intros d w. rewrite forallb_forall, Forall_forall.
  split; intros H x Hx; apply any_ok_iff; auto.
Qed.

Lemma amatch_spec : forall d r s, amatch d r s = true <-> rmatches d r s.
Proof.
  intros d. induction r as [|a r IH]; intros s.
  - cbn. destruct s; split; intros H; try discriminate; try constructor. inversion H.
  - destruct a; cbn [amatch].
    + (* ALit *) destruct s as [|x s'].
      * split; [discriminate|]. intros H. inversion H as [|? ? ? ? Ha Hr E1 E2]; subst.
        inversion Ha; subst. discriminate.
      * rewrite andb_true_iff, N.eqb_eq, IH. split.
        -- intros [-> Hr]. apply (rm_cons d (ALit c) r [c] s'); [constructor|exact Hr].
        -- intros H. inversion H as [|? ? ? ? Ha Hr E1 E2]; subst. inversion Ha; subst.
           cbn in E2. injection E2 as -> ->. auto.
    + (* AAny *) destruct s as [|x s'].
      * split; [discriminate|]. intros H. inversion H as [|? ? ? ? Ha Hr E1 E2]; subst.
        inversion Ha; subst. discriminate.
      * rewrite andb_true_iff, any_ok_iff, IH. split.
        -- intros [Hx Hr]. apply (rm_cons d AAny r [x] s'); [constructor; exact Hx|exact Hr].
        -- intros H. inversion H as [|? ? ? ? Ha Hr E1 E2]; subst. inversion Ha; subst.
           cbn in E2. injection E2 as -> ->. auto.
    + (* AAnyStar *) rewrite star_by_spec. split.
      * intros (w & t & -> & Hw & Hk). constructor.
        -- constructor. apply forallb_any_ok. exact Hw.
        -- apply IH. exact Hk.
      * intros H. inversion H as [|? ? ? ? Ha Hr E1 E2]; subst. inversion Ha; subst.
        exists w, t. split; [reflexivity|].
        split; [apply forallb_any_ok; assumption|apply IH; assumption].
    + (* ASegStar *) rewrite star_by_spec. split.
      * intros (w & t & -> & Hw & Hk). constructor.
        -- constructor. apply forallb_neq. exact Hw.
        -- apply IH. exact Hk.
      * intros H. inversion H as [|? ? ? ? Ha Hr E1 E2]; subst. inversion Ha; subst.
        exists w, t. split; [reflexivity|]. split; [apply forallb_neq; assumption|apply IH; assumption].
Qed.

Lemma rmatch_spec : forall r s, rmatch r s = true <-> rmatches (fst r) (snd r) s.
Proof. intros r s. apply amatch_spec. Qed.

(* the documented meaning of a pattern: the key is a concatenation of one piece per token *)
Inductive gmatches1 : gtok -> list N -> Prop :=
| gm_char : forall c, gmatches1 (GChar c) [c]                 (* a character stands for itself *)
| gm_quest : forall x, gmatches1 GQuest [x]                   (* any single character *)
| gm_starstar : forall w, gmatches1 GStarStar w               (* anything, across segments *)
| gm_star : forall w, Forall (fun x => x <> c_slash) w -> gmatches1 GStar w. (* within a segment *)
Inductive gmatches : list gtok -> list N -> Prop :=
| gms_nil : gmatches [] []
| gms_cons : forall t ts w s, gmatches1 t w -> gmatches ts s -> gmatches (t :: ts) (w ++ s).

Lemma forallb_true : forall (w : list N), forallb (fun _ => true) w = true.
Proof. induction w; cbn; auto. Qed.

Lemma tmatch_spec : forall ts s, tmatch ts s = true <-> gmatches ts s.
Proof.
  induction ts as [|t ts IH]; intros s.
  - cbn. destruct s; split; intros H; try discriminate; try constructor. inversion H.
  - destruct t; cbn [tmatch].
    + (* GStar *) rewrite star_by_spec. split.
      * intros (w & t & -> & Hw & Hk). constructor.
        -- constructor. apply forallb_neq. exact Hw.
        -- apply IH. exact Hk.
      * intros H. inversion H as [|? ? ? ? Ha Hr E1 E2]; subst. inversion Ha; subst.
        exists w, s0. split; [reflexivity|]. split; [apply forallb_neq; assumption|apply IH; assumption].
    + (* GStarStar *) rewrite star_by_spec. split.
      * intros (w & t & -> & Hw & Hk). constructor; [constructor|apply IH; exact Hk].
      * intros H. inversion H as [|? ? ? ? Ha Hr E1 E2]; subst.
        exists w, s0. split; [reflexivity|]. split; [apply forallb_true|apply IH; assumption].
    + (* GQuest *) destruct s as [|x s'].
      * split; [discriminate|]. intros H. inversion H as [|? ? ? ? Ha Hr E1 E2]; subst.
        inversion Ha; subst. discriminate.
      * rewrite IH. split.
        -- intros Hr. apply (gms_cons GQuest ts [x] s'); [constructor|exact Hr].
        -- intros H. inversion H as [|? ? ? ? Ha Hr E1 E2]; subst. inversion Ha; subst.
           cbn in E2. injection E2 as -> ->. auto.
    + (* GChar *) destruct s as [|x s'].
      * split; [discriminate|]. intros H. inversion H as [|? ? ? ? Ha Hr E1 E2]; subst.
        inversion Ha; subst. discriminate.
      * rewrite andb_true_iff, N.eqb_eq, IH. split.
        -- intros [-> Hr]. apply (gms_cons (GChar c) ts [c] s'); [constructor|exact Hr].
        -- intros H. inversion H as [|? ? ? ? Ha Hr E1 E2]; subst. inversion Ha; subst.
           cbn in E2. injection E2 as -> ->. auto.
Qed.

(* ================================================================================ *)
(* 4. listing by the literal prefix hides no match                                    *)
(* ================================================================================ *)
Fixpoint lit_chars (p : list N) : list N :=
  match p with
  | [] => []
  | c :: p' => if is_wild c then [] else c :: lit_chars p'
  end.

Lemma find_wild_lit_chars : forall p,
  match find_wild p with
  | None => lit_chars p = p
  | Some n => lit_chars p = firstn n p
  end.
Proof.
  induction p as [|c p IH]; [reflexivity|].
  cbn [find_wild lit_chars]. destruct (is_wild c); [reflexivity|].
  destruct (find_wild p); cbn [firstn]; rewrite IH; reflexivity.
Qed.

Lemma prefix_ok_lit_chars : forall p s,
  prefix_ok (literal_prefix p) s = starts_with (lit_chars p) s.
Proof.
  intros p s. unfold literal_prefix. pose proof (find_wild_lit_chars p) as H.
  destruct (find_wild p) as [[|n]|]; cbn [prefix_ok]; rewrite H; reflexivity.
Qed.

Lemma tmatch_lit_chars : forall p s,
  tmatch (glob_tokens p) s = true -> starts_with (lit_chars p) s = true.
Proof.
  induction p as [|c p IH]; intros s H; [reflexivity|].
  cbn [lit_chars]. unfold is_wild.
  destruct (c =? c_star) eqn:Hs; [reflexivity|].
  destruct (c =? c_quest) eqn:Hq; [reflexivity|]. cbn [orb].
  cbn [glob_tokens] in H. rewrite Hs, Hq in H. cbn [tmatch] in H.
  destruct s as [|x s']; [discriminate|].
  apply andb_true_iff in H as [Hx Hm]. apply N.eqb_eq in Hx. subst x.
  cbn [starts_with]. rewrite N.eqb_refl. cbn. apply IH. exact Hm.
Qed.

Theorem prefix_sound : forall p s,
  glob_match p s = true -> prefix_ok (literal_prefix p) s = true.
Proof. intros p s H. rewrite prefix_ok_lit_chars. apply tmatch_lit_chars. exact H. Qed.

(* the prefix is literally a prefix of the pattern and contains no wildcard *)
Lemma literal_prefix_is_prefix : forall p pre,
  literal_prefix p = Some pre ->
  exists rest, p = pre ++ rest /\ forallb (fun c => negb (is_wild c)) pre = true.
Proof.
  assert (Hlc : forall p, exists rest, p = lit_chars p ++ rest /\
                          forallb (fun c => negb (is_wild c)) (lit_chars p) = true).
  { induction p as [|c p (rest & E & F)]; [exists []; auto|].
    cbn [lit_chars]. destruct (is_wild c) eqn:Hw.
    - exists (c :: p). auto.
    - exists rest. cbn. rewrite Hw, F. rewrite <- E. auto. }
  intros p pre H. unfold literal_prefix in H. pose proof (find_wild_lit_chars p) as Hf.
  destruct (find_wild p) as [[|n]|]; try discriminate; injection H as H; subst pre.
  - destruct (Hlc p) as (rest & E & F). rewrite Hf in E, F. exists rest. split; assumption.
  - destruct (Hlc p) as (rest & E & F). rewrite Hf in E, F.
    exists rest. split; assumption.
Qed.

(* ================================================================================ *)
(* 5. key order, sorting                                                             *)
(* ================================================================================ *)
Definition key_le (a b : list N) : Prop := key_leb a b = true.

Lemma key_leb_refl : forall a, key_leb a a = true.
Proof. induction a as [|x a IH]; [reflexivity|]. cbn. rewrite N.ltb_irrefl. exact IH. Qed.

Lemma key_leb_total : forall a b, key_leb a b = true \/ key_leb b a = true.
Proof.
  induction a as [|x a IH]; intros [|y b]; cbn; auto.
  destruct (x <? y) eqn:E1; [auto|]. destruct (y <? x) eqn:E2; [auto|]. apply IH.
Qed.

Lemma key_leb_antisym : forall a b, key_leb a b = true -> key_leb b a = true -> a = b.
Proof.
  induction a as [|x a IH]; intros [|y b]; cbn; try discriminate; auto.
  destruct (x <? y) eqn:E1; destruct (y <? x) eqn:E2; try discriminate.
  - apply N.ltb_lt in E1, E2. lia.
  - intros H1 H2. apply N.ltb_ge in E1, E2. assert (x = y) by lia. subst. f_equal. auto.
Qed.

Lemma key_leb_trans : forall a b c, key_leb a b = true -> key_leb b c = true -> key_leb a c = true.
Proof.
  induction a as [|x a IH]; intros [|y b] [|z c]; cbn; try discriminate; auto.
  destruct (x <? y) eqn:E1; destruct (y <? z) eqn:E2; destruct (x <? z) eqn:E3; auto;
    try (destruct (y <? x) eqn:E4; try discriminate);
    try (destruct (z <? y) eqn:E5; try discriminate);
    try (destruct (z <? x) eqn:E6);
    repeat match goal with
           | H : (_ <? _) = true |- _ => apply N.ltb_lt in H
           | H : (_ <? _) = false |- _ => apply N.ltb_ge in H
           end; try lia; intros; try discriminate.
  eapply IH; eassumption.
Qed.

Lemma key_insert_perm : forall k l, Permutation (key_insert k l) (k :: l).
Proof.
  intros k. induction l as [|y l IH]; [reflexivity|]. cbn.
  destruct (key_leb k y); [reflexivity|].
  rewrite IH. apply perm_swap.
Qed.

Lemma sort_keys_perm : forall l, Permutation (sort_keys l) l.
Proof.
  induction l as [|x l IH]; [reflexivity|]. cbn [sort_keys fold_right].
  fold (sort_keys l). rewrite key_insert_perm, IH. reflexivity.
Qed.

Lemma key_insert_sorted : forall k l, Sorted key_le l -> Sorted key_le (key_insert k l).
Proof.
  intros k. induction l as [|y l IH]; intros Hs.
  - cbn. constructor; constructor.
  - cbn. destruct (key_leb k y) eqn:E.
    + constructor; [exact Hs|]. constructor. exact E.
    + inversion Hs as [|? ? Hs' Hd]; subst. constructor; [apply IH; exact Hs'|].
      assert (Hyk : key_le y k).
      { destruct (key_leb_total k y) as [H|H]; [congruence|exact H]. }
      destruct l as [|z l]; cbn.
      * constructor. exact Hyk.
      * destruct (key_leb k z); constructor; [exact Hyk|]. inversion Hd; assumption.
Qed.

Lemma sort_keys_sorted : forall l, Sorted key_le (sort_keys l).
Proof.
  induction l as [|x l IH]; [constructor|]. cbn [sort_keys fold_right]. fold (sort_keys l).
  apply key_insert_sorted. exact IH.
Qed.

Lemma sort_keys_strongly_sorted : forall l, StronglySorted key_le (sort_keys l).
Proof.
  intros l. apply Sorted_StronglySorted.
  - intros a b c. apply key_leb_trans.
  - apply sort_keys_sorted.
Qed.

(* a sorted permutation is unique: whatever algorithm `Vec::sort` uses, it returns sort_keys *)
Lemma sorted_perm_unique : forall l1 l2,
  StronglySorted key_le l1 -> StronglySorted key_le l2 -> Permutation l1 l2 -> l1 = l2.
Proof.
  induction l1 as [|a l1 IH]; intros l2 H1 H2 HP.
  - apply Permutation_nil in HP. auto.
  - destruct l2 as [|b l2]; [apply Permutation_sym, Permutation_nil in HP; discriminate|].
    inversion H1 as [|? ? H1' F1]; subst. inversion H2 as [|? ? H2' F2]; subst.
    assert (a = b).
    { assert (Ha : In a (b :: l2)) by (eapply Permutation_in; [exact HP|left; reflexivity]).
      assert (Hb : In b (a :: l1))
        by (eapply Permutation_in; [apply Permutation_sym; exact HP|left; reflexivity]).
      destruct Ha as [->|Ha]; [reflexivity|]. destruct Hb as [->|Hb]; [reflexivity|].
      rewrite Forall_forall in F1, F2. apply key_leb_antisym; [apply F1|apply F2]; assumption. }
    subst b. f_equal. apply IH; try assumption. eapply Permutation_cons_inv. exact HP.
Qed.

Lemma sort_keys_unique : forall l l', StronglySorted key_le l' -> Permutation l' l ->
  l' = sort_keys l.
Proof.
  intros l l' Hs Hp. apply sorted_perm_unique; [exact Hs|apply sort_keys_strongly_sorted|].
  rewrite Hp. symmetry. apply sort_keys_perm.
Qed.

(* ================================================================================ *)
(* 6. expansion = sorted list of exactly the matching keys                            *)
(* ================================================================================ *)
Lemma filter_filter_imp : forall (A : Type) (f g : A -> bool) l,
  (forall x, In x l -> f x = true -> g x = true) -> filter f (filter g l) = filter f l.
Proof.
  intros A f g. induction l as [|x l IH]; intros H; [reflexivity|].
  cbn [filter]. destruct (g x) eqn:Hg.
  - cbn [filter]. rewrite IH by (intros; apply H; [right|]; assumption). reflexivity.
  - destruct (f x) eqn:Hf.
    + rewrite (H x (or_introl eq_refl) Hf) in Hg. discriminate.
    + apply IH. intros; apply H; [right|]; assumption.
Qed.

Theorem expand_is_ref : forall keys p,
  expand (Some keys) p = Ok (expand_ref keys p).
Proof.
  intros keys p. unfold expand, expand_ref. rewrite parse_glob_to_regex. f_equal. f_equal.
  assert (E : forall k, rmatch (true, map tok_atom (glob_tokens p)) k = glob_match p k).
  { intros k. unfold glob_match, rmatch. cbn [fst snd]. apply amatch_tmatch. }
  rewrite filter_filter_imp.
  - apply filter_ext. exact E.
  - intros k Hin Hm. apply prefix_sound. rewrite <- E. exact Hm.
Qed.

Theorem expand_ref_spec : forall keys p,
  StronglySorted key_le (expand_ref keys p) /\
  (forall k, In k (expand_ref keys p) <-> In k keys /\ glob_match p k = true) /\
  (NoDup keys -> NoDup (expand_ref keys p)).
Proof.
  intros keys p. unfold expand_ref. split; [apply sort_keys_strongly_sorted|]. split.
  - intros k. rewrite <- filter_In. split; intros H.
    + eapply Permutation_in; [apply sort_keys_perm|exact H].
    + eapply Permutation_in; [apply Permutation_sym, sort_keys_perm|exact H].
  - intros Hnd. eapply Permutation_NoDup; [apply Permutation_sym, sort_keys_perm|].
    apply NoDup_filter. exact Hnd.
Qed.

Theorem expand_required_spec : forall bucket p,
  expand_required bucket p =
  match expand bucket p with Ok [] => Err NotFound | o => o end.
Proof. reflexivity. Qed.

(* never InvalidInput: the only errors are those of the store *)
Theorem expand_outcome : forall bucket p,
  match bucket with
  | None => expand bucket p = Err NotFound
  | Some keys => exists ks, expand bucket p = Ok ks
  end.
Proof.
  intros [keys|] p; unfold expand; rewrite parse_glob_to_regex; [eexists; reflexivity|reflexivity].
Qed.
