(* "Take everything" sample sizes: for every k larger than the input the model's result does not
   depend on k - not only its size (min k n = n, Proofs/Reservoir.v) but the exact sample, order
   included, for every partitioning, for every accumulator expression and for the keyed entry
   points.  This is what justifies Corr/C14.v running the model with min(k, n+1) when the harness
   passes k = usize::MAX, 2^63, ... (a unary nat cannot hold those). *)
From Coq Require Import List NArith Arith Bool Lia Permutation.
From IB Require Import Combiners.Reservoir Proofs.Reservoir Proofs.ReservoirKeyed.
Import ListNotations.

Section BigK.
  Context {T : Type}.

  (* the same accumulator with another requested size *)
  Definition with_k (k' : nat) (a : pracc T) : pracc T :=
    PRAcc k' (prng a) (pseq a) (pheap a) (pstore a) (palive a).

  Lemma trim_loop_noop : forall a : pracc T, palive a <= pk a -> trim_loop a = a.
  Proof.
    intros a H. unfold trim_loop. cbn [trim].
    destruct (Nat.ltb (pk a) (palive a)) eqn:E; [apply Nat.ltb_lt in E; lia|reflexivity].
  Qed.

  Lemma eqb0_false : forall n m, m < n -> Nat.eqb n 0 = false.
  Proof. intros n m H. apply Nat.eqb_neq. lia. Qed.

  Lemma add_k : forall k k' (a : pracc T) m v,
    R k a m -> length m < k -> length m < k' ->
    add (with_k k' a) v = with_k k' (add a v).
  Proof.
    intros k k' a m v [_ [Hk [Hal _]]] H1 H2.
    destruct a as [k0 rng sq hp st al]. cbn [pk palive] in Hk, Hal. subst k0.
    unfold add, with_k. cbn [pk prng pseq pheap pstore palive].
    rewrite (eqb0_false _ _ H1), (eqb0_false _ _ H2). destruct (sm_next rng) as [s' x].
    rewrite !trim_loop_noop by (cbn [pk palive]; lia). reflexivity.
  Qed.

  Lemma merge_k : forall k k' (a b : pracc T) m m',
    R k a m -> R k b m' -> length m + length m' < k -> length m + length m' < k' ->
    merge (with_k k' a) (with_k k' b) = with_k k' (merge a b).
  Proof.
    intros k k' a b m m' [_ [Hka [Hala _]]] [[_ Hcb] [Hkb [Halb _]]] H1 H2.
    destruct a as [ka rnga sqa hpa sta ala]. destruct b as [kb rngb sqb hpb stb alb].
    cbn [pk palive pstore] in *. subst ka kb.
    unfold merge, with_k. cbn [pk prng pseq pheap pstore palive].
    assert (K0 : Nat.eqb k 0 = false) by (apply Nat.eqb_neq; lia).
    assert (K0' : Nat.eqb k' 0 = false) by (apply Nat.eqb_neq; lia).
    rewrite K0, K0', !Nat.max_id.
    rewrite !trim_loop_noop by (cbn [pk palive]; rewrite live_slots_length; lia). reflexivity.
  Qed.

  Lemma finish_k : forall k k' (a : pracc T) m,
    R k a m -> length m < k -> length m < k' -> finish (with_k k' a) = finish a.
  Proof.
    intros k k' a m [[_ Hc] [Hk [Hal _]]] H1 H2.
    destruct a as [k0 rng sq hp st al]. cbn [pk palive pstore] in *. subst k0.
    unfold finish, with_k. cbn [pk palive pstore].
    rewrite (eqb0_false _ _ H1), (eqb0_false _ _ H2). cbn [orb].
    destruct (Nat.eqb al 0); [reflexivity|].
    assert (L : length (stable_sort (live_items st)) = al)
      by (rewrite (Permutation_length (stable_sort_perm _)); symmetry; exact Hc).
    rewrite !firstn_all2 by lia. reflexivity.
  Qed.

  Lemma fold_add_k : forall k k' rows (a : pracc T) m,
    R k a m -> length m + length rows < k -> length m + length rows < k' ->
    fold_left add rows (with_k k' a) = with_k k' (fold_left add rows a).
  Proof.
    intros k k' rows. induction rows as [|v r IH]; intros a m HR H1 H2; [reflexivity|].
    cbn [fold_left length] in *. rewrite (add_k k k' a m v HR) by lia.
    apply (IH _ (m ++ [v])); [apply R_add; exact HR| |]; rewrite app_length; cbn [length]; lia.
  Qed.
  Lemma local_k : forall k k' seed (rows : list T),
    length rows < k -> length rows < k' -> local k' seed rows = with_k k' (local k seed rows).
  Proof.
    intros k k' seed rows H1 H2. unfold local.
    exact (fold_add_k k k' rows (create k seed) [] (R_create k seed) H1 H2).
  Qed.

  Lemma fold_merge_k : forall k k' seed (parts : list (list T)) a m,
    R k a m -> length m + length (concat parts) < k -> length m + length (concat parts) < k' ->
    fold_left merge (map (local k' seed) parts) (with_k k' a)
    = with_k k' (fold_left merge (map (local k seed) parts) a).
  Proof.
    intros k k' seed parts. induction parts as [|p r IH]; intros a m HR H1 H2; [reflexivity|].
    cbn [map fold_left concat] in *. rewrite app_length in H1, H2.
    rewrite (local_k k k' seed p) by lia.
    rewrite (merge_k k k' a _ m p HR (R_local k seed p)) by lia.
    apply (IH _ (m ++ p)); [apply R_merge; [exact HR|apply R_local]| |]; rewrite app_length; lia.
  Qed.

  Theorem sample_parts_big_k : forall k k' seed (parts : list (list T)),
    length (concat parts) < k -> length (concat parts) < k' ->
    sample_parts k' seed parts = sample_parts k seed parts.
  Proof.
    intros k k' seed parts H1 H2. unfold sample_parts.
    destruct parts as [|p r].
    - cbn [map merge_all]. exact (finish_k k k' _ [] (R_create k seed) H1 H2).
    - cbn [map merge_all concat] in *. rewrite app_length in H1, H2.
      rewrite (local_k k k' seed p) by lia.
      rewrite (fold_merge_k k k' seed r _ p (R_local k seed p)) by lia.
      apply (finish_k k k' _ (p ++ concat r)).
      + apply (R_fold_merge k seed r _ p). apply R_local.
      + rewrite app_length. lia.
      + rewrite app_length. lia.
  Qed.

  (* arbitrary accumulator expressions (the "expr" kind of the correspondence) *)
  Inductive rexpr :=
  | ECreate
  | EAdd (e : rexpr) (v : T)
  | EMerge (l r : rexpr)
  | EBuild (vs : list T).
  Fixpoint eval (k : nat) (seed : N) (e : rexpr) : pracc T :=
    match e with
    | ECreate => create k seed
    | EAdd e v => add (eval k seed e) v
    | EMerge l r => merge (eval k seed l) (eval k seed r)
    | EBuild vs => local k seed vs
    end.
  Fixpoint consumed (e : rexpr) : list T :=
    match e with
    | ECreate => []
    | EAdd e v => consumed e ++ [v]
    | EMerge l r => consumed l ++ consumed r
    | EBuild vs => vs
    end.
  Lemma eval_R : forall k seed e, R k (eval k seed e) (consumed e).
  Proof.
    intros k seed e. induction e as [|e IH v|l IHl r IHr|vs]; cbn [eval consumed].
    - apply R_create.
    - apply R_add. exact IH.
    - apply R_merge; assumption.
    - apply R_local.
  Qed.
  Lemma eval_k : forall k k' seed e,
    length (consumed e) < k -> length (consumed e) < k' ->
    eval k' seed e = with_k k' (eval k seed e).
  Proof.
    intros k k' seed e. induction e as [|e IH v|l IHl r IHr|vs]; cbn [eval consumed]; intros H1 H2.
    - reflexivity.
    - rewrite app_length in H1, H2. cbn [length] in H1, H2. rewrite IH by lia.
      apply (add_k k k' _ (consumed e)); [apply eval_R|lia|lia].
    - rewrite app_length in H1, H2. rewrite IHl, IHr by lia.
      apply (merge_k k k' _ _ (consumed l) (consumed r)); [apply eval_R|apply eval_R|lia|lia].
    - apply local_k; assumption.
  Qed.
  Theorem expr_big_k : forall k k' seed e,
    length (consumed e) < k -> length (consumed e) < k' ->
    finish (eval k' seed e) = finish (eval k seed e).
  Proof.
    intros k k' seed e H1 H2. rewrite (eval_k k k' seed e H1 H2).
    exact (finish_k k k' _ _ (eval_R k seed e) H1 H2).
  Qed.
End BigK.

(* ---------------------------------------------------------------- keyed entry points *)
Section BigKKeyed.
  Context {K T : Type}.
  Variable keqb : K -> K -> bool.
  Hypothesis keqb_spec : forall x y, reflect (x = y) (keqb x y).

  Definition map_vals {A B} (g : A -> B) (m : list (K * A)) : list (K * B) :=
    map (fun ka => (fst ka, g (snd ka))) m.

  Lemma lookup_map_vals : forall A B (g : A -> B) key (m : list (K * A)),
    lookup keqb key (map_vals g m) = option_map g (lookup keqb key m).
  Proof.
    intros A B g key m. induction m as [|[k0 a] r IH]; [reflexivity|].
    cbn [map_vals map fst snd lookup]. fold (map_vals g r).
    destruct (keqb key k0); [reflexivity|exact IH].
  Qed.

  (* upsert commutes with a value map when the two update functions commute on the affected value *)
  Lemma upsert_map_vals : forall A B (g : A -> B) key dflt dflt' (f : A -> A) (f' : B -> B) m,
    f' (g (match lookup keqb key m with Some a => a | None => dflt end))
      = g (f (match lookup keqb key m with Some a => a | None => dflt end)) ->
    dflt' = g dflt ->
    upsert keqb key dflt' f' (map_vals g m) = map_vals g (upsert keqb key dflt f m).
  Proof.
    intros A B g key dflt dflt' f f' m H Hd. subst dflt'. induction m as [|[k0 a] r IH].
    - cbn [lookup] in H. cbn [map_vals map upsert fst snd]. rewrite H. reflexivity.
    - cbn [map_vals map fst snd upsert lookup] in *. fold (map_vals g r).
      destruct (keqb key k0).
      + cbn [map fst snd]. rewrite H. reflexivity.
      + cbn [map fst snd]. fold (map_vals g (upsert keqb key dflt f r)). rewrite (IH H). reflexivity.
  Qed.

  Lemma vals_length_le : forall key (d : list (K * T)), length (vals keqb key d) <= length d.
  Proof.
    intros key d. unfold vals. rewrite map_length.
    induction d as [|x r IH]; [apply le_n|].
    cbn [filter length]. destruct (keqb key (fst x)); cbn [length]; lia.
  Qed.

  Variables k k' : nat.
  Variable seed : N.

  Lemma cv_local_fold_k : forall rows (accs : list (K * pracc T)) d,
    MapR keqb k accs d ->
    length d + length rows < k -> length d + length rows < k' ->
    fold_left (fun m kv => upsert keqb (fst kv) (create k' seed) (fun a => add a (snd kv)) m)
              rows (map_vals (with_k k') accs)
    = map_vals (with_k k')
        (fold_left (fun m kv => upsert keqb (fst kv) (create k seed) (fun a => add a (snd kv)) m)
                   rows accs).
  Proof.
    induction rows as [|[key v] r IH]; intros accs d HM H1 H2; [reflexivity|].
    cbn [fold_left fst snd length] in *.
    rewrite (upsert_map_vals _ _ (with_k k') key (create k seed) (create k' seed)
               (fun a => add a v) (fun a => add a v)).
    - apply (IH _ (d ++ [(key, v)])).
      + apply (MapR_local_step keqb keqb_spec). exact HM.
      + rewrite app_length. cbn [length]. lia.
      + rewrite app_length. cbn [length]. lia.
    - pose proof (vals_length_le key d) as Hl. specialize (HM key).
      destruct (lookup keqb key accs) as [a|].
      + apply (add_k k k' a (vals keqb key d)); [exact (proj2 HM)|lia|lia].
      + apply (add_k k k' _ []); [apply R_create|cbn [length]; lia|cbn [length]; lia].
    - reflexivity.
  Qed.

  Lemma cv_local_k : forall rows : list (K * T),
    length rows < k -> length rows < k' ->
    cv_local keqb k' seed rows = map_vals (with_k k') (cv_local keqb k seed rows).
  Proof.
    intros rows H1 H2. unfold cv_local.
    exact (cv_local_fold_k rows [] [] (MapR_nil keqb k) H1 H2).
  Qed.

  Definition acc_or_create (key : K) (accs : list (K * pracc T)) : pracc T :=
    match lookup keqb key accs with Some a => a | None => create k seed end.

  Lemma cv_merge_one_k : forall (m accs : list (K * pracc T)),
    NoDup (map fst m) ->
    (forall key b, In (key, b) m ->
       merge (with_k k' (acc_or_create key accs)) (with_k k' b)
       = with_k k' (merge (acc_or_create key accs) b)) ->
    cv_merge_one keqb k' seed (map_vals (with_k k') accs) (map_vals (with_k k') m)
    = map_vals (with_k k') (cv_merge_one keqb k seed accs m).
  Proof.
    unfold cv_merge_one. induction m as [|[key b] r IH]; intros accs Hnd Hgood; [reflexivity|].
    cbn [map fst] in Hnd. inversion Hnd as [|x l Hnot Hnd']; subst.
    cbn [map_vals map fold_left fst snd]. fold (map_vals (with_k k') r).
    rewrite (upsert_map_vals _ _ (with_k k') key (create k seed) (create k' seed)
               (fun a => merge a b) (fun a => merge a (with_k k' b))).
    - apply IH; [exact Hnd'|]. intros key2 b2 Hin.
      assert (NE : key2 <> key).
      { intros E. subst. apply Hnot. apply (in_map fst) in Hin. exact Hin. }
      unfold acc_or_create. rewrite (lookup_upsert keqb keqb_spec), (keqb_neq keqb keqb_spec _ _ NE).
      apply (Hgood key2 b2). right. exact Hin.
    - apply (Hgood key b). left. reflexivity.
    - reflexivity.
  Qed.

  Lemma merge_fold_k : forall (parts : list (list (K * T))) accs d,
    NoDup (map fst accs) -> MapR keqb k accs d ->
    length d + length (concat parts) < k -> length d + length (concat parts) < k' ->
    fold_left (cv_merge_one keqb k' seed) (map (cv_local keqb k' seed) parts)
              (map_vals (with_k k') accs)
    = map_vals (with_k k')
        (fold_left (cv_merge_one keqb k seed) (map (cv_local keqb k seed) parts) accs).
  Proof.
    induction parts as [|p r IH]; intros accs d Hnd HM H1 H2; [reflexivity|].
    cbn [map fold_left concat] in *. rewrite app_length in H1, H2.
    rewrite (cv_local_k p) by lia.
    rewrite cv_merge_one_k.
    - apply (IH _ (d ++ p)).
      + apply nodup_merge_one; assumption.
      + apply (MapR_merge_one keqb keqb_spec);
          [apply nodup_local; exact keqb_spec|exact HM|apply MapR_local; exact keqb_spec].
      + rewrite app_length. lia.
      + rewrite app_length. lia.
    - apply nodup_local. exact keqb_spec.
    - intros key b Hin.
      pose proof (in_lookup keqb keqb_spec _ _ _ _ (nodup_local keqb keqb_spec k seed p) Hin) as L.
      pose proof (MapR_local keqb keqb_spec k seed p key) as Hb. rewrite L in Hb.
      pose proof (vals_length_le key d) as Ld. pose proof (vals_length_le key p) as Lp.
      unfold acc_or_create. specialize (HM key). destruct (lookup keqb key accs) as [a|].
      + apply (merge_k k k' a b (vals keqb key d) (vals keqb key p));
          [exact (proj2 HM)|exact (proj2 Hb)|lia|lia].
      + apply (merge_k k k' _ b [] (vals keqb key p));
          [apply R_create|exact (proj2 Hb)|cbn [length]; lia|cbn [length]; lia].
  Qed.

  Theorem keyed_parts_big_k : forall parts : list (list (K * T)),
    length (concat parts) < k -> length (concat parts) < k' ->
    keyed_parts keqb k' seed parts = keyed_parts keqb k seed parts.
  Proof.
    intros parts H1 H2. unfold keyed_parts, cv_merge.
    pose proof (merge_fold_k parts [] [] (NoDup_nil _) (MapR_nil keqb k) H1 H2) as E.
    cbn [map_vals map] in E. rewrite E.
    destruct (merge_fold keqb keqb_spec k seed parts [] [] (NoDup_nil _) (MapR_nil keqb k))
      as [Hnd HR].
    cbn [app] in HR.
    set (final := fold_left (cv_merge_one keqb k seed) (map (cv_local keqb k seed) parts) []) in *.
    unfold map_vals. rewrite map_map. apply map_ext_in. intros [key a] Hin. cbn [fst snd].
    f_equal.
    pose proof (in_lookup keqb keqb_spec _ _ _ _ Hnd Hin) as L. specialize (HR key).
    rewrite L in HR. pose proof (vals_length_le key (concat parts)) as Lv.
    apply (finish_k k k' a (vals keqb key (concat parts))); [exact (proj2 HR)|lia|lia].
  Qed.
End BigKKeyed.
