(* Proofs about the sorting collectors and the per-group digests (Window/Collect.v). *)
From Coq Require Import List ZArith Bool Lia Permutation Sorted.
From IB Require Import Window.Tumble Window.Grouping Window.Collect
     Proofs.WindowTumbleProofs Proofs.WindowGroupingProofs Proofs.WindowJoinProofs.
Import ListNotations.
Open Scope Z_scope.

(* ---------- comparisons that are total orders ---------- *)
Definition good_cmp {A} (cmp : A -> A -> comparison) : Prop :=
  (forall a b, cmp a b = Eq <-> a = b)
  /\ (forall a b, cmp b a = CompOpp (cmp a b))
  /\ (forall a b c, cmp a b = Lt -> cmp b c = Lt -> cmp a c = Lt).

Definition lex_cmp {X Y} (c1 : X -> X -> comparison) (c2 : Y -> Y -> comparison) (a b : X * Y)
  : comparison := match c1 (fst a) (fst b) with Eq => c2 (snd a) (snd b) | c => c end.

Lemma good_cmp_Z : good_cmp Z.compare.
Proof.
  repeat split.
  - apply Z.compare_eq.
  - intros ->. apply Z.compare_refl.
  - intros a b. apply Z.compare_antisym.
  - intros a b c H1 H2. change (a < b) in H1. change (b < c) in H2. change (a < c). lia.
Qed.

Lemma good_cmp_lex : forall X Y (c1 : X -> X -> comparison) (c2 : Y -> Y -> comparison),
    good_cmp c1 -> good_cmp c2 -> good_cmp (lex_cmp c1 c2).
Proof.
  intros X Y c1 c2 [E1 [A1 T1]] [E2 [A2 T2]]. unfold lex_cmp. repeat split.
  - intros H. destruct a as [a1 a2], b as [b1 b2]. cbn [fst snd] in H.
    destruct (c1 a1 b1) eqn:H1; try discriminate. apply E1 in H1. apply E2 in H. congruence.
  - intros ->. rewrite (proj2 (E1 _ _) eq_refl). apply E2. reflexivity.
  - intros a b. rewrite (A1 (fst a) (fst b)). destruct (c1 (fst a) (fst b)); cbn [CompOpp]; [apply A2|reflexivity|reflexivity].
  - intros a b c H1 H2.
    destruct (c1 (fst a) (fst b)) eqn:Hab; try discriminate;
      destruct (c1 (fst b) (fst c)) eqn:Hbc; try discriminate.
    + apply E1 in Hab. apply E1 in Hbc. rewrite Hab, Hbc, (proj2 (E1 _ _) eq_refl).
      apply (T2 _ _ _ H1 H2).
    + apply E1 in Hab. rewrite Hab, Hbc. reflexivity.
    + apply E1 in Hbc. rewrite <- Hbc, Hab. reflexivity.
    + rewrite (T1 _ _ _ Hab Hbc). reflexivity.
Qed.

Lemma window_cmp_is_lex : forall a b : window, window_cmp a b = lex_cmp Z.compare Z.compare a b.
Proof. reflexivity. Qed.

Lemma good_cmp_ext : forall A (c c' : A -> A -> comparison),
    (forall a b, c a b = c' a b) -> good_cmp c' -> good_cmp c.
Proof.
  intros A c c' He [E [An T]]. repeat split.
  - rewrite He. apply E.
  - intros ->. rewrite He. apply E. reflexivity.
  - intros a b. rewrite !He. apply An.
  - intros a b d. rewrite !He. apply T.
Qed.

Lemma good_cmp_window : good_cmp window_cmp.
Proof.
  apply (good_cmp_ext _ _ _ window_cmp_is_lex). apply good_cmp_lex; apply good_cmp_Z.
Qed.

Lemma good_cmp_kw : forall K (kcmp : K -> K -> comparison), good_cmp kcmp -> good_cmp (kw_cmp kcmp).
Proof.
  intros K kcmp Hk. apply (good_cmp_ext _ _ (lex_cmp kcmp window_cmp)); [reflexivity|].
  apply good_cmp_lex; [exact Hk|apply good_cmp_window].
Qed.

(* what the sorting lemmas need of a comparison (also true of a good comparison of KEYS lifted to rows) *)
Definition order_cmp {A} (cmp : A -> A -> comparison) : Prop :=
  (forall a b, cmp b a = CompOpp (cmp a b))
  /\ (forall a b c, le_of cmp a b = true -> le_of cmp b c = true -> le_of cmp a c = true).

Lemma good_cmp_order : forall A (cmp : A -> A -> comparison), good_cmp cmp -> order_cmp cmp.
Proof.
  intros A cmp [E [An T]]. split; [exact An|].
  intros a b c. unfold le_of. intros H1 H2.
  destruct (cmp a b) eqn:Hab; try discriminate; destruct (cmp b c) eqn:Hbc; try discriminate.
  - apply E in Hab. apply E in Hbc. subst. rewrite (proj2 (E c c) eq_refl). reflexivity.
  - apply E in Hab. subst. rewrite Hbc. reflexivity.
  - apply E in Hbc. subst. rewrite Hab. reflexivity.
  - rewrite (T _ _ _ Hab Hbc). reflexivity.
Qed.

Lemma order_cmp_on_key : forall K X (kcmp : K -> K -> comparison),
    order_cmp kcmp -> order_cmp (fun a b : K * X => kcmp (fst a) (fst b)).
Proof.
  intros K X kcmp [An T]. split.
  - intros a b. apply An.
  - intros a b c. unfold le_of. apply (T (fst a) (fst b) (fst c)).
Qed.

Section SortBy.
  Variable A : Type.
  Variable cmp : A -> A -> comparison.
  Notation le := (fun a b => le_of cmp a b = true).

  Lemma insert_by_perm : forall x l, Permutation (insert_by cmp x l) (x :: l).
  Proof.
    intros x l. induction l as [|y r IH]; [reflexivity|].
    cbn [insert_by]. destruct (le_of cmp x y); [reflexivity|].
    rewrite IH. apply perm_swap.
  Qed.

  Lemma sort_by_perm : forall l, Permutation (sort_by cmp l) l.
  Proof.
    intros l. unfold sort_by. induction l as [|x l IH]; [reflexivity|].
    cbn [fold_right]. rewrite insert_by_perm. apply perm_skip. exact IH.
  Qed.

  (* stability: a class of mutually equal (cmp = Eq) elements keeps its input order *)
  Lemma insert_by_stable : forall (p : A -> bool) x l,
      (forall a b, p a = true -> p b = true -> cmp a b = Eq) ->
      filter p (insert_by cmp x l) = filter p (x :: l).
  Proof.
    intros p x l Hp. induction l as [|y r IH]; [reflexivity|].
    cbn [insert_by]. destruct (le_of cmp x y) eqn:Hle; [reflexivity|].
    cbn [filter]. rewrite IH. cbn [filter].
    destruct (p y) eqn:Hy; destruct (p x) eqn:Hx; try reflexivity.
    exfalso. unfold le_of in Hle. rewrite (Hp x y Hx Hy) in Hle. discriminate.
  Qed.

  Lemma sort_by_stable : forall (p : A -> bool) l,
      (forall a b, p a = true -> p b = true -> cmp a b = Eq) ->
      filter p (sort_by cmp l) = filter p l.
  Proof.
    intros p l Hp. unfold sort_by. induction l as [|x l IH]; [reflexivity|].
    cbn [fold_right]. rewrite (insert_by_stable p x _ Hp). cbn [filter]. rewrite IH. reflexivity.
  Qed.

  Hypothesis Hord : order_cmp cmp.

  Lemma le_total : forall a b, le_of cmp a b = false -> le_of cmp b a = true.
  Proof.
    intros a b. unfold le_of. destruct Hord as [An _]. rewrite (An a b).
    destruct (cmp a b); cbn [CompOpp]; congruence.
  Qed.

  Lemma insert_by_sorted : forall x l, StronglySorted le l -> StronglySorted le (insert_by cmp x l).
  Proof.
    intros x l Hs. induction Hs as [|y r Hs IH Hall]; [repeat constructor|].
    cbn [insert_by]. destruct (le_of cmp x y) eqn:Hle.
    - constructor; [constructor; assumption|]. constructor; [exact Hle|].
      apply Forall_forall. intros z Hz. destruct Hord as [_ T]. apply (T x y z Hle).
      apply (proj1 (Forall_forall _ _) Hall z Hz).
    - constructor; [exact IH|]. apply Forall_forall. intros z Hz.
      apply (Permutation_in _ (insert_by_perm x r)) in Hz. destruct Hz as [<-|Hz].
      + apply le_total. exact Hle.
      + apply (proj1 (Forall_forall _ _) Hall z Hz).
  Qed.

  Lemma sort_by_sorted : forall l, StronglySorted le (sort_by cmp l).
  Proof.
    intros l. unfold sort_by. induction l as [|x l IH]; [constructor|].
    cbn [fold_right]. apply insert_by_sorted. exact IH.
  Qed.

  (* two sorted arrangements of the same elements coincide when no two different elements tie *)
  Lemma sorted_perm_unique : forall l1 l2,
      Permutation l1 l2 -> StronglySorted le l1 -> StronglySorted le l2 ->
      (forall a b, In a l1 -> In b l1 -> le_of cmp a b = true -> le_of cmp b a = true -> a = b) ->
      l1 = l2.
  Proof.
    intros l1. induction l1 as [|a l1 IH]; intros l2 Hp H1 H2 Hanti.
    - apply Permutation_nil in Hp. subst. reflexivity.
    - destruct l2 as [|b l2]; [apply Permutation_sym, Permutation_nil in Hp; discriminate|].
      inversion H1 as [|? ? H1' Hall1]; subst. inversion H2 as [|? ? H2' Hall2]; subst.
      assert (Hab : a = b).
      { assert (Hb : In b (a :: l1)) by (apply (Permutation_in _ (Permutation_sym Hp)); left; reflexivity).
        assert (Ha : In a (b :: l2)) by (apply (Permutation_in _ Hp); left; reflexivity).
        destruct Hb as [Hb|Hb]; [exact Hb|]. destruct Ha as [Ha|Ha]; [symmetry; exact Ha|].
        apply Hanti; [left; reflexivity|right; exact Hb| |].
        - apply (proj1 (Forall_forall _ _) Hall1 b Hb).
        - apply (proj1 (Forall_forall _ _) Hall2 a Ha). }
      subst b. f_equal. apply IH; [apply (Permutation_cons_inv Hp)|exact H1'|exact H2'|].
      intros x y Hx Hy. apply Hanti; right; assumption.
  Qed.

  Lemma sort_by_unique : forall l l',
      Permutation l l' ->
      (forall a b, In a l -> In b l -> le_of cmp a b = true -> le_of cmp b a = true -> a = b) ->
      sort_by cmp l = sort_by cmp l'.
  Proof.
    intros l l' Hp Hanti. apply sorted_perm_unique; try apply sort_by_sorted.
    - rewrite !sort_by_perm. exact Hp.
    - intros a b Ha Hb. apply Hanti; apply (Permutation_in _ (sort_by_perm l)); assumption.
  Qed.
End SortBy.

(* the sorted collectors on a grouped collection: one list, whatever the HashMap order and the
   partitioning were *)
Lemma collect_sorted_spec : forall K X (kcmp : K -> K -> comparison) (rows : list (K * X)),
    order_cmp kcmp ->
    Permutation (collect_sorted_by_key kcmp rows) rows
    /\ StronglySorted (fun a b => le_of kcmp (fst a) (fst b) = true) (collect_sorted_by_key kcmp rows)
    /\ (forall k, good_cmp kcmp ->
                  filter (fun a => match kcmp k (fst a) with Eq => true | _ => false end)
                         (collect_sorted_by_key kcmp rows)
                  = filter (fun a => match kcmp k (fst a) with Eq => true | _ => false end) rows).
Proof.
  intros K X kcmp rows Ho. unfold collect_sorted_by_key. repeat split.
  - apply sort_by_perm.
  - apply (sort_by_sorted _ (fun a b : K * X => kcmp (fst a) (fst b))).
    apply order_cmp_on_key. exact Ho.
  - intros k [E _]. apply sort_by_stable. intros a b Ha Hb.
    destruct (kcmp k (fst a)) eqn:H1; try discriminate. destruct (kcmp k (fst b)) eqn:H2; try discriminate.
    apply E in H1. apply E in H2. apply E. congruence.
Qed.

Lemma sorted_collect_mode_independent : forall K V (keqb : K -> K -> bool) (kcmp : K -> K -> comparison),
    (forall x y, reflect (x = y) (keqb x y)) -> good_cmp kcmp ->
    forall ps qs : list (list (K * V)),
      concat ps = concat qs ->
      collect_sorted_by_key kcmp (gbk keqb ps) = collect_sorted_by_key kcmp (gbk keqb qs).
Proof.
  intros K V keqb kcmp Hk Hg ps qs Hc. unfold collect_sorted_by_key.
  apply sort_by_unique.
  - apply order_cmp_on_key. apply good_cmp_order. exact Hg.
  - apply gbk_perm_modes; assumption.
  - intros [k1 v1] [k2 v2] H1 H2 Hle1 Hle2. unfold le_of in Hle1, Hle2. cbn beta in Hle1, Hle2.
    cbn [fst] in Hle1, Hle2.
    destruct Hg as [E [An _]]. rewrite (An k1 k2) in Hle2.
    destruct (kcmp k1 k2) eqn:Hc12; cbn [CompOpp] in Hle2; try discriminate.
    apply E in Hc12. subst k2.
    pose proof (nodup_keys_gbk K V keqb Hk ps) as Hnd.
    rewrite <- (lookup_in_nodup K V keqb Hk k1 v1 _ Hnd H1).
    rewrite <- (lookup_in_nodup K V keqb Hk k1 v2 _ Hnd H2). reflexivity.
Qed.

(* ---------- digests ---------- *)
Lemma last_cons_default : forall (vs : list Z) (v d : Z), last (v :: vs) d = last vs v.
Proof.
  intros vs. induction vs as [|w vs IH]; intros v d; [reflexivity|].
  change (last (v :: w :: vs) d) with (last (w :: vs) d). rewrite !IH. reflexivity.
Qed.

Lemma fold_dstep_pos : forall vs n s f l,
    0 < n ->
    fold_left dstep vs (n, s, f, l) = (n + Z.of_nat (length vs), s + fold_right Z.add 0 vs, f, last vs l).
Proof.
  intros vs. induction vs as [|v vs IH]; intros n s f l Hn.
  - cbn [fold_left length fold_right last]. change (Z.of_nat 0) with 0. rewrite !Z.add_0_r. reflexivity.
  - cbn [fold_left dstep]. assert (Hz : (n =? 0) = false) by (apply Z.eqb_neq; lia). rewrite Hz.
    rewrite IH by lia. cbn [length fold_right].
    assert (Hl : last (v :: vs) l = last vs v) by apply last_cons_default.
    assert (E1 : n + 1 + Z.of_nat (length vs) = n + Z.of_nat (S (length vs))) by lia.
    assert (E2 : s + v + fold_right Z.add 0 vs = s + (v + fold_right Z.add 0 vs)) by lia.
    rewrite E1, E2, Hl. reflexivity.
Qed.

Lemma digest_spec : forall v vs,
    digest (v :: vs)
    = (Z.of_nat (length (v :: vs)), fold_right Z.add 0 (v :: vs), hd 0 (v :: vs), last (v :: vs) 0).
Proof.
  intros v vs. unfold digest, dg0. cbn [fold_left dstep]. cbn [Z.eqb].
  rewrite fold_dstep_pos by lia. cbn [length fold_right hd].
  assert (Hl : last (v :: vs) 0 = last vs v) by apply last_cons_default.
  assert (E1 : 1 + Z.of_nat (length vs) = Z.of_nat (S (length vs))) by lia.
  rewrite E1, Hl. reflexivity.
Qed.

Lemma digest_snoc : forall vs v, digest (vs ++ [v]) = dstep (digest vs) v.
Proof. intros. unfold digest. rewrite fold_left_app. reflexivity. Qed.

Section Digests.
  Variable K : Type.
  Variable keqb : K -> K -> bool.
  Hypothesis keqb_spec : forall x y, reflect (x = y) (keqb x y).

  Lemma digests_push : forall k v (m : list (K * list Z)),
      digests_of (push keqb k v m) = dpush keqb k v (digests_of m).
  Proof.
    intros k v m. unfold digests_of. induction m as [|[k' vs] r IH]; [reflexivity|].
    cbn [push map dpush fst snd]. destruct (keqb k' k).
    - cbn [map fst snd]. rewrite digest_snoc. reflexivity.
    - cbn [map fst snd]. rewrite IH. reflexivity.
  Qed.

  Lemma digest_table_fold : forall (l : list (K * Z)) (m : list (K * list Z)),
      fold_left (fun m kv => dpush keqb (fst kv) (snd kv) m) l (digests_of m)
      = digests_of (fold_left (fun m kv => push keqb (fst kv) (snd kv) m) l m).
  Proof.
    intros l. induction l as [|[k v] l IH]; intros m; [reflexivity|].
    cbn [fold_left fst snd]. rewrite <- digests_push. apply IH.
  Qed.

  Lemma digest_table_local : forall l : list (K * Z),
      digest_table keqb l = digests_of (gbk_local keqb l).
  Proof. intros l. unfold digest_table, gbk_local. apply (digest_table_fold l []). Qed.

  (* the sequential barrier is the local table *)
  Lemma extend_notin : forall X k (vs : list X) (m : list (K * list X)),
      ~ In k (map fst m) -> extend keqb k vs m = m ++ [(k, vs)].
  Proof.
    intros X k vs m. induction m as [|[k' vs'] r IH]; intros Hn; [reflexivity|].
    cbn [extend]. cbn [map fst In] in Hn. destruct (keqb_spec k' k) as [->|_].
    - exfalso. apply Hn. left. reflexivity.
    - cbn [app]. rewrite IH; [reflexivity|]. intros H. apply Hn. right. exact H.
  Qed.

  Lemma merge_one_fresh : forall X (m acc : list (K * list X)),
      NoDup (map fst m) -> (forall k, In k (map fst m) -> ~ In k (map fst acc)) ->
      merge_one keqb acc m = acc ++ m.
  Proof.
    intros X m. unfold merge_one. induction m as [|[k vs] m IH]; intros acc Hnd Hdis.
    - cbn [fold_left]. rewrite app_nil_r. reflexivity.
    - cbn [map fst] in Hnd. inversion Hnd as [|? ? Hnot Hnd']; subst.
      cbn [fold_left fst snd]. rewrite extend_notin by (apply Hdis; left; reflexivity).
      rewrite IH; [rewrite <- app_assoc; reflexivity|exact Hnd'|].
      intros k' Hk' Hin. rewrite map_app, in_app_iff in Hin. destruct Hin as [Hin|[<-|[]]].
      + apply (Hdis k'); [right; exact Hk'|exact Hin].
      + apply Hnot. exact Hk'.
  Qed.

  Lemma gbk_single : forall X (l : list (K * X)), gbk keqb [l] = gbk_local keqb l.
  Proof.
    intros X l. unfold gbk, gbk_merge. cbn [map fold_left].
    rewrite merge_one_fresh; [reflexivity|apply nodup_keys_gbk_local; exact keqb_spec|].
    intros k _ [].
  Qed.

  (* the one-pass digest table is the table of digests of the groups, for every partitioning *)
  Lemma digest_table_correct : forall ps : list (list (K * Z)),
      Permutation (digests_of (gbk keqb ps)) (digest_table keqb (concat ps))
      /\ (forall k d, In (k, d) (digest_table keqb (concat ps)) ->
                      d = digest (values_of keqb k (concat ps)) /\ values_of keqb k (concat ps) <> []).
  Proof.
    intros ps. rewrite digest_table_local, <- gbk_single. split.
    - unfold digests_of. apply Permutation_map. apply gbk_perm_modes; [exact keqb_spec|].
      cbn [concat]. rewrite app_nil_r. reflexivity.
    - intros k d Hin. unfold digests_of in Hin. apply in_map_iff in Hin.
      destruct Hin as [[k' vs] [He Hin]]. cbn [fst snd] in He. injection He as -> <-.
      destruct (group_exact K Z keqb keqb_spec k vs [concat ps] Hin) as [Hvs Hne].
      cbn [concat] in Hvs. rewrite app_nil_r in Hvs. subst vs. split; [reflexivity|exact Hne].
  Qed.
End Digests.
