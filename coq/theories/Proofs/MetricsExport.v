(* Proofs about the export model (Metrics/Export.v): the BTreeMap of to_json, the twins
   snapshot / print / to_json, save_to_file on the byte-level file model, scripts. *)
From Coq Require Import List ZArith NArith Bool Lia Permutation.
From IB Require Import Metrics.Metrics Metrics.Export Proofs.MetricsProofs Proofs.MetricsMore.
Import ListNotations.
Open Scope Z_scope.

(* ================================================================ byte strings *)

Lemma text_eqb_eq : forall a b, text_eqb a b = true <-> a = b.
Proof.
  induction a as [|x a IH]; destruct b as [|y b]; cbn [text_eqb]; try (split; congruence).
  destruct (Z.eqb_spec x y) as [->|Hne].
  - rewrite IH. split; congruence.
  - split; [discriminate|]. intro H. inversion H. contradiction.
Qed.

Lemma text_eqb_refl : forall a, text_eqb a a = true.
Proof. intro a. apply text_eqb_eq. reflexivity. Qed.

Lemma text_ltb_irrefl : forall a, text_ltb a a = false.
Proof.
  induction a as [|x a IH]; cbn [text_ltb]; [reflexivity|].
  rewrite Z.ltb_irrefl. exact IH.
Qed.

(* neither smaller: equal (str::cmp is a total order) *)
Lemma text_ltb_total : forall a b, text_ltb a b = false -> text_ltb b a = false -> a = b.
Proof.
  induction a as [|x a IH]; destruct b as [|y b]; cbn [text_ltb]; intros H1 H2;
    try reflexivity; try discriminate.
  destruct (Z.ltb_spec x y) as [Hxy|Hxy]; [discriminate|].
  destruct (Z.ltb_spec y x) as [Hyx|Hyx]; [discriminate|].
  assert (x = y) by lia. subst y. f_equal. apply IH; assumption.
Qed.

Lemma text_ltb_asym : forall a b, text_ltb a b = true -> text_ltb b a = false.
Proof.
  induction a as [|x a IH]; destruct b as [|y b]; cbn [text_ltb]; intro H;
    try reflexivity; try discriminate.
  destruct (Z.ltb_spec x y) as [Hxy|Hxy].
  - destruct (Z.ltb_spec y x) as [Hyx|Hyx]; [lia|]. reflexivity.
  - destruct (Z.ltb_spec y x) as [Hyx|Hyx]; [discriminate|].
    apply IH. exact H.
Qed.

Lemma text_ltb_neq : forall a b, text_ltb a b = true -> a <> b.
Proof. intros a b H ->. rewrite text_ltb_irrefl in H. discriminate. Qed.

(* ================================================================ BTreeMap::insert *)

Section BT.
Context {A : Type}.

Lemma bt_insert_keys : forall k k0 (v : A) l,
  In k (map fst (bt_insert k0 v l)) <-> k = k0 \/ In k (map fst l).
Proof.
  intros k k0 v l. induction l as [|[k' v'] r IH]; cbn [bt_insert map fst In].
  - intuition.
  - destruct (text_ltb k0 k') eqn:E1; cbn [map fst In]; [intuition|].
    destruct (text_ltb k' k0) eqn:E2; cbn [map fst In].
    + rewrite IH. intuition.
    + pose proof (text_ltb_total _ _ E1 E2) as ->. intuition.
Qed.

Lemma bt_insert_head : forall k0 (v : A) l k1 v1 r,
  bt_insert k0 v l = (k1, v1) :: r ->
  k1 = k0 \/ (exists v' r', l = (k1, v') :: r' /\ text_ltb k1 k0 = true).
Proof.
  intros k0 v l k1 v1 r. destruct l as [|[k' v'] r']; cbn [bt_insert]; intro H.
  - inversion H. left. reflexivity.
  - destruct (text_ltb k0 k') eqn:E1; [inversion H; left; reflexivity|].
    destruct (text_ltb k' k0) eqn:E2; injection H as Hk Hv Hr.
    + right. exists v', r'. subst k1. split; [reflexivity|exact E2].
    + left. symmetry. exact Hk.
Qed.

Lemma keys_sorted_cons : forall a l,
  keys_sorted (a :: l) = true <->
  (match l with [] => True | b :: _ => text_ltb a b = true end) /\ keys_sorted l = true.
Proof.
  intros a l. destruct l as [|b r]; cbn [keys_sorted].
  - intuition.
  - rewrite andb_true_iff. reflexivity.
Qed.

Lemma bt_insert_sorted : forall k0 (v : A) l,
  keys_sorted (map fst l) = true -> keys_sorted (map fst (bt_insert k0 v l)) = true.
Proof.
  intros k0 v l. induction l as [|[k' v'] r IH]; intro H.
  - reflexivity.
  - cbn [bt_insert]. destruct (text_ltb k0 k') eqn:E1.
    + cbn [map fst]. apply keys_sorted_cons. split; [exact E1|exact H].
    + destruct (text_ltb k' k0) eqn:E2.
      * cbn [map fst] in H |- *. apply keys_sorted_cons in H. destruct H as [Hh Ht].
        apply keys_sorted_cons. split; [|apply IH; exact Ht].
        destruct (bt_insert k0 v r) as [|[k1 v1] r1] eqn:EB; [exact I|].
        cbn [map fst]. apply bt_insert_head in EB. destruct EB as [->|(v2 & r2 & -> & _)].
        -- exact E2.
        -- exact Hh.
      * pose proof (text_ltb_total _ _ E1 E2) as ->. exact H.
Qed.

Lemma bt_lookup_insert_same : forall k (v : A) l, bt_lookup k (bt_insert k v l) = Some v.
Proof.
  intros k v l. induction l as [|[k' v'] r IH]; cbn [bt_insert bt_lookup].
  - rewrite text_eqb_refl. reflexivity.
  - destruct (text_ltb k k') eqn:E1; cbn [bt_lookup].
    + rewrite text_eqb_refl. reflexivity.
    + destruct (text_ltb k' k) eqn:E2; cbn [bt_lookup].
      * destruct (text_eqb k k') eqn:E3; [|exact IH].
        apply text_eqb_eq in E3. subst k'. rewrite text_ltb_irrefl in E2. discriminate.
      * rewrite text_eqb_refl. reflexivity.
Qed.

Lemma bt_lookup_insert_other : forall k k0 (v : A) l,
  k <> k0 -> bt_lookup k (bt_insert k0 v l) = bt_lookup k l.
Proof.
  intros k k0 v l Hne. induction l as [|[k' v'] r IH]; cbn [bt_insert bt_lookup].
  - destruct (text_eqb k k0) eqn:E; [apply text_eqb_eq in E; contradiction|reflexivity].
  - destruct (text_ltb k0 k') eqn:E1; cbn [bt_lookup].
    + destruct (text_eqb k k0) eqn:E; [apply text_eqb_eq in E; contradiction|reflexivity].
    + destruct (text_ltb k' k0) eqn:E2; cbn [bt_lookup].
      * rewrite IH. reflexivity.
      * pose proof (text_ltb_total _ _ E1 E2) as ->.
        destruct (text_eqb k k') eqn:E; [apply text_eqb_eq in E; contradiction|reflexivity].
Qed.

End BT.

(* the keys of a fold of inserts do not depend on the values inserted *)
Lemma bt_insert_same_keys : forall (A B : Type) k (v : A) (w : B) l m,
  map fst l = map fst m -> map fst (bt_insert k v l) = map fst (bt_insert k w m).
Proof.
  intros A B k v w l. induction l as [|[k1 v1] r IH]; intros m H; destruct m as [|[k2 w2] m'];
    cbn [map fst] in H; try discriminate.
  - reflexivity.
  - inversion H as [[Hk Hr]]. subst k2. cbn [bt_insert].
    destruct (text_ltb k k1); cbn [map fst]; [rewrite Hr; reflexivity|].
    destruct (text_ltb k1 k); cbn [map fst]; [rewrite (IH m' Hr); reflexivity|rewrite Hr; reflexivity].
Qed.

Lemma fold_insert_same_keys : forall (A B : Type) (E : env) (f : metric -> A) (g : metric -> B)
    (st : store) l m,
  map fst l = map fst m ->
  map fst (fold_left (fun acc p => bt_insert (e_name E (fst p)) (f (snd p)) acc) st l) =
  map fst (fold_left (fun acc p => bt_insert (e_name E (fst p)) (g (snd p)) acc) st m).
Proof.
  intros A B E f g st. induction st as [|[n x] r IH]; intros l m H; cbn [fold_left fst snd].
  - exact H.
  - apply IH. apply bt_insert_same_keys. exact H.
Qed.

Lemma fold_insert_sorted : forall (A : Type) (E : env) (f : metric -> A) (st : store) l,
  keys_sorted (map fst l) = true ->
  keys_sorted (map fst (fold_left (fun acc p => bt_insert (e_name E (fst p)) (f (snd p)) acc) st l)) = true.
Proof.
  intros A E f st. induction st as [|[n x] r IH]; intros l H; cbn [fold_left fst snd].
  - exact H.
  - apply IH. apply bt_insert_sorted. exact H.
Qed.

Lemma fold_insert_keys : forall (A : Type) (E : env) (f : metric -> A) (st : store) l k,
  In k (map fst (fold_left (fun acc p => bt_insert (e_name E (fst p)) (f (snd p)) acc) st l)) <->
  In k (map fst l) \/ In k (map (e_name E) (map fst st)).
Proof.
  intros A E f st. induction st as [|[n x] r IH]; intros l k; cbn [fold_left fst snd map In].
  - intuition.
  - rewrite IH. rewrite bt_insert_keys. intuition.
Qed.

(* with distinct spellings of distinct stored names, the entry under a stored name is built
   from the metric stored under it *)
Lemma fold_insert_lookup : forall (A : Type) (E : env) (f : metric -> A) (st : store) l n m,
  NoDup (map (e_name E) (map fst st)) ->
  lookup n st = Some m ->
  bt_lookup (e_name E n) (fold_left (fun acc p => bt_insert (e_name E (fst p)) (f (snd p)) acc) st l)
  = Some (f m).
Proof.
  intros A E f st. induction st as [|[k x] r IH]; intros l n m Hnd Hl; cbn [lookup] in Hl.
  - discriminate.
  - cbn [map fst] in Hnd. inversion Hnd as [|a l' Hnin Hnd']; subst.
    cbn [fold_left fst snd]. destruct (Z.eqb_spec k n) as [->|Hne].
    + inversion Hl; subst x. clear Hl.
      (* the later inserts use other keys *)
      assert (G : forall r' acc, ~ In (e_name E n) (map (e_name E) (map fst r')) ->
                bt_lookup (e_name E n)
                  (fold_left (fun acc p => bt_insert (e_name E (fst p)) (f (snd p)) acc) r' acc)
                = bt_lookup (e_name E n) acc).
      { induction r' as [|[k2 x2] r2 IH2]; intros acc Hn; cbn [fold_left fst snd]; [reflexivity|].
        cbn [map fst In] in Hn. rewrite IH2 by tauto.
        apply bt_lookup_insert_other. intro Heq. apply Hn. left. symmetry. exact Heq. }
      rewrite G by exact Hnin. apply bt_lookup_insert_same.
    + apply IH; assumption.
Qed.

(* ================================================================ to_json / snapshot / print *)

Lemma export_base_sorted : forall E st, keys_sorted (map fst (export_base E st)) = true.
Proof. intros E st. unfold export_base. apply fold_insert_sorted. reflexivity. Qed.

Theorem export_keys_sorted : forall E s, keys_sorted (map fst (export_entries E s)) = true.
Proof.
  intros E s. unfold export_entries. destruct (elapsed s).
  - apply bt_insert_sorted. apply export_base_sorted.
  - apply export_base_sorted.
Qed.

Theorem snapshot_keys_sorted : forall E s, keys_sorted (map fst (snapshot_entries E s)) = true.
Proof. intros E s. unfold snapshot_entries. apply fold_insert_sorted. reflexivity. Qed.

(* the three views list the same names; to_json adds the execution time when there is one *)
Theorem views_same_names : forall E s,
  map fst (snapshot_entries E s) = map fst (print_entries E s) /\
  map fst (snapshot_entries E s) = map fst (export_base E (ms_metrics s)) /\
  (elapsed s = None -> map fst (export_entries E s) = map fst (snapshot_entries E s)) /\
  (forall d, elapsed s = Some d ->
     map fst (export_entries E s) = map fst (bt_insert TIME_KEY JNull (snapshot_entries E s))).
Proof.
  intros E s. unfold snapshot_entries, print_entries, export_base, export_entries.
  split; [|split; [|split]].
  - apply (fold_insert_same_keys jv metric E (metric_value E) (fun m => m)). reflexivity.
  - apply (fold_insert_same_keys jv jv E (metric_value E) (metric_obj E)). reflexivity.
  - intros ->. symmetry.
    apply (fold_insert_same_keys jv jv E (metric_value E) (metric_obj E)). reflexivity.
  - intros d ->. apply bt_insert_same_keys. symmetry.
    apply (fold_insert_same_keys jv jv E (metric_value E) (metric_obj E)). reflexivity.
Qed.

(* the names of the byte-level export are the spellings of the keys of the abstract to_json *)
Theorem export_names_are_json_keys : forall E s k,
  e_name E exec_time_name = TIME_KEY ->
  (In k (map fst (export_entries E s)) <-> In k (map (e_name E) (json_keys s))).
Proof.
  intros E s k HT. unfold export_entries, json_keys, to_json, export_base.
  destruct (elapsed s) as [d|].
  - rewrite bt_insert_keys, fold_insert_keys. cbn [map In]. split.
    + intros [->|[[]|H]].
      * apply in_map_iff. exists exec_time_name. split; [exact HT|].
        apply jinsert_keys. left. reflexivity.
      * apply in_map_iff in H. destruct H as (n & Hn1 & Hn). apply in_map_iff.
        exists n. split; [exact Hn1|]. apply jinsert_keys. right. rewrite base_keys. exact Hn.
    + intro H. apply in_map_iff in H. destruct H as (n & Hn1 & Hn).
      apply jinsert_keys in Hn. destruct Hn as [->|Hn].
      * left. rewrite <- Hn1. exact HT.
      * right. right. rewrite base_keys in Hn. rewrite <- Hn1. apply in_map. exact Hn.
  - rewrite fold_insert_keys, base_keys. cbn [map In]. tauto.
Qed.

Lemma metric_obj_value : forall E m, obj_value (metric_obj E m) = Some (metric_value E m).
Proof.
  intros E m. unfold metric_obj, obj_value. destruct (metric_desc E m); reflexivity.
Qed.

(* every stored metric is in the export under its name, with value() in the "value" field - the
   value snapshot() reports for it; only the reserved name gives way to the execution time *)
Theorem export_has_every_metric : forall E s n m,
  NoDup (map (e_name E) (map fst (ms_metrics s))) ->
  lookup n (ms_metrics s) = Some m ->
  (elapsed s = None \/ e_name E n <> TIME_KEY) ->
  bt_lookup (e_name E n) (export_entries E s) = Some (metric_obj E m) /\
  obj_value (metric_obj E m) = Some (metric_value E m) /\
  bt_lookup (e_name E n) (snapshot_entries E s) = Some (metric_value E m).
Proof.
  intros E s n m Hnd Hl Ht. split; [|split].
  - unfold export_entries. destruct (elapsed s) as [d|].
    + destruct Ht as [Ht|Ht]; [discriminate|].
      rewrite bt_lookup_insert_other by exact Ht.
      unfold export_base. apply fold_insert_lookup; assumption.
    + unfold export_base. apply fold_insert_lookup; assumption.
  - apply metric_obj_value.
  - unfold snapshot_entries. apply fold_insert_lookup; assumption.
Qed.

Theorem export_time_entry : forall E s,
  bt_lookup TIME_KEY (export_entries E s) =
  match elapsed s with
  | Some d => Some (time_obj (d / 1000000))
  | None => bt_lookup TIME_KEY (export_base E (ms_metrics s))
  end.
Proof.
  intros E s. unfold export_entries. destruct (elapsed s); [apply bt_lookup_insert_same|reflexivity].
Qed.

(* ================================================================ files *)

Lemma fs_read_set_same : forall p t f, fs_read p (fs_set p t f) = Some t.
Proof.
  intros p t f. induction f as [|[q u] r IH]; cbn [fs_set fs_read].
  - rewrite Z.eqb_refl. reflexivity.
  - destruct (Z.eqb q p) eqn:E; cbn [fs_read]; rewrite E; [reflexivity|exact IH].
Qed.

Lemma fs_read_set_other : forall p q t f, q <> p -> fs_read q (fs_set p t f) = fs_read q f.
Proof.
  intros p q t f Hne. induction f as [|[a u] r IH]; cbn [fs_set fs_read].
  - destruct (Z.eqb_spec p q); [congruence|reflexivity].
  - destruct (Z.eqb_spec a p) as [->|Hap]; cbn [fs_read].
    + destruct (Z.eqb_spec p q); [congruence|reflexivity].
    + destruct (Z.eqb a q); [reflexivity|exact IH].
Qed.

Lemma fs_read_remove_other : forall p q f, q <> p -> fs_read q (fs_remove p f) = fs_read q f.
Proof.
  intros p q f Hne. induction f as [|[a u] r IH]; cbn [fs_remove fs_read]; [reflexivity|].
  destruct (Z.eqb_spec a p) as [->|Hap]; cbn [fs_read].
  - destruct (Z.eqb_spec p q); [congruence|reflexivity].
  - destruct (Z.eqb a q); [reflexivity|exact IH].
Qed.

Lemma write_at0_empty : forall data, write_at0 data [] = data.
Proof. intro data. unfold write_at0. rewrite skipn_nil. apply app_nil_r. Qed.

(* a write at offset 0 without truncation: the file is exactly the data iff the old content was
   not longer; otherwise its tail stays *)
Theorem write_at0_exact : forall data old,
  (write_at0 data old = data <-> (length old <= length data)%nat) /\
  length (write_at0 data old) = Nat.max (length data) (length old) /\
  firstn (length data) (write_at0 data old) = data.
Proof.
  intros data old. unfold write_at0. split; [|split].
  - split.
    + intro H. assert (L : length (data ++ skipn (length data) old) = length data) by (rewrite H; reflexivity).
      rewrite app_length, skipn_length in L. lia.
    + intro H. rewrite skipn_all2 by exact H. apply app_nil_r.
  - rewrite app_length, skipn_length. lia.
  - rewrite firstn_app, Nat.sub_diag, firstn_all. cbn [firstn]. apply app_nil_r.
Qed.

Theorem save_writes_export : forall E p s f,
  ms_poisoned s = false -> creatable p = true ->
  fst (save_to_file E p s f) = Ok tt /\
  fs_read p (snd (save_to_file E p s f)) = Some (export_text E s) /\
  (forall q, q <> p -> fs_read q (snd (save_to_file E p s f)) = fs_read q f).
Proof.
  intros E p s f Hp Hc. unfold save_to_file. rewrite Hp, Hc. cbn [fst snd].
  unfold file_write_all, file_create. rewrite fs_read_set_same.
  split; [reflexivity|split].
  - rewrite fs_read_set_same, write_at0_empty. reflexivity.
  - intros q Hq. rewrite !fs_read_set_other by exact Hq. reflexivity.
Qed.

Theorem failed_save_leaves_files : forall E p s f,
  (ms_poisoned s = true -> save_to_file E p s f = (Panic, f)) /\
  (ms_poisoned s = false -> creatable p = false -> save_to_file E p s f = (Err 0, f)).
Proof.
  intros E p s f. unfold save_to_file. split.
  - intros ->. reflexivity.
  - intros -> ->. reflexivity.
Qed.

(* the same save through a file opened WITHOUT truncation: over a longer file the tail stays,
   and the file is the export exactly when the old content was not longer *)
Theorem save_keep_stale_tail : forall E p s f old,
  ms_poisoned s = false -> creatable p = true -> fs_read p f = Some old ->
  fs_read p (snd (save_to_file_keep E p s f)) =
    Some (export_text E s ++ skipn (length (export_text E s)) old) /\
  (fs_read p (snd (save_to_file_keep E p s f)) = Some (export_text E s) <->
   (length old <= length (export_text E s))%nat).
Proof.
  intros E p s f old Hp Hc Hr. unfold save_to_file_keep. rewrite Hp, Hc. cbn [snd].
  unfold file_write_all, file_open_keep. rewrite Hr, Hr, fs_read_set_same.
  split; [reflexivity|].
  pose proof (write_at0_exact (export_text E s) old) as [W _]. unfold write_at0 in W.
  split.
  - intro H. apply W. injection H as H. exact H.
  - intro H. f_equal. apply W. exact H.
Qed.

(* ================================================================ scripts *)

Lemma xrun_app : forall E a b w, xrun E (a ++ b) w = xrun E b (xrun E a w).
Proof. intros E a b w. unfold xrun. apply fold_left_app. Qed.

Lemma xrun_cons : forall E x xs w, xrun E (x :: xs) w = xrun E xs (fst (xstep_run E x w)).
Proof. reflexivity. Qed.

Lemma save_other_path : forall E p q s f, q <> p -> fs_read q (snd (save_to_file E p s f)) = fs_read q f.
Proof.
  intros E p q s f Hne. unfold save_to_file. destruct (ms_poisoned s); [reflexivity|].
  destruct (creatable p); [|reflexivity]. cbn [snd].
  unfold file_write_all, file_create. rewrite fs_read_set_same.
  rewrite !fs_read_set_other by exact Hne. reflexivity.
Qed.

Lemma step_untouched : forall E x w p,
  touches p x = false -> fs_read p (w_fs (fst (xstep_run E x w))) = fs_read p (w_fs w).
Proof.
  intros E x w p H. destruct x as [c|q|q|q data|k|ms]; cbn [xstep_run touches] in *;
    try reflexivity.
  - destruct (save_to_file E q (cur w) (w_fs w)) as [r f] eqn:ES. cbn [fst w_fs].
    replace f with (snd (save_to_file E q (cur w) (w_fs w))) by (rewrite ES; reflexivity).
    apply save_other_path. intros ->. rewrite Z.eqb_refl in H. discriminate.
  - cbn [fst w_fs]. apply fs_read_remove_other. intros ->. rewrite Z.eqb_refl in H. discriminate.
  - cbn [fst w_fs]. apply fs_read_set_other. intros ->. rewrite Z.eqb_refl in H. discriminate.
Qed.

Lemma xrun_untouched : forall E xs w p,
  forallb (fun x => negb (touches p x)) xs = true ->
  fs_read p (w_fs (xrun E xs w)) = fs_read p (w_fs w).
Proof.
  intros E xs. induction xs as [|x r IH]; intros w p H; [reflexivity|].
  cbn [forallb] in H. apply andb_true_iff in H. destruct H as [Hx Hr].
  rewrite xrun_cons, IH by exact Hr. apply step_untouched.
  apply negb_true_iff. exact Hx.
Qed.

(* whatever happened before (longer exports, other collectors, foreign files) and whatever
   happens afterwards to other paths and to the collectors: the file holds the export of the
   collector that saved LAST, as it was at that moment *)
Theorem last_save_wins : forall E before p after w,
  ms_poisoned (cur (xrun E before w)) = false -> creatable p = true ->
  forallb (fun x => negb (touches p x)) after = true ->
  fs_read p (w_fs (xrun E (before ++ XSave p :: after) w)) =
  Some (export_text E (cur (xrun E before w))).
Proof.
  intros E before p after w Hp Hc Ha.
  rewrite xrun_app, xrun_cons, xrun_untouched by exact Ha.
  cbn [xstep_run].
  destruct (save_to_file E p (cur (xrun E before w)) (w_fs (xrun E before w))) as [r f] eqn:ES.
  cbn [fst w_fs].
  replace f with (snd (save_to_file E p (cur (xrun E before w)) (w_fs (xrun E before w))))
    by (rewrite ES; reflexivity).
  apply save_writes_export; assumption.
Qed.

(* ================================================================ each name once *)

Lemma text_ltb_trans : forall a b c, text_ltb a b = true -> text_ltb b c = true -> text_ltb a c = true.
Proof.
  induction a as [|x a IH]; intros b c Hab Hbc.
  - destruct b as [|y b]; [discriminate|]. destruct c as [|z c]; [discriminate|]. reflexivity.
  - destruct b as [|y b]; [discriminate|]. destruct c as [|z c]; [discriminate|].
    cbn [text_ltb] in *.
    destruct (Z.ltb_spec x y) as [Hxy|Hxy].
    + destruct (Z.ltb_spec y z) as [Hyz|Hyz].
      * destruct (Z.ltb_spec x z); [reflexivity|lia].
      * destruct (Z.ltb_spec z y) as [Hzy|Hzy]; [discriminate|].
        destruct (Z.ltb_spec x z); [reflexivity|lia].
    + destruct (Z.ltb_spec y x) as [Hyx|Hyx]; [discriminate|].
      assert (x = y) by lia. subst y.
      destruct (Z.ltb_spec x z) as [Hxz|Hxz]; [reflexivity|].
      destruct (Z.ltb_spec z x) as [Hzx|Hzx]; [discriminate|].
      eapply IH; eassumption.
Qed.

Lemma keys_sorted_head_lt : forall a l, keys_sorted (a :: l) = true -> forall b, In b l -> text_ltb a b = true.
Proof.
  intros a l. revert a. induction l as [|c r IH]; intros a H b Hb; [destruct Hb|].
  apply keys_sorted_cons in H. destruct H as [Hac Hr]. destruct Hb as [<-|Hb]; [exact Hac|].
  apply text_ltb_trans with c; [exact Hac|]. apply IH; assumption.
Qed.

Lemma keys_sorted_nodup : forall l, keys_sorted l = true -> NoDup l.
Proof.
  induction l as [|a r IH]; intro H; [constructor|].
  constructor.
  - intro Hin. pose proof (keys_sorted_head_lt a r H a Hin) as Hlt.
    rewrite text_ltb_irrefl in Hlt. discriminate.
  - apply IH. apply keys_sorted_cons in H. tauto.
Qed.

(* no name twice in the exported object - for every environment and every state; and when distinct
   stored names are spelled differently, snapshot / print / to_json list exactly the stored
   names, each once *)
Theorem export_one_entry_per_name : forall E s,
  NoDup (map fst (export_entries E s)) /\
  (NoDup (map (e_name E) (map fst (ms_metrics s))) ->
   Permutation (map fst (snapshot_entries E s)) (map (e_name E) (map fst (ms_metrics s))) /\
   length (print_entries E s) = length (ms_metrics s)).
Proof.
  intros E s. split; [apply keys_sorted_nodup, export_keys_sorted|].
  intro Hnd.
  assert (P : Permutation (map fst (snapshot_entries E s)) (map (e_name E) (map fst (ms_metrics s)))).
  { apply NoDup_Permutation; [apply keys_sorted_nodup, snapshot_keys_sorted|exact Hnd|].
    intro k. unfold snapshot_entries. rewrite fold_insert_keys. cbn [map In]. tauto. }
  split; [exact P|].
  destruct (views_same_names E s) as [H1 _].
  rewrite <- (map_length fst (print_entries E s)), <- H1.
  rewrite (Permutation_length P), !map_length. reflexivity.
Qed.

(* ================================================================ string escaping *)

Lemma unescape_plain : forall b r, b <> 92 -> unescape (b :: r) = b :: unescape r.
Proof.
  intros b r H. cbn [unescape]. destruct (Z.eqb_spec b 92); [contradiction|reflexivity].
Qed.

Lemma unescape_escape_byte : forall b r, is_byte b -> unescape (escape_byte b ++ r) = b :: unescape r.
Proof.
  intros b r [Hlo Hhi]. unfold escape_byte.
  destruct (Z.eqb_spec b 34) as [->|N34]; [reflexivity|].
  destruct (Z.eqb_spec b 92) as [->|N92]; [reflexivity|].
  destruct (Z.eqb_spec b 8) as [->|N8]; [reflexivity|].
  destruct (Z.eqb_spec b 12) as [->|N12]; [reflexivity|].
  destruct (Z.eqb_spec b 10) as [->|N10]; [reflexivity|].
  destruct (Z.eqb_spec b 13) as [->|N13]; [reflexivity|].
  destruct (Z.eqb_spec b 9) as [->|N9]; [reflexivity|].
  destruct (Z.ltb_spec b 32) as [Hc|Hc].
  - (* a control character: \u00XX; 32 cases *)
    assert (Hb : In b (map Z.of_nat (seq 0 32))).
    { apply in_map_iff. exists (Z.to_nat b). split; [lia|]. apply in_seq. lia. }
    cbn [seq map] in Hb. cbn [In] in Hb.
    repeat (destruct Hb as [<-|Hb]; [reflexivity|]). destruct Hb.
  - cbn [app]. apply unescape_plain. exact N92.
Qed.

(* what serde_json writes between the quotes reads back as the original bytes *)
Theorem quote_roundtrip : forall t,
  Forall is_byte t ->
  unescape (flat_map escape_byte t) = t /\
  quote t = 34 :: flat_map escape_byte t ++ [34].
Proof.
  intros t H. split; [|reflexivity].
  induction H as [|b r Hb Hr IH]; [reflexivity|].
  cbn [flat_map]. rewrite unescape_escape_byte by exact Hb. rewrite IH. reflexivity.
Qed.
