(* TDigest::quantile / ApproxQuantiles::finish in the exact instance: range containment, exactness
   at q <= 0 and q >= 1, NaN exactly for the empty digest. *)
From Coq Require Import List Bool Arith QArith Qabs Lqa Lia Permutation Sorted.
From IB Require Import Combiners.TDigest Proofs.TDigestBase Proofs.TDigestCompress Proofs.TDigestInv.
Import ListNotations.
Local Open Scope Q_scope.

(* split syntactic conjunctions only (never unfold is_lo / is_hi / ==) *)
Ltac splits := repeat match goal with |- _ /\ _ => split end.

Lemma clamp_id : forall x lo hi, lo <= x <= hi -> clamp xarith (Fin x) (Fin lo) (Fin hi) = Fin x.
Proof.
  intros x lo hi H. unfold clamp. cbn [a_ltb xarith xltb].
  assert (L0 : qltb x lo = false) by (apply qltb_false; lra).
  assert (L1 : qltb hi x = false) by (apply qltb_false; lra).
  rewrite L0, L1. reflexivity.
Qed.

Lemma interp_range : forall lo hi l r f : Q,
  lo <= l <= hi -> lo <= r <= hi -> 0 <= f <= 1 -> lo <= l + f * (r - l) <= hi.
Proof. intros. split; nra. Qed.

(* the interpolation loop stays inside [lo, hi] *)
Lemma q_loop_range : forall lo hi cs l0 C target,
  Forall (fin_c lo hi) cs -> lo <= l0 <= hi ->
  (target = NaN \/ exists t, target = Fin t /\ C <= t) ->
  exists x, q_loop xarith (Fin lo) (Fin hi) (Fin l0) cs (Fin C) target = Fin x /\ lo <= x <= hi.
Proof.
  intros lo hi cs. induction cs as [|c rest IH]; intros l0 C target Hf Hl Ht.
  - exists hi. split; [reflexivity | lra].
  - inversion Hf as [|? ? Hc Hrest]; subst.
    destruct (fin_c_inv _ _ _ Hc) as (m & w & -> & Hm & Hw).
    cbn [q_loop]. change (a_add xarith (Fin C) (Fin w)) with (Fin (C + w)).
    destruct Ht as [->|(t & -> & Hct)].
    + change (a_leb xarith NaN (Fin (C + w))) with false. cbv iota.
      apply IH; [exact Hrest | exact Hm | left; reflexivity].
    + cbn [a_leb xarith xleb]. destruct (Qle_bool t (C + w)) eqn:L.
      * apply Qle_bool_iff in L.
        destruct (a_ltb xarith (a_abs xarith (a_sub xarith (Fin (C + w)) (Fin C))) (a_eps xarith)).
        -- exists m. split; [reflexivity | exact Hm].
        -- assert (Z : Qeq_bool w 0 = false) by (apply qeqb_false; lra).
           assert (Hfr : 0 <= (t - C) / w <= 1).
           { split; [apply Qle_shift_div_l | apply Qle_shift_div_r]; lra. }
           assert (Er : exists r, match rest with [] => Fin hi | (m', _) :: _ => m' end = Fin r
                                  /\ lo <= r <= hi).
           { destruct rest as [|c' rest']; [exists hi; split; [reflexivity | lra]|].
             inversion Hrest as [|? ? Hc' _]; subst.
             destruct (fin_c_inv _ _ _ Hc') as (m' & w' & -> & Hm' & _).
             exists m'. split; [reflexivity | exact Hm']. }
           destruct Er as (r & Er & Hr). rewrite Er.
           cbn [a_div a_sub a_add a_mul xarith xlift2 xdiv]. rewrite Z.
           exists (l0 + (t - C) / w * (r - l0)).
           pose proof (interp_range lo hi l0 r ((t - C) / w) Hl Hr Hfr) as G.
           split; [apply clamp_id; exact G | exact G].
      * apply qleb_false in L.
        apply IH; [exact Hrest | exact Hm | right; exists t; split; [reflexivity | lra]].
Qed.

Section WithInv.
  Variables (l : list (Q * Q)) (d : digest X).
  Hypothesis HI : Inv l d.
  Hypothesis NE : l <> [].

  Lemma inv_nonempty : exists lo hi W,
    d_cents d <> [] /\ d_min d = Fin lo /\ d_max d = Fin hi /\ d_total d = Fin W /\
    is_lo lo l /\ is_hi hi l /\ Forall (fin_c lo hi) (d_cents d) /\ W == sumw (d_cents d) /\
    W == wsum l /\ (forall c, d_cents d = [c] -> lo == hi) /\ lo <= hi /\ 1 <= W.
  Proof.
    destruct HI as [W El Ec Et HW Hmin Hmax | lo hi W Nl Nc Hmin Hmax Et Hlo Hhi Hf HW HWl H1];
      [contradiction|].
    exists lo, hi, W. splits; try assumption.
    - eapply is_lo_le_hi; eassumption.
    - rewrite HW. eapply sumw_pos; eassumption.
  Qed.

  Theorem quantile_range : forall q, exists lo hi x,
    d_min d = Fin lo /\ d_max d = Fin hi /\ is_lo lo l /\ is_hi hi l /\
    td_quantile xarith d q = Fin x /\ lo <= x <= hi.
  Proof.
    intro q.
    destruct inv_nonempty as (lo & hi & W & Nc & Hmin & Hmax & Et & Hlo & Hhi & Hf & HW & _ & _ & Hle & HW1).
    exists lo, hi. unfold td_quantile.
    destruct (d_cents d) as [|c0 cs] eqn:Ecs; [contradiction|].
    cbn [a_zero a_one xarith].
    match goal with |- context [if ?b then d_min d else _] => destruct b end.
    - exists lo. splits; try assumption; lra.
    - match goal with |- context [if ?b then d_max d else _] => destruct b end.
      + exists hi. splits; try assumption; lra.
      + rewrite Hmin, Hmax, Et.
        destruct (q_loop_range lo hi (c0 :: cs) lo 0
                    (a_mul xarith (clamp xarith q (Fin 0) (Fin 1)) (Fin W))) as (x & Ex & Hx).
        * exact Hf.
        * lra.
        * destruct (clamp01_cases q) as [E|(z & E & Hz)]; rewrite E.
          -- left. reflexivity.
          -- right. exists (z * W). split; [reflexivity | nra].
        * exists x. splits; try assumption; try reflexivity; lra.
  Qed.

  Theorem quantile_at_1 : forall q, xleb (Fin 1) q = true -> exists hi x,
    d_max d = Fin hi /\ is_hi hi l /\ td_quantile xarith d q = Fin x /\ x == hi.
  Proof.
    intros q Hq.
    destruct inv_nonempty as (lo & hi & W & Nc & Hmin & Hmax & Et & Hlo & Hhi & Hf & HW & _ & H1 & Hle & HW1).
    exists hi. unfold td_quantile.
    destruct (d_cents d) as [|c0 cs] eqn:Ecs; [contradiction|].
    cbn [a_zero a_one xarith].
    assert (Ec : exists z, clamp xarith q (Fin 0) (Fin 1) = Fin z /\ z == 1).
    { destruct q as [z| | |]; cbn in Hq; try discriminate.
      - apply Qle_bool_iff in Hq. unfold clamp. cbn [a_ltb xarith xltb].
        assert (L0 : qltb z 0 = false) by (apply qltb_false; lra). rewrite L0.
        destruct (qltb 1 z) eqn:L1.
        + exists 1. split; reflexivity.
        + apply qltb_false in L1. exists z. split; [reflexivity | lra].
      - exists 1. split; reflexivity. }
    destruct Ec as (z & Ez & Hz). rewrite Ez.
    cbn [a_leb a_abs a_sub a_eps xarith xlift2 xabs xleb].
    assert (T0 : Qle_bool (Qabs (z - 0)) (qpow2 52) = false).
    { apply qleb_false. rewrite Qabs_pos by lra. pose proof eps_lt_1. lra. }
    rewrite T0. cbn [orb].
    destruct (length (c0 :: cs) =? 1)%nat eqn:L1.
    - apply Nat.eqb_eq in L1. destruct cs as [|? ?]; [|cbn in L1; lia].
      exists lo. splits; try assumption. apply (H1 c0). reflexivity.
    - assert (T1 : Qle_bool (Qabs (z - 1)) (qpow2 52) = true).
      { apply Qle_bool_iff. assert (E : z - 1 == 0) by lra. rewrite E.
        pose proof eps_pos. change (Qabs 0) with 0. lra. }
      rewrite T1. exists hi. splits; try assumption. reflexivity.
  Qed.
End WithInv.

(* q <= 0 (after clamping: q = 0): the minimum; no invariant needed *)
Theorem quantile_at_0 : forall (d : digest X) q, d_cents d <> [] -> xleb q (Fin 0) = true ->
  td_quantile xarith d q = d_min d.
Proof.
  intros d q Nc Hq. unfold td_quantile.
  destruct (d_cents d) as [|c0 cs] eqn:Ecs; [contradiction|].
  cbn [a_zero a_one xarith].
  assert (Ec : exists z, clamp xarith q (Fin 0) (Fin 1) = Fin z /\ z == 0).
  { destruct q as [z| | |]; cbn in Hq; try discriminate.
    - apply Qle_bool_iff in Hq. unfold clamp. cbn [a_ltb xarith xltb].
      destruct (qltb z 0) eqn:L0.
      + exists 0. split; reflexivity.
      + apply qltb_false in L0.
        assert (L1 : qltb 1 z = false) by (apply qltb_false; lra). rewrite L1.
        exists z. split; [reflexivity | lra].
    - exists 0. split; reflexivity. }
  destruct Ec as (z & Ez & Hz). rewrite Ez.
  cbn [a_leb a_abs a_sub a_eps xarith xlift2 xabs xleb].
  assert (T0 : Qle_bool (Qabs (z - 0)) (qpow2 52) = true).
  { apply Qle_bool_iff. assert (E : z - 0 == 0) by lra. rewrite E.
    pose proof eps_pos. change (Qabs 0) with 0. lra. }
  rewrite T0. reflexivity.
Qed.

Theorem quantile_nan_iff : forall l d q, Inv l d -> (td_quantile xarith d q = NaN <-> l = []).
Proof.
  intros l d q HI. split.
  - intro E. destruct l as [|p l']; [reflexivity|]. exfalso.
    assert (NE : p :: l' <> []) by discriminate.
    destruct (quantile_range _ d HI NE q) as (lo & hi & x & _ & _ & _ & _ & Ex & _).
    congruence.
  - intros ->. destruct HI as [W El Ec Et HW Hmin Hmax | lo hi W Nl Nc]; [|contradiction].
    unfold td_quantile. rewrite Ec. reflexivity.
Qed.

(* is_empty <-> no finite input *)
Lemma is_empty_iff : forall l d, Inv l d -> (td_is_empty xarith d = true <-> l = []).
Proof.
  intros l d HI. unfold td_is_empty. cbn [a_eqb a_zero xarith].
  destruct HI as [W El Ec Et HW Hmin Hmax | lo hi W Nl Nc Hmin Hmax Et Hlo Hhi Hf HW HWl H1].
  - rewrite Et. cbn [xeqb]. split; [intros _; exact El | intros _; apply Qeq_bool_iff; exact HW].
  - rewrite Et. cbn [xeqb]. split.
    + intro E. apply Qeq_bool_iff in E.
      assert (1 <= W) by (rewrite HW; eapply sumw_pos; eassumption). lra.
    + intro E. contradiction.
Qed.

(* ApproxQuantiles::finish *)
Theorem finish_range : forall l d qs x, Inv l d -> l <> [] -> In x (aq_finish xarith qs d) ->
  exists lo hi v, is_lo lo l /\ is_hi hi l /\ x = Fin v /\ lo <= v <= hi.
Proof.
  intros l d qs x HI NE Hx. unfold aq_finish in Hx.
  destruct (td_is_empty xarith d) eqn:E.
  - apply (is_empty_iff _ _ HI) in E. contradiction.
  - unfold td_quantiles in Hx. apply in_map_iff in Hx. destruct Hx as (q & <- & _).
    destruct (quantile_range l _ (inv_compress _ _ HI) NE q) as (lo & hi & v & _ & _ & Hlo & Hhi & Ev & Hv).
    exists lo, hi, v. splits; try assumption; lra.
Qed.

Theorem finish_nan_iff : forall l d qs x, Inv l d -> In x (aq_finish xarith qs d) ->
  (x = NaN <-> l = []).
Proof.
  intros l d qs x HI Hx. split.
  - intro E. destruct l as [|p l']; [reflexivity|]. exfalso.
    assert (NE : p :: l' <> []) by discriminate.
    destruct (finish_range _ _ _ _ HI NE Hx) as (lo & hi & v & _ & _ & Ev & _). congruence.
  - intros ->. unfold aq_finish in Hx.
    assert (E : td_is_empty xarith d = true) by (apply (is_empty_iff _ _ HI); reflexivity).
    rewrite E in Hx. apply in_map_iff in Hx. destruct Hx as (q & <- & _). reflexivity.
Qed.

(* the total weight is the sum of the input weights *)
Theorem count_exact : forall l d, Inv l d -> exists W, td_count d = Fin W /\ W == wsum l.
Proof.
  intros l d HI. unfold td_count.
  destruct HI as [W El Ec Et HW Hmin Hmax | lo hi W Nl Nc Hmin Hmax Et Hlo Hhi Hf HW HWl H1].
  - exists W. split; [exact Et|]. subst l. rewrite HW. reflexivity.
  - exists W. split; assumption.
Qed.

(* what compress guarantees on a non-empty digest *)
Theorem compress_invariants : forall l d, Inv l d -> l <> [] ->
  exists lo hi, is_lo lo l /\ is_hi hi l /\
    let cs := d_cents (td_compress xarith d) in
    StronglySorted mle cs /\ sumw cs == wsum l /\ Forall (fin_c lo hi) cs.
Proof.
  intros l d HI NE.
  destruct HI as [W El Ec Et HW Hmin Hmax | lo hi W Nl Nc Hmin Hmax Et Hlo Hhi Hf HW HWl H1];
    [contradiction|].
  exists lo, hi. split; [exact Hlo|]. split; [exact Hhi|].
  unfold td_compress. destruct (d_cents d) as [|c0 cs] eqn:Ecs; [contradiction|].
  cbn [d_cents]. rewrite Et.
  destruct (compress_cents_spec (d_comp d) (d_min d) (d_max d) W lo hi (c0 :: cs) Hf Nc) as (F & S & SW & _ & _).
  splits; try assumption.
  eapply Qeq_trans; [exact SW|]. eapply Qeq_trans; [symmetry; exact HW | exact HWl].
Qed.

(* ------------------------------------------------------------------ the same, over programs *)
Lemma prog_quantile_in_range :
  forall (p : prog X) (q : X), wf_prog p -> inputs p <> [] ->
    exists lo hi x,
      d_min (run xarith p) = Fin lo /\ d_max (run xarith p) = Fin hi /\
      is_lo lo (inputs p) /\ is_hi hi (inputs p) /\
      td_quantile xarith (run xarith p) q = Fin x /\ lo <= x <= hi.
Proof.
  intros p q Hw Hne. exact (quantile_range (inputs p) (run xarith p) (run_inv p Hw) Hne q).
Qed.

Lemma prog_quantile_0 :
  forall (p : prog X) (q : X), wf_prog p -> inputs p <> [] -> xleb q (Fin 0) = true ->
    exists lo, is_lo lo (inputs p) /\ td_quantile xarith (run xarith p) q = Fin lo.
Proof.
  intros p q Hw Hne Hq.
  destruct (quantile_range (inputs p) (run xarith p) (run_inv p Hw) Hne q)
    as (lo & hi & x & Hmin & _ & Hlo & _).
  exists lo. split; [exact Hlo|]. rewrite <- Hmin. apply quantile_at_0; [|exact Hq].
  destruct (inv_nonempty (inputs p) (run xarith p) (run_inv p Hw) Hne) as (? & ? & ? & Nc & _).
  exact Nc.
Qed.

Lemma prog_quantile_1 :
  forall (p : prog X) (q : X), wf_prog p -> inputs p <> [] -> xleb (Fin 1) q = true ->
    exists hi x, is_hi hi (inputs p) /\
      td_quantile xarith (run xarith p) q = Fin x /\ x == hi.
Proof.
  intros p q Hw Hne Hq.
  destruct (quantile_at_1 (inputs p) (run xarith p) (run_inv p Hw) Hne q Hq)
    as (hi & x & _ & Hhi & Ex & Hx).
  exists hi, x. split; [exact Hhi|]. split; [exact Ex | exact Hx].
Qed.

Lemma prog_quantile_nan_iff :
  forall (p : prog X) (q : X), wf_prog p ->
    (td_quantile xarith (run xarith p) q = NaN <-> inputs p = []).
Proof. intros p q Hw. exact (quantile_nan_iff (inputs p) (run xarith p) q (run_inv p Hw)). Qed.

Lemma prog_finish_in_range :
  forall (p : prog X) (qs : list X) (x : X), wf_prog p -> inputs p <> [] ->
    In x (aq_finish xarith qs (run xarith p)) ->
    exists lo hi v, is_lo lo (inputs p) /\ is_hi hi (inputs p) /\ x = Fin v /\ lo <= v <= hi.
Proof.
  intros p qs x Hw Hne Hx.
  exact (finish_range (inputs p) (run xarith p) qs x (run_inv p Hw) Hne Hx).
Qed.

Lemma prog_finish_nan_iff :
  forall (p : prog X) (qs : list X) (x : X), wf_prog p ->
    In x (aq_finish xarith qs (run xarith p)) -> (x = NaN <-> inputs p = []).
Proof.
  intros p qs x Hw Hx. exact (finish_nan_iff (inputs p) (run xarith p) qs x (run_inv p Hw) Hx).
Qed.

Lemma nonfinite_ignored :
  forall (T : Type) (A : arith T) (d : digest T) (v w : T),
    a_is_finite A v = false -> td_add_weighted A d v w = d.
Proof. intros T A d v w H. unfold td_add_weighted. rewrite H. reflexivity. Qed.

Lemma prog_compress_invariants :
  forall (p : prog X), wf_prog p -> inputs p <> [] ->
    exists lo hi, is_lo lo (inputs p) /\ is_hi hi (inputs p) /\
      let cs := d_cents (td_compress xarith (run xarith p)) in
      StronglySorted mle cs /\ sumw cs == wsum (inputs p) /\ Forall (fin_c lo hi) cs.
Proof.
  intros p Hw Hne. exact (compress_invariants (inputs p) (run xarith p) (run_inv p Hw) Hne).
Qed.

Lemma prog_count_exact :
  forall (p : prog X), wf_prog p ->
    exists W, td_count (run xarith p) = Fin W /\ W == wsum (inputs p).
Proof. intros p Hw. exact (count_exact (inputs p) (run xarith p) (run_inv p Hw)). Qed.

(* ------------------------------------------------------------------ lists of quantiles
   TDigest::quantiles and ApproxQuantiles::finish answer position by position: the i-th result is
   the estimate for the i-th requested q, whatever the order of the request (any arithmetic) *)
Lemma quantiles_pointwise :
  forall (T : Type) (A : arith T) (d : digest T) (qs : list T),
    td_quantiles A d qs = map (td_quantile A d) qs /\
    length (td_quantiles A d qs) = length qs /\
    length (aq_finish A qs d) = length qs /\
    forall i, nth_error (aq_finish A qs d) i
              = option_map (fun q => if td_is_empty A d then a_nan A
                                     else td_quantile A (td_compress A d) q)
                           (nth_error qs i).
Proof.
  intros T A d qs. split; [reflexivity|]. split; [apply map_length|].
  unfold aq_finish, td_quantiles. destruct (td_is_empty A d).
  - split; [apply map_length|]. intro i. apply nth_error_map.
  - split; [apply map_length|]. intro i. apply nth_error_map.
Qed.
