(* Classified programs compute their reference (list) semantics `Denote.denote` in both engines:
   the identical sequence for class E, the same multiset for class P, the same multiset of groups
   with every group's values as a multiset for class D.
   Route: every classified node run on ONE partition holding exactly the reference rows returns
   the reference meaning of the node (`dnode`, Proofs/EngineClassify.v); node-level partition
   independence (Proofs/EngineEquiv.v) transfers this to any partitioning of rows known only up
   to the order class; chains by induction; plans (linear / join) through the run lemmas of
   EngineEquiv; the optimised plan through `plan_sim_sound`. *)
From Coq Require Import List ZArith Bool Arith Lia Permutation.
From IB Require Import Engine.Val Engine.Ops Engine.AMap Engine.Nodes Engine.Exec Engine.Planner
     Engine.Lang Engine.Denote Engine.Static Engine.Classify Combiners.Lawful
     Proofs.EngineBase Proofs.EngineKeyed Proofs.EngineCombine Proofs.EngineJoin
     Proofs.EngineElementwise Proofs.CombinersLawful Proofs.EngineEquiv Proofs.EngineClassify.
Import ListNotations.
Local Close Scope Z_scope.
Local Open Scope nat_scope.

(* ================= per-key outputs against the reference ================= *)

Lemma dkeyed_perm : forall (L : list val) (f : val -> val) rows,
    NoDup (map vfst L) ->
    (forall k, In k (map vfst L) <-> In k (map vfst rows)) ->
    (forall g, In g L -> g = VPair (vfst g) (f (vfst g))) ->
    Permutation L (map (fun k => VPair k (f k)) (keys_of rows)).
Proof.
  intros L f rows Hnd Hkeys Hval.
  assert (Hk : map vfst (map (fun k => VPair k (f k)) (keys_of rows)) = keys_of rows).
  { rewrite map_map. cbn [vfst]. apply map_id. }
  apply keyed_perm.
  - exact Hnd.
  - rewrite Hk. apply keys_of_nodup.
  - intros k. rewrite Hk, keys_of_in. apply Hkeys.
  - intros g1 g2 H1 H2 Hkk. apply in_map_iff in H2. destruct H2 as (k & <- & _).
    cbn [vfst] in Hkk. rewrite (Hval g1 H1), Hkk. reflexivity.
Qed.

Lemma fold_c_fold_acc : forall cb vs, fold_c cb vs = c_finish (vc_c cb) (fold_acc (vc_c cb) vs).
Proof. reflexivity. Qed.

(* ================= one node, one partition holding the reference rows ================= *)

Lemma node_single_denote : forall sh i t c b t' c' rows,
    perm_oracle sh -> node_cls t c b t' c' ->
    exists out, par_bnode sh i b [(t, rows)] = Ok [(t', out)] /\ rel c' out (dnode b rows).
Proof.
  intros sh i t c b t' c' rows Hsh Hcls.
  assert (Hstateless : forall ops c0 c1, node_cls t c0 (BStateless ops) t' c1 ->
             exists out, par_bnode sh i (BStateless ops) [(t, rows)] = Ok [(t', out)] /\
                         rel c1 out (dnode (BStateless ops) rows)).
  { intros ops c0 c1 Hn. destruct (node_stateless_ew _ _ _ _ _ Hn) as [Hew Htags].
    exists (sem_ops ops rows). cbn [par_bnode]. unfold par_stateless. cbn [oall].
    rewrite (apply_ops_ew ops t t' rows Hew Htags). cbn [obind dnode].
    split; [reflexivity|apply rel_refl]. }
  destruct Hcls as [t c ops t' Hfl Hew Htags | t ops t' Hdd Htags
                    | t ops1 o ops2 t' Hdd Hdp Hew Htags | t t' | t t'
                    | t c cb tg t' Hfl Hlaw | t c cb tp t' Hlaw
                    | t c cb lifted t' fanout Hfl Hlaw].
  - (* element-wise block *)
    apply (Hstateless ops c c). apply nc_stateless; assumption.
  - apply (Hstateless ops D D). apply nc_stateless_dd; assumption.
  - apply (Hstateless (ops1 ++ o :: ops2) D P). apply nc_stateless_dp; assumption.
  - (* GroupByKey *)
    cbn [par_bnode]. unfold run_gbk. rewrite check_tags_one. cbn [fst]. rewrite Nat.eqb_refl.
    cbn [omap_out obind map snd]. eexists. split; [reflexivity|]. cbn [rel dnode].
    pose proof (gbk_matches_denote sh i [rows] Hsh) as Hm. cbn [map concat] in Hm.
    rewrite app_nil_r in Hm. exact Hm.
  - (* GroupByKey on a multiset: a fortiori *)
    cbn [par_bnode]. unfold run_gbk. rewrite check_tags_one. cbn [fst]. rewrite Nat.eqb_refl.
    cbn [omap_out obind map snd]. eexists. split; [reflexivity|]. cbn [dnode].
    apply relD_of_perm.
    pose proof (gbk_matches_denote sh i [rows] Hsh) as Hm. cbn [map concat] in Hm.
    rewrite app_nil_r in Hm. exact Hm.
  - (* CombineValues on pairs *)
    destruct Hlaw as (R & spec & L & Hfun & Hinv).
    cbn [par_bnode]. unfold run_combine_values. rewrite check_tags_one. cbn [fst].
    rewrite Nat.eqb_refl. cbn [omap_out obind map snd]. eexists. split; [reflexivity|].
    cbn [rel dnode]. unfold d_combine_values.
    change [cv_local_pairs (vc_A cb) (vc_c cb) rows]
      with (map (cv_local_pairs (vc_A cb) (vc_c cb)) [rows]).
    apply (dkeyed_perm _ (fun k => fold_c cb (values_of k rows)) rows).
    + apply cv_keys_unique. exact Hsh.
    + intros k. rewrite (cv_keys_exact sh _ _ i [rows] k Hsh). cbn [concat].
      rewrite app_nil_r. reflexivity.
    + intros g Hg.
      pose proof (cv_equals_fold sh _ _ R spec i [rows] g Hsh L Hfun Hg) as Hv.
      cbn [concat] in Hv. rewrite app_nil_r in Hv. exact Hv.
  - (* lifted CombineValues on grouped rows *)
    destruct Hlaw as (R & spec & L & Hfun & Hinv).
    cbn [par_bnode]. unfold run_combine_values. rewrite check_tags_one. cbn [fst].
    rewrite Nat.eqb_refl. cbn [omap_out obind map snd]. eexists. split; [reflexivity|].
    cbn [rel dnode]. unfold d_combine_values_grouped.
    change [cv_local_groups (vc_A cb) (vc_c cb) rows]
      with (map (cv_local_groups (vc_A cb) (vc_c cb)) [rows]).
    apply (dkeyed_perm _ (fun k => fold_c cb (concat (map vlist (values_of k rows)))) rows).
    + apply cvl_keys_unique. exact Hsh.
    + intros k. rewrite (cvl_keys_exact sh _ _ i [rows] k Hsh). cbn [concat].
      rewrite app_nil_r. reflexivity.
    + intros g Hg.
      destruct (cvl_value sh _ _ R spec i [rows] g Hsh L Hg) as (o & Eg & So).
      cbn [concat] in So. rewrite app_nil_r in So.
      rewrite Eg at 1. f_equal. rewrite fold_c_fold_acc.
      eapply Hfun; [exact So|]. apply (fold_spec (vc_c cb) R spec L).
  - (* CombineGlobal *)
    destruct Hlaw as (R & spec & L & Hfun & Hinv). destruct cb as [A cmb]. cbn [vc_A vc_c] in *.
    assert (Hct : check_tags t [(t, rows)] = true)
      by (rewrite check_tags_one; cbn [fst]; apply Nat.eqb_refl).
    destruct (cg_par_spec A cmb R spec lifted t t' fanout [(t, rows)] L Hct) as (o & Eo & So).
    cbn [map snd concat] in So. rewrite app_nil_r in So.
    cbn [par_bnode]. rewrite Eo. cbn [omap_out obind]. eexists. split; [reflexivity|].
    cbn [rel dnode]. unfold d_combine_globally. f_equal. rewrite fold_c_fold_acc. cbn [vc_c].
    eapply Hfun; [exact So|]. apply (fold_spec cmb R spec L).
Qed.

(* ================= chains ================= *)

Lemma chain_denote : forall sh, perm_oracle sh ->
    forall t c bs t' c', chain_cls t c bs t' c' ->
    forall i ps rows,
      check_tags t ps = true -> rel c (concat (map snd ps)) rows ->
      exists ps', par_chain sh i bs ps = Ok ps' /\ check_tags t' ps' = true /\
                  rel c' (concat (map snd ps')) (dchain bs rows).
Proof.
  intros sh Hsh t c bs t' c' H.
  induction H as [t c|t c b t1 c1 r t2 c2 Hn Hr IH]; intros i ps rows Hct Hrel.
  - exists ps. split; [reflexivity|]. split; [exact Hct|exact Hrel].
  - assert (Hgood : good t c ps [(t, rows)]).
    { unfold good. rewrite check_tags_one. cbn [fst map snd concat].
      rewrite Nat.eqb_refl, app_nil_r. auto. }
    destruct (node_partition_independent_good sh sh i i _ _ _ _ _ ps [(t, rows)] Hsh Hsh Hn Hgood)
      as (ps1 & qs1 & E1 & E2 & G1 & G2 & G3).
    destruct (node_single_denote sh i t c b t1 c1 rows Hsh Hn) as (out & Eout & Hout).
    rewrite Eout in E2. injection E2 as <-. cbn [map snd concat] in G3. rewrite app_nil_r in G3.
    destruct (IH (next_site i b) ps1 (dnode b rows) G1 (rel_trans _ _ _ _ G3 Hout))
      as (ps' & F1 & F2 & F3).
    exists ps'. cbn [par_chain]. rewrite E1. cbn [obind].
    split; [exact F1|]. split; [exact F2|exact F3].
Qed.

Lemma chain_cls_plain : forall t c bs t' c', chain_cls t c bs t' c' -> Forall plainb bs.
Proof.
  intros t c bs t' c' H. apply chain_sim_refl in H. apply chain_sim_plain in H. apply H.
Qed.

(* ================= the join against d_join, for arbitrary rows ================= *)

Lemma values_of_norm : forall k r, values_of k (map vnorm r) = values_of k r.
Proof.
  intros k r. unfold values_of. induction r as [|x r IH]; [reflexivity|].
  cbn [map filter vnorm vfst]. destruct (val_eqb (vfst x) k); cbn [map vsnd vnorm]; congruence.
Qed.

Lemma inner_l_norm : forall mk l r, inner_l mk (map vnorm l) (map vnorm r) = inner_l mk l r.
Proof.
  intros mk l r. unfold inner_l. rewrite flat_map_map. apply flat_map_ext. intros x.
  cbn [vnorm vfst vsnd]. rewrite values_of_norm. reflexivity.
Qed.

Lemma unmatched_norm : forall hv l r, unmatched hv (map vnorm l) (map vnorm r) = unmatched hv l r.
Proof.
  intros hv l r. unfold unmatched. induction l as [|x l IH]; [reflexivity|].
  cbn [map filter vnorm vfst]. rewrite values_of_norm.
  destruct (isnil (values_of (vfst x) r)); cbn [map vnorm vfst vsnd]; congruence.
Qed.

Lemma d_join_norm : forall kind l r, d_join kind (map vnorm l) (map vnorm r) = d_join kind l r.
Proof.
  intros kind l r. rewrite !d_join_canon.
  destruct kind; rewrite ?inner_l_norm, ?unmatched_norm; reflexivity.
Qed.

Lemma join_exec_denote : forall sh kind i l l' r r',
    perm_oracle sh -> Permutation l l' -> Permutation r r' ->
    Permutation (join_exec sh kind i l r) (d_join kind l' r').
Proof.
  intros sh kind i l l' r r' Hsh Hl Hr.
  rewrite (join_exec_norm sh kind i l r).
  eapply Permutation_trans; [apply join_exec_sound; [exact Hsh|apply norm_rows|apply norm_rows]|].
  rewrite <- (d_join_norm kind l' r').
  apply d_join_perm; apply Permutation_map; assumption.
Qed.

(* ================= classified programs ================= *)

Lemma shape_denote : forall s steps t c m,
    prog_shape s steps t c ->
    exists r0, exec_mode m id_sh t (cs_chain (compile s steps)) = Ok r0 /\
               rel c r0 (denote s steps).
Proof.
  intros s steps t c m Hshape.
  assert (Hsh : perm_oracle id_sh) by (intros i l; apply Permutation_refl).
  destruct Hshape as [bs Hchain Hcls Hden|k rd u bl br bp cl cr Hchain Hl Hr Hfl Hfr Hp Hden].
  - (* linear *)
    rewrite Hchain, Hden.
    destruct (start_parts_rows (src_source s) m (src_source_coherent s)) as [Hct Hrows].
    rewrite src_source_tag in Hct. rewrite src_source_all in Hrows.
    destruct (chain_denote id_sh Hsh _ _ _ _ _ Hcls 0 _ (src_data s) Hct (rel_of_eq E _ _ Hrows))
      as (ps' & E1 & E2 & E3).
    exists (concat (map snd ps')). split; [|exact E3].
    apply exec_mode_linear; [eapply chain_cls_plain; exact Hcls|exact E1|exact E2].
  - (* join *)
    rewrite Hchain, Hden.
    (* left side *)
    destruct (start_parts_rows (src_source s) m (src_source_coherent s)) as [Hctl Hrowsl].
    rewrite src_source_tag in Hctl. rewrite src_source_all in Hrowsl.
    destruct (chain_denote id_sh Hsh _ _ _ _ _ Hl (1000 * 1) _ (src_data s) Hctl
                           (rel_of_eq E _ _ Hrowsl)) as (X & EX & HXt & HXr).
    (* right side *)
    destruct (start_parts_rows (vec_source TKV rd) m (vec_source_coherent TKV rd)) as [Hctr Hrowsr].
    cbn [vec_source s_tag s_all] in Hctr, Hrowsr.
    destruct (chain_denote id_sh Hsh _ _ _ _ _ Hr (2000 * 1) _ rd Hctr (rel_of_eq E _ _ Hrowsr))
      as (Y & EY & HYt & HYr).
    (* the join *)
    set (rows := join_exec id_sh k 0 (concat (map snd X)) (concat (map snd Y))).
    assert (Hcg : run_cogroup id_sh 0 k TKV TKV (join_tag k) X Y = Ok (join_tag k, rows)).
    { unfold run_cogroup. rewrite HXt, HYt. reflexivity. }
    assert (Hjoin : Permutation rows (d_join k (dchain bl (src_data s)) (dchain br rd))).
    { apply join_exec_denote; [exact Hsh|eapply rel_perm; [exact Hfl|exact HXr]
                                         |eapply rel_perm; [exact Hfr|exact HYr]]. }
    (* the normalising map and the rest *)
    assert (Hcls' : chain_cls (join_tag k) P
                              (BStateless [op_map (join_tag k) TKV join_norm u] :: bp) t c).
    { eapply cc_cons; [|exact Hp]. apply nc_stateless.
      - exact I.
      - constructor; [apply ew_map|constructor].
      - cbn [tags_ok op_map mk_op op_in op_out]. rewrite Nat.eqb_refl. reflexivity. }
    assert (Hct0 : check_tags (join_tag k) [(join_tag k, rows)] = true)
      by (rewrite check_tags_one; cbn [fst]; apply Nat.eqb_refl).
    assert (Hrel0 : rel P (concat (map snd [(join_tag k, rows)]))
                        (d_join k (dchain bl (src_data s)) (dchain br rd))).
    { cbn [map snd concat rel]. rewrite app_nil_r. exact Hjoin. }
    destruct (chain_denote id_sh Hsh _ _ _ _ _ Hcls' 1 _ _ Hct0 Hrel0) as (ps' & E1 & E2 & E3).
    exists (concat (map snd ps')). split.
    + apply (exec_mode_join m id_sh t _ _ _ k TKV TKV (join_tag k) _ X Y (join_tag k, rows) ps').
      * apply run_side_mode_eq; [eapply chain_cls_plain; exact Hl|exact EX].
      * apply run_side_mode_eq; [eapply chain_cls_plain; exact Hr|exact EY].
      * exact Hcg.
      * eapply chain_cls_plain; exact Hcls'.
      * exact E1.
      * exact E2.
    + (* the normalising map is the identity in the reference semantics *)
      unfold dchain in E3. cbn [fold_left dnode] in E3.
      unfold sem_ops in E3. cbn [fold_left] in E3. unfold step_list in E3.
      cbn [op_map mk_op op_fn] in E3. unfold join_norm in E3. rewrite map_id in E3. exact E3.
Qed.

Lemma program_matches_denote : forall s steps t c parts,
    classify s steps = Some (t, c) ->
    reorder_noop (fuse (cs_chain (compile s steps))) ->
    exists rs rp, run_seq s steps = Ok rs /\ run_par s steps parts = Ok rp /\
                  rel c rs (denote s steps) /\ rel c rp (denote s steps).
Proof.
  intros s steps t c parts H Hnoop.
  destruct (classified_strong s steps t c H) as (Hcls & Ht & Hkv).
  assert (Hperm : perm_oracle id_sh) by (intros i l; apply Permutation_refl).
  pose proof (plan_opt_sim _ t c Hcls Hnoop (tkv_lift_typed _ Hkv)) as Hsim.
  destruct (shape_denote s steps t c None (classified_shape s steps t c H)) as (r0 & E0 & Hden).
  destruct (plan_sim_sound id_sh id_sh _ _ t c None None Hperm Hperm Hsim)
    as (r1 & rs & E1 & Es & Hrel_s).
  destruct (plan_sim_sound id_sh id_sh _ _ t c None (Some parts) Hperm Hperm Hsim)
    as (r2 & rp & E2 & Ep & Hrel_p).
  rewrite E0 in E1, E2. injection E1 as <-. injection E2 as <-.
  cbn [exec_mode] in Es, Ep.
  exists rs, rp. unfold run_seq, run_par, plan. rewrite <- Ht.
  split; [exact Es|]. split; [exact Ep|].
  split; (eapply rel_trans; [apply rel_sym; eassumption|exact Hden]).
Qed.
