(* Generic consequences of lawfulness (Combiners/Lawful.v): whatever way an accumulator is
   produced through create / add_input / merge / build_from_group, it represents exactly the
   values that went in; hence any split, any merge tree and order, lifted or not, gives the
   mathematical output, and (for a functional spec) the same output as the plain fold. *)
From Coq Require Import List Permutation Morphisms.
From IB Require Import Combiners.Lawful.
Import ListNotations.

Section Generic.
  Context {V A O : Type}.
  Variable c : combiner V A O.
  Variable R : A -> list V -> Prop.
  Variable spec : list V -> O -> Prop.
  Hypothesis L : lawful c R spec.

  Lemma fold_left_add_R : forall vs a m,
      R a m -> R (fold_left (c_add c) vs a) (rev vs ++ m).
  Proof.
    induction vs as [|v vs IH]; intros a m Ha; cbn [fold_left rev app].
    - exact Ha.
    - rewrite <- app_assoc. cbn [app]. apply IH. apply (law_add _ _ _ L). exact Ha.
  Qed.

  (* the fold represents its input *)
  Lemma fold_acc_R : forall vs, R (fold_acc c vs) vs.
  Proof.
    intros vs. unfold fold_acc.
    apply (law_perm _ _ _ L) with (m := rev vs ++ []).
    - apply fold_left_add_R. apply (law_create _ _ _ L).
    - rewrite app_nil_r. symmetry. apply Permutation_rev.
  Qed.

  (* any accumulator expression represents the values that went into it *)
  Lemma aeval_R : forall e, R (aeval c e) (avalues e).
  Proof.
    induction e as [|e IH v|l IHl r IHr|vs]; cbn [aeval avalues].
    - apply (law_create _ _ _ L).
    - apply (law_add _ _ _ L). exact IH.
    - apply (law_merge _ _ _ L); assumption.
    - apply (law_build _ _ _ L).
  Qed.

  Lemma leaf_acc_R : forall b part, R (leaf_acc c b part) part.
  Proof.
    intros [|] part; unfold leaf_acc.
    - apply (law_build _ _ _ L).
    - apply fold_acc_R.
  Qed.

  Lemma meval_R : forall t, R (meval c t) (concat (mparts t)).
  Proof.
    induction t as [b part|l IHl r IHr]; cbn [meval mparts].
    - cbn [concat]. rewrite app_nil_r. apply leaf_acc_R.
    - rewrite concat_app. apply (law_merge _ _ _ L); assumption.
  Qed.

  (* THE MERGEABILITY THEOREM, spec form: any accumulator expression over (a permutation of)
     the values vs finishes to the mathematical output for vs *)
  Theorem aexpr_spec : forall e vs,
      Permutation (avalues e) vs -> spec vs (c_finish c (aeval c e)).
  Proof.
    intros e vs HP. apply (law_finish _ _ _ L).
    apply (law_perm _ _ _ L) with (m := avalues e); [apply aeval_R | exact HP].
  Qed.

  (* the property's wording: parts (any number, empty ones included, in any order), each
     accumulated separately (by add_input or by build_from_group), merged along any tree *)
  Theorem merge_tree_spec : forall t vs,
      Permutation (concat (mparts t)) vs -> spec vs (c_finish c (meval c t)).
  Proof.
    intros t vs HP. apply (law_finish _ _ _ L).
    apply (law_perm _ _ _ L) with (m := concat (mparts t)); [apply meval_R | exact HP].
  Qed.

  Theorem fold_spec : forall vs, spec vs (c_finish c (fold_acc c vs)).
  Proof. intros vs. apply (law_finish _ _ _ L). apply fold_acc_R. Qed.

  (* merging with a fresh accumulator changes nothing (in terms of what is represented) *)
  Theorem merge_create_r : forall a m, R a m -> R (c_merge c a (c_create c)) m.
  Proof.
    intros a m Ha. rewrite <- (app_nil_r m).
    apply (law_merge _ _ _ L); [exact Ha | apply (law_create _ _ _ L)].
  Qed.
  Theorem merge_create_l : forall a m, R a m -> R (c_merge c (c_create c) a) m.
  Proof.
    intros a m Ha. change m with ([] ++ m).
    apply (law_merge _ _ _ L); [apply (law_create _ _ _ L) | exact Ha].
  Qed.

  (* building from a whole group and adding one at a time represent the same multiset *)
  Theorem build_fold_R : forall vs, R (c_build c vs) vs /\ R (fold_acc c vs) vs.
  Proof. intros vs. split; [apply (law_build _ _ _ L) | apply fold_acc_R]. Qed.

  (* ---- equality form, for a spec that determines the output up to an equivalence eqO
     (Leibniz equality for count/sum/min/max/top-k/number of distinct values, equality of
     rationals for the mean, Permutation for the set of distinct values) ---- *)
  Variable eqO : O -> O -> Prop.
  Hypothesis spec_functional : forall m o o', spec m o -> spec m o' -> eqO o o'.

  Theorem R_finish_eq : forall a b m, R a m -> R b m -> eqO (c_finish c a) (c_finish c b).
  Proof.
    intros a b m Ha Hb.
    apply spec_functional with (m := m); apply (law_finish _ _ _ L); assumption.
  Qed.

  Theorem aexpr_eq_fold : forall e vs,
      Permutation (avalues e) vs ->
      eqO (c_finish c (aeval c e)) (c_finish c (fold_acc c vs)).
  Proof.
    intros e vs HP. apply spec_functional with (m := vs);
      [apply aexpr_spec; exact HP | apply fold_spec].
  Qed.

  Theorem merge_tree_eq_fold : forall t vs,
      Permutation (concat (mparts t)) vs ->
      eqO (c_finish c (meval c t)) (c_finish c (fold_acc c vs)).
  Proof.
    intros t vs HP. apply spec_functional with (m := vs);
      [apply merge_tree_spec; exact HP | apply fold_spec].
  Qed.

  Theorem build_eq_fold : forall vs,
      eqO (c_finish c (c_build c vs)) (c_finish c (fold_acc c vs)).
  Proof. intros vs. apply R_finish_eq with (m := vs); apply build_fold_R. Qed.

  Theorem merge_create_eq : forall a m, R a m ->
      eqO (c_finish c (c_merge c a (c_create c))) (c_finish c a) /\
      eqO (c_finish c (c_merge c (c_create c) a)) (c_finish c a).
  Proof.
    intros a m Ha. split; apply R_finish_eq with (m := m);
      auto using merge_create_r, merge_create_l.
  Qed.
End Generic.

(* left- and right-nested trees have the leaves one expects *)
Lemma mparts_left_nested : forall {V} (ts : list (mtree V)) (t : mtree V),
    mparts (left_nested t ts) = mparts t ++ flat_map mparts ts.
Proof.
  induction ts as [|t' ts IH]; intros t; cbn [left_nested flat_map].
  - rewrite app_nil_r. reflexivity.
  - rewrite IH. cbn [mparts]. rewrite app_assoc. reflexivity.
Qed.
Lemma mparts_right_nested : forall {V} (ts : list (mtree V)) (t : mtree V),
    mparts (right_nested t ts) = mparts t ++ flat_map mparts ts.
Proof.
  induction ts as [|t' ts IH]; intros t; cbn [right_nested flat_map].
  - rewrite app_nil_r. reflexivity.
  - cbn [mparts]. rewrite IH. reflexivity.
Qed.

(* ---- "associative and commutative merge with identity" is sufficient ---- *)
Section Monoid.
  Context {V A O : Type}.
  Variable c : combiner V A O.
  Variable inject : V -> A.
  Hypothesis M : comm_monoid_combiner c inject.

  Let acc := cm_acc c inject.

  Lemma cm_acc_app : forall m m', acc (m ++ m') = c_merge c (acc m) (acc m').
  Proof.
    induction m as [|v m IH]; intros m'; cbn [app].
    - unfold acc, cm_acc at 2. cbn [fold_right].
      rewrite (cm_comm _ _ M). rewrite (cm_unit _ _ M). reflexivity.
    - unfold acc, cm_acc in *. cbn [fold_right]. rewrite IH.
      rewrite !(cm_assoc _ _ M). f_equal. apply (cm_comm _ _ M).
  Qed.

  Lemma cm_acc_perm : forall m m', Permutation m m' -> acc m = acc m'.
  Proof.
    induction 1 as [|x l l' _ IH|x y l|l l' l'' _ IH1 _ IH2]; unfold acc, cm_acc in *;
      cbn [fold_right].
    - reflexivity.
    - rewrite IH. reflexivity.
    - rewrite !(cm_assoc _ _ M). f_equal. apply (cm_comm _ _ M).
    - rewrite IH1. exact IH2.
  Qed.

  Lemma cm_fold_left : forall vs a m, a = acc m -> fold_left (c_add c) vs a = acc (rev vs ++ m).
  Proof.
    induction vs as [|v vs IH]; intros a m Ha; cbn [fold_left rev app].
    - exact Ha.
    - rewrite <- app_assoc. cbn [app]. apply IH. rewrite (cm_add _ _ M), Ha. reflexivity.
  Qed.

  (* a commutative-monoid combiner is lawful, with "the accumulator IS the monoid product of the
     injected values" as representation and "finish of that product" as specification *)
  Theorem comm_monoid_lawful :
    lawful c (fun a m => a = acc m) (fun m o => o = c_finish c (acc m)).
  Proof.
    constructor.
    - reflexivity.
    - intros a m v ->. rewrite (cm_add _ _ M). reflexivity.
    - intros a b m m' -> ->. symmetry. apply cm_acc_app.
    - intros vs. rewrite (cm_build _ _ M). unfold fold_acc.
      rewrite (cm_fold_left vs (c_create c) []) by reflexivity.
      rewrite app_nil_r. apply cm_acc_perm. symmetry. apply Permutation_rev.
    - intros a m m' -> HP. apply cm_acc_perm. exact HP.
    - intros a m ->. reflexivity.
  Qed.
End Monoid.
