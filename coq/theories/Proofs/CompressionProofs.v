(* Proofs about the compression-detection model IO/Compression.v (property C10). *)
From Coq Require Import List ZArith Bool Lia Arith.
From IB Require Import IO.Compression.
Import ListNotations.
Open Scope Z_scope.

(* ---------- starts_with / ends_with ---------- *)

Lemma starts_with_app : forall p s, starts_with p (p ++ s) = true.
Proof.
  induction p as [|x p IH]; intros s; cbn [starts_with app]; [reflexivity|].
  rewrite Z.eqb_refl, IH. reflexivity.
Qed.

Lemma starts_with_spec : forall p s, starts_with p s = true <-> exists t, s = p ++ t.
Proof.
  induction p as [|x p IH]; intros s.
  - cbn. split; [intros _; exists s; reflexivity | reflexivity].
  - destruct s as [|y s]; cbn [starts_with].
    + split; [discriminate | intros [t Ht]; discriminate].
    + rewrite andb_true_iff, Z.eqb_eq, IH. split.
      * intros [-> [t ->]]. exists t. reflexivity.
      * intros [t Ht]. cbn in Ht. injection Ht as -> ->. split; [reflexivity | exists t; reflexivity].
Qed.

Lemma starts_with_length : forall p s, starts_with p s = true -> (length p <= length s)%nat.
Proof.
  intros p s H. apply starts_with_spec in H as [t ->]. rewrite app_length. lia.
Qed.

Lemma starts_with_app_cancel : forall p a b, starts_with (p ++ a) (p ++ b) = starts_with a b.
Proof.
  induction p as [|x p IH]; intros a b; cbn [app starts_with]; [reflexivity|].
  rewrite Z.eqb_refl, IH. reflexivity.
Qed.

Lemma starts_with_firstn : forall p n s,
  (length p <= n)%nat -> starts_with p (firstn n s) = starts_with p s.
Proof.
  induction p as [|x p IH]; intros n s Hn; [destruct (firstn n s); reflexivity|].
  cbn [length] in Hn. destruct n as [|n]; [lia|].
  destruct s as [|y s]; cbn [firstn starts_with]; [reflexivity|].
  rewrite IH by lia. reflexivity.
Qed.

(* two prefixes of the same string: one is a prefix of the other *)
Lemma starts_with_both : forall a b r,
  starts_with a r = true -> starts_with b r = true ->
  starts_with a b = true \/ starts_with b a = true.
Proof.
  induction a as [|x a IH]; intros b r Ha Hb; [left; reflexivity|].
  destruct b as [|y b]; [right; reflexivity|].
  destruct r as [|z r]; [discriminate|].
  cbn [starts_with] in *.
  apply andb_true_iff in Ha as [Hx Ha]. apply andb_true_iff in Hb as [Hy Hb].
  apply Z.eqb_eq in Hx. apply Z.eqb_eq in Hy. subst y z. rewrite Z.eqb_refl. cbn [andb].
  exact (IH b r Ha Hb).
Qed.

Lemma ends_with_app : forall t e, ends_with e (t ++ e) = true.
Proof. intros t e. unfold ends_with. rewrite rev_app_distr. apply starts_with_app. Qed.

Lemma ends_with_spec : forall e s, ends_with e s = true <-> exists t, s = t ++ e.
Proof.
  intros e s. unfold ends_with. rewrite starts_with_spec. split.
  - intros [t Ht]. exists (rev t). rewrite <- (rev_involutive s), Ht, rev_app_distr, rev_involutive.
    reflexivity.
  - intros [t ->]. exists (rev t). apply rev_app_distr.
Qed.

Lemma ends_with_both : forall a b s,
  ends_with a s = true -> ends_with b s = true -> ends_with a b = true \/ ends_with b a = true.
Proof. intros a b s. unfold ends_with. apply starts_with_both. Qed.

Lemma lower_app : forall a b, lower (a ++ b) = lower a ++ lower b.
Proof. intros. apply map_app. Qed.

Lemma lower_idem : forall s, lower (lower s) = lower s.
Proof.
  intros s. unfold lower. rewrite map_map. apply map_ext. intros b. unfold lower_byte.
  destruct ((65 <=? b) && (b <=? 90)) eqn:E; [|rewrite E; reflexivity].
  apply andb_true_iff in E as [E1 E2]. apply Z.leb_le in E1. apply Z.leb_le in E2.
  replace (b + 32 <=? 90) with false by (symmetry; apply Z.leb_gt; lia).
  rewrite andb_false_r. reflexivity.
Qed.

(* ---------- find ---------- *)

Lemma find_unique : forall (A : Type) (f : A -> bool) (l : list A) (x : A),
  In x l -> f x = true -> (forall y, f y = true -> y = x) -> find f l = Some x.
Proof.
  intros A f l x Hin Hfx Huniq. induction l as [|a l IH]; [contradiction|].
  cbn [find]. destruct (f a) eqn:Ea.
  - f_equal. apply Huniq. exact Ea.
  - destruct Hin as [-> | Hin]; [congruence | exact (IH Hin)].
Qed.

Lemma find_none_all : forall (A : Type) (f : A -> bool) (l : list A),
  (forall y, f y = false) -> find f l = None.
Proof.
  intros A f l H. induction l as [|a l IH]; [reflexivity|]. cbn [find]. rewrite H. exact IH.
Qed.

Lemma in_registry : forall c, In c registry.
Proof. intros c. destruct c; cbn; tauto. Qed.

(* ---------- the table lemmas ---------- *)

Lemma magic_is_signature : forall c, magic c = signature c.
Proof. intros c. destruct c; reflexivity. Qed.

Lemma magic_fits : forall c, (length (magic c) <= buf_capacity)%nat.
Proof. intros c. apply Nat.leb_le. destruct c; vm_compute; reflexivity. Qed.

Lemma buf_capacity_pos : (0 < buf_capacity)%nat.
Proof. apply Nat.ltb_lt. vm_compute. reflexivity. Qed.

Lemma magic_nonempty : forall c, starts_with (magic c) [] = false.
Proof. intros c. destruct c; reflexivity. Qed.

(* no content starts with two different signatures: their first bytes differ *)
Lemma signature_exclusive : forall c1 c2 s,
  starts_with (signature c1) s = true -> starts_with (signature c2) s = true -> c1 = c2.
Proof.
  intros c1 c2 s H1 H2. destruct s as [|x s]; [destruct c1; discriminate|].
  destruct c1, c2; try reflexivity; exfalso; cbn [signature starts_with] in H1, H2;
    apply andb_true_iff in H1 as [H1 _]; apply andb_true_iff in H2 as [H2 _];
    apply Z.eqb_eq in H1; apply Z.eqb_eq in H2; lia.
Qed.

(* ---------- detect_magic ---------- *)

Lemma peek_nil : forall s, peek s = [] -> s = [].
Proof.
  intros s H. unfold peek in H. pose proof buf_capacity_pos as Hp.
  destruct buf_capacity as [|n]; [lia|]. destruct s; [reflexivity | discriminate].
Qed.

(* the length test and the 8 KiB window do not matter: detect_magic is a plain prefix test *)
Lemma detect_magic_simpl : forall s,
  detect_magic s = find (fun c => starts_with (magic c) s) registry.
Proof.
  intros s. unfold detect_magic. destruct (peek s) as [|x buf] eqn:Ep.
  - apply peek_nil in Ep. subst s. symmetry. apply find_none_all. exact magic_nonempty.
  - rewrite <- Ep. clear x buf Ep.
    assert (Hext : forall c,
      ((length (magic c) <=? length (peek s))%nat && starts_with (magic c) (peek s))
      = starts_with (magic c) s).
    { intros c. unfold peek. rewrite starts_with_firstn by apply magic_fits.
      destruct (starts_with (magic c) s) eqn:E; [|apply andb_false_r].
      rewrite andb_true_r. apply Nat.leb_le.
      rewrite <- (starts_with_firstn _ buf_capacity) in E by apply magic_fits.
      apply starts_with_length in E. exact E. }
    unfold registry. cbn [find]. rewrite !Hext. reflexivity.
Qed.

Lemma detect_magic_signature : forall c s,
  starts_with (signature c) s = true -> detect_magic s = Some c.
Proof.
  intros c s H. rewrite detect_magic_simpl. apply find_unique.
  - apply in_registry.
  - rewrite magic_is_signature. exact H.
  - intros y Hy. rewrite magic_is_signature in Hy. exact (signature_exclusive y c s Hy H).
Qed.

Lemma detect_magic_none : forall s,
  (forall c, starts_with (signature c) s = false) -> detect_magic s = None.
Proof.
  intros s H. rewrite detect_magic_simpl. apply find_none_all.
  intros c. rewrite magic_is_signature. apply H.
Qed.

Lemma detect_magic_some : forall c s,
  detect_magic s = Some c -> starts_with (signature c) s = true.
Proof.
  intros c s H. rewrite detect_magic_simpl in H. apply find_some in H as [_ H].
  rewrite magic_is_signature in H. exact H.
Qed.

(* ---------- detect_ext ---------- *)

Lemma has_ext_spec : forall c p,
  has_ext c p = true <-> exists e, In e (extensions c) /\ ends_with e (lower p) = true.
Proof. intros c p. unfold has_ext. apply existsb_exists. Qed.

(* no extension of one codec is a suffix of an extension of another codec *)
Lemma ext_no_overlap : forall c1 c2 e1 e2,
  In e1 (extensions c1) -> In e2 (extensions c2) ->
  ends_with e1 e2 = true \/ ends_with e2 e1 = true -> c1 = c2.
Proof.
  intros c1 c2 e1 e2 H1 H2 H.
  destruct c1, c2; try reflexivity; exfalso; cbn [extensions In] in H1, H2;
    repeat match goal with
           | Hx : _ \/ _ |- _ => destruct Hx as [Hx | Hx]
           | Hx : False |- _ => contradiction
           end; subst e1 e2; vm_compute in H; discriminate.
Qed.

Lemma ext_unique : forall p c1 c2, has_ext c1 p = true -> has_ext c2 p = true -> c1 = c2.
Proof.
  intros p c1 c2 H1 H2.
  apply has_ext_spec in H1 as [e1 [I1 E1]]. apply has_ext_spec in H2 as [e2 [I2 E2]].
  exact (ext_no_overlap c1 c2 e1 e2 I1 I2 (ends_with_both e1 e2 _ E1 E2)).
Qed.

Lemma detect_ext_iff : forall p c, detect_ext p = Some c <-> has_ext c p = true.
Proof.
  intros p c. unfold detect_ext. split.
  - intros H. apply find_some in H as [_ H]. exact H.
  - intros H. apply find_unique; [apply in_registry | exact H |].
    intros y Hy. exact (ext_unique p y c Hy H).
Qed.

Lemma detect_ext_none_iff : forall p, detect_ext p = None <-> forall c, has_ext c p = false.
Proof.
  intros p. unfold detect_ext. split.
  - intros H c. exact (find_none _ _ H c (in_registry c)).
  - intros H. apply find_none_all. exact H.
Qed.

Lemma extensions_lower : forall c e, In e (extensions c) -> lower e = e.
Proof.
  intros c e H. destruct c; cbn [extensions In] in H;
    repeat match goal with
           | Hx : _ \/ _ |- _ => destruct Hx as [Hx | Hx]
           | Hx : False |- _ => contradiction
           end; subst e; reflexivity.
Qed.

(* an extension in ANY upper/lower-case spelling selects the codec *)
Lemma has_ext_any_case : forall c e e' stem,
  In e (extensions c) -> lower e' = e -> has_ext c (stem ++ e') = true.
Proof.
  intros c e e' stem Hin Hl. apply has_ext_spec. exists e. split; [exact Hin|].
  rewrite lower_app, Hl. apply ends_with_app.
Qed.

(* the cloud writer's private suffix table decides exactly like detect_from_extension *)
Lemma cloud_writer_codec_eq : forall key, cloud_writer_codec key = detect_ext key.
Proof.
  intros key. unfold cloud_writer_codec, detect_ext, registry, cloud_suffixes, has_ext.
  cbn [find snd fst extensions].
  repeat match goal with
         | |- context [if ?b then _ else _] => destruct b
         end; reflexivity.
Qed.

(* ---------- entry points ---------- *)

Lemma ep_writer_codec_detects : forall w p,
  writer_detects w = true -> ep_writer_codec w p = detect_ext p.
Proof.
  intros w p H. destruct w; try discriminate; unfold ep_writer_codec; cbn [writer_detection];
    try reflexivity. apply cloud_writer_codec_eq.
Qed.

Lemma ep_writer_codec_neutral : forall w p, detect_ext p = None -> ep_writer_codec w p = None.
Proof.
  intros w p H. destruct (writer_detects w) eqn:E.
  - rewrite ep_writer_codec_detects by exact E. exact H.
  - destruct w; try discriminate. reflexivity.
Qed.

Lemma ep_reader_codec_detects : forall r p s,
  reader_detects r = true -> ep_reader_codec r p s = reader_codec p s.
Proof. intros r p s H. destruct r; try discriminate; reflexivity. Qed.

Lemma ep_reader_codec_neutral : forall r p s,
  detect_ext p = None -> detect_magic s = None -> ep_reader_codec r p s = None.
Proof.
  intros r p s He Hm. destruct (reader_detects r) eqn:E.
  - rewrite ep_reader_codec_detects by exact E. unfold reader_codec. rewrite He. exact Hm.
  - destruct r; try discriminate. reflexivity.
Qed.

(* extension wins over magic bytes, whatever the content is *)
Lemma ext_priority : forall r c p stored,
  reader_detects r = true -> has_ext c p = true -> ep_reader_codec r p stored = Some c.
Proof.
  intros r c p stored Hr H. rewrite ep_reader_codec_detects by exact Hr.
  unfold reader_codec. apply detect_ext_iff in H. rewrite H. reflexivity.
Qed.

(* ---------- prefixes of signatures ---------- *)

(* content that follows a non-empty proper prefix of a signature with a different byte starts
   with NO signature *)
Lemma prefix_then_other : forall c p y t x rest c',
  signature c = p ++ y :: t -> p <> [] -> x <> y ->
  starts_with (signature c') (p ++ x :: rest) = false.
Proof.
  intros c p y t x rest c' Hsig Hp Hxy.
  destruct p as [|h p]; [contradiction|].
  assert (Hsame : starts_with (signature c) ((h :: p) ++ x :: rest) = false).
  { rewrite Hsig. rewrite starts_with_app_cancel. cbn [starts_with].
    replace (y =? x) with false by (symmetry; apply Z.eqb_neq; congruence). reflexivity. }
  destruct c, c'; try exact Hsame; cbn [signature app] in Hsig; injection Hsig as Hh _;
    subst h; reflexivity.
Qed.

(* content that IS a proper prefix of a signature (a file shorter than the magic) *)
Lemma proper_prefix_alone : forall c p y t c',
  signature c = p ++ y :: t -> starts_with (signature c') p = false.
Proof.
  intros c p y t c' Hsig.
  destruct (starts_with (signature c') p) eqn:E; [|reflexivity]. exfalso.
  destruct p as [|h p]; [destruct c'; discriminate|].
  assert (c' = c).
  { destruct c, c'; try reflexivity; exfalso; cbn [signature app] in Hsig;
      injection Hsig as Hh _; subst h; cbn [signature starts_with] in E;
      apply andb_true_iff in E as [E _]; apply Z.eqb_eq in E; lia. }
  subst c'. apply starts_with_length in E. rewrite Hsig, app_length in E. cbn [length] in E. lia.
Qed.

(* pure ASCII content can only be mistaken for bzip2 *)
Lemma ascii_only_bzip2 : forall b c,
  (forall x, In x b -> x < 128) -> starts_with (signature Bzip2) b = false ->
  starts_with (signature c) b = false.
Proof.
  intros b c Hascii Hbz. destruct c; [| |exact Hbz|].
  - (* gzip: second byte 0x8b *)
    destruct b as [|x0 [|x1 b]]; try reflexivity; cbn [signature starts_with].
    + apply andb_false_r.
    + assert (x1 < 128) by (apply Hascii; cbn; tauto).
      replace (139 =? x1) with false by (symmetry; apply Z.eqb_neq; lia).
      rewrite andb_false_r. reflexivity.
  - (* zstd: second byte 0xb5 *)
    destruct b as [|x0 [|x1 b]]; try reflexivity; cbn [signature starts_with].
    + apply andb_false_r.
    + assert (x1 < 128) by (apply Hascii; cbn; tauto).
      replace (181 =? x1) with false by (symmetry; apply Z.eqb_neq; lia).
      rewrite andb_false_r. reflexivity.
  - (* xz: first byte 0xfd *)
    destruct b as [|x0 b]; try reflexivity; cbn [signature starts_with].
    assert (x0 < 128) by (apply Hascii; cbn; tauto).
    replace (253 =? x0) with false by (symmetry; apply Z.eqb_neq; lia). reflexivity.
Qed.

(* ---------- the property, over abstract codecs ---------- *)
Section Transparency.
  Variable enc : codec -> bytes -> bytes.
  Variable dec : codec -> bytes -> option bytes.
  Hypothesis dec_enc : forall c b, dec c (enc c b) = Some b.
  Hypothesis enc_sig : forall c b, starts_with (signature c) (enc c b) = true.

  Lemma ext_roundtrip : forall c w r path b,
    writer_detects w = true -> reader_detects r = true -> has_ext c path = true ->
    write enc w path b = enc c b /\
    starts_with (signature c) (write enc w path b) = true /\
    read dec r path (write enc w path b) = Some b.
  Proof.
    intros c w r path b Hw Hr He.
    assert (Hst : write enc w path b = enc c b).
    { unfold write. rewrite ep_writer_codec_detects by exact Hw.
      apply detect_ext_iff in He. rewrite He. reflexivity. }
    split; [exact Hst|]. split; [rewrite Hst; apply enc_sig|].
    unfold read. rewrite (ext_priority r c path _ Hr He), Hst. apply dec_enc.
  Qed.

  Lemma neutral_stored_verbatim : forall w path b,
    detect_ext path = None -> write enc w path b = b.
  Proof. intros w path b H. unfold write. rewrite ep_writer_codec_neutral by exact H. reflexivity. Qed.

  Lemma neutral_verbatim : forall r path b,
    detect_ext path = None -> (forall c, starts_with (signature c) b = false) ->
    read dec r path b = Some b.
  Proof.
    intros r path b He Hs. unfold read.
    rewrite ep_reader_codec_neutral; [reflexivity | exact He | apply detect_magic_none; exact Hs].
  Qed.

  Lemma neutral_detects : forall c r path b,
    reader_detects r = true -> detect_ext path = None ->
    read dec r path (enc c b) = Some b.
  Proof.
    intros c r path b Hr He. unfold read. rewrite ep_reader_codec_detects by exact Hr.
    unfold reader_codec. rewrite He, (detect_magic_signature c) by apply enc_sig. apply dec_enc.
  Qed.

  Lemma ascii_text_verbatim : forall r path b,
    detect_ext path = None -> (forall x, In x b -> x < 128) ->
    starts_with [66; 90; 104] b = false ->
    read dec r path b = Some b.
  Proof.
    intros r path b He Ha Hb. apply neutral_verbatim; [exact He|].
    intros c. exact (ascii_only_bzip2 b c Ha Hb).
  Qed.

  (* end to end: whatever the name, a write followed by a read gives the text back, unless the
     name is neutral AND the text itself begins with a format signature *)
  Lemma transparent : forall w r path b,
    writer_detects w = true -> reader_detects r = true ->
    (detect_ext path = None -> forall c, starts_with (signature c) b = false) ->
    read dec r path (write enc w path b) = Some b.
  Proof.
    intros w r path b Hw Hr H. destruct (detect_ext path) as [c|] eqn:E.
    - apply detect_ext_iff in E. exact (proj2 (proj2 (ext_roundtrip c w r path b Hw Hr E))).
    - rewrite neutral_stored_verbatim by exact E. apply neutral_verbatim; [exact E | exact (H eq_refl)].
  Qed.

  (* the reader applies the codec named by the extension even when the content carries another
     codec's signature *)
  Lemma ext_priority_read : forall r c path stored,
    reader_detects r = true -> has_ext c path = true -> read dec r path stored = dec c stored.
  Proof. intros r c path stored Hr He. unfold read. rewrite (ext_priority r c path stored Hr He). reflexivity. Qed.
End Transparency.

Lemma entry_points :
  (forall w, writer_detects w = true <-> w <> WParquetVec) /\
  (forall r, reader_detects r = true <-> r <> RParquetVec).
Proof.
  split.
  - intros w. destruct w; cbn; split; intros H; try reflexivity; try discriminate;
      try (exfalso; apply H; reflexivity).
  - intros r. destruct r; cbn; split; intros H; try reflexivity; try discriminate;
      try (exfalso; apply H; reflexivity).
Qed.
