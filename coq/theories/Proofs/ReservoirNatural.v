(* The reservoir never looks at the elements: sampling commutes with any relabelling of the
   elements (naturality).  Consequently WHICH POSITIONS of WHICH PARTITION are selected is a function
   of (k, seed, shape of the partitioning) only - a strong form of reproducibility, and the root
   cause of the mode instability: the priority of an element is determined by its position inside
   its partition, not by the element. *)
From Coq Require Import List NArith Arith Bool Lia.
From IB Require Import Combiners.Reservoir.
Import ListNotations.

Section Natural.
  Context {T U : Type}.
  Variable f : T -> U.

  Definition item_map (it : N * nat * T) : N * nat * U := let '(k, s, v) := it in (k, s, f v).
  Definition store_map (st : list (slot T)) : list (slot U) := map (option_map item_map) st.
  Definition acc_map (a : pracc T) : pracc U :=
    PRAcc (pk a) (prng a) (pseq a) (pheap a) (store_map (pstore a)) (palive a).

  Lemma kill_slot_map : forall (st : list (slot T)) i,
    kill_slot i (store_map st) = option_map store_map (kill_slot i st).
  Proof.
    induction st as [|x r IH]; intros i; [destruct i; reflexivity|].
    destruct i as [|i]; destruct x as [it|]; cbn [store_map map option_map kill_slot]; try reflexivity.
    - fold (store_map r). rewrite IH. destruct (kill_slot i r); reflexivity.
    - fold (store_map r). rewrite IH. destruct (kill_slot i r); reflexivity.
  Qed.

  Lemma trim_map : forall fuel (a : pracc T), trim fuel (acc_map a) = acc_map (trim fuel a).
  Proof.
    induction fuel as [|fuel IH]; intros a; [reflexivity|].
    cbn [trim]. cbn [acc_map pk palive pheap pstore prng pseq].
    destruct (Nat.ltb (pk a) (palive a)); [|reflexivity].
    destruct (heap_pop (pheap a)) as [[[[k s] i] h']|]; [|reflexivity].
    rewrite kill_slot_map. destruct (kill_slot i (pstore a)) as [st'|]; cbn [option_map].
    - exact (IH (PRAcc (pk a) (prng a) (pseq a) h' st' (palive a - 1))).
    - exact (IH (PRAcc (pk a) (prng a) (pseq a) h' (pstore a) (palive a))).
  Qed.
  Lemma trim_loop_map : forall a : pracc T, trim_loop (acc_map a) = acc_map (trim_loop a).
  Proof. intros a. unfold trim_loop. cbn [acc_map pheap]. apply trim_map. Qed.

  Lemma store_map_length : forall st, length (store_map st) = length st.
  Proof. intros st. unfold store_map. apply map_length. Qed.
  Lemma store_map_app : forall s1 s2, store_map (s1 ++ s2) = store_map s1 ++ store_map s2.
  Proof. intros. unfold store_map. apply map_app. Qed.

  Lemma add_map : forall (a : pracc T) v, add (acc_map a) (f v) = acc_map (add a v).
  Proof.
    intros a v. unfold add. cbn [acc_map pk prng pseq pheap pstore palive].
    destruct (Nat.eqb (pk a) 0); [reflexivity|].
    destruct (sm_next (prng a)) as [s' x]. rewrite store_map_length.
    rewrite <- trim_loop_map. f_equal. unfold acc_map. cbn [pk prng pseq pheap pstore palive].
    rewrite store_map_app. reflexivity.
  Qed.

  Lemma remap_table_map : forall st base, remap_table base (store_map st) = remap_table base st.
  Proof.
    induction st as [|x r IH]; intros base; [reflexivity|].
    destruct x; cbn [store_map map option_map remap_table]; fold (store_map r); rewrite IH; reflexivity.
  Qed.
  Lemma live_slots_map : forall st, live_slots (store_map st) = store_map (live_slots st).
  Proof.
    induction st as [|x r IH]; [reflexivity|].
    destruct x; cbn [store_map map option_map live_slots]; fold (store_map r); rewrite IH; reflexivity.
  Qed.

  Lemma merge_map : forall a b : pracc T, merge (acc_map a) (acc_map b) = acc_map (merge a b).
  Proof.
    intros a b. unfold merge. cbn [acc_map pk prng pseq pheap pstore palive].
    destruct (Nat.eqb (pk a) 0); [reflexivity|].
    rewrite <- trim_loop_map. f_equal. unfold acc_map. cbn [pk prng pseq pheap pstore palive].
    rewrite store_map_length, remap_table_map, live_slots_map, store_map_length, store_map_app.
    reflexivity.
  Qed.

  Lemma live_items_map : forall st, live_items (store_map st) = map item_map (live_items st).
  Proof.
    induction st as [|x r IH]; [reflexivity|].
    destruct x; cbn [store_map map option_map live_items]; fold (store_map r); rewrite IH; reflexivity.
  Qed.
  Lemma item_before_map : forall x y, item_before (item_map x) (item_map y) = item_before x y.
  Proof. intros [[kx sx] vx] [[ky sy] vy]. reflexivity. Qed.
  Lemma sort_insert_map : forall x l,
    sort_insert (item_map x) (map item_map l) = map item_map (sort_insert x l).
  Proof.
    intros x l. induction l as [|y r IH]; [reflexivity|].
    cbn [map sort_insert]. rewrite item_before_map. destruct (item_before x y); [reflexivity|].
    cbn [map]. rewrite IH. reflexivity.
  Qed.
  Lemma stable_sort_map : forall l, stable_sort (map item_map l) = map item_map (stable_sort l).
  Proof.
    induction l as [|x r IH]; [reflexivity|].
    unfold stable_sort in *. cbn [map fold_right]. rewrite IH. apply sort_insert_map.
  Qed.

  Lemma finish_map : forall a : pracc T, finish (acc_map a) = map f (finish a).
  Proof.
    intros a. unfold finish. cbn [acc_map pk palive pstore].
    destruct (Nat.eqb (pk a) 0 || Nat.eqb (palive a) 0); [reflexivity|].
    rewrite live_items_map, stable_sort_map, firstn_map, !map_map.
    apply map_ext. intros [[k s] v]. reflexivity.
  Qed.

  Lemma fold_add_map : forall rows (a : pracc T),
    fold_left add (map f rows) (acc_map a) = acc_map (fold_left add rows a).
  Proof.
    induction rows as [|v r IH]; intros a; [reflexivity|].
    cbn [map fold_left]. rewrite add_map. apply IH.
  Qed.
  Lemma local_map : forall k seed rows, local k seed (map f rows) = acc_map (local k seed rows).
  Proof. intros. unfold local. exact (fold_add_map rows (create k seed)). Qed.

  Lemma fold_merge_map : forall (accs : list (pracc T)) a,
    fold_left merge (map acc_map accs) (acc_map a) = acc_map (fold_left merge accs a).
  Proof.
    induction accs as [|b r IH]; intros a; [reflexivity|].
    cbn [map fold_left]. rewrite merge_map. apply IH.
  Qed.

  Theorem sample_parts_natural : forall k seed (parts : list (list T)),
    sample_parts k seed (map (map f) parts) = map f (sample_parts k seed parts).
  Proof.
    intros k seed parts. unfold sample_parts. rewrite <- finish_map. f_equal.
    rewrite map_map.
    rewrite (map_ext (fun p => local k seed (map f p)) (fun p => acc_map (local k seed p)))
      by (intros p; apply local_map).
    rewrite <- (map_map (local k seed) acc_map).
    destruct (map (local k seed) parts) as [|a r]; [reflexivity|].
    cbn [map merge_all]. apply fold_merge_map.
  Qed.
End Natural.
