(* C08 proofs, part 1: graph-level facts.
   - `repr s i x`: node i of graph s is the root of a sub-graph that spells the lineage x;
   - insert_node / connect (into a node that has no incoming edge yet and is not a source)
     preserve every `repr` fact and the structural invariant GInv;
   - a backwalk from a represented node returns exactly `chain_of x`;
   - executing `chain_of x` yields `value_of_lineage x`. *)
From Coq Require Import List Arith Bool Lia.
From IB Require Import Pipeline.Graph Pipeline.History Pipeline.Invariant.
Import ListNotations.

Section PG.
  Variables V F G : Type.
  Notation node := (node V F G).
  Notation state := (state V F G).
  Notation lineage := (lineage V F G).


  (* ---------------- association list / edge list lemmas ---------------- *)
  Lemma lookup_in_keys : forall (m : list (nat * node)) i n,
      lookup i m = Some n -> In i (map fst m).
  Proof.
    induction m as [|[k x] m IH]; intros i n H; cbn in *; [discriminate|].
    destruct (Nat.eqb_spec k i) as [->|Hne]; [now left|right; eauto].
  Qed.

  Lemma lookup_remove_other : forall (m : list (nat * node)) i j,
      j <> i -> lookup j (remove_key i m) = lookup j m.
  Proof.
    induction m as [|[k x] m IH]; intros i j Hne; cbn; [reflexivity|].
    destruct (Nat.eqb_spec k i) as [->|Hki].
    - rewrite IH by assumption. destruct (Nat.eqb_spec i j); [congruence|reflexivity].
    - cbn. destruct (Nat.eqb_spec k j); [reflexivity|now apply IH].
  Qed.

  Lemma length_remove_le : forall (m : list (nat * node)) i,
      length (remove_key i m) <= length m.
  Proof.
    induction m as [|[k x] m IH]; intros i; cbn; [lia|].
    destruct (k =? i); cbn; specialize (IH i); lia.
  Qed.

  Lemma length_remove_lt : forall (m : list (nat * node)) i n,
      lookup i m = Some n -> length (remove_key i m) < length m.
  Proof.
    induction m as [|[k x] m IH]; intros i n H; cbn in *; [discriminate|].
    destruct (k =? i).
    - pose proof (length_remove_le m i). lia.
    - cbn. specialize (IH i n H). lia.
  Qed.

  Lemma pred_of_app : forall (es : list (nat * nat)) a b j,
      pred_of (es ++ [(a, b)]) j =
      match pred_of es j with
      | Some x => Some x
      | None => if b =? j then Some a else None
      end.
  Proof.
    induction es as [|[x y] es IH]; intros a b j; cbn; [reflexivity|].
    destruct (y =? j); [reflexivity|apply IH].
  Qed.

  Lemma pred_of_none_iff : forall (es : list (nat * nat)) j,
      pred_of es j = None <-> ~ In j (map snd es).
  Proof.
    induction es as [|[x y] es IH]; intros j; cbn; [tauto|].
    destruct (Nat.eqb_spec y j) as [->|Hne].
    - split; [discriminate|intros H; exfalso; apply H; now left].
    - rewrite IH. split; [intros H [E|I]; [congruence|tauto]|tauto].
  Qed.

  Lemma pred_of_some_in : forall (es : list (nat * nat)) j a,
      pred_of es j = Some a -> In (a, j) es.
  Proof.
    induction es as [|[x y] es IH]; intros j a H; cbn in *; [discriminate|].
    destruct (Nat.eqb_spec y j) as [->|Hne]; [left; congruence|right; eauto].
  Qed.

  (* with at most one incoming edge per node, "the first edge into j" is "the edge into j" *)
  Lemma pred_of_unique : forall (es : list (nat * nat)) a j,
      NoDup (map snd es) -> In (a, j) es -> pred_of es j = Some a.
  Proof.
    induction es as [|[x y] es IH]; intros a j Hnd Hin; cbn in *; [contradiction|].
    inversion Hnd as [|? ? Hni Hnd']; subst.
    destruct Hin as [E|Hin].
    - inversion E; subst. now rewrite Nat.eqb_refl.
    - destruct (Nat.eqb_spec y j) as [->|Hne].
      + exfalso. apply Hni. change j with (snd (a, j)). now apply in_map.
      + now apply IH.
  Qed.

  Lemma NoDup_app_single : forall (l : list nat) x, NoDup l -> ~ In x l -> NoDup (l ++ [x]).
  Proof.
    induction l as [|y l IH]; intros x Hnd Hni; cbn.
    - constructor; [tauto|constructor].
    - inversion Hnd as [|? ? Hy Hnd']; subst. constructor.
      + intros Hin. apply in_app_or in Hin. destruct Hin as [Hin|[E|[]]]; [tauto|].
        subst. apply Hni. now left.
      + apply IH; [assumption|]. intros Hin. apply Hni. now right.
  Qed.

  (* ---------------- structural invariant of the graph ---------------- *)

  Lemma GInv_init : GInv (@init_state V F G).
  Proof. constructor; cbn; try tauto; constructor. Qed.

  Lemma GInv_insert : forall (s : state) n, GInv s -> GInv (snd (insert_node s n)).
  Proof.
    intros s n [H1 H2 H3 H4]. constructor; cbn.
    - intros k [<-|Hk]; [lia|]. specialize (H1 k Hk). lia.
    - constructor; [|assumption]. intros Hin. specialize (H1 _ Hin). lia.
    - intros a b Hin. destruct (H3 a b Hin) as (Hlt & Ha & Hb). auto.
    - assumption.
  Qed.

  Lemma GInv_connect : forall (s : state) a b,
      GInv s -> a < b -> In a (keys s) -> In b (keys s) -> pred_of (edges s) b = None ->
      GInv (connect s a b).
  Proof.
    intros s a b [H1 H2 H3 H4] Hlt Ha Hb Hp. constructor; cbn.
    - exact H1.
    - exact H2.
    - intros x y Hin. apply in_app_or in Hin. destruct Hin as [Hin|[E|[]]].
      + exact (H3 x y Hin).
      + inversion E; subst. auto.
    - rewrite map_app. cbn. apply pred_of_none_iff in Hp.
      apply NoDup_app_single; assumption.
  Qed.

  (* ---------------- representation of a lineage in the graph ---------------- *)

  Lemma repr_key : forall (s : state) i x, repr s i x -> In i (keys s).
  Proof. intros s i x H; inversion H; subst; eapply lookup_in_keys; eassumption. Qed.

  (* a node that still waits for its `connect` (not a source, no incoming edge) is not the
     root of any represented lineage *)

  Lemma repr_not_pending : forall (s : state) i x n,
      repr s i x -> lookup i (nodes s) = Some n -> not_source n ->
      pred_of (edges s) i = None -> False.
  Proof.
    intros s i x n H Hl Hn Hp. inversion H; subst; try congruence.
    rewrite Hl in *. match goal with E : Some _ = Some _ |- _ => inversion E; subst end.
    exact Hn.
  Qed.

  Lemma lookup_insert_old : forall (s : state) n i x,
      GInv s -> lookup i (nodes s) = Some x ->
      lookup i (nodes (snd (insert_node s n))) = Some x.
  Proof.
    intros s n i x HG Hl. cbn.
    destruct (Nat.eqb_spec (next_id s) i) as [E|_]; [|assumption].
    exfalso. apply lookup_in_keys in Hl. apply (g_keys_lt s HG) in Hl. lia.
  Qed.

  Lemma repr_insert : forall (s : state) n i x,
      GInv s -> repr s i x -> repr (snd (insert_node s n)) i x.
  Proof.
    intros s n i x HG H. induction H.
    - apply repr_src; [now apply lookup_insert_old|assumption].
    - eapply repr_derive; eauto using lookup_insert_old.
    - eapply repr_join; eauto using lookup_insert_old.
  Qed.

  Lemma pred_connect_keep_some : forall (s : state) a b j x,
      pred_of (edges s) j = Some x -> pred_of (edges (connect s a b)) j = Some x.
  Proof. intros. cbn. rewrite pred_of_app. now rewrite H. Qed.

  Lemma pred_connect_keep_none : forall (s : state) a b j,
      pred_of (edges s) j = None -> j <> b -> pred_of (edges (connect s a b)) j = None.
  Proof.
    intros. cbn. rewrite pred_of_app, H.
    destruct (Nat.eqb_spec b j); [congruence|reflexivity].
  Qed.

  Lemma neq_by_kind : forall (s : state) j b nb,
      lookup b (nodes s) = Some nb -> not_source nb ->
      (exists d, lookup j (nodes s) = Some (NSource d)) \/ lookup j (nodes s) = Some NDummy ->
      j <> b.
  Proof.
    intros s j b nb Hb Hk Hj E; subst.
    destruct Hj as [[d Hd]|Hd]; rewrite Hd in Hb; inversion Hb; subst; exact Hk.
  Qed.

  Lemma repr_connect : forall (s : state) a b nb i x,
      lookup b (nodes s) = Some nb -> not_source nb ->
      repr s i x -> repr (connect s a b) i x.
  Proof.
    intros s a b nb i x Hb Hk H. induction H.
    - apply repr_src; [assumption|].
      apply pred_connect_keep_none; [assumption|]. eapply neq_by_kind; eauto.
    - eapply repr_derive; eauto using pred_connect_keep_some.
    - eapply repr_join; eauto using pred_connect_keep_some.
      apply pred_connect_keep_none; [assumption|]. eapply neq_by_kind; eauto.
  Qed.

  (* ---------------- the backwalk of a represented node ---------------- *)
  Lemma backwalk_repr : forall (s : state) i x,
      repr s i x ->
      forall ns fuel acc,
        (forall j, j <= i -> lookup j ns = lookup j (nodes s)) ->
        length ns < fuel ->
        backwalk fuel ns (edges s) i acc = Ok (chain_of x ++ acc).
  Proof.
    intros s i x H. induction H as [i d Hl Hp|i j f p Hl Hp Hlt Hr IH|i j g l r Hl Hp Hlt Hd Hpd];
      intros ns fuel acc Hag Hf.
    - destruct fuel as [|fuel]; [lia|]. cbn [backwalk].
      rewrite (Hag i (le_n _)), Hl, Hp. reflexivity.
    - destruct fuel as [|fuel]; [lia|]. cbn [backwalk].
      rewrite (Hag i (le_n _)), Hl, Hp.
      rewrite IH.
      + cbn [chain_of]. now rewrite <- app_assoc.
      + intros k Hk. rewrite lookup_remove_other by lia. apply Hag. lia.
      + assert (Hs : lookup i ns = Some (NStateless f)) by (rewrite (Hag i (le_n _)); exact Hl).
        pose proof (length_remove_lt _ _ _ Hs). lia.
    - destruct fuel as [|fuel]; [lia|]. cbn [backwalk].
      rewrite (Hag i (le_n _)), Hl, Hp.
      assert (Hs : lookup i ns = Some (NCoGroup (chain_of l) (chain_of r) g))
        by (rewrite (Hag i (le_n _)); exact Hl).
      pose proof (length_remove_lt _ _ _ Hs) as Hlen.
      destruct fuel as [|fuel]; [lia|]. cbn [backwalk].
      rewrite lookup_remove_other by lia. rewrite (Hag j) by lia. rewrite Hd, Hpd.
      reflexivity.
  Qed.

  Theorem chain_from_repr : forall (s : state) i x,
      repr s i x -> chain_from (snapshot s) i = Ok (chain_of x).
  Proof.
    intros s i x H. unfold chain_from, snapshot. cbn [fst snd].
    rewrite (backwalk_repr s i x H); [now rewrite app_nil_r|reflexivity|lia].
  Qed.

  (* ---------------- execution of chain_of x ---------------- *)
  Variable interp_f : F -> list V -> list V.
  Variable interp_g : G -> list V -> list V -> list V.

  Lemma run_sub_app : forall (a b : list node) cur,
      run_sub interp_f (a ++ b) cur =
      match run_sub interp_f a cur with
      | Ok c => run_sub interp_f b c
      | Err e => Err e
      | Panic => Panic
      end.
  Proof.
    induction a as [|n a IH]; intros b cur; cbn [app run_sub]; [reflexivity|].
    destruct n; try apply IH; [|reflexivity].
    destruct cur as [[l|]|]; try reflexivity. apply IH.
  Qed.

  Lemma exec_nodes_app : forall (a b : list node) cur,
      exec_nodes interp_f interp_g (a ++ b) cur =
      match exec_nodes interp_f interp_g a cur with
      | Ok c => exec_nodes interp_f interp_g b c
      | Err e => Err e
      | Panic => Panic
      end.
  Proof.
    induction a as [|n a IH]; intros b cur; cbn [app exec_nodes]; [reflexivity|].
    destruct n; try apply IH.
    - destruct cur as [[l|]|]; try reflexivity. apply IH.
    - destruct (sub_result interp_f lc); try reflexivity.
      destruct (sub_result interp_f rc); try reflexivity. apply IH.
  Qed.

  Lemma run_sub_chain_of : forall x cur,
      run_sub interp_f (chain_of x) cur =
      if root_is_join x then Err ENestedCoGroup
      else match value_of_lineage interp_f interp_g x with
           | Ok v => Ok (Some (BData v))
           | Err e => Err e
           | Panic => Panic
           end.
  Proof.
    induction x as [d|f p IH|g l IHl r IHr]; intros cur; cbn [chain_of root_is_join value_of_lineage].
    - reflexivity.
    - rewrite run_sub_app, IH. destruct (root_is_join p); [reflexivity|].
      destruct (value_of_lineage interp_f interp_g p); reflexivity.
    - reflexivity.
  Qed.

  Lemma root_not_join_value_ok : forall x,
      root_is_join x = false -> exists v, value_of_lineage interp_f interp_g x = Ok v.
  Proof.
    induction x as [d|f p IH|g l IHl r IHr]; cbn; intros H.
    - eauto.
    - destruct (IH H) as [v ->]. eauto.
    - discriminate.
  Qed.

  Lemma sub_result_chain_of : forall x,
      sub_result interp_f (chain_of x) =
      if root_is_join x then Err ENestedCoGroup else value_of_lineage interp_f interp_g x.
  Proof.
    intros x. unfold sub_result. rewrite run_sub_chain_of.
    destruct (root_is_join x) eqn:E; [reflexivity|].
    destruct (root_not_join_value_ok x E) as [v ->]. reflexivity.
  Qed.

  Lemma exec_nodes_chain_of : forall x cur,
      exec_nodes interp_f interp_g (chain_of x) cur =
      match value_of_lineage interp_f interp_g x with
      | Ok v => Ok (Some (BData v))
      | Err e => Err e
      | Panic => Panic
      end.
  Proof.
    induction x as [d|f p IH|g l IHl r IHr]; intros cur; cbn [chain_of value_of_lineage].
    - reflexivity.
    - rewrite exec_nodes_app, IH.
      destruct (value_of_lineage interp_f interp_g p); reflexivity.
    - cbn [exec_nodes]. rewrite !sub_result_chain_of.
      destruct (root_is_join l) eqn:El; [reflexivity|].
      destruct (root_not_join_value_ok l El) as [a Ha]. rewrite Ha.
      destruct (root_is_join r) eqn:Er; [reflexivity|].
      destruct (root_not_join_value_ok r Er) as [b Hb]. rewrite Hb.
      reflexivity.
  Qed.

  Theorem exec_chain_of : forall x,
      exec_chain interp_f interp_g (chain_of x) = value_of_lineage interp_f interp_g x.
  Proof.
    intros x. unfold exec_chain. rewrite exec_nodes_chain_of.
    destruct (value_of_lineage interp_f interp_g x); reflexivity.
  Qed.

  Theorem collect_repr : forall (s : state) (h : handle V F G),
      repr s (h_id h) (h_lin h) ->
      collect interp_f interp_g s h = value_of_lineage interp_f interp_g (h_lin h).
  Proof.
    intros s h H. unfold collect, collect_state.
    rewrite (chain_from_repr _ _ _ H). cbn [exec_outcome]. apply exec_chain_of.
  Qed.
End PG.

