(* Facts about the automatically chosen partition count (Engine/Auto.v). *)
From Coq Require Import List Arith Bool Lia.
From IB Require Import Engine.Val Engine.Ops Engine.Nodes Engine.Exec Engine.Planner Engine.Lang
     Engine.Denote Engine.Static Engine.Auto Proofs.EngineElementwise.
Import ListNotations.

Lemma clamp_nat_bounds : forall x lo hi, lo <= hi -> lo <= clamp_nat x lo hi <= hi.
Proof. intros x lo hi H. unfold clamp_nat. lia. Qed.

(* the suggestion is always between hw and 8 hw where hw = max(cpus, 2) >= 2: never zero, and
   `clamp` is never called with min > max (which would panic in Rust) *)
Lemma suggest_partitions_range : forall n cpus p,
    suggest_partitions (Some n) cpus = Some p ->
    Nat.max cpus 2 <= p <= 8 * Nat.max cpus 2 /\ 2 <= p.
Proof.
  intros n cpus p H. unfold suggest_partitions in H.
  remember (div_ceil n (64 * 1000)) as x eqn:Ex. clear Ex.
  injection H as H. subst p.
  pose proof (clamp_nat_bounds x (Nat.max cpus 2) (Nat.max cpus 2 * 8)) as B.
  assert (L : Nat.max cpus 2 <= Nat.max cpus 2 * 8) by lia. specialize (B L). lia.
Qed.

Lemma suggest_partitions_none : forall cpus, suggest_partitions None cpus = None.
Proof. reflexivity. Qed.

Lemma choose_parts_requested : forall n h cpus, choose_parts (Some n) h cpus = n.
Proof. reflexivity. Qed.

Lemma choose_parts_positive : forall h cpus, 2 <= choose_parts None h cpus.
Proof.
  intros h cpus. unfold choose_parts. destruct h as [n|].
  - destruct (suggest_partitions (Some n) cpus) as [p|] eqn:E.
    + apply suggest_partitions_range in E. lia.
    + unfold default_partitions. lia.
  - cbn [suggest_partitions]. unfold default_partitions. lia.
Qed.

(* Whatever the caller asks for - a count, or nothing on a machine with any number of cores and
   any (or no) length hint - an element-wise program returns the list interpretation. *)
Lemma program_as_written_auto : forall s steps requested len_hint cpus,
    forallb elementwise_step steps = true -> well_typed (src_tag s) steps = true ->
    reorder_noop (fuse (cs_chain (compile s steps))) ->
    run_par_auto s steps requested len_hint cpus = Ok (denote s steps).
Proof.
  intros s steps requested len_hint cpus H1 H2 H3. unfold run_par_auto.
  destruct (program_as_written s steps (choose_parts requested len_hint cpus) H1 H2 H3) as [_ Hp].
  exact Hp.
Qed.
