(* TDigest::cdf in the exact instance: 0 below the minimum, 1 from the maximum on, 0 for the empty
   digest (any arithmetic), and always a rational in [0, 1] for a digest built from weights >= 1. *)
From Coq Require Import List Bool Arith QArith Qabs Lqa Lia Permutation Sorted.
From IB Require Import Combiners.TDigest Proofs.TDigestBase Proofs.TDigestCompress Proofs.TDigestInv
                       Proofs.TDigestQuantile.
Import ListNotations.
Local Open Scope Q_scope.

(* the three early exits of cdf, in every arithmetic instance *)
Lemma cdf_ends : forall (T : Type) (A : arith T) (d : digest T) (x : T),
  (d_cents d = [] -> td_cdf A d x = a_zero A) /\
  (a_ltb A x (d_min d) = true -> td_cdf A d x = a_zero A) /\
  (d_cents d <> [] -> a_ltb A x (d_min d) = false -> a_leb A (d_max d) x = true ->
   td_cdf A d x = a_one A).
Proof.
  intros T A d x. unfold td_cdf. split; [|split].
  - intros ->. reflexivity.
  - intros H. destruct (d_cents d); [reflexivity|]. rewrite H. reflexivity.
  - intros NE H1 H2. destruct (d_cents d); [contradiction|]. rewrite H1, H2. reflexivity.
Qed.

Lemma sumw_nonneg : forall lo hi l, Forall (fin_c lo hi) l -> 0 <= sumw l.
Proof.
  intros lo hi l H. induction H as [|c l Hc Hl IH].
  - exact (Qle_refl 0).
  - destruct (fin_c_inv _ _ _ Hc) as (m & w & -> & Hm & Hw).
    change (sumw ((Fin m, Fin w) :: l)) with (w + sumw l). lra.
Qed.

Lemma div_unit : forall a W, 0 <= a -> a <= W -> 0 < W -> 0 <= a / W <= 1.
Proof.
  intros a W H0 H1 HW. split; [apply Qle_shift_div_l | apply Qle_shift_div_r]; lra.
Qed.

(* value = NaN: no comparison succeeds, the loop runs to the end *)
Lemma cdf_loop_nan : forall lo hi cs prev cum W,
  Forall (fin_c lo hi) cs -> 0 <= cum -> cum + sumw cs == W -> 0 < W ->
  exists r, cdf_loop xarith (Fin W) NaN prev cs (Fin cum) = Fin r /\ 0 <= r <= 1.
Proof.
  intros lo hi cs. induction cs as [|c rest IH]; intros prev cum W Hf H0 HS HW.
  - cbn [cdf_loop a_div xarith xdiv].
    assert (Z : Qeq_bool W 0 = false) by (apply qeqb_false; lra). rewrite Z.
    exists (cum / W). split; [reflexivity|]. change (sumw []) with 0 in HS.
    apply div_unit; lra.
  - inversion Hf as [|? ? Hc Hrest]; subst.
    destruct (fin_c_inv _ _ _ Hc) as (m & w & -> & Hm & Hw).
    change (sumw ((Fin m, Fin w) :: rest)) with (w + sumw rest) in HS.
    cbn [cdf_loop]. change (a_ltb xarith NaN (Fin m)) with false. cbv iota.
    change (a_add xarith (Fin cum) (Fin w)) with (Fin (cum + w)).
    apply IH; [exact Hrest | lra | lra | exact HW].
Qed.

Lemma cdf_loop_range : forall lo hi cs prev cum v W,
  Forall (fin_c lo hi) cs -> prev <= v -> 0 <= cum -> cum + sumw cs == W -> 0 < W ->
  exists r, cdf_loop xarith (Fin W) (Fin v) (Fin prev) cs (Fin cum) = Fin r /\ 0 <= r <= 1.
Proof.
  intros lo hi cs. induction cs as [|c rest IH]; intros prev cum v W Hf Hp H0 HS HW.
  - cbn [cdf_loop a_div xarith xdiv].
    assert (Z : Qeq_bool W 0 = false) by (apply qeqb_false; lra). rewrite Z.
    exists (cum / W). split; [reflexivity|]. change (sumw []) with 0 in HS.
    apply div_unit; lra.
  - inversion Hf as [|? ? Hc Hrest]; subst.
    destruct (fin_c_inv _ _ _ Hc) as (m & w & -> & Hm & Hw).
    change (sumw ((Fin m, Fin w) :: rest)) with (w + sumw rest) in HS.
    pose proof (sumw_nonneg _ _ _ Hrest) as Hr.
    cbn [cdf_loop a_ltb xarith xltb]. destruct (qltb v m) eqn:L.
    + apply qltb_true in L.
      cbn [a_sub a_max a_eps xarith xlift2]. rewrite xmax_fin.
      set (D := if qltb (m - prev) (qpow2 52) then qpow2 52 else m - prev).
      assert (HD : 0 < D /\ m - prev <= D).
      { unfold D. destruct (qltb (m - prev) (qpow2 52)) eqn:LD.
        - apply qltb_true in LD. pose proof eps_pos. lra.
        - apply qltb_false in LD. pose proof eps_pos. lra. }
      destruct HD as [HD0 HD1].
      assert (ZD : Qeq_bool D 0 = false) by (apply qeqb_false; lra).
      assert (Z : Qeq_bool W 0 = false) by (apply qeqb_false; lra).
      cbn [a_div a_fma xarith xdiv xfma]. rewrite ZD. cbn [xfma xdiv]. rewrite Z.
      exists (((v - prev) / D * w + cum) / W). split; [reflexivity|].
      assert (Hfr : 0 <= (v - prev) / D <= 1).
      { split; [apply Qle_shift_div_l | apply Qle_shift_div_r]; lra. }
      apply div_unit; [nra | nra | exact HW].
    + apply qltb_false in L.
      change (a_add xarith (Fin cum) (Fin w)) with (Fin (cum + w)).
      apply IH; [exact Hrest | exact L | lra | lra | exact HW].
Qed.

Theorem cdf_unit_interval : forall l d x, Inv l d ->
  exists r, td_cdf xarith d x = Fin r /\ 0 <= r <= 1.
Proof.
  intros l d x HI. unfold td_cdf.
  destruct HI as [W El Ec Et HW Hmin Hmax | lo hi W Nl Nc Hmin Hmax Et Hlo Hhi Hf HW HWl H1].
  - rewrite Ec. exists 0. split; [reflexivity | lra].
  - destruct (d_cents d) as [|c0 cs] eqn:Ecs; [contradiction|].
    rewrite Hmin, Hmax, Et.
    assert (HW1 : 1 <= W) by (rewrite HW; eapply sumw_pos; [exact Hf | discriminate]).
    destruct (a_ltb xarith x (Fin lo)) eqn:L1; [exists 0; split; [reflexivity | lra]|].
    destruct (a_leb xarith (Fin hi) x) eqn:L2; [exists 1; split; [reflexivity | lra]|].
    change (a_zero xarith) with (Fin 0).
    destruct x as [v| | |].
    + cbn [a_ltb xarith xltb] in L1. apply qltb_false in L1.
      apply (cdf_loop_range lo hi); [exact Hf | exact L1 | lra | lra | lra].
    + cbn in L2. discriminate.
    + cbn in L1. discriminate.
    + apply (cdf_loop_nan lo hi); [exact Hf | lra | lra | lra].
Qed.

Lemma prog_cdf_unit_interval : forall (p : prog X) (x : X), wf_prog p ->
  exists r, td_cdf xarith (run xarith p) x = Fin r /\ 0 <= r <= 1.
Proof. intros p x Hw. exact (cdf_unit_interval (inputs p) (run xarith p) x (run_inv p Hw)). Qed.

(* ------------------------------------------------------------------ small facts, any arithmetic *)
(* merging an empty digest changes nothing (TDigest::merge returns early) *)
Lemma merge_empty : forall (T : Type) (A : arith T) (d o : digest T),
  td_is_empty A o = true -> td_merge A d o = d.
Proof. intros T A d o H. unfold td_merge. unfold td_is_empty in H. rewrite H. reflexivity. Qed.

(* ApproxQuantiles::median(c) answers exactly what ApproxMedian::new(c) answers *)
Lemma median_twins : forall (T : Type) (A : arith T) (d : digest T),
  aq_finish A (qs_median A) d = [am_finish A d].
Proof.
  intros T A d. unfold aq_finish, am_finish, qs_median, td_quantiles.
  destruct (td_is_empty A d); reflexivity.
Qed.
