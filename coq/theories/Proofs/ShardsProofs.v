(* Proofs about the tilings of IO/Shards.v (C09). *)
From Coq Require Import List Arith NArith Bool Lia.
From IB Require Import IO.Shards.
Import ListNotations.
Open Scope N_scope.

(* ---------- div_ceil ---------- *)
Lemma div_ceil_upper : forall a b, 0 < b -> a <= div_ceil a b * b.
Proof.
  intros a b Hb. unfold div_ceil.
  pose proof (N.div_mod' a b) as Hdm. pose proof (N.mod_lt a b ltac:(lia)) as Hlt.
  set (q := a / b) in *. set (m := a mod b) in *.
  destruct (N.eqb_spec m 0) as [Hz|Hz]; lia.
Qed.

Lemma div_ceil_lower : forall a b i, 0 < b -> i < div_ceil a b -> i * b < a.
Proof.
  intros a b i Hb Hi. unfold div_ceil in Hi.
  pose proof (N.div_mod' a b) as Hdm. pose proof (N.mod_lt a b ltac:(lia)) as Hlt.
  set (q := a / b) in *. set (m := a mod b) in *.
  destruct (N.eqb_spec m 0) as [Hz|Hz].
  - assert (i + 1 <= q) by lia.
    assert ((i + 1) * b <= q * b) by (apply N.mul_le_mono_r; assumption). lia.
  - assert (i <= q) by lia.
    assert (i * b <= q * b) by (apply N.mul_le_mono_r; assumption). lia.
Qed.

Lemma div_ceil_pos : forall a b, 0 < b -> 0 < a -> 0 < div_ceil a b.
Proof.
  intros a b Hb Ha. pose proof (div_ceil_upper a b Hb). nia.
Qed.

Lemma clamp_spec : forall x lo hi, lo <= hi -> lo <= clamp x lo hi <= hi.
Proof.
  intros x lo hi H. unfold clamp.
  destruct (N.ltb_spec x lo); [lia|]. destruct (N.ltb_spec hi x); lia.
Qed.

Lemma clamp_id : forall x lo hi, lo <= x <= hi -> clamp x lo hi = x.
Proof.
  intros x lo hi H. unfold clamp.
  destruct (N.ltb_spec x lo); [lia|]. destruct (N.ltb_spec hi x); lia.
Qed.

(* ---------- nseq ---------- *)
Lemma nseq_length : forall k, length (nseq k) = N.to_nat k.
Proof. intros k. unfold nseq. now rewrite map_length, seq_length. Qed.

Lemma in_nseq : forall k i, In i (nseq k) <-> i < k.
Proof.
  intros k i. unfold nseq. rewrite in_map_iff. split.
  - intros [x [Hx Hin]]. apply in_seq in Hin. lia.
  - intros H. exists (N.to_nat i). split; [lia|]. apply in_seq. lia.
Qed.

(* ---------- chains ---------- *)
Lemma chain_le : forall rs a b, chain a rs b -> a <= b.
Proof.
  induction rs as [|r rs IH]; intros a b H; cbn [chain] in H.
  - lia.
  - destruct H as [H1 [H2 H3]]. apply IH in H3. lia.
Qed.

Lemma chainb_spec : forall rs a b, chainb a rs b = true <-> chain a rs b.
Proof.
  induction rs as [|r rs IH]; intros a b; cbn [chain chainb].
  - apply N.eqb_eq.
  - rewrite !andb_true_iff, N.eqb_eq, N.leb_le, IH. tauto.
Qed.

Lemma chain_app : forall rs1 rs2 a m b, chain a rs1 m -> chain m rs2 b -> chain a (rs1 ++ rs2) b.
Proof.
  induction rs1 as [|r rs1 IH]; intros rs2 a m b H1 H2; cbn [chain app] in *.
  - now subst.
  - destruct H1 as [Ha [Hb Hc]]. repeat split; try assumption. eapply IH; eassumption.
Qed.

(* every range of a chain lies inside [a, b] *)
Lemma chain_bounds : forall rs a b, chain a rs b ->
  Forall (fun r => a <= fst r /\ fst r <= snd r /\ snd r <= b) rs.
Proof.
  induction rs as [|r rs IH]; intros a b H; cbn [chain] in H; constructor.
  - destruct H as [H1 [H2 H3]]. apply chain_le in H3. lia.
  - destruct H as [H1 [H2 H3]]. specialize (IH _ _ H3).
    eapply Forall_impl; [|exact IH]. cbn beta. intros r' Hr'. lia.
Qed.

(* ---------- the arithmetic-progression tilings (ranges, par_ranges) ---------- *)
(* shared shape: shard i = (lo i, hi i) for i = s, s+1, ..., s+c-1 *)
Lemma chain_progression :
  forall (lo hi : N -> N) (total : N) (c s : nat),
    (forall i, (s <= i < s + c)%nat -> lo (N.of_nat i) <= hi (N.of_nat i)) ->
    (forall i, (s <= i < s + c)%nat -> hi (N.of_nat i) = lo (N.of_nat (S i))) ->
    lo (N.of_nat (s + c)) = total ->
    chain (lo (N.of_nat s)) (map (fun i => (lo i, hi i)) (map N.of_nat (seq s c))) total.
Proof.
  intros lo hi total c. induction c as [|c IH]; intros s Hle Hnext Hend.
  - cbn [seq map chain]. now rewrite Nat.add_0_r in Hend.
  - cbn [seq map chain fst snd]. split; [reflexivity|]. split.
    + apply Hle. lia.
    + rewrite (Hnext s) by lia. apply IH.
      * intros i Hi. apply Hle. lia.
      * intros i Hi. apply Hnext. lia.
      * now replace (S s + c)%nat with (s + S c)%nat by lia.
Qed.

(* ---- ranges (build_jsonl_shards / build_csv_shards) ---- *)
Lemma ranges_zero : forall per, ranges 0 per = [].
Proof. reflexivity. Qed.

Lemma ranges_chain : forall total per, chain 0 (ranges total per) total.
Proof.
  intros total per. unfold ranges.
  destruct (N.eqb_spec total 0) as [Hz|Hz]; [cbn [chain]; lia|].
  set (lps := N.max per 1). set (q := div_ceil total lps).
  assert (Hlps : 0 < lps) by (unfold lps; lia).
  assert (Hup : total <= q * lps) by (apply div_ceil_upper; assumption).
  assert (Hlow : forall i, i < q -> i * lps < total)
    by (intros i Hi; apply div_ceil_lower; assumption).
  unfold nseq.
  pose (lo := fun i => N.min (i * lps) total).
  pose (hi := fun i => N.min ((i + 1) * lps) total).
  assert (Heq : map (fun i => (i * lps, N.min ((i + 1) * lps) total)) (map N.of_nat (seq 0 (N.to_nat q)))
                = map (fun i => (lo i, hi i)) (map N.of_nat (seq 0 (N.to_nat q)))).
  { apply map_ext_in. intros i Hi. apply in_map_iff in Hi. destruct Hi as [x [Hx Hin]].
    apply in_seq in Hin. unfold lo, hi. f_equal. specialize (Hlow i ltac:(lia)). lia. }
  rewrite Heq.
  replace 0 with (lo (N.of_nat 0)) at 1 by (unfold lo; cbn; lia).
  apply chain_progression.
  - intros i Hi. unfold lo, hi. nia.
  - intros i Hi. unfold lo, hi. f_equal. lia.
  - unfold lo. cbn [Nat.add]. rewrite N2Nat.id. lia.
Qed.

Lemma ranges_sizes : forall total per,
  Forall (fun r => fst r < snd r /\ snd r - fst r <= N.max per 1) (ranges total per).
Proof.
  intros total per. unfold ranges.
  destruct (N.eqb_spec total 0) as [Hz|Hz]; [constructor|].
  set (lps := N.max per 1). set (q := div_ceil total lps).
  assert (Hlps : 0 < lps) by (unfold lps; lia).
  apply Forall_forall. intros r Hr. apply in_map_iff in Hr. destruct Hr as [i [Hr Hi]].
  apply in_nseq in Hi. subst r. cbn [fst snd].
  pose proof (div_ceil_lower total lps i Hlps Hi) as Hlow. nia.
Qed.

(* all shards but possibly the last are full *)
Lemma ranges_full : forall total per r,
  In r (ranges total per) -> snd r <> total -> snd r - fst r = N.max per 1.
Proof.
  intros total per r Hr Hne. unfold ranges in Hr.
  destruct (N.eqb_spec total 0) as [Hz|Hz]; [contradiction|].
  apply in_map_iff in Hr. destruct Hr as [i [Hr Hi]]. subst r. cbn [fst snd] in *. nia.
Qed.

Lemma ranges_length : forall total per,
  total <> 0 -> N.of_nat (length (ranges total per)) = div_ceil total (N.max per 1).
Proof.
  intros total per Hz. unfold ranges. destruct (N.eqb_spec total 0); [contradiction|].
  rewrite map_length, nseq_length. lia.
Qed.

(* no intermediate value of the Rust arithmetic exceeds total + lps (so none wraps when
   total + lines_per_shard.max(1) < 2^64; with lps >= total there is a single shard and the
   only product is 1 * lps) *)
Lemma ranges_no_overflow : forall total per i,
  total <> 0 -> i < div_ceil total (N.max per 1) -> (i + 1) * N.max per 1 < total + N.max per 1.
Proof.
  intros total per i Hz Hi.
  pose proof (div_ceil_lower total (N.max per 1) i ltac:(lia) Hi). nia.
Qed.

(* ---- par_ranges (write_jsonl_par) ---- *)
Lemma par_ranges_chain : forall n shards, chain 0 (par_ranges n shards) n.
Proof.
  intros n shards. unfold par_ranges.
  destruct (N.eqb_spec n 0) as [Hz|Hz]; [cbn [chain]; lia|].
  set (sh := par_shard_count n shards). set (chunk := div_ceil n sh).
  assert (Hsh : 1 <= sh <= n) by (apply clamp_spec; lia).
  assert (Hup : n <= chunk * sh) by (apply div_ceil_upper; lia).
  unfold nseq.
  pose (lo := fun i => N.min (i * chunk) n).
  change (map (fun i => (N.min (i * chunk) n, N.min ((i + 1) * chunk) n)))
    with (map (fun i => (lo i, lo (i + 1)))).
  replace 0 with (lo (N.of_nat 0)) at 1 by (unfold lo; cbn; lia).
  apply (chain_progression lo (fun i => lo (i + 1))).
  - intros i Hi. unfold lo. nia.
  - intros i Hi. unfold lo. f_equal. lia.
  - unfold lo. cbn [Nat.add]. rewrite N2Nat.id. nia.
Qed.

Lemma par_ranges_length : forall n shards,
  n <> 0 -> N.of_nat (length (par_ranges n shards)) = clamp shards 1 n.
Proof.
  intros n shards Hz. unfold par_ranges. destruct (N.eqb_spec n 0); [contradiction|].
  rewrite map_length, nseq_length. unfold par_shard_count. lia.
Qed.

Lemma par_ranges_sizes : forall n shards,
  Forall (fun r => snd r - fst r <= par_chunk n shards) (par_ranges n shards).
Proof.
  intros n shards. unfold par_ranges, par_chunk.
  destruct (N.eqb_spec n 0) as [Hz|Hz]; [constructor|].
  apply Forall_forall. intros r Hr. apply in_map_iff in Hr. destruct Hr as [i [Hr Hi]].
  subst r. cbn [fst snd]. nia.
Qed.

(* exact shape: the ceil-division tiling of [0,n) by `chunk`, followed by empty ranges (n,n) *)
Lemma par_ranges_exact : forall n shards,
  n <> 0 ->
  let sh := clamp shards 1 n in
  let chunk := div_ceil n sh in
  par_ranges n shards = ranges n chunk ++ repeat (n, n) (N.to_nat (sh - div_ceil n chunk)).
Proof.
  intros n shards Hz sh chunk. unfold par_ranges, ranges, par_shard_count.
  destruct (N.eqb_spec n 0); [contradiction|]. fold sh. fold chunk.
  assert (Hsh : 1 <= sh <= n) by (apply clamp_spec; lia).
  assert (Hchunk : 0 < chunk) by (apply div_ceil_pos; lia).
  assert (Hup : n <= chunk * sh) by (apply div_ceil_upper; lia).
  replace (N.max chunk 1) with chunk by lia.
  set (k := div_ceil n chunk).
  assert (Hk : k <= sh).
  { destruct (N.le_gt_cases k sh) as [H|H]; [assumption|].
    pose proof (div_ceil_lower n chunk sh Hchunk H). lia. }
  assert (Hklow : forall i, i < k -> i * chunk < n) by (intros; apply div_ceil_lower; assumption).
  assert (Hkup : n <= k * chunk) by (apply div_ceil_upper; assumption).
  unfold nseq. replace (N.to_nat sh) with (N.to_nat k + N.to_nat (sh - k))%nat by lia.
  rewrite seq_app, !map_app. f_equal.
  - apply map_ext_in. intros i Hi. apply in_map_iff in Hi. destruct Hi as [x [Hx Hin]].
    apply in_seq in Hin. specialize (Hklow i ltac:(lia)). f_equal. lia.
  - cbn [Nat.add].
    generalize (N.to_nat (sh - k)). intros c.
    assert (Hge : forall s, (N.to_nat k <= s)%nat ->
              map (fun i => (N.min (i * chunk) n, N.min ((i + 1) * chunk) n)) (map N.of_nat (seq s c))
              = repeat (n, n) c).
    { induction c as [|c IH]; intros s Hs; [reflexivity|].
      cbn [seq map repeat]. f_equal.
      - f_equal; nia.
      - apply IH. lia. }
    apply Hge. lia.
Qed.

(* the code before the repair: shard 3 of (5,4) is (6,5) *)
Lemma par_ranges_old_bad : In (6, 5) (par_ranges_old 5 4).
Proof. vm_compute. tauto. Qed.

(* ---- group_ranges (build_parquet_shards) ---- *)
Lemma group_loop_chain : forall fuel start g ng,
  0 < g -> start <= ng -> (N.to_nat (ng - start) <= fuel)%nat ->
  chain start (group_loop fuel start g ng) ng.
Proof.
  induction fuel as [|f IH]; intros start g ng Hg Hle Hfuel.
  - cbn [group_loop chain]. lia.
  - cbn [group_loop]. destruct (N.ltb_spec start ng) as [Hlt|Hge].
    + cbn [chain fst snd]. split; [reflexivity|]. split; [lia|]. apply IH; lia.
    + cbn [chain]. lia.
Qed.

Lemma group_loop_sizes : forall fuel start g ng,
  0 < g -> Forall (fun r => fst r < snd r /\ snd r - fst r <= g) (group_loop fuel start g ng).
Proof.
  induction fuel as [|f IH]; intros start g ng Hg; cbn [group_loop]; [constructor|].
  destruct (N.ltb_spec start ng) as [Hlt|Hge]; [|constructor].
  constructor; [cbn [fst snd]; lia|]. apply IH. assumption.
Qed.

Lemma group_ranges_chain : forall ng per, chain 0 (group_ranges ng per) ng.
Proof.
  intros ng per. unfold group_ranges.
  destruct (N.eqb_spec ng 0) as [Hz|Hz]; [cbn [chain]; lia|].
  apply group_loop_chain; lia.
Qed.

Lemma group_ranges_sizes : forall ng per,
  Forall (fun r => fst r < snd r /\ snd r - fst r <= N.max per 1) (group_ranges ng per).
Proof.
  intros ng per. unfold group_ranges.
  destruct (N.eqb_spec ng 0) as [Hz|Hz]; [constructor|].
  apply group_loop_sizes. lia.
Qed.

(* start + g is only computed while start < ng, and start is 0 or a previous end <= ng *)
Lemma group_loop_no_overflow : forall fuel start g ng r,
  start <= ng -> In r (group_loop fuel start g ng) -> fst r < ng /\ fst r + g < ng + g.
Proof.
  induction fuel as [|f IH]; intros start g ng r Hle Hin; cbn [group_loop] in Hin; [contradiction|].
  destruct (N.ltb_spec start ng) as [Hlt|Hge]; [|contradiction].
  destruct Hin as [Hr|Hin].
  - subst r. cbn [fst]. lia.
  - eapply IH; [|exact Hin]. lia.
Qed.

(* the last range ends at ng: what ParquetVecOps::clone_any reads is everything *)
Lemma chain_last_end : forall rs a b, chain a rs b ->
  match rev rs with r :: _ => snd r | [] => a end = b.
Proof.
  induction rs as [|r rs IH]; intros a b H; cbn [chain] in H.
  - cbn. assumption.
  - destruct H as [H1 [H2 H3]]. specialize (IH _ _ H3). cbn [rev].
    destruct (rev rs) as [|x xs] eqn:Hrev; cbn [app]; assumption.
Qed.

(* ---- split_ranges (write_csv_par) ---- *)
Definition extras (idx k rem : N) : N := N.min (idx + k) rem - N.min idx rem.

Lemma split_loop_chain : forall k idx start base rem,
  chain start (map snd (split_loop k idx start base rem))
        (start + N.of_nat k * base + extras idx (N.of_nat k) rem).
Proof.
  induction k as [|k IH]; intros idx start base rem.
  - cbn [split_loop map chain]. unfold extras. lia.
  - cbn [split_loop]. rewrite map_app.
    set (extra := if idx <? rem then 1 else 0).
    set (e := start + base + extra).
    assert (Hend : e + N.of_nat k * base + extras (idx + 1) (N.of_nat k) rem
                   = start + N.of_nat (S k) * base + extras idx (N.of_nat (S k)) rem).
    { unfold e, extra, extras. destruct (N.ltb_spec idx rem); lia. }
    rewrite <- Hend.
    destruct (N.ltb_spec start e) as [Hlt|Hge].
    + cbn [map app chain fst snd]. split; [reflexivity|]. split; [lia|]. apply IH.
    + cbn [map app]. assert (e = start) by (unfold e in *; lia).
      replace start with e at 1 by assumption. apply IH.
Qed.

Lemma split_loop_sizes : forall k idx start base rem,
  Forall (fun ir => fst (snd ir) < snd (snd ir) /\
                    (rsize (snd ir) = base \/ rsize (snd ir) = base + 1))
         (split_loop k idx start base rem).
Proof.
  induction k as [|k IH]; intros idx start base rem; cbn [split_loop]; [constructor|].
  apply Forall_app. split; [|apply IH].
  destruct (N.ltb_spec start (start + base + (if idx <? rem then 1 else 0))) as [Hlt|Hge];
    [|constructor].
  constructor; [|constructor]. unfold rsize. cbn [fst snd]. split; [assumption|].
  destruct (idx <? rem); lia.
Qed.

Lemma split_loop_idx_ge : forall k idx start base rem,
  Forall (fun ir => idx <= fst ir) (split_loop k idx start base rem).
Proof.
  induction k as [|k IH]; intros idx start base rem; cbn [split_loop]; [constructor|].
  apply Forall_app. split.
  - destruct (_ <? _); constructor; [cbn [fst]; lia|constructor].
  - eapply Forall_impl; [|apply IH]. cbn beta. intros ir H. lia.
Qed.

(* with base >= 1 every index emits its range: idx, idx+1, ... *)
Lemma split_loop_idx_all : forall k idx start base rem,
  1 <= base ->
  map fst (split_loop k idx start base rem) = map (fun i => idx + N.of_nat i) (seq 0 k).
Proof.
  induction k as [|k IH]; intros idx start base rem Hb; cbn [split_loop]; [reflexivity|].
  destruct (N.ltb_spec start (start + base + (if idx <? rem then 1 else 0))) as [Hlt|Hge].
  - cbn [app map fst seq]. f_equal; [lia|]. rewrite IH by assumption.
    rewrite <- seq_shift, map_map. apply map_ext. intros i. lia.
  - destruct (idx <? rem); lia.
Qed.

Lemma split_parts_spec : forall len parts,
  len <> 0 -> 1 <= split_parts len parts <= len /\ split_parts len parts = clamp parts 1 len.
Proof.
  intros len parts Hz. unfold split_parts, clamp.
  destruct (N.ltb_spec parts 1); [lia|]. destruct (N.ltb_spec len parts); lia.
Qed.

Lemma split_ranges_chain : forall len parts, chain 0 (map snd (split_ranges len parts)) len.
Proof.
  intros len parts. unfold split_ranges. set (p := split_parts len parts).
  assert (Hp : 0 < p) by (unfold p, split_parts; lia).
  pose proof (split_loop_chain (N.to_nat p) 0 0 (len / p) (len mod p)) as H.
  replace (0 + N.of_nat (N.to_nat p) * (len / p) + extras 0 (N.of_nat (N.to_nat p)) (len mod p))
    with len in H; [exact H|].
  unfold extras. rewrite N2Nat.id.
  pose proof (N.div_mod' len p). pose proof (N.mod_lt len p ltac:(lia)).
  set (q := len / p) in *. set (m := len mod p) in *. lia.
Qed.

Lemma split_ranges_sizes : forall len parts,
  Forall (fun ir => fst (snd ir) < snd (snd ir) /\
                    (rsize (snd ir) = len / split_parts len parts \/
                     rsize (snd ir) = len / split_parts len parts + 1))
         (split_ranges len parts).
Proof. intros len parts. apply split_loop_sizes. Qed.

Lemma split_ranges_balanced : forall len parts a b,
  In a (split_ranges len parts) -> In b (split_ranges len parts) ->
  rsize (snd a) <= rsize (snd b) + 1.
Proof.
  intros len parts a b Ha Hb.
  pose proof (split_ranges_sizes len parts) as H. rewrite Forall_forall in H.
  destruct (H a Ha) as [_ Hsa]. destruct (H b Hb) as [_ Hsb]. clear H.
  unfold range in *. set (ra := rsize (snd a)) in *. set (rb := rsize (snd b)) in *.
  generalize dependent (len / split_parts len parts). intros x Hsa Hsb. lia.
Qed.

Lemma split_ranges_idx : forall len parts,
  len <> 0 -> map fst (split_ranges len parts) = nseq (clamp parts 1 len).
Proof.
  intros len parts Hz. destruct (split_parts_spec len parts Hz) as [Hp Hc].
  unfold split_ranges. rewrite split_loop_idx_all.
  - rewrite <- Hc. unfold nseq. apply map_ext. intros i. lia.
  - pose proof (N.div_mod' len (split_parts len parts)).
    pose proof (N.mod_lt len (split_parts len parts) ltac:(lia)).
    destruct (N.le_gt_cases 1 (len / split_parts len parts)) as [H1|H1]; [assumption|].
    assert (len / split_parts len parts = 0) by lia. nia.
Qed.

Lemma split_ranges_zero : forall parts, split_ranges 0 parts = [].
Proof.
  intros parts. unfold split_ranges, split_parts.
  replace (N.min (N.max parts 1) (N.max 0 1)) with 1 by lia. reflexivity.
Qed.

(* ---------- slices ---------- *)
Lemma firstn_add : forall {A} (x y : nat) (l : list A),
  firstn (x + y) l = firstn x l ++ firstn y (skipn x l).
Proof.
  intros A x. induction x as [|x IH]; intros y l; [reflexivity|].
  destruct l as [|a l]; cbn [Nat.add firstn skipn app].
  - now rewrite firstn_nil.
  - f_equal. apply IH.
Qed.

Lemma skipn_add : forall {A} (x y : nat) (l : list A), skipn (x + y) l = skipn y (skipn x l).
Proof.
  intros A x. induction x as [|x IH]; intros y l; [reflexivity|].
  destruct l as [|a l]; cbn [Nat.add skipn]; [now rewrite skipn_nil|apply IH].
Qed.

Lemma slice_app : forall {A} (l : list A) s e b,
  s <= e -> e <= b -> slice l (s, e) ++ slice l (e, b) = slice l (s, b).
Proof.
  intros A l s e b H1 H2. unfold slice. cbn [fst snd].
  replace (N.to_nat (b - s)) with (N.to_nat (e - s) + N.to_nat (b - e))%nat by lia.
  rewrite firstn_add. f_equal. f_equal.
  replace (N.to_nat e) with (N.to_nat s + N.to_nat (e - s))%nat by lia.
  now rewrite skipn_add.
Qed.

Lemma slice_empty : forall {A} (l : list A) a, slice l (a, a) = [].
Proof. intros A l a. unfold slice. cbn [fst snd]. now rewrite N.sub_diag. Qed.

Lemma slice_all : forall {A} (l : list A), slice l (0, nlen l) = l.
Proof.
  intros A l. unfold slice, nlen. cbn [fst snd skipn N.to_nat].
  rewrite N.sub_0_r, Nat2N.id. apply firstn_all.
Qed.

Lemma slice_length : forall {A} (l : list A) r,
  fst r <= snd r -> snd r <= nlen l -> nlen (slice l r) = snd r - fst r.
Proof.
  intros A l r H1 H2. unfold slice, nlen in *. rewrite firstn_length, skipn_length. lia.
Qed.

(* THE tiling lemma: the slices of a chain concatenate to the slice of its span *)
Lemma chain_concat : forall {A} (l : list A) rs a b,
  chain a rs b -> concat (map (slice l) rs) = slice l (a, b).
Proof.
  intros A l. induction rs as [|r rs IH]; intros a b H; cbn [chain] in H.
  - subst. cbn [map concat]. now rewrite slice_empty.
  - destruct H as [H1 [H2 H3]]. cbn [map concat]. rewrite (IH _ _ H3).
    destruct r as [s e]. cbn [fst snd] in *. subst s.
    apply slice_app; [assumption|]. eapply chain_le; eassumption.
Qed.

Lemma chain_concat_all : forall {A} (l : list A) rs,
  chain 0 rs (nlen l) -> concat (map (slice l) rs) = l.
Proof. intros A l rs H. rewrite (chain_concat l rs _ _ H). apply slice_all. Qed.

(* in a chain ending inside the list every slice is a valid Rust slice *)
Lemma chain_valid : forall {A} (l : list A) rs a b,
  chain a rs b -> b <= nlen l -> Forall (fun r => valid_range (nlen l) r = true) rs.
Proof.
  intros A l rs a b H Hb. eapply Forall_impl; [|apply (chain_bounds _ _ _ H)].
  cbn beta. intros r [H1 [H2 H3]]. unfold valid_range.
  apply andb_true_iff. split; apply N.leb_le; lia.
Qed.
