(* Concrete computations in the exact instance: the monotonicity counterexample (OPEN known finding
   C15-quantile-not-monotone), monotonicity outside its class, and two documented remarks. *)
From Coq Require Import List Bool Arith QArith.
From IB Require Import Combiners.TDigest.
Import ListNotations.
Local Open Scope Q_scope.

(* values 1..10 added to TDigest::new(100.0) *)
Definition w_prog : prog X :=
  fold_left PAdd (map (fun z => Fin (inject_Z z)) [1; 2; 3; 4; 5; 6; 7; 8; 9; 10]%Z) (PNew (Fin 100)).

Lemma w_prog_wf : wf_prog w_prog.
Proof. cbn. exact I. Qed.

(* TDigest::quantile directly: quantile(0.10) = 2 but quantile(0.11) = 1.2 *)
Lemma w_direct :
  xeqb (td_quantile xarith (run xarith w_prog) (Fin (1 # 10))) (Fin 2) = true /\
  xeqb (td_quantile xarith (run xarith w_prog) (Fin (11 # 100))) (Fin (6 # 5)) = true.
Proof. split; vm_compute; reflexivity. Qed.

(* the same after ApproxQuantiles::finish's compress: 4 centroids (1,1) (3.5,4) (7.5,4) (10,1);
   quantile(0.10) = 3.5 but quantile(0.15) = 1.8125 *)
Lemma w_finish :
  aq_finish xarith [Fin (1 # 10); Fin (15 # 100)] (run xarith w_prog) <> [] /\
  match aq_finish xarith [Fin (1 # 10); Fin (15 # 100)] (run xarith w_prog) with
  | [a; b] => xeqb a (Fin (7 # 2)) && xeqb b (Fin (29 # 16)) && xltb b a
  | _ => false
  end = true.
Proof. split; [vm_compute; discriminate | vm_compute; reflexivity]. Qed.

Lemma monotone_refuted :
  exists (p : prog X) (q1 q2 : Q),
    wf_prog p /\ q1 < q2 /\
    xltb (td_quantile xarith (run xarith p) (Fin q2))
         (td_quantile xarith (run xarith p) (Fin q1)) = true.
Proof.
  exists w_prog, (1 # 10), (11 # 100). split; [exact w_prog_wf|].
  split; [reflexivity | vm_compute; reflexivity].
Qed.

(* outside the known-finding class (at most one centroid) the estimate does not depend on q *)
Lemma quantile_const_single : forall (T : Type) (A : arith T) (d : digest T) (q1 q2 : T),
  (length (d_cents d) <= 1)%nat -> td_quantile A d q1 = td_quantile A d q2.
Proof.
  intros T A d q1 q2 H. unfold td_quantile.
  destruct (d_cents d) as [|c [|c' cs]]; [reflexivity| |cbn in H; inversion H as [|? H']; inversion H'].
  cbn [length Nat.eqb]. rewrite !orb_true_r. reflexivity.
Qed.

(* REMARK (outside the property: weights are not values). With add_weighted and weights < 1 a
   digest can compress to ONE centroid although min <> max, and then quantile(1) returns min:
   add_weighted(1, 0.5), add_weighted(3, 0.5), merged into a fresh digest. The theorems therefore
   assume weights >= 1 (TDigest::add uses 1). *)
Definition frac_prog : prog X :=
  PMerge (PNew (Fin 100)) (PAddW (PAddW (PNew (Fin 100)) (Fin 1) (Fin (1 # 2))) (Fin 3) (Fin (1 # 2))).
Lemma fractional_weight_remark :
  xeqb (td_quantile xarith (run xarith frac_prog) (Fin 1)) (Fin 1) = true /\
  xeqb (d_max (run xarith frac_prog)) (Fin 3) = true.
Proof. split; vm_compute; reflexivity. Qed.
