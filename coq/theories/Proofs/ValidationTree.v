(* Proofs about Validation/Tree.v: handles are immutable (attaching a step never changes what an
   existing handle computes), a handle's chain is its lineage, and a lineage that contains a
   validation builder has list semantics in written order for every partitioning. *)
From Coq Require Import List Bool Arith Lia Permutation ZArith.
From IB Require Import Engine.Val Engine.Ops Engine.Planner
                       Validation.Model Validation.Pipe Validation.Tree
                       Proofs.ValidationProofs.
Import ListNotations.
Local Open Scope nat_scope.

(* ====================== the graph ====================== *)
Lemma tg_lookup_remove_eq : forall i m, tg_lookup i (tg_remove i m) = None.
Proof.
  intros i m. induction m as [|[k n] r IH]; [reflexivity|].
  cbn [tg_remove]. destruct (k =? i) eqn:Hk; [exact IH|].
  cbn [tg_lookup]. rewrite Hk. exact IH.
Qed.

Lemma tg_lookup_remove_neq : forall i k m, k <> i -> tg_lookup k (tg_remove i m) = tg_lookup k m.
Proof.
  intros i k m Hne. induction m as [|[k0 n] r IH]; [reflexivity|].
  cbn [tg_remove tg_lookup]. destruct (k0 =? i) eqn:Hi.
  - apply Nat.eqb_eq in Hi. subst k0.
    destruct (i =? k) eqn:Hk; [apply Nat.eqb_eq in Hk; congruence|exact IH].
  - cbn [tg_lookup]. destruct (k0 =? k); [reflexivity|exact IH].
Qed.

Lemma tg_remove_length_le : forall i m, length (tg_remove i m) <= length m.
Proof.
  intros i m. induction m as [|[k n] r IH]; [reflexivity|].
  cbn [tg_remove]. destruct (k =? i); cbn [length]; lia.
Qed.

Lemma tg_remove_length_lt : forall i m n,
    tg_lookup i m = Some n -> length (tg_remove i m) < length m.
Proof.
  intros i m n. induction m as [|[k n0] r IH]; intros H; [discriminate|].
  cbn [tg_lookup] in H. cbn [tg_remove]. destruct (k =? i).
  - cbn [length]. pose proof (tg_remove_length_le i r). lia.
  - cbn [length]. specialize (IH H). lia.
Qed.

Lemma tg_pred_in : forall es cur a, tg_pred es cur = Some a -> In (a, cur) es.
Proof.
  intros es cur a. induction es as [|[x y] r IH]; intros H; [discriminate|].
  cbn [tg_pred] in H. destruct (y =? cur) eqn:Hy.
  - apply Nat.eqb_eq in Hy. injection H as Hx. subst. left. reflexivity.
  - right. apply IH, H.
Qed.

Lemma tg_pred_app_neq : forall es p new cur,
    cur <> new -> tg_pred (es ++ [(p, new)]) cur = tg_pred es cur.
Proof.
  intros es p new cur Hne. induction es as [|[x y] r IH].
  - cbn [app tg_pred]. destruct (new =? cur) eqn:H; [|reflexivity].
    apply Nat.eqb_eq in H. congruence.
  - cbn [app tg_pred]. destruct (y =? cur); [reflexivity|exact IH].
Qed.

Lemma tg_pred_app_new : forall es p new,
    (forall a b, In (a, b) es -> b <> new) -> tg_pred (es ++ [(p, new)]) new = Some p.
Proof.
  intros es p new. induction es as [|[x y] r IH]; intros H.
  - cbn [app tg_pred]. rewrite Nat.eqb_refl. reflexivity.
  - cbn [app tg_pred]. destruct (y =? new) eqn:Hy.
    + apply Nat.eqb_eq in Hy. exfalso. apply (H x y); [left; reflexivity|exact Hy].
    + apply IH. intros a b Hin. apply (H a b). right. exact Hin.
Qed.

(* two node maps that agree everywhere except at `new` *)
Definition agree_off (new : nat) (ns' ns : list (nat * tnode)) : Prop :=
  forall k, k <> new -> tg_lookup k ns' = tg_lookup k ns.

Lemma agree_off_remove : forall new cur ns' ns,
    agree_off new ns' ns -> agree_off new (tg_remove cur ns') (tg_remove cur ns).
Proof.
  intros new cur ns' ns H k Hk. destruct (Nat.eq_dec k cur) as [->|Hne].
  - rewrite !tg_lookup_remove_eq. reflexivity.
  - rewrite !tg_lookup_remove_neq by exact Hne. apply H, Hk.
Qed.

(* a walk that starts away from the new node never sees the new node or the new edge *)
Lemma tg_backwalk_agree : forall new p fuel ns' ns es cur acc,
    agree_off new ns' ns -> cur <> new ->
    (forall a b, In (a, b) es -> a <> new) ->
    tg_backwalk fuel ns' (es ++ [(p, new)]) cur acc = tg_backwalk fuel ns es cur acc.
Proof.
  intros new p fuel. induction fuel as [|fuel IH]; intros ns' ns es cur acc Hag Hcur Hes;
    [reflexivity|].
  cbn [tg_backwalk]. rewrite (Hag cur Hcur). destruct (tg_lookup cur ns) as [n|]; [|reflexivity].
  rewrite tg_pred_app_neq by exact Hcur.
  destruct (tg_pred es cur) as [from|] eqn:Hp; [|reflexivity].
  apply IH.
  - apply agree_off_remove, Hag.
  - apply (Hes from cur), tg_pred_in, Hp.
  - exact Hes.
Qed.

(* every round removes a node: more fuel than nodes is never used up *)
Lemma tg_backwalk_fuel : forall f1 f2 ns es cur acc,
    length ns < f1 -> length ns < f2 ->
    tg_backwalk f1 ns es cur acc = tg_backwalk f2 ns es cur acc.
Proof.
  induction f1 as [|f1 IH]; intros f2 ns es cur acc H1 H2; [lia|].
  destruct f2 as [|f2]; [lia|]. cbn [tg_backwalk].
  destruct (tg_lookup cur ns) as [n|] eqn:Hl; [|reflexivity].
  destruct (tg_pred es cur) as [from|]; [|reflexivity].
  pose proof (tg_remove_length_lt _ _ _ Hl). apply IH; lia.
Qed.

Lemma tg_backwalk_acc : forall fuel ns es cur acc,
    tg_backwalk fuel ns es cur acc =
    match tg_backwalk fuel ns es cur [] with Some c => Some (c ++ acc) | None => None end.
Proof.
  induction fuel as [|fuel IH]; intros ns es cur acc; [reflexivity|].
  cbn [tg_backwalk]. destruct (tg_lookup cur ns) as [n|]; [|reflexivity].
  destruct (tg_pred es cur) as [from|]; [|reflexivity].
  rewrite (IH _ _ _ (n :: acc)), (IH _ _ _ [n]).
  destruct (tg_backwalk fuel (tg_remove cur ns) es from []) as [c|]; [|reflexivity].
  rewrite <- app_assoc. reflexivity.
Qed.

Lemma tg_backwalk_S : forall fuel ns es cur acc,
    tg_backwalk (S fuel) ns es cur acc =
    match tg_lookup cur ns with
    | None => None
    | Some n => match tg_pred es cur with
                | Some from => tg_backwalk fuel (tg_remove cur ns) es from (n :: acc)
                | None => Some (n :: acc)
                end
    end.
Proof. reflexivity. Qed.

(* PCollection::apply_transform: the new handle's chain is the parent's chain plus the new
   node; the chain of every handle that existed before is what it was *)
Lemma apply_transform_chains : forall g p s id g',
    tg_fresh g -> p < tg_next g -> tg_apply_transform g p s = (id, g') ->
    id = tg_next g /\ tg_next g' = S (tg_next g) /\ tg_fresh g' /\
    tg_chain g' id = match tg_chain g p with
                     | Some c => Some (c ++ [TNOp s])
                     | None => None
                     end /\
    (forall h, h < tg_next g -> tg_chain g' h = tg_chain g h).
Proof.
  intros g p s id g' [Hn He] Hp Hat. unfold tg_apply_transform, tg_insert, tg_connect in Hat.
  cbn [tg_next tg_nodes tg_edges] in Hat. injection Hat as Hid Hg. subst id g'.
  set (new := tg_next g).
  assert (Hsrc : forall a b, In (a, b) (tg_edges g) -> a <> new).
  { intros a b Hin. destruct (He a b Hin). unfold new. lia. }
  assert (Hdst : forall a b, In (a, b) (tg_edges g) -> b <> new).
  { intros a b Hin. destruct (He a b Hin). unfold new. lia. }
  assert (Hag : agree_off new ((new, TNOp s) :: tg_nodes g) (tg_nodes g)).
  { intros k Hk. cbn [tg_lookup]. destruct (new =? k) eqn:H; [|reflexivity].
    apply Nat.eqb_eq in H. congruence. }
  split; [reflexivity|]. split; [reflexivity|]. split; [|split].
  - split; cbn [tg_next tg_nodes tg_edges].
    + intros k n [Hk|Hin]; [injection Hk as Hk _; subst k; unfold new; lia|].
      specialize (Hn k n Hin). lia.
    + intros a b Hin. apply in_app_or in Hin. destruct Hin as [Hin|[Hin|[]]].
      * destruct (He a b Hin). lia.
      * injection Hin as Ha Hb. subst a b. unfold new. lia.
  - unfold tg_chain. cbn [tg_nodes tg_edges length].
    rewrite (tg_backwalk_S (S (length (tg_nodes g)))). cbn [tg_lookup].
    rewrite Nat.eqb_refl. rewrite (tg_pred_app_new _ _ _ Hdst).
    cbn [tg_remove]. rewrite Nat.eqb_refl.
    rewrite (tg_backwalk_agree new p _ (tg_remove new (tg_nodes g)) (tg_nodes g)).
    + apply tg_backwalk_acc.
    + intros k Hk. apply tg_lookup_remove_neq, Hk.
    + unfold new. lia.
    + exact Hsrc.
  - intros h Hh. unfold tg_chain. cbn [tg_nodes tg_edges length].
    rewrite (tg_backwalk_agree new p _ _ (tg_nodes g)); [|exact Hag|unfold new; lia|exact Hsrc].
    apply tg_backwalk_fuel; lia.
Qed.

(* ====================== build scripts ====================== *)
Lemma chain_ops_map : forall l, chain_ops (map TNOp l) = Some l.
Proof. induction l as [|s r IH]; [reflexivity|]. cbn [map chain_ops]. rewrite IH. reflexivity. Qed.

(* invariant of a build: handle i sits on a node whose chain is source :: lineage i *)
Definition built (g : tgraph) (hs : list nat) (lins : list (list tstep)) : Prop :=
  tg_fresh g /\ length hs = length lins /\
  forall i, i < length hs ->
            nth i hs 0 < tg_next g /\
            tg_chain g (nth i hs 0) = Some (TNSource :: map TNOp (nth i lins [])).

Lemma built_init :
  built (snd (tg_from_vec tg_empty)) [fst (tg_from_vec tg_empty)] [[]].
Proof.
  cbn. split; [|split; [reflexivity|]].
  - split; cbn [tg_nodes tg_edges tg_next].
    + intros k n [H|[]]. injection H as H _. subst k. lia.
    + intros a b [].
  - intros i Hi. cbn [length] in Hi. assert (i = 0) by lia. subst i. cbn. split; [lia|reflexivity].
Qed.

Lemma built_step : forall g hs lins p s,
    built g hs lins -> p < length hs ->
    built (fst (tbuild_step (g, hs) (p, s))) (snd (tbuild_step (g, hs) (p, s)))
          (lineages_step lins (p, s)).
Proof.
  intros g hs lins p s [Hf [Hlen Hall]] Hp. unfold tbuild_step, lineages_step. cbn [fst snd].
  destruct (tg_apply_transform g (nth p hs 0) s) as [id g'] eqn:Hat. cbn [fst snd].
  destruct (Hall p Hp) as [Hpn Hpc].
  destruct (apply_transform_chains _ _ _ _ _ Hf Hpn Hat) as [Hid [Hnext [Hf' [Hnew Hold]]]].
  split; [exact Hf'|]. split; [rewrite !app_length; cbn [length]; lia|].
  intros i Hi. rewrite app_length in Hi. cbn [length] in Hi.
  destruct (Nat.lt_ge_cases i (length hs)) as [Hlt|Hge].
  - rewrite !app_nth1 by lia. destruct (Hall i Hlt) as [Hin Hic].
    split; [lia|]. rewrite Hold by exact Hin. exact Hic.
  - assert (i = length hs) by lia. subst i.
    rewrite app_nth2 by lia. rewrite Nat.sub_diag. cbn [nth].
    rewrite Hlen. rewrite app_nth2 by lia. rewrite Nat.sub_diag. cbn [nth].
    split; [lia|]. rewrite Hnew, Hpc. rewrite map_app. reflexivity.
Qed.

Lemma built_from : forall script g hs lins,
    built g hs lins -> script_wf (length hs) script = true ->
    built (fst (tbuild_from (g, hs) script)) (snd (tbuild_from (g, hs) script))
          (lineages_from lins script).
Proof.
  induction script as [|[p s] r IH]; intros g hs lins Hb Hwf; [exact Hb|].
  cbn [script_wf] in Hwf. apply andb_true_iff in Hwf. destruct Hwf as [Hp Hwf].
  apply Nat.ltb_lt in Hp.
  unfold tbuild_from, lineages_from. cbn [fold_left].
  pose proof (built_step _ _ _ p s Hb Hp) as Hb'.
  destruct (tbuild_step (g, hs) (p, s)) as [g' hs'] eqn:Hst. cbn [fst snd] in Hb'.
  apply IH; [exact Hb'|].
  assert (Hl : length hs' = S (length hs)).
  { unfold tbuild_step in Hst. destruct (tg_apply_transform g (nth (fst (p, s)) hs 0) (snd (p, s))).
    injection Hst as _ Hhs. subst hs'. rewrite app_length. cbn [length]. lia. }
  rewrite Hl. exact Hwf.
Qed.

Lemma lineages_from_length : forall script acc,
    length (lineages_from acc script) = length acc + length script.
Proof.
  induction script as [|ps r IH]; intros acc; [cbn; lia|].
  unfold lineages_from. cbn [fold_left]. fold (lineages_from (lineages_step acc ps) r).
  rewrite IH. unfold lineages_step. rewrite app_length. cbn [length]. lia.
Qed.

(* later calls never change the lineage of an existing handle *)
Lemma lineages_from_prefix : forall script acc i,
    i < length acc -> nth i (lineages_from acc script) [] = nth i acc [].
Proof.
  induction script as [|ps r IH]; intros acc i Hi; [reflexivity|].
  unfold lineages_from. cbn [fold_left]. fold (lineages_from (lineages_step acc ps) r).
  rewrite IH; unfold lineages_step.
  - apply app_nth1, Hi.
  - rewrite app_length. lia.
Qed.

Lemma lineages_app : forall a b, lineages (a ++ b) = lineages_from (lineages a) b.
Proof. intros a b. unfold lineages, lineages_from. apply fold_left_app. Qed.

Lemma lineages_stable : forall script more i,
    i <= length script -> nth i (lineages (script ++ more)) [] = nth i (lineages script) [].
Proof.
  intros script more i Hi. rewrite lineages_app. apply lineages_from_prefix.
  unfold lineages. rewrite lineages_from_length. cbn [length]. lia.
Qed.

Lemma script_wf_app : forall a b n,
    script_wf n (a ++ b) = script_wf n a && script_wf (n + length a) b.
Proof.
  induction a as [|[p s] r IH]; intros b n.
  - cbn [app script_wf length andb]. rewrite Nat.add_0_r. reflexivity.
  - cbn [app script_wf length]. rewrite IH, andb_assoc.
    replace (S n + length r) with (n + S (length r)) by lia. reflexivity.
Qed.

(* what collect runs on a handle: its own lineage, whatever else was attached to the pipeline,
   before or after, to the same parent or elsewhere *)
Lemma tree_collect : forall script more h ps,
    script_wf 1 (script ++ more) = true -> h <= length script ->
    tcollect (fst (tbuild (script ++ more))) (nth h (snd (tbuild (script ++ more))) 0) ps =
    Some (trun_parts (nth h (lineages script) []) ps).
Proof.
  intros script more h ps Hwf Hh. unfold tbuild.
  pose proof built_init as Hb0.
  destruct (tg_from_vec tg_empty) as [id0 g0] eqn:H0. cbn [fst snd] in Hb0.
  pose proof (built_from (script ++ more) g0 [id0] [[]] Hb0 Hwf) as [_ [Hlen Hall]].
  fold (lineages (script ++ more)) in Hlen, Hall.
  assert (Hlt : h < length (snd (tbuild_from (g0, [id0]) (script ++ more)))).
  { rewrite Hlen. unfold lineages. rewrite lineages_from_length, app_length. cbn [length]. lia. }
  destruct (Hall h Hlt) as [_ Hc]. unfold tcollect. rewrite Hc.
  cbn [chain_steps]. rewrite chain_ops_map, lineages_stable by exact Hh. reflexivity.
Qed.

(* ====================== planner: a validation builder pins the block ====================== *)
Lemma compile_tfrom_uids : forall ss uid,
    map op_uid (compile_tfrom uid ss) = seq uid (length ss).
Proof.
  induction ss as [|s r IH]; intros uid; [reflexivity|].
  cbn [compile_tfrom map length seq]. rewrite IH. destruct s; reflexivity.
Qed.

Lemma flat_map_uid : forall (ss : list tstep) (ops : list dynop),
    flat_map (fun o => match nth_error ss (op_uid o) with Some s => [s] | None => [] end) ops =
    flat_map (fun i => match nth_error ss i with Some s => [s] | None => [] end) (map op_uid ops).
Proof. intros ss ops. induction ops as [|o r IH]; [reflexivity|]. cbn [flat_map map]. rewrite IH. reflexivity. Qed.

Lemma plan_tsteps_pinned : forall ss,
    existsb is_tvalidation ss = true -> plan_tsteps ss = ss.
Proof.
  intros ss Hex. unfold plan_tsteps. rewrite reorder_ops_pinned.
  - rewrite flat_map_uid, compile_tfrom_uids. exact (flat_map_nth_seq _ ss []).
  - apply existsb_exists in Hex. destruct Hex as [s [Hin Hs]].
    assert (Hgen : forall uid, exists o, In o (compile_tfrom uid ss) /\ op_rs o = false).
    { clear - Hin Hs. induction ss as [|s0 r IH]; intros uid; [contradiction|].
      destruct Hin as [H0|Hin].
      - subst s0. eexists. split; [left; reflexivity|]. destruct s; try discriminate; reflexivity.
      - destruct (IH Hin (S uid)) as [o [Ho Hrs]]. exists o. split; [right; exact Ho|exact Hrs]. }
    apply Hgen.
Qed.

(* ====================== list semantics for every partitioning ====================== *)
Lemma forallb_concat : forall (A : Type) (f : A -> bool) (ls : list (list A)),
    forallb f (concat ls) = forallb (forallb f) ls.
Proof.
  intros A f ls. induction ls as [|l r IH]; [reflexivity|].
  cbn [concat forallb]. rewrite forallb_app, IH. reflexivity.
Qed.

Lemma concat_map_app : forall (A B : Type) (a b : A -> list B) (l : list A),
    Permutation (concat (map (fun x => a x ++ b x) l)) (concat (map a l) ++ concat (map b l)).
Proof.
  intros A B a b l. induction l as [|x r IH]; [constructor|].
  cbn [map concat]. rewrite IH, <- !app_assoc. apply Permutation_app_head.
  rewrite !app_assoc. apply Permutation_app_tail. apply Permutation_app_comm.
Qed.

(* what one operator does on one partition, in a form that composes over partitions *)
Inductive step_spec (s : tstep) : Prop :=
| ss_pure : forall (f : list val -> list val) (lg : list val -> list tentry),
    (forall p, tstep_run s p = (Ok (f p), lg p)) ->
    (forall p, den_step s p = (Some (f p), map tentry_payload (lg p))) ->
    (forall ps, f (concat ps) = concat (map f ps)) ->
    (forall ps, map tentry_payload (lg (concat ps)) =
                concat (map (fun p => map tentry_payload (lg p)) ps)) ->
    step_spec s
| ss_guard : forall (v : val -> bool),
    (forall p, tstep_run s p = if forallb v p then (Ok p, []) else (Panic, [])) ->
    (forall p, den_step s p = if forallb v p then (Some p, []) else (None, [])) ->
    step_spec s.

Lemma concat_map_nil : forall (A B : Type) (l : list A), concat (map (fun _ => @nil B) l) = [].
Proof. intros A B l. induction l as [|x r IH]; [reflexivity|exact IH]. Qed.

Lemma pure_step : forall s (f : list val -> list val),
    (forall p, tstep_run s p = (Ok (f p), [])) ->
    (forall p, den_step s p = (Some (f p), [])) ->
    (forall ps, f (concat ps) = concat (map f ps)) -> step_spec s.
Proof.
  intros s f H1 H2 H3. apply (ss_pure s f (fun _ => [])); [exact H1|exact H2|exact H3|].
  intros ps. cbn [map]. rewrite concat_map_nil. reflexivity.
Qed.

Lemma tag_log_nil : forall b keyed, tag_log b keyed [] = [].
Proof. intros b keyed. unfold tag_log. destruct (builder_coll b); reflexivity. Qed.

Lemma payload_tag_log : forall (validate : val -> vresult Z) b keyed (hc : bool) idx p,
    map tentry_payload (tag_log b keyed (if hc then entries_from validate idx p else [])) =
    match builder_coll b with
    | Some c => if hc then map (fun es => (c, keyed, es)) (invalid_errors validate p) else []
    | None => []
    end.
Proof.
  intros validate b keyed hc idx p. unfold tag_log. destruct (builder_coll b) as [c|]; [|reflexivity].
  destruct hc; [|reflexivity]. rewrite map_map.
  rewrite <- (entries_errors validate p idx), map_map. reflexivity.
Qed.

Lemma validate_step_spec : forall (validate : val -> vresult Z) s b keyed,
    (forall p, tstep_run s p = tvalidate_run validate b keyed p) ->
    (forall p, den_step s p = den_validate validate b keyed p) ->
    step_spec s.
Proof.
  intros validate s b keyed Hrun Hden. destruct (builder_mode b) eqn:Hm.
  - (* skip *)
    apply (pure_step s (filter (is_valid validate))).
    + intros p. rewrite Hrun. unfold tvalidate_run. rewrite Hm.
      unfold apply. rewrite apply_from_skip. cbn [fst snd]. rewrite tag_log_nil. reflexivity.
    + intros p. rewrite Hden. unfold den_validate. rewrite Hm. reflexivity.
    + intros ps. apply filter_concat.
  - (* log *)
    apply (ss_pure s (filter (is_valid validate))
                   (fun p => tag_log b keyed (if builder_has_coll b
                                              then entries_from validate 0 p else []))).
    + intros p. rewrite Hrun. unfold tvalidate_run. rewrite Hm.
      unfold apply. rewrite apply_from_log. cbn [fst snd]. reflexivity.
    + intros p. rewrite Hden. unfold den_validate. rewrite Hm, payload_tag_log.
      unfold builder_has_coll. destruct (builder_coll b); reflexivity.
    + intros ps. apply filter_concat.
    + intros ps. rewrite payload_tag_log.
      replace (map (fun p => map tentry_payload
                                 (tag_log b keyed (if builder_has_coll b
                                                   then entries_from validate 0 p else []))) ps)
        with (map (fun p => match builder_coll b with
                            | Some c => if builder_has_coll b
                                        then map (fun es => (c, keyed, es))
                                                 (invalid_errors validate p)
                                        else []
                            | None => []
                            end) ps)
        by (apply map_ext; intros p; symmetry; apply payload_tag_log).
      destruct (builder_coll b) as [c|]; [|rewrite concat_map_nil; reflexivity].
      destruct (builder_has_coll b); [|rewrite concat_map_nil; reflexivity].
      unfold invalid_errors. rewrite flat_map_over_concat, concat_map, map_map. reflexivity.
  - (* fail-fast *)
    apply (ss_guard s (is_valid validate)).
    + intros p. rewrite Hrun. unfold tvalidate_run. rewrite Hm.
      unfold apply. rewrite apply_from_failfast.
      destruct (forallb (is_valid validate) p); [|reflexivity].
      cbn [fst snd]. rewrite tag_log_nil. reflexivity.
    + intros p. rewrite Hden. unfold den_validate. rewrite Hm. reflexivity.
Qed.

Lemma step_spec_all : forall s, step_spec s.
Proof.
  intros s. destruct s as [c|m r|m|b|c|m r|n c|b|].
  - apply (pure_step _ (map (f_add c))); try (intros; reflexivity). intros ps. apply concat_map.
  - apply (pure_step _ (filter (p_modne m r))); try (intros; reflexivity). intros ps. apply filter_concat.
  - apply (pure_step _ (map (f_key m))); try (intros; reflexivity). intros ps. apply concat_map.
  - apply (validate_step_spec validate_val _ b false); intros; reflexivity.
  - apply (pure_step _ (map (on_snd (f_add c)))); try (intros; reflexivity). intros ps. apply concat_map.
  - apply (pure_step _ (filter (fun kv => p_modne m r (vsnd kv)))); try (intros; reflexivity).
    intros ps. apply filter_concat.
  - apply (pure_step _ (map (on_snd (f_add c)))); try (intros; reflexivity). intros ps. apply concat_map.
  - apply (validate_step_spec (fun row => validate_val (vsnd row)) _ b true); intros; reflexivity.
  - apply (pure_step _ (map vsnd)); try (intros; reflexivity). intros ps. apply concat_map.
Qed.

(* a block never returns an error: it completes or panics *)
Lemma trun_steps_ok_or_panic : forall ss p,
    (exists out, fst (trun_steps ss p) = Ok out) \/ fst (trun_steps ss p) = Panic.
Proof.
  induction ss as [|s r IH]; intros p; [left; eexists; reflexivity|].
  cbn [trun_steps]. destruct (step_spec_all s) as [f lg Hrun _ _ _|v Hrun _]; rewrite Hrun.
  - specialize (IH (f p)). destruct (trun_steps r (f p)) as [o lg']. exact IH.
  - destruct (forallb v p).
    + specialize (IH p). destruct (trun_steps r p) as [o lg']. exact IH.
    + right. reflexivity.
Qed.

Lemma oall_panic : forall (A B : Type) (f : A -> outcome B) (l : list A),
    (forall x, In x l -> (exists y, f x = Ok y) \/ f x = Panic) ->
    (exists x, In x l /\ f x = Panic) -> oall f l = Panic.
Proof.
  intros A B f l. induction l as [|x r IH]; intros Hall [x0 [Hin Hp]]; [contradiction|].
  cbn [oall]. destruct (Hall x (or_introl eq_refl)) as [[y Hy]|Hx].
  - rewrite Hy. cbn [obind]. destruct Hin as [->|Hin]; [congruence|].
    rewrite IH; [reflexivity| |exists x0; split; assumption].
    intros z Hz. apply Hall. right. exact Hz.
  - rewrite Hx. reflexivity.
Qed.

Lemma oall_map : forall (A B C : Type) (g : A -> B) (f : B -> outcome C) (l : list A),
    oall f (map g l) = oall (fun x => f (g x)) l.
Proof.
  intros A B C g f l. induction l as [|x r IH]; [reflexivity|].
  cbn [map oall]. rewrite IH. reflexivity.
Qed.

Lemma oall_ext_in : forall (A B : Type) (f g : A -> outcome B) (l : list A),
    (forall x, In x l -> f x = g x) -> oall f l = oall g l.
Proof.
  intros A B f g l H. induction l as [|x r IH]; [reflexivity|].
  cbn [oall]. rewrite (H x (or_introl eq_refl)), IH; [reflexivity|].
  intros z Hz. apply H. right. exact Hz.
Qed.

Definition run_fst (ss : list tstep) (p : list val) : outcome (list val) := fst (trun_steps ss p).
Definition run_pay (ss : list tstep) (p : list val) : list tpayload :=
  map tentry_payload (snd (trun_steps ss p)).

(* the block in WRITTEN order on any partitioning against the list semantics *)
Lemma den_run : forall ss ps,
    match den_steps ss (concat ps) with
    | (Some out, pl) =>
        exists outs, oall (run_fst ss) ps = Ok outs /\ concat outs = out /\
                     Permutation (concat (map (run_pay ss) ps)) pl
    | (None, _) => oall (run_fst ss) ps = Panic
    end.
Proof.
  induction ss as [|s r IH]; intros ps.
  - cbn [den_steps]. exists ps. split; [|split].
    + unfold run_fst. cbn [trun_steps fst]. clear. induction ps as [|p ps IH]; [reflexivity|].
      cbn [oall obind]. rewrite IH. reflexivity.
    + reflexivity.
    + unfold run_pay. cbn [trun_steps snd map]. rewrite concat_map_nil. constructor.
  - cbn [den_steps]. destruct (step_spec_all s) as [f lg Hrun Hden Hf Hlg|v Hrun Hden].
    + rewrite Hden, Hf. specialize (IH (map f ps)).
      assert (Hfst : forall p, run_fst (s :: r) p = run_fst r (f p)).
      { intros p. unfold run_fst. cbn [trun_steps]. rewrite Hrun.
        destruct (trun_steps r (f p)). reflexivity. }
      assert (Hpay : forall p, run_pay (s :: r) p = map tentry_payload (lg p) ++ run_pay r (f p)).
      { intros p. unfold run_pay. cbn [trun_steps]. rewrite Hrun.
        destruct (trun_steps r (f p)). cbn [snd]. apply map_app. }
      rewrite (oall_ext_in _ _ _ _ ps (fun p _ => Hfst p)).
      rewrite oall_map in IH.
      destruct (den_steps r (concat (map f ps))) as [[out|] pl].
      * destruct IH as [outs [Ho [Hc Hp]]]. exists outs. split; [exact Ho|]. split; [exact Hc|].
        rewrite (map_ext _ _ Hpay), concat_map_app, Hlg. apply Permutation_app_head.
        rewrite map_map in Hp. exact Hp.
      * exact IH.
    + rewrite Hden, forallb_concat. destruct (forallb (forallb v) ps) eqn:Hall.
      * rewrite forallb_forall in Hall.
        assert (Hfst : forall p, In p ps -> run_fst (s :: r) p = run_fst r p).
        { intros p Hin. unfold run_fst. cbn [trun_steps]. rewrite Hrun, (Hall p Hin).
          destruct (trun_steps r p). reflexivity. }
        assert (Hpay : forall p, In p ps -> run_pay (s :: r) p = run_pay r p).
        { intros p Hin. unfold run_pay. cbn [trun_steps]. rewrite Hrun, (Hall p Hin).
          destruct (trun_steps r p). reflexivity. }
        rewrite (oall_ext_in _ _ _ _ ps Hfst), (map_ext_in _ _ ps Hpay).
        specialize (IH ps). destruct (den_steps r (concat ps)) as [[out|] pl]; exact IH.
      * apply oall_panic.
        -- intros p _. apply trun_steps_ok_or_panic.
        -- assert (Hex : exists p, In p ps /\ forallb v p = false).
           { clear - Hall. induction ps as [|p ps IH]; [discriminate|].
             cbn [forallb] in Hall. apply andb_false_iff in Hall. destruct Hall as [H|H].
             - exists p. split; [left; reflexivity|exact H].
             - destruct (IH H) as [q [Hq Hv]]. exists q. split; [right; exact Hq|exact Hv]. }
           destruct Hex as [p [Hin Hv]]. exists p. split; [exact Hin|].
           unfold run_fst. cbn [trun_steps]. rewrite Hrun, Hv. reflexivity.
Qed.

Lemma tresult_trun_parts : forall ss ps,
    tresult (trun_parts ss ps) = omap_out (@concat val) (oall (run_fst (plan_tsteps ss)) ps).
Proof. intros ss ps. unfold tresult, trun_parts. rewrite oall_map. reflexivity. Qed.

Lemma tlogs_trun_parts : forall ss ps,
    map (map tentry_payload) (tlogs (trun_parts ss ps)) = map (run_pay (plan_tsteps ss)) ps.
Proof. intros ss ps. unfold tlogs, trun_parts. rewrite !map_map. reflexivity. Qed.

(* a lineage with a validation builder anywhere in it: the run is its list semantics in written
   order, for every partitioning and every interleaving of the collector appends *)
Lemma tree_list_semantics : forall ss input ps,
    existsb is_tvalidation ss = true -> concat ps = input ->
    match den_steps ss input with
    | (Some out, pl) =>
        tresult (trun_parts ss ps) = Ok out /\
        forall coll, interleaving (tlogs (trun_parts ss ps)) coll ->
                     Permutation (map tentry_payload coll) pl
    | (None, _) => tresult (trun_parts ss ps) = Panic
    end.
Proof.
  intros ss input ps Hex Hin. subst input. rewrite tresult_trun_parts.
  pose proof (tlogs_trun_parts ss ps) as Hlogs. rewrite (plan_tsteps_pinned ss Hex) in *.
  pose proof (den_run ss ps) as H. destruct (den_steps ss (concat ps)) as [[out|] pl].
  - destruct H as [outs [Ho [Hc Hp]]]. rewrite Ho. cbn [omap_out obind]. rewrite Hc.
    split; [reflexivity|]. intros coll Hil.
    apply interleaving_perm in Hil. rewrite (Permutation_map tentry_payload Hil).
    rewrite concat_map, Hlogs. exact Hp.
  - rewrite H. reflexivity.
Qed.

(* sequential engine (one partition): result AND appends are exactly those of the list semantics,
   also when a fail-fast step fails -- the operators in front of it have written their entries *)
Lemma trun_steps_den : forall ss p,
    fst (trun_steps ss p) = match fst (den_steps ss p) with Some out => Ok out | None => Panic end /\
    map tentry_payload (snd (trun_steps ss p)) = snd (den_steps ss p).
Proof.
  induction ss as [|s r IH]; intros p; [split; reflexivity|].
  cbn [trun_steps den_steps]. destruct (step_spec_all s) as [f lg Hrun Hden _ _|v Hrun Hden];
    rewrite Hrun, Hden.
  - destruct (IH (f p)) as [H1 H2].
    destruct (trun_steps r (f p)) as [o lg']. destruct (den_steps r (f p)) as [o' pl'].
    cbn [fst snd] in *. split; [exact H1|]. rewrite map_app, H2. reflexivity.
  - destruct (forallb v p); [|split; reflexivity].
    destruct (IH p) as [H1 H2].
    destruct (trun_steps r p) as [o lg']. destruct (den_steps r p) as [o' pl'].
    cbn [fst snd app] in *. split; assumption.
Qed.

Lemma tree_sequential_exact : forall ss input,
    existsb is_tvalidation ss = true ->
    tresult (trun_parts ss [input]) =
      match fst (den_steps ss input) with Some out => Ok out | None => Panic end /\
    map (map tentry_payload) (tlogs (trun_parts ss [input])) = [snd (den_steps ss input)].
Proof.
  intros ss input Hex. unfold tresult, tlogs, trun_parts. rewrite (plan_tsteps_pinned ss Hex).
  cbn [map oall]. destruct (trun_steps_den ss input) as [H1 H2]. rewrite H1, H2. split; [|reflexivity].
  destruct (fst (den_steps ss input)); [|reflexivity]. cbn [obind omap_out concat]. rewrite app_nil_r.
  reflexivity.
Qed.

(* branching: a handle whose lineage contains a validation builder computes the list semantics of
   ITS lineage, whatever else is attached to the pipeline (siblings on the same parent, children,
   later calls), for every partitioning *)
Lemma tree_branch_semantics : forall script more h input ps,
    script_wf 1 (script ++ more) = true -> h <= length script ->
    existsb is_tvalidation (nth h (lineages script) []) = true -> concat ps = input ->
    exists rs,
      tcollect (fst (tbuild (script ++ more))) (nth h (snd (tbuild (script ++ more))) 0) ps
      = Some rs /\
      match den_steps (nth h (lineages script) []) input with
      | (Some out, pl) =>
          tresult rs = Ok out /\
          forall coll, interleaving (tlogs rs) coll -> Permutation (map tentry_payload coll) pl
      | (None, _) => tresult rs = Panic
      end.
Proof.
  intros script more h input ps Hwf Hh Hex Hin. eexists. split; [apply tree_collect; assumption|].
  apply tree_list_semantics; assumption.
Qed.

(* ====================== a panicking run: what may have been appended ====================== *)
Lemma forallb_filter_id : forall (A : Type) (f : A -> bool) (l : list A),
    forallb f l = true -> filter f l = l.
Proof.
  intros A f l. induction l as [|x r IH]; intros H; [reflexivity|].
  cbn [forallb] in H. apply andb_true_iff in H. destruct H as [Hx Hr].
  cbn [filter]. rewrite Hx, (IH Hr). reflexivity.
Qed.

Lemma relax_validate_run : forall (validate : val -> vresult Z) b keyed p,
    (relax_builder b = b /\ exists q lg, tvalidate_run validate b keyed p = (Ok q, lg)) \/
    (tvalidate_run validate b keyed p =
       (if forallb (is_valid validate) p then (Ok p, []) else (Panic, [])) /\
     tvalidate_run validate (relax_builder b) keyed p = (Ok (filter (is_valid validate) p), [])).
Proof.
  intros validate b keyed p.
  assert (Hskip : forall b', builder_mode b' = SkipInvalid ->
                             tvalidate_run validate b' keyed p =
                             (Ok (filter (is_valid validate) p), [])).
  { intros b' Hm. unfold tvalidate_run. rewrite Hm. unfold apply. rewrite apply_from_skip.
    cbn [fst snd]. rewrite tag_log_nil. reflexivity. }
  assert (Hff : forall b', builder_mode b' = FailFast ->
                           tvalidate_run validate b' keyed p =
                           (if forallb (is_valid validate) p then (Ok p, []) else (Panic, []))).
  { intros b' Hm. unfold tvalidate_run. rewrite Hm. unfold apply. rewrite apply_from_failfast.
    destruct (forallb (is_valid validate) p); [|reflexivity].
    cbn [fst snd]. rewrite tag_log_nil. reflexivity. }
  destruct b as [md c| |].
  - destruct md.
    + left. split; [reflexivity|]. rewrite Hskip by reflexivity. eexists. eexists. reflexivity.
    + left. split; [reflexivity|]. unfold tvalidate_run. cbn [builder_mode]. unfold apply.
      rewrite apply_from_log. eexists. eexists. reflexivity.
    + right. split; [apply Hff; reflexivity|apply Hskip; reflexivity].
  - left. split; [reflexivity|]. rewrite Hskip by reflexivity. eexists. eexists. reflexivity.
  - right. split; [apply Hff; reflexivity|apply Hskip; reflexivity].
Qed.

Lemma relax_step_run : forall s p,
    (relax_step s = s /\ exists q lg, tstep_run s p = (Ok q, lg)) \/
    (exists v, tstep_run s p = (if forallb v p then (Ok p, []) else (Panic, [])) /\
               tstep_run (relax_step s) p = (Ok (filter v p), [])).
Proof.
  intros s p. destruct s as [c|m r|m|b|c|m r|n c|b|];
    try (left; split; [reflexivity|eexists; eexists; reflexivity]).
  - destruct (relax_validate_run validate_val b false p) as [[Hb Hrun]|[H1 H2]].
    + left. split; [cbn [relax_step]; rewrite Hb; reflexivity|exact Hrun].
    + right. eexists. split; [exact H1|exact H2].
  - destruct (relax_validate_run (fun row => validate_val (vsnd row)) b true p) as [[Hb Hrun]|[H1 H2]].
    + left. split; [cbn [relax_step]; rewrite Hb; reflexivity|exact Hrun].
    + right. eexists. split; [exact H1|exact H2].
Qed.

(* one partition: whatever the block appended before it completed or panicked is among what the
   relaxed block appends *)
Lemma relax_bound_part : forall ss p,
    exists rest, Permutation (run_pay (map relax_step ss) p) (run_pay ss p ++ rest).
Proof.
  induction ss as [|s r IH]; intros p; [exists []; constructor|].
  unfold run_pay. cbn [map trun_steps].
  destruct (relax_step_run s p) as [[Hs [q [lg Hrun]]]|[v [Hrun Hrel]]].
  - rewrite Hs, Hrun. destruct (IH q) as [rest Hrest]. unfold run_pay in Hrest.
    destruct (trun_steps (map relax_step r) q) as [o1 l1].
    destruct (trun_steps r q) as [o2 l2]. cbn [snd] in *.
    exists rest. rewrite !map_app, <- app_assoc. apply Permutation_app_head. exact Hrest.
  - rewrite Hrun, Hrel. destruct (forallb v p) eqn:Hv.
    + rewrite (forallb_filter_id _ _ _ Hv). destruct (IH p) as [rest Hrest]. unfold run_pay in Hrest.
      destruct (trun_steps (map relax_step r) p) as [o1 l1].
      destruct (trun_steps r p) as [o2 l2]. cbn [snd app] in *. exists rest. exact Hrest.
    + destruct (trun_steps (map relax_step r) (filter v p)) as [o1 l1]. cbn [snd app map].
      exists (map tentry_payload l1). reflexivity.
Qed.

Lemma relax_bound_parts : forall ss ps,
    exists rest, Permutation (concat (map (run_pay (map relax_step ss)) ps))
                             (concat (map (run_pay ss) ps) ++ rest).
Proof.
  intros ss ps. induction ps as [|p ps [rest IH]]; [exists []; constructor|].
  destruct (relax_bound_part ss p) as [r1 H1]. exists (r1 ++ rest). cbn [map concat].
  rewrite H1, IH. rewrite <- !app_assoc. apply Permutation_app_head.
  rewrite !app_assoc. apply Permutation_app_tail. apply Permutation_app_comm.
Qed.

Lemma relax_den_some : forall ss rows, exists out, fst (den_steps (map relax_step ss) rows) = Some out.
Proof.
  induction ss as [|s r IH]; intros rows; [eexists; reflexivity|].
  cbn [map den_steps].
  assert (Hs : exists rows' pl, den_step (relax_step s) rows = (Some rows', pl)).
  { destruct s as [c|m r0|m|b|c|m r0|n c|b|]; try (eexists; eexists; reflexivity);
      cbn [relax_step den_step]; unfold den_validate;
      destruct b as [md c| |]; try destruct md; cbn [relax_builder builder_mode];
      eexists; eexists; reflexivity. }
  destruct Hs as [rows' [pl Hs]]. rewrite Hs. destruct (IH rows') as [out Hout].
  destruct (den_steps (map relax_step r) rows') as [o pl']. cbn [fst] in *. exists out. exact Hout.
Qed.

(* every partition run to its own end (completed or panicked): all appends together are, as a
   multiset, part of what the list semantics of the relaxed lineage appends *)
Lemma tree_panic_bound : forall ss ps,
    exists rest,
      Permutation (snd (den_steps (map relax_step ss) (concat ps)))
                  (concat (map (run_pay ss) ps) ++ rest).
Proof.
  intros ss ps. pose proof (den_run (map relax_step ss) ps) as H.
  destruct (relax_den_some ss (concat ps)) as [out Hout].
  destruct (den_steps (map relax_step ss) (concat ps)) as [o pl]. cbn [fst snd] in *. subst o.
  destruct H as [outs [_ [_ Hp]]]. destruct (relax_bound_parts ss ps) as [rest Hrest].
  exists rest. rewrite <- Hp. exact Hrest.
Qed.

(* ====================== the convenience wrappers ====================== *)
Lemma twin_compile : forall s uid, compile_tstep uid (twin_step s) = compile_tstep uid s.
Proof. intros s uid. destruct s as [| | |b| | | |b|]; try reflexivity; destruct b; reflexivity. Qed.

Lemma twin_run : forall s p, tstep_run (twin_step s) p = tstep_run s p.
Proof. intros s p. destruct s as [| | |b| | | |b|]; try reflexivity; destruct b; reflexivity. Qed.

Lemma twin_den : forall s p, den_step (twin_step s) p = den_step s p.
Proof. intros s p. destruct s as [| | |b| | | |b|]; try reflexivity; destruct b; reflexivity. Qed.

Lemma twin_compile_from : forall ss uid,
    compile_tfrom uid (map twin_step ss) = compile_tfrom uid ss.
Proof.
  induction ss as [|s r IH]; intros uid; [reflexivity|].
  cbn [map compile_tfrom]. rewrite twin_compile, IH. reflexivity.
Qed.

Lemma twin_plan : forall ss, plan_tsteps (map twin_step ss) = map twin_step (plan_tsteps ss).
Proof.
  intros ss. unfold plan_tsteps. rewrite twin_compile_from.
  induction (reorder_ops (compile_tfrom 0 ss)) as [|o r IH]; [reflexivity|].
  cbn [flat_map]. rewrite map_app, IH. f_equal.
  rewrite nth_error_map. destruct (nth_error ss (op_uid o)); reflexivity.
Qed.

Lemma twin_trun_steps : forall ss p, trun_steps (map twin_step ss) p = trun_steps ss p.
Proof.
  induction ss as [|s r IH]; intros p; [reflexivity|].
  cbn [map trun_steps]. rewrite twin_run. destruct (tstep_run s p) as [[rows'|e| |] lg]; try reflexivity.
  rewrite IH. reflexivity.
Qed.

Lemma twin_den_steps : forall ss p, den_steps (map twin_step ss) p = den_steps ss p.
Proof.
  induction ss as [|s r IH]; intros p; [reflexivity|].
  cbn [map den_steps]. rewrite twin_den. destruct (den_step s p) as [[rows'|] pl]; [|reflexivity].
  rewrite IH. reflexivity.
Qed.

(* a convenience wrapper is indistinguishable from its general twin: same operator (flags and
   body), same plan, same run, same list semantics *)
Lemma wrappers_are_twins : forall ss ps,
    (forall uid, compile_tfrom uid (map twin_step ss) = compile_tfrom uid ss) /\
    trun_parts (map twin_step ss) ps = trun_parts ss ps /\
    (forall rows, den_steps (map twin_step ss) rows = den_steps ss rows).
Proof.
  intros ss ps. split; [intros uid; apply twin_compile_from|]. split; [|apply twin_den_steps].
  unfold trun_parts. rewrite twin_plan. apply map_ext. intros p. apply twin_trun_steps.
Qed.
