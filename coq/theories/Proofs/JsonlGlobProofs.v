(* C09: the glob readers. The result is the concatenation of the matched files in the order of
   PathBuf's Ord (component-wise, bytes within a component), whatever order the glob library
   reports the matches in. *)
From Coq Require Import List ZArith Bool Lia Permutation Sorted.
From IB Require Import IO.Shards IO.Jsonl.
Import ListNotations.

(* ---------- lexicographic comparison inherits the order laws ---------- *)
Section Lex.
  Context {A : Type}.
  Variable cmp : A -> A -> comparison.
  Hypothesis cmp_eq : forall a b, cmp a b = Eq -> a = b.
  Hypothesis cmp_refl : forall a, cmp a a = Eq.
  Hypothesis cmp_antisym : forall a b, cmp b a = CompOpp (cmp a b).
  Hypothesis cmp_trans : forall a b c, cmp a b = Lt -> cmp b c = Lt -> cmp a c = Lt.

  Lemma lex_eq : forall a b, lex_cmp cmp a b = Eq -> a = b.
  Proof.
    induction a as [|x a IH]; intros [|y b] H; cbn [lex_cmp] in H; try discriminate; [reflexivity|].
    destruct (cmp x y) eqn:E; try discriminate. apply cmp_eq in E. subst. f_equal. now apply IH.
  Qed.

  Lemma lex_refl : forall a, lex_cmp cmp a a = Eq.
  Proof. induction a as [|x a IH]; cbn [lex_cmp]; [reflexivity|]. now rewrite cmp_refl. Qed.

  Lemma lex_antisym : forall a b, lex_cmp cmp b a = CompOpp (lex_cmp cmp a b).
  Proof.
    induction a as [|x a IH]; intros [|y b]; cbn [lex_cmp]; try reflexivity.
    rewrite (cmp_antisym x y). destruct (cmp x y); cbn [CompOpp]; [apply IH|reflexivity|reflexivity].
  Qed.

  Lemma lex_trans : forall a b c,
    lex_cmp cmp a b = Lt -> lex_cmp cmp b c = Lt -> lex_cmp cmp a c = Lt.
  Proof.
    induction a as [|x a IH]; intros [|y b] [|z c] H1 H2; cbn [lex_cmp] in *;
      try discriminate; try reflexivity.
    destruct (cmp x y) eqn:Exy; try discriminate; destruct (cmp y z) eqn:Eyz; try discriminate.
    - apply cmp_eq in Exy. apply cmp_eq in Eyz. subst. rewrite cmp_refl. eapply IH; eassumption.
    - apply cmp_eq in Exy. subst. now rewrite Eyz.
    - apply cmp_eq in Eyz. subst. now rewrite Exy.
    - now rewrite (cmp_trans _ _ _ Exy Eyz).
  Qed.
End Lex.

Lemma zcmp_eq : forall a b, Z.compare a b = Eq -> a = b.
Proof. intros. now apply Z.compare_eq. Qed.
Lemma zcmp_trans : forall a b c, Z.compare a b = Lt -> Z.compare b c = Lt -> Z.compare a c = Lt.
Proof. intros a b c H1 H2. rewrite Z.compare_lt_iff in *. lia. Qed.

Lemma bytes_cmp_eq : forall a b, bytes_cmp a b = Eq -> a = b.
Proof. apply lex_eq. exact zcmp_eq. Qed.
Lemma bytes_cmp_refl : forall a, bytes_cmp a a = Eq.
Proof. apply lex_refl. exact Z.compare_refl. Qed.
Lemma bytes_cmp_antisym : forall a b, bytes_cmp b a = CompOpp (bytes_cmp a b).
Proof. apply lex_antisym. intros a b. apply Z.compare_antisym. Qed.
Lemma bytes_cmp_trans : forall a b c, bytes_cmp a b = Lt -> bytes_cmp b c = Lt -> bytes_cmp a c = Lt.
Proof.
  apply lex_trans; [exact zcmp_eq|exact Z.compare_refl|exact zcmp_trans].
Qed.

Lemma path_cmp_eq : forall a b, path_cmp a b = Eq -> a = b.
Proof. apply lex_eq. exact bytes_cmp_eq. Qed.
Lemma path_cmp_antisym : forall a b, path_cmp b a = CompOpp (path_cmp a b).
Proof. apply lex_antisym. exact bytes_cmp_antisym. Qed.
Lemma path_cmp_trans : forall a b c, path_cmp a b = Lt -> path_cmp b c = Lt -> path_cmp a c = Lt.
Proof. apply lex_trans; [exact bytes_cmp_eq|exact bytes_cmp_refl|exact bytes_cmp_trans]. Qed.

Definition path_le (a b : path) : Prop := path_leb a b = true.

Lemma path_leb_total : forall a b, path_leb a b = false -> path_leb b a = true.
Proof.
  intros a b H. unfold path_leb in *. rewrite (path_cmp_antisym a b).
  destruct (path_cmp a b); try discriminate. reflexivity.
Qed.

Lemma path_le_antisym : forall a b, path_le a b -> path_le b a -> a = b.
Proof.
  intros a b H1 H2. unfold path_le, path_leb in *. rewrite (path_cmp_antisym a b) in H2.
  destruct (path_cmp a b) eqn:E; cbn [CompOpp] in H2; try discriminate.
  now apply path_cmp_eq.
Qed.

Lemma path_le_trans : forall a b c, path_le a b -> path_le b c -> path_le a c.
Proof.
  intros a b c H1 H2. unfold path_le, path_leb in *.
  destruct (path_cmp a b) eqn:E1; try discriminate;
    destruct (path_cmp b c) eqn:E2; try discriminate.
  - apply path_cmp_eq in E1. subst. now rewrite E2.
  - apply path_cmp_eq in E1. subst. now rewrite E2.
  - apply path_cmp_eq in E2. subst. now rewrite E1.
  - now rewrite (path_cmp_trans _ _ _ E1 E2).
Qed.

(* ---------- insertion sort: sorted, a permutation, and therefore canonical ---------- *)
Section Sort.
  Context {A : Type}.
  Variable leb : A -> A -> bool.
  Let le a b := leb a b = true.
  Hypothesis leb_total : forall a b, leb a b = false -> leb b a = true.
  Hypothesis le_antisym : forall a b, le a b -> le b a -> a = b.
  Hypothesis le_trans : forall a b c, le a b -> le b c -> le a c.

  Lemma insert_by_perm : forall x l, Permutation (insert_by leb x l) (x :: l).
  Proof.
    intros x. induction l as [|y l IH]; cbn [insert_by]; [reflexivity|].
    destruct (leb x y); [reflexivity|]. rewrite IH. apply perm_swap.
  Qed.

  Lemma sort_by_perm : forall l, Permutation (sort_by leb l) l.
  Proof.
    induction l as [|x l IH]; cbn [sort_by fold_right]; [reflexivity|].
    fold (sort_by leb l). rewrite insert_by_perm. now rewrite IH.
  Qed.

  Lemma insert_by_sorted : forall x l,
    StronglySorted le l -> StronglySorted le (insert_by leb x l).
  Proof.
    intros x. induction l as [|y l IH]; intros Hs; cbn [insert_by].
    - constructor; constructor.
    - inversion Hs as [|? ? Hs' Hall]; subst.
      destruct (leb x y) eqn:E.
      + constructor; [assumption|]. constructor; [exact E|].
        eapply Forall_impl; [|exact Hall]. cbn beta. intros z Hz. eapply le_trans; eassumption.
      + constructor; [apply IH; assumption|].
        eapply Permutation_Forall; [symmetry; apply insert_by_perm|].
        constructor; [apply leb_total; assumption|assumption].
  Qed.

  Lemma sort_by_sorted : forall l, StronglySorted le (sort_by leb l).
  Proof.
    induction l as [|x l IH]; cbn [sort_by fold_right]; [constructor|].
    apply insert_by_sorted. exact IH.
  Qed.

  Lemma sorted_perm_unique : forall l1 l2,
    StronglySorted le l1 -> StronglySorted le l2 -> Permutation l1 l2 -> l1 = l2.
  Proof.
    induction l1 as [|x l1 IH]; intros l2 H1 H2 Hp.
    - apply Permutation_nil in Hp. now subst.
    - destruct l2 as [|y l2]; [apply Permutation_sym, Permutation_nil in Hp; discriminate|].
      inversion H1 as [|? ? H1' Hall1]; subst. inversion H2 as [|? ? H2' Hall2]; subst.
      assert (Hxy : x = y).
      { assert (Hx : In x (y :: l2)) by (eapply Permutation_in; [exact Hp|left; reflexivity]).
        assert (Hy : In y (x :: l1))
          by (eapply Permutation_in; [symmetry; exact Hp|left; reflexivity]).
        destruct Hx as [Hx|Hx]; [now subst|]. destruct Hy as [Hy|Hy]; [now subst|].
        rewrite Forall_forall in Hall1, Hall2. apply le_antisym; [apply Hall1|apply Hall2]; assumption. }
      subst y. f_equal. apply IH; try assumption. eapply Permutation_cons_inv. exact Hp.
  Qed.

  Lemma sort_by_canonical : forall l1 l2, Permutation l1 l2 -> sort_by leb l1 = sort_by leb l2.
  Proof.
    intros l1 l2 Hp. apply sorted_perm_unique; try apply sort_by_sorted.
    rewrite !sort_by_perm. exact Hp.
  Qed.
End Sort.

(* ---------- the glob readers ---------- *)
Lemma sort_paths_sorted : forall ps, StronglySorted path_le (sort_paths ps).
Proof. intros ps. apply sort_by_sorted; [exact path_leb_total|exact path_le_trans]. Qed.

Lemma sort_paths_perm : forall ps, Permutation (sort_paths ps) ps.
Proof. intros ps. apply sort_by_perm. Qed.

Lemma sort_paths_canonical : forall ps ps', Permutation ps ps' -> sort_paths ps = sort_paths ps'.
Proof.
  intros ps ps'. apply sort_by_canonical;
    [exact path_leb_total|exact path_le_antisym|exact path_le_trans].
Qed.

Section GlobProofs.
  Context {R : Type}.
  Variable content : path -> list R.

  Lemma read_files_ok : forall ps,
    read_files (fun p => Ok (content p)) ps = Ok (concat (map content ps)).
  Proof.
    induction ps as [|p ps IH]; [reflexivity|]. cbn [read_files map concat]. now rewrite IH.
  Qed.

  Theorem glob_concat : forall matched,
    matched <> [] ->
    read_glob (fun p => Ok (content p)) matched = Ok (concat (map content (sort_paths matched)))
    /\ StronglySorted path_le (sort_paths matched)
    /\ Permutation (sort_paths matched) matched
    /\ forall matched', Permutation matched matched' ->
         read_glob (fun p => Ok (content p)) matched' = read_glob (fun p => Ok (content p)) matched.
  Proof.
    intros matched Hne. split; [|split; [apply sort_paths_sorted|split; [apply sort_paths_perm|]]].
    - unfold read_glob. destruct matched; [contradiction|]. apply read_files_ok.
    - intros matched' Hp. unfold read_glob.
      destruct matched as [|m ms]; [contradiction|].
      destruct matched' as [|m' ms']; [apply Permutation_sym, Permutation_nil in Hp; discriminate|].
      now rewrite (sort_paths_canonical _ _ Hp).
  Qed.
End GlobProofs.
