(* C01 / C03: the sequential and the parallel engine agree on every classified plan, and the
   optimiser (fuse, lift, drop_mid; reorder assumed a no-op) does not change the result.
   Lemmas for Props/C01.v and the last two theorems of Props/C03.v.

   Route: (1) sources; (2) the sequential engine is the parallel one on a single partition;
   (3) node-level partition independence, for the three order classes of Engine/Static.v (E, P and
   D: GroupByKey on rows known only as a multiset, lifted combines and order-insensitive
   element-wise operators on its groups); (4) a simulation relation `chain_sim` between a
   classified chain and a rewritten chain (identity, fusion of element-wise blocks, lifting of
   GroupByKey + lifted combine) and its soundness for the partition loop; (5) plans: linear and
   join-shaped, any two execution modes; (6) the optimiser produces a `chain_sim`-related chain. *)
From Coq Require Import List ZArith Bool Arith Lia Permutation.
From IB Require Import Engine.Val Engine.Ops Engine.AMap Engine.Nodes Engine.Exec Engine.Planner
     Engine.Lang Engine.Denote Engine.Static Combiners.Lawful
     Proofs.EngineBase Proofs.EngineKeyed Proofs.EngineCombine Proofs.EngineJoin
     Proofs.EnginePlanner.
Import ListNotations.
Local Close Scope Z_scope.
Local Open Scope nat_scope.

(* ================= (0) small generic facts ================= *)

Lemma perm_concat : forall {A : Type} (l l' : list (list A)),
    Permutation l l' -> Permutation (concat l) (concat l').
Proof.
  intros A l l' H. induction H as [|x l l' H IH|x y l|l1 l2 l3 H1 IH1 H2 IH2]; cbn [concat].
  - constructor.
  - apply Permutation_app_head. exact IH.
  - rewrite !app_assoc. apply Permutation_app_tail. apply Permutation_app_comm.
  - eapply Permutation_trans; eassumption.
Qed.

Lemma map_as_flat_map : forall {A B : Type} (f : A -> B) l,
    map f l = flat_map (fun x => [f x]) l.
Proof. intros A B f l. symmetry. apply flat_map_single. Qed.

Lemma filter_as_flat_map : forall {A : Type} (p : A -> bool) l,
    filter p l = flat_map (fun x => if p x then [x] else []) l.
Proof.
  intros A p l. induction l as [|x l IH]; cbn [filter flat_map]; [reflexivity|].
  destruct (p x); cbn [app]; congruence.
Qed.

Lemma flat_map_concat : forall {A B : Type} (g : A -> list B) (ls : list (list A)),
    flat_map g (concat ls) = concat (map (flat_map g) ls).
Proof.
  intros A B g ls. induction ls as [|l ls IH]; cbn [concat map]; [reflexivity|].
  rewrite flat_map_app, IH. reflexivity.
Qed.

(* outcomes *)
Lemma obind_ok : forall {A B : Type} (o : outcome A) (f : A -> outcome B) b,
    obind o f = Ok b -> exists a, o = Ok a /\ f a = Ok b.
Proof.
  intros A B o f b H. destruct o as [a|e| |]; cbn [obind] in H; try discriminate.
  exists a. split; [reflexivity|exact H].
Qed.

(* tags *)
Lemma check_tags_cons : forall t p ps,
    check_tags t (p :: ps) = Nat.eqb (fst p) t && check_tags t ps.
Proof. reflexivity. Qed.

Lemma check_tags_one : forall t (p : part), check_tags t [p] = Nat.eqb (fst p) t.
Proof. intros t p. unfold check_tags. cbn [forallb]. apply andb_true_r. Qed.

Lemma check_tags_single : forall t p, check_tags t [p] = true <-> fst p = t.
Proof.
  intros t p. unfold check_tags. cbn [forallb]. rewrite andb_true_r. apply Nat.eqb_eq.
Qed.

Lemma check_tags_map_snd : forall t ps,
    check_tags t ps = true -> ps = map (fun l => (t, l)) (map snd ps).
Proof.
  intros t ps. induction ps as [|[t0 l] ps IH]; intros H; [reflexivity|].
  rewrite check_tags_cons in H. apply andb_true_iff in H. destruct H as [H1 H2].
  cbn [fst] in H1. apply Nat.eqb_eq in H1. subst t0. cbn [map snd]. f_equal. apply IH. exact H2.
Qed.

(* ================= (1) sources ================= *)

Lemma chunks_fuel_concat : forall fuel n l,
    1 <= n -> length l <= fuel -> concat (chunks_fuel fuel n l) = l.
Proof.
  induction fuel as [|fuel IH]; intros n l Hn Hlen.
  - destruct l as [|x l]; [reflexivity|cbn [length] in Hlen; lia].
  - cbn [chunks_fuel]. destruct l as [|x l]; [reflexivity|].
    cbn [concat]. rewrite IH.
    + apply firstn_skipn.
    + exact Hn.
    + rewrite skipn_length. cbn [length] in *. lia.
Qed.

Lemma chunks_concat : forall n l, 1 <= n -> concat (chunks n l) = l.
Proof. intros n l Hn. unfold chunks. apply chunks_fuel_concat; [exact Hn|apply le_n]. Qed.

Lemma chunks_fuel_count : forall fuel n l k,
    length l <= k * n -> length (chunks_fuel fuel n l) <= k.
Proof.
  induction fuel as [|fuel IH]; intros n l k Hlen; cbn [chunks_fuel length]; [lia|].
  destruct l as [|x l]; [cbn [length]; lia|].
  destruct k as [|k]; [cbn [length] in Hlen; lia|].
  cbn [length]. apply le_n_S. apply IH.
  rewrite skipn_length. cbn [length] in *. lia.
Qed.

Lemma div_ceil_pos : forall a b, 1 <= a -> 1 <= b -> 1 <= div_ceil a b.
Proof.
  intros a b Ha Hb. unfold div_ceil. apply Nat.div_str_pos. lia.
Qed.

Lemma div_ceil_covers : forall a b, 1 <= b -> a <= b * div_ceil a b.
Proof.
  intros a b Hb. unfold div_ceil.
  pose proof (Nat.mul_succ_div_gt (a + b - 1) b ltac:(lia)) as H.
  rewrite Nat.mul_succ_r in H. lia.
Qed.

Lemma vec_split_concat : forall data n, concat (vec_split data n) = data.
Proof.
  intros data n. unfold vec_split.
  destruct ((n <=? 1) || (length data <=? 1)) eqn:Hc.
  - cbn [concat]. apply app_nil_r.
  - apply orb_false_iff in Hc. destruct Hc as [Hn Hl].
    apply Nat.leb_gt in Hn. apply Nat.leb_gt in Hl.
    apply chunks_concat. apply div_ceil_pos; lia.
Qed.

Lemma vec_source_coherent : forall t data, coherent (vec_source t data).
Proof. intros t data n. cbn [vec_source s_split s_all]. apply vec_split_concat. Qed.

Lemma sharded_source_coherent : forall t shards n, coherent (sharded_source t shards n).
Proof. intros t shards n m. reflexivity. Qed.

Lemma vec_split_shape : forall data n,
    vec_split data n <> [] /\ length (vec_split data n) <= Nat.max n 1.
Proof.
  intros data n. unfold vec_split.
  destruct ((n <=? 1) || (length data <=? 1)) eqn:Hc.
  - split; [discriminate|]. cbn [length]. lia.
  - apply orb_false_iff in Hc. destruct Hc as [Hn Hl].
    apply Nat.leb_gt in Hn. apply Nat.leb_gt in Hl. split.
    + unfold chunks. destruct data as [|x data]; [cbn [length] in Hl; lia|].
      cbn [length chunks_fuel]. discriminate.
    + unfold chunks. etransitivity; [apply chunks_fuel_count with (k := n)|lia].
      apply div_ceil_covers. lia.
Qed.

(* ================= (2) the sequential engine is the parallel one on one partition ========== *)

Definition plainb (b : bnode) : Prop :=
  match b with BSource _ | BMaterialized _ _ => False | _ => True end.

Lemma seq_is_one_partition : forall sh i term b p,
    (match b with BSource _ | BMaterialized _ _ => False | _ => True end) ->
    seq_bnode sh i term false b (Some p) =
    match par_bnode sh i b [p] with
    | Ok [p'] => Ok p' | Ok _ => Panic | Err e => Err e | Panic => Panic | Diverge => Diverge
    end.
Proof.
  intros sh i term b p Hb.
  destruct b as [s|ops|tin tout|cb tp tg tout lg|cb lifted tin tout fanout|t pl];
    try contradiction; cbn [seq_bnode par_bnode take obind].
  - unfold par_stateless. cbn [oall]. destruct (apply_ops ops p) as [q|e| |]; reflexivity.
  - destruct (run_gbk sh i tin tout [p]) as [q|e| |]; reflexivity.
  - destruct (run_combine_values sh i cb tp tg tout lg [p]) as [q|e| |]; reflexivity.
  - unfold run_combine_global_seq, run_combine_global_par. rewrite check_tags_one.
    destruct (Nat.eqb (fst p) tin); [|reflexivity].
    cbn [map length merge_rounds Nat.leb obind omap_out finish_rounds rev app cg_merge fold_left].
    reflexivity.
Qed.

(* ================= (3) node-level partition independence ================= *)

(* ---- row_perm: equal rows, or grouped rows whose value lists are permutations ---- *)
Lemma row_perm_refl : forall x, row_perm x x.
Proof. intros x. left. reflexivity. Qed.

Lemma row_perm_sym : forall x y, row_perm x y -> row_perm y x.
Proof.
  intros x y [Heq|(k & l & l' & Hx & Hy & Hp)]; [left; symmetry; exact Heq|].
  right. exists k, l', l. split; [exact Hy|]. split; [exact Hx|]. apply Permutation_sym. exact Hp.
Qed.

Lemma row_perm_trans : forall x y z, row_perm x y -> row_perm y z -> row_perm x z.
Proof.
  intros x y z [Heq|(k & l & l' & Hx & Hy & Hp)] H2; [subst y; exact H2|].
  destruct H2 as [Heq2|(k2 & l2 & l2' & Hy2 & Hz & Hp2)].
  - subst z. right. exists k, l, l'. auto.
  - rewrite Hy in Hy2. injection Hy2 as Hk Hl. subst k2 l2.
    right. exists k, l, l2'. split; [exact Hx|]. split; [exact Hz|].
    eapply Permutation_trans; eassumption.
Qed.

Lemma row_perm_groups : forall k l l', Permutation l l' ->
    row_perm (VPair k (VList l)) (VPair k (VList l')).
Proof. intros k l l' Hp. right. exists k, l, l'. auto. Qed.

(* the pattern-matching reading of row_perm *)
Lemma row_perm_spec : forall x y,
    row_perm x y <->
    match x, y with
    | VPair k (VList l), VPair k' (VList l') => k = k' /\ Permutation l l'
    | _, _ => x = y
    end.
Proof.
  intros x y. split.
  - intros [Heq|(k & l & l' & Hx & Hy & Hp)].
    + subst y. destruct x as [z|a b|l0| |v]; try reflexivity.
      destruct b as [z|b1 b2|l0| |v]; try reflexivity.
      split; [reflexivity|apply Permutation_refl].
    + subst x y. split; [reflexivity|exact Hp].
  - destruct x as [z|a b|l0| |v]; try (intros H; left; exact H).
    destruct b as [z|b1 b2|l0| |v]; try (intros H; left; exact H).
    destruct y as [z|a' b'|l1| |v]; try (intros H; left; exact H).
    destruct b' as [z|b1 b2|l1| |v]; try (intros H; left; exact H).
    intros [Hk Hp]. subst a'. apply row_perm_groups. exact Hp.
Qed.

Lemma row_perm_fst : forall x y, row_perm x y -> vfst x = vfst y.
Proof.
  intros x y [Heq|(k & l & l' & Hx & Hy & Hp)]; [subst y; reflexivity|]. subst x y. reflexivity.
Qed.

Lemma row_perm_vals : forall x y, row_perm x y ->
    Permutation (vlist (vsnd x)) (vlist (vsnd y)).
Proof.
  intros x y [Heq|(k & l & l' & Hx & Hy & Hp)]; [subst y; apply Permutation_refl|].
  subst x y. cbn [vsnd vlist]. exact Hp.
Qed.

Lemma rows_perm_refl : forall a, Forall2 row_perm a a.
Proof. induction a as [|x a IH]; constructor; [apply row_perm_refl|exact IH]. Qed.

Lemma rows_perm_sym : forall a b, Forall2 row_perm a b -> Forall2 row_perm b a.
Proof.
  intros a b H. induction H as [|x y a b Hxy Hab IH]; constructor;
    [apply row_perm_sym; exact Hxy|exact IH].
Qed.

Lemma rows_perm_trans : forall a b d,
    Forall2 row_perm a b -> Forall2 row_perm b d -> Forall2 row_perm a d.
Proof.
  intros a b d H. revert d. induction H as [|x y a b Hxy Hab IH]; intros d Hd.
  - inversion Hd; subst. constructor.
  - inversion Hd as [|y0 z b0 d0 Hyz Hbd]; subst. constructor.
    + eapply row_perm_trans; eassumption.
    + apply IH. exact Hbd.
Qed.

Lemma rows_perm_fst : forall a b, Forall2 row_perm a b -> map vfst a = map vfst b.
Proof.
  intros a b H. induction H as [|x y a b Hxy Hab IH]; cbn [map]; [reflexivity|].
  rewrite (row_perm_fst x y Hxy), IH. reflexivity.
Qed.

(* ---- class D: a multiset of rows, each up to row_perm ---- *)
Lemma relD_of_perm : forall a b, Permutation a b -> rel D a b.
Proof. intros a b H. exists b. split; [exact H|apply rows_perm_refl]. Qed.

Lemma relD_of_rows : forall a b, Forall2 row_perm a b -> rel D a b.
Proof. intros a b H. exists a. split; [apply Permutation_refl|exact H]. Qed.

Lemma relD_refl : forall a, rel D a a.
Proof. intros a. apply relD_of_perm. apply Permutation_refl. Qed.

Lemma relD_perm_l : forall a a0 b, Permutation a a0 -> rel D a0 b -> rel D a b.
Proof.
  intros a a0 b Hp (a' & Hp' & Hf). exists a'. split; [|exact Hf].
  eapply Permutation_trans; eassumption.
Qed.

Lemma relD_sym : forall a b, rel D a b -> rel D b a.
Proof.
  intros a b (a' & Hp & Hf).
  destruct (Permutation_Forall2 (Permutation_sym Hp) Hf) as (b' & Hpb & Hfb).
  exists b'. split; [exact Hpb|apply rows_perm_sym; exact Hfb].
Qed.

Lemma relD_trans : forall a b d, rel D a b -> rel D b d -> rel D a d.
Proof.
  intros a b d (a' & Hpa & Hfa) (b' & Hpb & Hfb).
  destruct (Permutation_Forall2 Hpb (rows_perm_sym _ _ Hfa)) as (a'' & Hpa' & Hfa').
  exists a''. split; [eapply Permutation_trans; eassumption|].
  eapply rows_perm_trans; [apply rows_perm_sym; exact Hfa'|exact Hfb].
Qed.

Lemma relD_app : forall a1 b1 a2 b2, rel D a1 b1 -> rel D a2 b2 -> rel D (a1 ++ a2) (b1 ++ b2).
Proof.
  intros a1 b1 a2 b2 (a1' & Hp1 & Hf1) (a2' & Hp2 & Hf2). exists (a1' ++ a2').
  split; [apply Permutation_app; assumption|apply Forall2_app; assumption].
Qed.

Lemma relD_flat_map : forall (G : val -> list val) a b,
    (forall x y, row_perm x y -> rel D (G x) (G y)) -> rel D a b ->
    rel D (flat_map G a) (flat_map G b).
Proof.
  intros G a b HG (a' & Hp & Hf).
  apply (relD_perm_l _ (flat_map G a')); [apply Permutation_flat_map; exact Hp|].
  clear Hp. induction Hf as [|x y a' b Hxy Hab IH]; cbn [flat_map]; [apply relD_refl|].
  apply relD_app; [apply HG; exact Hxy|exact IH].
Qed.

Lemma relD_flat_map_perm : forall (G : val -> list val) a b,
    (forall x y, row_perm x y -> Permutation (G x) (G y)) -> rel D a b ->
    Permutation (flat_map G a) (flat_map G b).
Proof.
  intros G a b HG (a' & Hp & Hf).
  eapply Permutation_trans; [apply Permutation_flat_map; exact Hp|].
  clear Hp. induction Hf as [|x y a' b Hxy Hab IH]; cbn [flat_map]; [apply Permutation_refl|].
  apply Permutation_app; [apply HG; exact Hxy|exact IH].
Qed.

(* what a lifted combine reads from grouped rows is the same for D-related inputs *)
Lemma relD_keys : forall a b k, rel D a b -> (In k (map vfst a) <-> In k (map vfst b)).
Proof.
  intros a b k (a' & Hp & Hf). rewrite <- (rows_perm_fst a' b Hf).
  split; apply Permutation_in; apply Permutation_map; [|apply Permutation_sym]; exact Hp.
Qed.

Lemma relD_group_values : forall k a b, rel D a b ->
    Permutation (concat (map vlist (values_of k a))) (concat (map vlist (values_of k b))).
Proof.
  intros k a b (a' & Hp & Hf).
  eapply Permutation_trans;
    [apply perm_concat; apply Permutation_map; apply values_of_perm; exact Hp|].
  clear Hp. unfold values_of. induction Hf as [|x y a' b Hxy Hab IH]; cbn [filter]; [apply Permutation_refl|].
  rewrite (row_perm_fst x y Hxy). destruct (val_eqb (vfst y) k); [|exact IH].
  cbn [map concat]. apply Permutation_app; [apply row_perm_vals; exact Hxy|exact IH].
Qed.

(* ---- the three classes ---- *)
Lemma rel_perm : forall c a b, flat c -> rel c a b -> Permutation a b.
Proof.
  intros [| |] a b Hfl H; cbn [rel flat] in *; [subst; apply Permutation_refl|exact H|contradiction].
Qed.
Lemma rel_relD : forall c a b, rel c a b -> rel D a b.
Proof.
  intros [| |] a b H; cbn [rel] in H; [subst; apply relD_refl|apply relD_of_perm; exact H|exact H].
Qed.
Lemma rel_refl : forall c a, rel c a a.
Proof. intros [| |] a; [reflexivity|apply Permutation_refl|apply relD_refl]. Qed.
Lemma rel_sym : forall c a b, rel c a b -> rel c b a.
Proof.
  intros [| |] a b H; [cbn [rel] in *; congruence|apply Permutation_sym; exact H
                       |apply relD_sym; exact H].
Qed.
Lemma rel_trans : forall c a b d, rel c a b -> rel c b d -> rel c a d.
Proof.
  intros [| |] a b d H1 H2;
    [cbn [rel] in *; congruence|eapply Permutation_trans; eassumption
     |eapply relD_trans; eassumption].
Qed.
Lemma rel_of_eq : forall c a b, a = b -> rel c a b.
Proof. intros c a b ->. apply rel_refl. Qed.
Lemma rel_flat_map : forall c (G : val -> list val) a b,
    flat c -> rel c a b -> rel c (flat_map G a) (flat_map G b).
Proof.
  intros [| |] G a b Hfl H; cbn [rel flat] in *; [congruence| |contradiction].
  exact (Permutation_flat_map G H).
Qed.

(* two partition lists carrying the same rows (up to the order class), all of element type t *)
Definition good (t : tag) (c : cls) (ps qs : list part) : Prop :=
  check_tags t ps = true /\ check_tags t qs = true /\
  rel c (concat (map snd ps)) (concat (map snd qs)).

Lemma good_single : forall t c (a b : list val), rel c a b -> good t c [(t, a)] [(t, b)].
Proof.
  intros t c a b H. unfold good. rewrite !check_tags_one. cbn [fst map snd concat].
  rewrite Nat.eqb_refl, !app_nil_r. auto.
Qed.

Lemma good_sym : forall t c ps qs, good t c ps qs -> good t c qs ps.
Proof. intros t c ps qs (H1 & H2 & H3). repeat split; auto. apply rel_sym. exact H3. Qed.

(* ---- element-wise blocks ---- *)
Lemma ew_ops_sem : forall ops t t',
    Forall ew ops -> tags_ok t ops = Some t' ->
    exists G, forall l, apply_ops ops (t, l) = Ok (t', flat_map G l).
Proof.
  induction ops as [|o r IH]; intros t t' Hew Htags.
  - cbn [tags_ok] in Htags. injection Htags as <-. exists (fun x => [x]). intros l.
    cbn [apply_ops]. rewrite flat_map_single, map_id. reflexivity.
  - inversion Hew as [|o' r' [g Hg] Hr]; subst.
    cbn [tags_ok] in Htags. destruct (Nat.eqb t (op_in o)) eqn:Ht; [|discriminate].
    destruct (IH _ _ Hr Htags) as [G' HG'].
    exists (fun x => flat_map G' (g x)). intros l.
    cbn [apply_ops]. unfold apply_op. cbn [fst snd]. rewrite Ht, Hg. cbn [obind].
    rewrite HG', flat_map_flat_map. reflexivity.
Qed.

Lemma par_stateless_sem : forall ops t t' G ps,
    (forall l, apply_ops ops (t, l) = Ok (t', flat_map G l)) ->
    check_tags t ps = true ->
    par_stateless ops ps = Ok (map (fun p => (t', flat_map G (snd p))) ps).
Proof.
  intros ops t t' G ps HG. unfold par_stateless.
  induction ps as [|[t0 l] ps IH]; intros Hct; [reflexivity|].
  rewrite check_tags_cons in Hct. apply andb_true_iff in Hct. destruct Hct as [H1 H2].
  cbn [fst] in H1. apply Nat.eqb_eq in H1. subst t0.
  cbn [oall map snd]. rewrite HG. cbn [obind]. rewrite (IH H2). reflexivity.
Qed.

(* blocks on class-D rows *)
Lemma ew_dd_ew : forall o, ew_dd o -> ew o.
Proof. intros o (g & Hg & _). exists g. exact Hg. Qed.
Lemma ew_dp_ew : forall o, ew_dp o -> ew o.
Proof. intros o (g & Hg & _). exists g. exact Hg. Qed.

(* the row-by-row flavour of the D -> D side condition *)
Lemma ew_dd_rowwise : forall o g, ew_fn o g ->
    (forall x y, row_perm x y -> Forall2 row_perm (g x) (g y)) -> ew_dd o.
Proof. intros o g Hg H. exists g. split; [exact Hg|]. intros x y Hxy. apply relD_of_rows. auto. Qed.
(* an operator that maps related rows to the same multiset is also class-D preserving *)
Lemma ew_dp_dd : forall o, ew_dp o -> ew_dd o.
Proof.
  intros o (g & Hg & H). exists g. split; [exact Hg|]. intros x y Hxy. apply relD_of_perm. auto.
Qed.

Lemma ew_dd_ops_sem : forall ops t t',
    Forall ew_dd ops -> tags_ok t ops = Some t' ->
    exists G, (forall l, apply_ops ops (t, l) = Ok (t', flat_map G l)) /\
              (forall x y, row_perm x y -> rel D (G x) (G y)).
Proof.
  induction ops as [|o r IH]; intros t t' Hew Htags.
  - cbn [tags_ok] in Htags. injection Htags as <-. exists (fun x => [x]). split.
    + intros l. cbn [apply_ops]. rewrite flat_map_single, map_id. reflexivity.
    + intros x y Hxy. apply relD_of_rows. constructor; [exact Hxy|constructor].
  - inversion Hew as [|o' r' (g & Hg & Hinv) Hr]; subst.
    cbn [tags_ok] in Htags. destruct (Nat.eqb t (op_in o)) eqn:Ht; [|discriminate].
    destruct (IH _ _ Hr Htags) as (G' & HG' & Hinv').
    exists (fun x => flat_map G' (g x)). split.
    + intros l. cbn [apply_ops]. unfold apply_op. cbn [fst snd]. rewrite Ht, Hg. cbn [obind].
      rewrite HG', flat_map_flat_map. reflexivity.
    + intros x y Hxy. apply relD_flat_map; [exact Hinv'|apply Hinv; exact Hxy].
Qed.

Lemma ew_dp_ops_sem : forall ops1 o ops2 t t',
    Forall ew_dd ops1 -> ew_dp o -> Forall ew ops2 ->
    tags_ok t (ops1 ++ o :: ops2) = Some t' ->
    exists G, (forall l, apply_ops (ops1 ++ o :: ops2) (t, l) = Ok (t', flat_map G l)) /\
              (forall x y, row_perm x y -> Permutation (G x) (G y)).
Proof.
  induction ops1 as [|o1 r IH]; intros o ops2 t t' Hdd (g & Hg & Hinv) Hew Htags.
  - cbn [app] in *. cbn [tags_ok] in Htags.
    destruct (Nat.eqb t (op_in o)) eqn:Ht; [|discriminate].
    destruct (ew_ops_sem ops2 _ _ Hew Htags) as [G2 HG2].
    exists (fun x => flat_map G2 (g x)). split.
    + intros l. cbn [apply_ops]. unfold apply_op. cbn [fst snd]. rewrite Ht, Hg. cbn [obind].
      rewrite HG2, flat_map_flat_map. reflexivity.
    + intros x y Hxy. apply Permutation_flat_map. apply Hinv. exact Hxy.
  - inversion Hdd as [|o' r' (g1 & Hg1 & Hinv1) Hr]; subst.
    cbn [app] in *. cbn [tags_ok] in Htags.
    destruct (Nat.eqb t (op_in o1)) eqn:Ht; [|discriminate].
    destruct (IH o ops2 _ _ Hr (ex_intro _ g (conj Hg Hinv)) Hew Htags) as (G' & HG' & Hinv').
    exists (fun x => flat_map G' (g1 x)). split.
    + intros l. cbn [apply_ops]. unfold apply_op. cbn [fst snd]. rewrite Ht, Hg1. cbn [obind].
      rewrite HG', flat_map_flat_map. reflexivity.
    + intros x y Hxy. apply relD_flat_map_perm; [exact Hinv'|apply Hinv1; exact Hxy].
Qed.

(* every classified Stateless node is a well-tagged block of element-wise operators *)
Lemma node_stateless_ew : forall t c ops t' c',
    node_cls t c (BStateless ops) t' c' -> Forall ew ops /\ tags_ok t ops = Some t'.
Proof.
  intros t c ops t' c' H. inversion H as [t0 c0 ops0 t0' Hfl Hew Htags
                                          | t0 ops0 t0' Hdd Htags
                                          | t0 ops1 o ops2 t0' Hdd Hdp Hew Htags
                                          | | | | | ]; subst.
  - split; assumption.
  - split; [|exact Htags]. eapply Forall_impl; [apply ew_dd_ew|exact Hdd].
  - split; [|exact Htags]. apply Forall_app. split.
    + eapply Forall_impl; [apply ew_dd_ew|exact Hdd].
    + constructor; [apply ew_dp_ew; exact Hdp|exact Hew].
Qed.

Lemma check_tags_tagged_map : forall t (f : part -> list val) (ps : list part),
    check_tags t (map (fun p => (t, f p)) ps) = true.
Proof.
  intros t f ps. unfold check_tags. induction ps as [|p ps IH]; cbn [map forallb fst]; [reflexivity|].
  rewrite Nat.eqb_refl. exact IH.
Qed.

Lemma concat_tagged_map : forall (t : tag) (G : val -> list val) (ps : list part),
    concat (map snd (map (fun p : part => (t, flat_map G (snd p))) ps))
    = flat_map G (concat (map snd ps)).
Proof.
  intros t G ps. rewrite flat_map_concat, !map_map. reflexivity.
Qed.

(* ---- per-key outputs: duplicate-free keys + determined value per key ---- *)
Lemma keyed_perm : forall (L1 L2 : list val),
    NoDup (map vfst L1) -> NoDup (map vfst L2) ->
    (forall k, In k (map vfst L1) <-> In k (map vfst L2)) ->
    (forall g1 g2, In g1 L1 -> In g2 L2 -> vfst g1 = vfst g2 -> g1 = g2) ->
    Permutation L1 L2.
Proof.
  intros L1 L2 Hn1 Hn2 Hk Hdet.
  apply NoDup_Permutation; [eapply NoDup_map_inv; exact Hn1 | eapply NoDup_map_inv; exact Hn2|].
  intros x. split; intros Hin.
  - assert (Hkx : In (vfst x) (map vfst L2)) by (apply Hk; apply in_map; exact Hin).
    apply in_map_iff in Hkx. destruct Hkx as (g2 & Hg2 & Hin2).
    rewrite (Hdet x g2 Hin Hin2 (eq_sym Hg2)). exact Hin2.
  - assert (Hkx : In (vfst x) (map vfst L1)) by (apply Hk; apply in_map; exact Hin).
    apply in_map_iff in Hkx. destruct Hkx as (g1 & Hg1 & Hin1).
    rewrite <- (Hdet g1 x Hin1 Hin Hg1). exact Hin1.
Qed.

(* the class-D analogue: per key, the two outputs are related rows *)
Lemma keyed_rowperm : forall (L2 L1 : list val),
    NoDup (map vfst L1) -> NoDup (map vfst L2) ->
    (forall k, In k (map vfst L1) <-> In k (map vfst L2)) ->
    (forall g1 g2, In g1 L1 -> In g2 L2 -> vfst g1 = vfst g2 -> row_perm g1 g2) ->
    rel D L1 L2.
Proof.
  induction L2 as [|g2 r2 IH]; intros L1 Hn1 Hn2 Hk Hdet.
  - destruct L1 as [|g1 r1]; [apply relD_refl|].
    exfalso. apply (proj1 (Hk (vfst g1))). cbn [map In]. left. reflexivity.
  - cbn [map] in Hn2. inversion Hn2 as [|k0 ks0 Hnotin2 Hn2']; subst.
    assert (Hin : In (vfst g2) (map vfst L1)) by (apply Hk; cbn [map In]; left; reflexivity).
    apply in_map_iff in Hin. destruct Hin as (g1 & Hg1 & Hin1).
    apply in_split in Hin1. destruct Hin1 as (u & v & HL1). subst L1.
    rewrite map_app in Hn1. cbn [map] in Hn1.
    pose proof (NoDup_remove_1 _ _ _ Hn1) as Hn1'. pose proof (NoDup_remove_2 _ _ _ Hn1) as Hnotin1.
    rewrite <- map_app in Hn1', Hnotin1.
    assert (Hrest : rel D (u ++ v) r2).
    { apply IH; [exact Hn1'|exact Hn2'| |].
      - intros k. split; intros Hkin.
        + assert (Hk2 : In k (map vfst (g2 :: r2))).
          { apply Hk. rewrite map_app in *. cbn [map]. apply in_app_iff in Hkin.
            apply in_app_iff. destruct Hkin as [H|H]; [left; exact H|right; right; exact H]. }
          cbn [map In] in Hk2. destruct Hk2 as [He|H]; [|exact H].
          exfalso. apply Hnotin1. rewrite Hg1, He. exact Hkin.
        + assert (Hk1 : In k (map vfst (u ++ g1 :: v))) by (apply Hk; cbn [map In]; right; exact Hkin).
          rewrite map_app in Hk1. cbn [map] in Hk1. apply in_app_iff in Hk1.
          rewrite map_app. apply in_app_iff.
          destruct Hk1 as [H|[He|H]]; [left; exact H| |right; exact H].
          exfalso. apply Hnotin2. rewrite <- Hg1, He. exact Hkin.
      - intros x y Hx Hy Hxy. apply Hdet; [|right; exact Hy|exact Hxy].
        apply in_app_iff in Hx. apply in_app_iff.
        destruct Hx as [H|H]; [left; exact H|right; right; exact H]. }
    destruct Hrest as (a'' & Hp & Hf). exists (g1 :: a''). split.
    + apply Permutation_sym. apply Permutation_cons_app. apply Permutation_sym. exact Hp.
    + constructor; [|exact Hf].
      apply Hdet; [apply in_app_iff; right; left; reflexivity|left; reflexivity|exact Hg1].
Qed.

(* GroupByKey on rows known as a multiset: the groups as a multiset, each group's values as a
   multiset *)
Lemma gbk_from_perm : forall sh sh' i j ps qs,
    perm_oracle sh -> perm_oracle sh' -> Permutation (concat ps) (concat qs) ->
    rel D (gbk_merge sh i (map gbk_local ps)) (gbk_merge sh' j (map gbk_local qs)).
Proof.
  intros sh sh' i j ps qs Hsh Hsh' Hp. apply keyed_rowperm.
  - apply gbk_keys_unique. exact Hsh.
  - apply gbk_keys_unique. exact Hsh'.
  - intros k. rewrite (gbk_keys_exact sh i ps k Hsh), (gbk_keys_exact sh' j qs k Hsh').
    split; apply Permutation_in; apply Permutation_map; [|apply Permutation_sym]; exact Hp.
  - intros g1 g2 H1 H2 Hk.
    rewrite (gbk_groups_exact sh i ps g1 Hsh H1), (gbk_groups_exact sh' j qs g2 Hsh' H2), Hk.
    apply row_perm_groups. apply values_of_perm. exact Hp.
Qed.

Lemma cvl_keys_exact : forall (sh : nat -> list val -> list val) (A : Type)
    (c : combiner val A val) (site : nat) (gps : list (list val)) (k : val),
    (forall i l, Permutation (sh i l) l) ->
    (In k (map vfst (cv_merge sh A c site (map (cv_local_groups A c) gps)))
     <-> In k (map vfst (concat gps))).
Proof.
  intros sh A c site gps k Hsh. rewrite (cv_merge_keys A c sh Hsh).
  apply local_keys_concat. apply cv_local_groups_keys.
Qed.

Lemma group_values_perm : forall k rows rows',
    Permutation rows rows' ->
    Permutation (concat (map vlist (values_of k rows))) (concat (map vlist (values_of k rows'))).
Proof.
  intros k rows rows' H. apply perm_concat. apply Permutation_map. apply values_of_perm. exact H.
Qed.

Section PerKey.
  Variables sh sh' : nat -> list val -> list val.
  Hypothesis Hsh : perm_oracle sh.
  Hypothesis Hsh' : perm_oracle sh'.
  Variable A : Type.
  Variable c : combiner val A val.
  Variable R : A -> list val -> Prop.
  Variable spec : list val -> val -> Prop.
  Hypothesis L : lawful c R spec.
  Hypothesis Hfun : functional spec.
  Hypothesis Hinv : forall m m' o, Permutation m m' -> spec m o -> spec m' o.

  Lemma cv_pairs_perm : forall i j ps qs,
      Permutation (concat ps) (concat qs) ->
      Permutation (cv_merge sh A c i (map (cv_local_pairs A c) ps))
                  (cv_merge sh' A c j (map (cv_local_pairs A c) qs)).
  Proof.
    intros i j ps qs Hp. apply keyed_perm.
    - apply cv_keys_unique. exact Hsh.
    - apply cv_keys_unique. exact Hsh'.
    - intros k. rewrite (cv_keys_exact sh A c i ps k Hsh), (cv_keys_exact sh' A c j qs k Hsh').
      split; apply Permutation_in; apply Permutation_map; [|apply Permutation_sym]; exact Hp.
    - intros g1 g2 H1 H2 Hk.
      destruct (cv_value sh A c R spec i ps g1 Hsh L H1) as (o1 & E1 & S1).
      destruct (cv_value sh' A c R spec j qs g2 Hsh' L H2) as (o2 & E2 & S2).
      rewrite E1, E2, Hk. f_equal. rewrite Hk in S1.
      apply (Hfun (values_of (vfst g2) (concat qs))); [|exact S2].
      eapply Hinv; [|exact S1]. apply values_of_perm. exact Hp.
  Qed.

  (* the lifted local reads, per key, the concatenation of that key's groups *)
  Lemma cv_groups_perm : forall i j ps qs,
      (forall k, In k (map vfst (concat ps)) <-> In k (map vfst (concat qs))) ->
      (forall k, Permutation (concat (map vlist (values_of k (concat ps))))
                             (concat (map vlist (values_of k (concat qs))))) ->
      Permutation (cv_merge sh A c i (map (cv_local_groups A c) ps))
                  (cv_merge sh' A c j (map (cv_local_groups A c) qs)).
  Proof.
    intros i j ps qs Hkeys Hvals. apply keyed_perm.
    - apply cvl_keys_unique. exact Hsh.
    - apply cvl_keys_unique. exact Hsh'.
    - intros k. rewrite (cvl_keys_exact sh A c i ps k Hsh), (cvl_keys_exact sh' A c j qs k Hsh').
      apply Hkeys.
    - intros g1 g2 H1 H2 Hk.
      destruct (cvl_value sh A c R spec i ps g1 Hsh L H1) as (o1 & E1 & S1).
      destruct (cvl_value sh' A c R spec j qs g2 Hsh' L H2) as (o2 & E2 & S2).
      rewrite E1, E2, Hk. f_equal. rewrite Hk in S1.
      apply (Hfun (concat (map vlist (values_of (vfst g2) (concat qs))))); [|exact S2].
      eapply Hinv; [|exact S1]. apply Hvals.
  Qed.
End PerKey.

Lemma map_local_snd : forall {X : Type} (f : list val -> X) (ps : list part),
    map (fun p => f (snd p)) ps = map f (map snd ps).
Proof. intros X f ps. rewrite map_map. reflexivity. Qed.

Lemma node_partition_independent_good : forall sh sh' i j t c b t' c' ps qs,
    perm_oracle sh -> perm_oracle sh' -> node_cls t c b t' c' -> good t c ps qs ->
    exists ps' qs',
      par_bnode sh i b ps = Ok ps' /\ par_bnode sh' j b qs = Ok qs' /\ good t' c' ps' qs'.
Proof.
  intros sh sh' i j t c b t' c' ps qs Hsh Hsh' Hcls (Hps & Hqs & Hrel).
  destruct Hcls as [t c ops t' Hfl Hew Htags | t ops t' Hdd Htags
                    | t ops1 o ops2 t' Hdd Hdp Hew Htags | t t' | t t'
                    | t c cb tg t' Hfl Hlaw | t c cb tp t' Hlaw
                    | t c cb lifted t' fanout Hfl Hlaw].
  - (* element-wise block *)
    destruct (ew_ops_sem ops t t' Hew Htags) as [G HG].
    eexists. eexists. cbn [par_bnode].
    rewrite (par_stateless_sem ops t t' G ps HG Hps), (par_stateless_sem ops t t' G qs HG Hqs).
    split; [reflexivity|]. split; [reflexivity|].
    unfold good. rewrite !check_tags_tagged_map, !concat_tagged_map.
    split; [reflexivity|]. split; [reflexivity|]. apply rel_flat_map; [exact Hfl|exact Hrel].
  - (* class-D preserving block *)
    destruct (ew_dd_ops_sem ops t t' Hdd Htags) as (G & HG & Hinv).
    eexists. eexists. cbn [par_bnode].
    rewrite (par_stateless_sem ops t t' G ps HG Hps), (par_stateless_sem ops t t' G qs HG Hqs).
    split; [reflexivity|]. split; [reflexivity|].
    unfold good. rewrite !check_tags_tagged_map, !concat_tagged_map.
    split; [reflexivity|]. split; [reflexivity|]. apply relD_flat_map; [exact Hinv|exact Hrel].
  - (* block that forgets the order inside the groups *)
    destruct (ew_dp_ops_sem ops1 o ops2 t t' Hdd Hdp Hew Htags) as (G & HG & Hinv).
    eexists. eexists. cbn [par_bnode].
    rewrite (par_stateless_sem _ t t' G ps HG Hps), (par_stateless_sem _ t t' G qs HG Hqs).
    split; [reflexivity|]. split; [reflexivity|].
    unfold good. rewrite !check_tags_tagged_map, !concat_tagged_map.
    split; [reflexivity|]. split; [reflexivity|]. cbn [rel].
    apply relD_flat_map_perm; [exact Hinv|exact Hrel].
  - (* GroupByKey on a determined sequence *)
    cbn [par_bnode]. unfold run_gbk. rewrite Hps, Hqs. cbn [omap_out obind].
    eexists. eexists. split; [reflexivity|]. split; [reflexivity|].
    apply good_single. cbn [rel] in *. rewrite !map_local_snd.
    apply gbk_partition_independent; assumption.
  - (* GroupByKey on a multiset *)
    cbn [par_bnode]. unfold run_gbk. rewrite Hps, Hqs. cbn [omap_out obind].
    eexists. eexists. split; [reflexivity|]. split; [reflexivity|].
    apply good_single. rewrite !map_local_snd.
    apply gbk_from_perm; [exact Hsh|exact Hsh'|exact Hrel].
  - (* CombineValues on pairs *)
    destruct Hlaw as (R & spec & L & Hfun & Hinv).
    cbn [par_bnode]. unfold run_combine_values. rewrite Hps, Hqs. cbn [omap_out obind].
    eexists. eexists. split; [reflexivity|]. split; [reflexivity|].
    apply good_single. cbn [rel]. rewrite !map_local_snd.
    apply (cv_pairs_perm sh sh' Hsh Hsh' (vc_A cb) (vc_c cb) R spec L Hfun Hinv).
    eapply rel_perm; [exact Hfl|exact Hrel].
  - (* lifted CombineValues on grouped rows, any class *)
    destruct Hlaw as (R & spec & L & Hfun & Hinv).
    cbn [par_bnode]. unfold run_combine_values. rewrite Hps, Hqs. cbn [omap_out obind].
    eexists. eexists. split; [reflexivity|]. split; [reflexivity|].
    apply good_single. cbn [rel]. rewrite !map_local_snd.
    pose proof (rel_relD _ _ _ Hrel) as HrelD.
    apply (cv_groups_perm sh sh' Hsh Hsh' (vc_A cb) (vc_c cb) R spec L Hfun Hinv).
    + intros k. apply relD_keys. exact HrelD.
    + intros k. apply relD_group_values. exact HrelD.
  - (* CombineGlobal *)
    destruct Hlaw as (R & spec & L & Hfun & Hinv). destruct cb as [A cmb]. cbn [vc_A vc_c] in *.
    destruct (cg_par_spec A cmb R spec lifted t t' fanout ps L Hps) as (o1 & E1 & S1).
    destruct (cg_par_spec A cmb R spec lifted t t' fanout qs L Hqs) as (o2 & E2 & S2).
    cbn [par_bnode]. rewrite E1, E2. cbn [omap_out obind].
    eexists. eexists. split; [reflexivity|]. split; [reflexivity|].
    apply good_single. cbn [rel]. f_equal.
    apply (Hfun (concat (map snd qs))); [|exact S2].
    eapply Hinv; [|exact S1]. eapply rel_perm; [exact Hfl|exact Hrel].
Qed.

Lemma node_partition_independent : forall sh sh' i j t c b t' c' ps qs,
    perm_oracle sh -> perm_oracle sh' -> node_cls t c b t' c' ->
    check_tags t ps = true -> check_tags t qs = true ->
    rel c (concat (map snd ps)) (concat (map snd qs)) ->
    exists ps' qs',
      par_bnode sh i b ps = Ok ps' /\ par_bnode sh' j b qs = Ok qs' /\
      check_tags t' ps' = true /\ check_tags t' qs' = true /\
      rel c' (concat (map snd ps')) (concat (map snd qs')).
Proof.
  intros sh sh' i j t c b t' c' ps qs Hsh Hsh' Hcls Hps Hqs Hrel.
  destruct (node_partition_independent_good sh sh' i j t c b t' c' ps qs Hsh Hsh' Hcls
              (conj Hps (conj Hqs Hrel))) as (ps' & qs' & E1 & E2 & G1 & G2 & G3).
  exists ps', qs'. auto.
Qed.

(* ================= (3b) GroupByKey + lifted combine = direct combine ================= *)

Lemma filter_key_notin : forall k (G : list val),
    ~ In k (map vfst G) -> filter (fun r => val_eqb (vfst r) k) G = [].
Proof.
  intros k G. induction G as [|x G IH]; intros Hn; [reflexivity|].
  cbn [filter]. cbn [map In] in Hn.
  destruct (val_eqb_spec (vfst x) k) as [He|Hne]; [exfalso; apply Hn; left; exact He|].
  apply IH. intros Hin. apply Hn. right. exact Hin.
Qed.

Lemma filter_key_nodup : forall k (G : list val),
    NoDup (map vfst G) ->
    (~ In k (map vfst G) /\ filter (fun r => val_eqb (vfst r) k) G = []) \/
    (exists g, In g G /\ vfst g = k /\ filter (fun r => val_eqb (vfst r) k) G = [g]).
Proof.
  intros k G. induction G as [|x G IH]; intros Hnd.
  - left. split; [intros []|reflexivity].
  - cbn [map] in Hnd. inversion Hnd as [|? ? Hx Hnd']; subst.
    cbn [filter]. destruct (val_eqb_spec (vfst x) k) as [He|Hne].
    + right. exists x. split; [left; reflexivity|]. split; [exact He|].
      rewrite filter_key_notin; [reflexivity|]. rewrite <- He. exact Hx.
    + destruct (IH Hnd') as [[Hn Hf]|(g & Hin & Hk & Hf)].
      * left. split; [|exact Hf]. cbn [map In]. intros [H|H]; [congruence|exact (Hn H)].
      * right. exists g. split; [right; exact Hin|]. split; [exact Hk|exact Hf].
Qed.

Lemma gbk_group_values : forall sh site ps k, perm_oracle sh ->
    concat (map vlist (values_of k (gbk_merge sh site (map gbk_local ps))))
    = values_of k (concat ps).
Proof.
  intros sh site ps k Hsh. unfold values_of at 1.
  destruct (filter_key_nodup k _ (gbk_keys_unique sh site ps Hsh)) as [[Hn Hf]|(g & Hin & Hk & Hf)];
    rewrite Hf; cbn [map concat].
  - symmetry. apply values_of_notin. intros Hin. apply Hn.
    apply (gbk_keys_exact sh site ps k Hsh). exact Hin.
  - rewrite (gbk_groups_exact sh site ps g Hsh Hin). cbn [vsnd vlist]. rewrite Hk.
    apply app_nil_r.
Qed.

Lemma lift_pair_sound : forall sh sh' i j cb tp tg tout ps qs,
    perm_oracle sh -> perm_oracle sh' -> lawful_vcomb cb ->
    check_tags tp ps = true -> check_tags tp qs = true ->
    Permutation (concat (map snd ps)) (concat (map snd qs)) ->
    exists g r1 r2,
      run_gbk sh i tp tg ps = Ok g /\
      run_combine_values sh (S i) cb tp tg tout true [g] = Ok r1 /\
      run_combine_values sh' j cb tp tg tout false qs = Ok r2 /\
      fst r1 = tout /\ fst r2 = tout /\ Permutation (snd r1) (snd r2).
Proof.
  intros sh sh' i j cb tp tg tout ps qs Hsh Hsh' (R & spec & L & Hfun & Hinv) Hps Hqs Hp.
  unfold run_gbk, run_combine_values. rewrite Hps, Hqs.
  eexists. eexists. eexists. split; [reflexivity|].
  rewrite check_tags_one. cbn [fst]. rewrite Nat.eqb_refl.
  split; [reflexivity|]. split; [reflexivity|]. cbn [fst snd map].
  split; [reflexivity|]. split; [reflexivity|].
  rewrite !map_local_snd.
  set (G := gbk_merge sh i (map gbk_local (map snd ps))).
  change [cv_local_groups (vc_A cb) (vc_c cb) G] with (map (cv_local_groups (vc_A cb) (vc_c cb)) [G]).
  assert (HG : forall k, concat (map vlist (values_of k (concat [G])))
                         = values_of k (concat (map snd ps))).
  { intros k. cbn [concat]. rewrite app_nil_r. apply gbk_group_values. exact Hsh. }
  apply keyed_perm.
  - apply cvl_keys_unique. exact Hsh.
  - apply cv_keys_unique. exact Hsh'.
  - intros k. rewrite (cvl_keys_exact sh _ _ (S i) [G] k Hsh), (cv_keys_exact sh' _ _ j _ k Hsh').
    cbn [concat]. rewrite app_nil_r. unfold G. rewrite (gbk_keys_exact sh i (map snd ps) k Hsh).
    split; apply Permutation_in; apply Permutation_map; [|apply Permutation_sym]; exact Hp.
  - intros g1 g2 H1 H2 Hk.
    destruct (cvl_value sh _ _ R spec (S i) [G] g1 Hsh L H1) as (o1 & E1 & S1).
    destruct (cv_value sh' _ _ R spec j _ g2 Hsh' L H2) as (o2 & E2 & S2).
    rewrite E1, E2, Hk. f_equal. rewrite HG, Hk in S1.
    apply (Hfun (values_of (vfst g2) (concat (map snd qs)))); [|exact S2].
    eapply Hinv; [|exact S1]. apply values_of_perm. exact Hp.
Qed.

(* ================= (4) chains ================= *)

(* the partition loop of either engine over basic nodes *)
Fixpoint par_chain (sh : nat -> list val -> list val) (i : nat) (bs : list bnode)
         (curr : list part) : outcome (list part) :=
  match bs with
  | [] => Ok curr
  | b :: r => obind (par_bnode sh i b curr) (par_chain sh (next_site i b) r)
  end.

Fixpoint seq_chain (sh : nat -> list val -> list val) (i : nat) (term : tag) (bs : list bnode)
         (p : part) : outcome part :=
  match bs with
  | [] => Ok p
  | b :: r => obind (seq_bnode sh i term false b (Some p)) (seq_chain sh (next_site i b) term r)
  end.

Lemma par_main_NB : forall sh parts bs i curr,
    par_main sh i parts (map NB bs) curr = par_chain sh i bs curr.
Proof.
  intros sh parts bs. induction bs as [|b r IH]; intros i curr; cbn [map par_main par_chain];
    [reflexivity|].
  apply obind_ext. intros a. apply IH.
Qed.

Lemma par_sub_rest_SB : forall sh bs i curr,
    par_sub_rest sh i (map SB bs) curr = par_chain sh i bs curr.
Proof.
  intros sh bs. induction bs as [|b r IH]; intros i curr; cbn [map par_sub_rest par_chain];
    [reflexivity|].
  apply obind_ext. intros a. apply IH.
Qed.

Lemma omap_out_obind : forall {A B C : Type} (o : outcome A) (f : A -> outcome B) (g : B -> C),
    omap_out g (obind o f) = obind o (fun a => omap_out g (f a)).
Proof. intros A B C o f g. destruct o as [a|e| |]; reflexivity. Qed.

Lemma seq_main_NB : forall sh term bs i p,
    seq_main sh i term (map NB bs) (Some p) = omap_out Some (seq_chain sh i term bs p).
Proof.
  intros sh term bs. induction bs as [|b r IH]; intros i p; cbn [map seq_main seq_chain];
    [reflexivity|].
  rewrite omap_out_obind. apply obind_ext. intros a. apply IH.
Qed.

Lemma seq_bnode_sub : forall sh i term b buf,
    plainb b -> seq_bnode sh i 0 true b buf = seq_bnode sh i term false b buf.
Proof. intros sh i term b buf Hb. destruct b; try contradiction; reflexivity. Qed.

Lemma seq_sub_SB : forall sh term bs i p,
    Forall plainb bs ->
    seq_sub sh i (map SB bs) (Some p) = omap_out Some (seq_chain sh i term bs p).
Proof.
  intros sh term bs. induction bs as [|b r IH]; intros i p Hpl; cbn [map seq_sub seq_chain];
    [reflexivity|].
  inversion Hpl as [|? ? Hb Hr]; subst.
  rewrite omap_out_obind, (seq_bnode_sub sh i term b (Some p) Hb).
  apply obind_ext. intros a. apply IH. exact Hr.
Qed.

Lemma par_bnode_single : forall sh i b p x,
    plainb b -> par_bnode sh i b [p] = Ok x -> exists p1, x = [p1].
Proof.
  intros sh i b p x Hb H.
  destruct b as [s|ops|tin tout|cb tp tg tout lg|cb lifted tin tout fanout|t pl];
    try contradiction; cbn [par_bnode] in H.
  - unfold par_stateless in H. cbn [oall] in H.
    destruct (apply_ops ops p) as [q|e| |]; cbn [obind] in H; try discriminate.
    injection H as <-. eexists. reflexivity.
  - destruct (run_gbk sh i tin tout [p]) as [q|e| |]; cbn [omap_out obind] in H; try discriminate.
    injection H as <-. eexists. reflexivity.
  - destruct (run_combine_values sh i cb tp tg tout lg [p]) as [q|e| |];
      cbn [omap_out obind] in H; try discriminate.
    injection H as <-. eexists. reflexivity.
  - destruct (run_combine_global_par cb lifted tin tout fanout [p]) as [q|e| |];
      cbn [omap_out obind] in H; try discriminate.
    injection H as <-. eexists. reflexivity.
Qed.

Lemma seq_par_chain : forall sh term bs i p ps',
    Forall plainb bs -> par_chain sh i bs [p] = Ok ps' ->
    exists p', ps' = [p'] /\ seq_chain sh i term bs p = Ok p'.
Proof.
  intros sh term bs. induction bs as [|b r IH]; intros i p ps' Hpl H.
  - cbn [par_chain] in H. injection H as <-. exists p. split; reflexivity.
  - inversion Hpl as [|? ? Hb Hr]; subst. cbn [par_chain] in H.
    apply obind_ok in H. destruct H as (x & Hx & Hrest).
    destruct (par_bnode_single sh i b p x Hb Hx) as [p1 ->].
    destruct (IH _ _ _ Hr Hrest) as (p' & -> & Hseq).
    exists p'. split; [reflexivity|].
    cbn [seq_chain]. rewrite (seq_is_one_partition sh i term b p Hb), Hx. cbn [obind]. exact Hseq.
Qed.

(* a classified chain (left) and a rewritten chain (right): same node, an element-wise block
   fused with the next one, or GroupByKey + lifted combine replaced by the direct combine *)
Inductive chain_sim : tag -> cls -> list bnode -> list bnode -> tag -> cls -> Prop :=
| cs_nil : forall t c, chain_sim t c [] [] t c
| cs_same : forall t c b t1 c1 r r' t2 c2,
    node_cls t c b t1 c1 -> chain_sim t1 c1 r r' t2 c2 -> chain_sim t c (b :: r) (b :: r') t2 c2
| cs_fuse : forall t c ops t1 c1 ops' r r' t2 c2,
    node_cls t c (BStateless ops) t1 c1 ->
    chain_sim t1 c1 r (BStateless ops' :: r') t2 c2 ->
    chain_sim t c (BStateless ops :: r) (BStateless (ops ++ ops') :: r') t2 c2
| cs_lift : forall a c cb tg tout r r' t2 c2,
    flat c -> lawful_vcomb cb -> chain_sim tout P r r' t2 c2 ->
    chain_sim a c (BGroupByKey a tg :: BCombineValues cb a tg tout true :: r)
              (BCombineValues cb a tg tout false :: r') t2 c2.

Lemma chain_sim_refl : forall t c bs t' c', chain_cls t c bs t' c' -> chain_sim t c bs bs t' c'.
Proof.
  intros t c bs t' c' H. induction H as [t c|t c b t1 c1 r t2 c2 Hn Hr IH].
  - apply cs_nil.
  - eapply cs_same; eassumption.
Qed.

Lemma node_cls_plain : forall t c b t' c', node_cls t c b t' c' -> plainb b.
Proof. intros t c b t' c' H. destruct H; exact I. Qed.

Lemma chain_sim_plain : forall t c bs bs' t' c',
    chain_sim t c bs bs' t' c' -> Forall plainb bs /\ Forall plainb bs'.
Proof.
  intros t c bs bs' t' c' H.
  induction H as [t c|t c b t1 c1 r r' t2 c2 Hn Hr [IH1 IH2]
                  |t c ops t1 c1 ops' r r' t2 c2 Hn Hr [IH1 IH2]
                  |a c cb tg tout r r' t2 c2 Hfl Hlaw Hr [IH1 IH2]].
  - split; constructor.
  - pose proof (node_cls_plain _ _ _ _ _ Hn) as Hb. split; constructor; assumption.
  - inversion IH2 as [|? ? _ IH2']; subst. split; constructor; try exact I; assumption.
  - split; repeat constructor; assumption.
Qed.

Lemma par_chain_fused : forall sh j ops ops' r qs,
    par_chain sh j (BStateless (ops ++ ops') :: r) qs
    = par_chain sh j (BStateless ops :: BStateless ops' :: r) qs.
Proof.
  intros sh j ops ops' r qs. cbn [par_chain par_bnode next_site]. unfold par_stateless.
  rewrite oall_apply_ops_app, obind_assoc. reflexivity.
Qed.

Lemma chain_sim_sound : forall sh sh', perm_oracle sh -> perm_oracle sh' ->
    forall t c bs bs' t' c', chain_sim t c bs bs' t' c' ->
    forall i j ps qs, good t c ps qs ->
    exists ps' qs',
      par_chain sh i bs ps = Ok ps' /\ par_chain sh' j bs' qs = Ok qs' /\ good t' c' ps' qs'.
Proof.
  intros sh sh' Hsh Hsh' t c bs bs' t' c' H.
  induction H as [t c|t c b t1 c1 r r' t2 c2 Hn Hr IH
                  |t c ops t1 c1 ops' r r' t2 c2 Hn Hr IH
                  |a c cb tg tout r r' t2 c2 Hfl Hlaw Hr IH]; intros i j ps qs Hgood.
  - exists ps, qs. split; [reflexivity|]. split; [reflexivity|exact Hgood].
  - destruct (node_partition_independent_good sh sh' i j _ _ _ _ _ ps qs Hsh Hsh' Hn Hgood)
      as (ps1 & qs1 & E1 & E2 & G1).
    destruct (IH (next_site i b) (next_site j b) ps1 qs1 G1) as (ps' & qs' & F1 & F2 & G').
    exists ps', qs'. cbn [par_chain]. rewrite E1, E2. cbn [obind]. auto.
  - destruct (node_partition_independent_good sh sh' i j _ _ _ _ _ ps qs Hsh Hsh' Hn Hgood)
      as (ps1 & qs1 & E1 & E2 & G1).
    destruct (IH i j ps1 qs1 G1) as (ps' & qs' & F1 & F2 & G').
    exists ps', qs'. rewrite par_chain_fused.
    cbn [par_chain next_site] in *. rewrite E1, E2. cbn [obind]. auto.
  - destruct Hgood as (Hps & Hqs & Hrel).
    assert (Hp : Permutation (concat (map snd ps)) (concat (map snd qs)))
      by (eapply rel_perm; [exact Hfl|exact Hrel]).
    destruct (lift_pair_sound sh sh' i j cb a tg tout ps qs Hsh Hsh' Hlaw Hps Hqs Hp)
      as (g & [u1 l1] & [u2 l2] & E1 & E2 & E3 & T1 & T2 & Hperm).
    cbn [fst snd] in T1, T2, Hperm. subst u1 u2.
    assert (G1 : good tout P [(tout, l1)] [(tout, l2)]) by (apply good_single; exact Hperm).
    destruct (IH (S (S i)) (S j) _ _ G1) as (ps' & qs' & F1 & F2 & G').
    exists ps', qs'. cbn [par_chain par_bnode next_site].
    rewrite E1. cbn [omap_out obind]. rewrite E2, E3. cbn [omap_out obind]. auto.
Qed.

(* ================= (5) plans ================= *)

(* an execution mode: Some parts = parallel engine with that partition count, None = sequential *)
Definition exec_mode (m : option nat) (sh : nat -> list val -> list val) (t : tag)
           (chain : list node) : outcome (list val) :=
  match m with Some parts => exec_par sh t chain parts | None => exec_seq sh t chain end.

Definition start_parts (s : source) (m : option nat) : list part :=
  match m with Some parts => source_parts s parts | None => [(s_tag s, s_all s)] end.

Definition run_side_mode (m : option nat) (sh : nat -> list val -> list val) (site : nat)
           (side : list snode) : outcome (list part) :=
  match m with
  | Some parts => run_subplan_par sh site side parts
  | None => omap_out (fun p => [p]) (run_subplan_seq sh site side)
  end.

Lemma start_parts_rows : forall s m, coherent s ->
    check_tags (s_tag s) (start_parts s m) = true /\
    concat (map snd (start_parts s m)) = s_all s.
Proof.
  intros s m Hcoh. destruct m as [parts|]; cbn [start_parts].
  - unfold source_parts. split; [apply check_tags_tagged|].
    rewrite map_map. cbn [snd]. rewrite map_id. apply Hcoh.
  - rewrite check_tags_one. cbn [fst map snd concat]. rewrite Nat.eqb_refl, app_nil_r. auto.
Qed.

Lemma start_parts_good : forall s m m', coherent s ->
    good (s_tag s) E (start_parts s m) (start_parts s m').
Proof.
  intros s m m' Hcoh.
  destruct (start_parts_rows s m Hcoh) as [H1 H2]. destruct (start_parts_rows s m' Hcoh) as [H3 H4].
  unfold good. cbn [rel]. rewrite H2, H4. auto.
Qed.

Lemma exec_mode_linear : forall m sh t s bs ps',
    Forall plainb bs -> par_chain sh 0 bs (start_parts s m) = Ok ps' ->
    check_tags t ps' = true ->
    exec_mode m sh t (NB (BSource s) :: map NB bs) = Ok (concat (map snd ps')).
Proof.
  intros m sh t s bs ps' Hpl Hrun Hct. destruct m as [parts|]; cbn [exec_mode start_parts] in *.
  - unfold exec_par. rewrite par_main_NB, Hrun. cbn [obind]. unfold collect_parts.
    rewrite Hct. reflexivity.
  - destruct (seq_par_chain sh t bs 0 _ ps' Hpl Hrun) as (p' & -> & Hseq).
    unfold exec_seq. cbn [seq_main seq_bnode obind next_site].
    rewrite seq_main_NB, Hseq. cbn [omap_out obind take].
    apply check_tags_single in Hct. rewrite Hct, Nat.eqb_refl.
    cbn [map concat]. rewrite app_nil_r. reflexivity.
Qed.

Lemma good_final : forall t c ps qs, good t c ps qs ->
    check_tags t ps = true /\ check_tags t qs = true /\
    rel c (concat (map snd ps)) (concat (map snd qs)).
Proof. intros t c ps qs H. exact H. Qed.

Lemma linear_sim_runs : forall sh sh' s bs bs' t c m m',
    perm_oracle sh -> perm_oracle sh' -> coherent s ->
    chain_sim (s_tag s) E bs bs' t c ->
    exists r r',
      exec_mode m sh t (NB (BSource s) :: map NB bs) = Ok r /\
      exec_mode m' sh' t (NB (BSource s) :: map NB bs') = Ok r' /\ rel c r r'.
Proof.
  intros sh sh' s bs bs' t c m m' Hsh Hsh' Hcoh Hsim.
  destruct (chain_sim_plain _ _ _ _ _ _ Hsim) as [Hpl Hpl'].
  destruct (chain_sim_sound sh sh' Hsh Hsh' _ _ _ _ _ _ Hsim 0 0 _ _ (start_parts_good s m m' Hcoh))
    as (ps' & qs' & E1 & E2 & G1 & G2 & G3).
  eexists. eexists.
  split; [apply (exec_mode_linear m sh t s bs ps' Hpl E1 G1)|].
  split; [apply (exec_mode_linear m' sh' t s bs' qs' Hpl' E2 G2)|exact G3].
Qed.

(* ---- join sides ---- *)
Lemma run_side_mode_eq : forall m sh site s bs ps',
    Forall plainb bs -> par_chain sh site bs (start_parts s m) = Ok ps' ->
    run_side_mode m sh site (SB (BSource s) :: map SB bs) = Ok ps'.
Proof.
  intros m sh site s bs ps' Hpl Hrun. destruct m as [parts|]; cbn [run_side_mode start_parts] in *.
  - cbn [run_subplan_par]. rewrite par_sub_rest_SB. exact Hrun.
  - destruct (seq_par_chain sh 0 bs site _ ps' Hpl Hrun) as (p' & -> & Hseq).
    unfold run_subplan_seq. cbn [seq_sub seq_bnode obind next_site].
    rewrite (seq_sub_SB sh 0 bs site _ Hpl), Hseq. reflexivity.
Qed.

Lemma good_weaken : forall t c ps qs, flat c -> good t c ps qs -> good t P ps qs.
Proof.
  intros t c ps qs Hfl (H1 & H2 & H3). repeat split; auto. cbn [rel].
  eapply rel_perm; [exact Hfl|exact H3].
Qed.

Lemma side_runs : forall sh sh' side tl m m' site site',
    perm_oracle sh -> perm_oracle sh' -> side_cls side tl ->
    exists X Y,
      run_side_mode m sh site side = Ok X /\ run_side_mode m' sh' site' side = Ok Y /\
      good tl P X Y.
Proof.
  intros sh sh' side tl m m' site site' Hsh Hsh' (s & bs & c & -> & Hcoh & Hcls & Hfl).
  pose proof (chain_sim_refl _ _ _ _ _ Hcls) as Hsim.
  destruct (chain_sim_plain _ _ _ _ _ _ Hsim) as [Hpl _].
  destruct (chain_sim_sound sh sh' Hsh Hsh' _ _ _ _ _ _ Hsim site site' _ _
                            (start_parts_good s m m' Hcoh)) as (X & Y & E1 & E2 & G).
  exists X, Y. split; [apply run_side_mode_eq; assumption|].
  split; [apply run_side_mode_eq; assumption|]. eapply good_weaken; [exact Hfl|exact G].
Qed.

(* ---- the join itself: only the (key, value) reading of each row matters ---- *)
Definition vnorm (v : val) : val := VPair (vfst v) (vsnd v).

Lemma gbk_local_norm : forall rows, gbk_local (map vnorm rows) = gbk_local rows.
Proof.
  intros rows. unfold gbk_local. generalize (@nil (val * list val)).
  induction rows as [|x rows IH]; intros m; cbn [map fold_left]; [reflexivity|].
  rewrite IH. reflexivity.
Qed.

Lemma join_exec_norm : forall sh kind site l r,
    join_exec sh kind site l r = join_exec sh kind site (map vnorm l) (map vnorm r).
Proof. intros sh kind site l r. unfold join_exec. rewrite !gbk_local_norm. reflexivity. Qed.

Lemma norm_rows : forall l,
    Forall (fun v => match v with VPair _ _ => True | _ => False end) (map vnorm l).
Proof. intros l. apply Forall_forall. intros x Hx. apply in_map_iff in Hx.
       destruct Hx as (y & <- & _). exact I. Qed.

Lemma join_exec_perm : forall sh sh' kind i i' l l' r r',
    perm_oracle sh -> perm_oracle sh' -> Permutation l l' -> Permutation r r' ->
    Permutation (join_exec sh kind i l r) (join_exec sh' kind i' l' r').
Proof.
  intros sh sh' kind i i' l l' r r' Hsh Hsh' Hl Hr.
  rewrite (join_exec_norm sh kind i l r), (join_exec_norm sh' kind i' l' r').
  eapply Permutation_trans; [apply join_exec_sound; [exact Hsh|apply norm_rows|apply norm_rows]|].
  eapply Permutation_trans;
    [|apply Permutation_sym; apply join_exec_sound; [exact Hsh'|apply norm_rows|apply norm_rows]].
  apply d_join_perm; apply Permutation_map; assumption.
Qed.

Lemma cogroup_good : forall sh sh' i i' kind tl tr tj X X' Y Y',
    perm_oracle sh -> perm_oracle sh' -> good tl P X X' -> good tr P Y Y' ->
    exists rows rows',
      run_cogroup sh i kind tl tr tj X Y = Ok (tj, rows) /\
      run_cogroup sh' i' kind tl tr tj X' Y' = Ok (tj, rows') /\
      Permutation rows rows'.
Proof.
  intros sh sh' i i' kind tl tr tj X X' Y Y' Hsh Hsh' (HX & HX' & HXr) (HY & HY' & HYr).
  unfold run_cogroup. rewrite HX, HX', HY, HY'. cbn [obind].
  eexists. eexists. split; [reflexivity|]. split; [reflexivity|].
  apply join_exec_perm; assumption.
Qed.

Lemma exec_mode_join : forall m sh t s0 lc rc kind tl tr tj bs X Y p ps',
    run_side_mode m sh (1000 * 1) lc = Ok X -> run_side_mode m sh (2000 * 1) rc = Ok Y ->
    run_cogroup sh 0 kind tl tr tj X Y = Ok p ->
    Forall plainb bs -> par_chain sh 1 bs [p] = Ok ps' -> check_tags t ps' = true ->
    exec_mode m sh t (NB (BSource s0) :: NCoGroup lc rc kind tl tr tj :: map NB bs)
    = Ok (concat (map snd ps')).
Proof.
  intros m sh t s0 lc rc kind tl tr tj bs X Y p ps' HX HY Hcg Hpl Hrun Hct.
  destruct m as [parts|]; cbn [exec_mode run_side_mode] in *.
  - unfold exec_par. cbn [par_main]. rewrite HX. cbn [obind]. rewrite HY. cbn [obind].
    rewrite Hcg. cbn [obind]. rewrite par_main_NB, Hrun. cbn [obind]. unfold collect_parts.
    rewrite Hct. reflexivity.
  - destruct (run_subplan_seq sh (1000 * 1) lc) as [lp|e| |] eqn:El; cbn [omap_out obind] in HX;
      try discriminate. injection HX as <-.
    destruct (run_subplan_seq sh (2000 * 1) rc) as [rp|e| |] eqn:Er; cbn [omap_out obind] in HY;
      try discriminate. injection HY as <-.
    destruct (seq_par_chain sh t bs 1 p ps' Hpl Hrun) as (p' & -> & Hseq).
    unfold exec_seq. cbn [seq_main seq_bnode obind next_site]. rewrite El. cbn [obind].
    rewrite Er. cbn [obind]. rewrite Hcg. cbn [obind].
    rewrite seq_main_NB, Hseq. cbn [omap_out obind take].
    apply check_tags_single in Hct. rewrite Hct, Nat.eqb_refl.
    cbn [map concat]. rewrite app_nil_r. reflexivity.
Qed.

Lemma join_sim_runs : forall sh sh' s0 lc rc kind tl tr tj bs bs' t c m m',
    perm_oracle sh -> perm_oracle sh' ->
    side_cls lc tl -> side_cls rc tr -> chain_sim tj P bs bs' t c ->
    exists r r',
      exec_mode m sh t (NB (BSource s0) :: NCoGroup lc rc kind tl tr tj :: map NB bs) = Ok r /\
      exec_mode m' sh' t (NB (BSource s0) :: NCoGroup lc rc kind tl tr tj :: map NB bs') = Ok r' /\
      rel c r r'.
Proof.
  intros sh sh' s0 lc rc kind tl tr tj bs bs' t c m m' Hsh Hsh' Hl Hr Hsim.
  destruct (chain_sim_plain _ _ _ _ _ _ Hsim) as [Hpl Hpl'].
  destruct (side_runs sh sh' lc tl m m' (1000 * 1) (1000 * 1) Hsh Hsh' Hl)
    as (X & X' & EX & EX' & GX).
  destruct (side_runs sh sh' rc tr m m' (2000 * 1) (2000 * 1) Hsh Hsh' Hr)
    as (Y & Y' & EY & EY' & GY).
  destruct (cogroup_good sh sh' 0 0 kind tl tr tj X X' Y Y' Hsh Hsh' GX GY)
    as (rows & rows' & EC & EC' & Hperm).
  assert (G0 : good tj P [(tj, rows)] [(tj, rows')]) by (apply good_single; exact Hperm).
  destruct (chain_sim_sound sh sh' Hsh Hsh' _ _ _ _ _ _ Hsim 1 1 _ _ G0)
    as (ps' & qs' & E1 & E2 & G1 & G2 & G3).
  eexists. eexists.
  split; [apply (exec_mode_join m sh t s0 lc rc kind tl tr tj bs X Y _ ps' EX EY EC Hpl E1 G1)|].
  split; [apply (exec_mode_join m' sh' t s0 lc rc kind tl tr tj bs' X' Y' _ qs' EX' EY' EC' Hpl' E2 G2)
         |exact G3].
Qed.

(* a classified plan (left) and a plan whose main chain was rewritten (right) *)
Inductive plan_sim : list node -> list node -> tag -> cls -> Prop :=
| psim_linear : forall s bs bs' t c,
    coherent s -> chain_sim (s_tag s) E bs bs' t c ->
    plan_sim (NB (BSource s) :: map NB bs) (NB (BSource s) :: map NB bs') t c
| psim_join : forall s0 lc rc kind tl tr tj bs bs' t c,
    side_cls lc tl -> side_cls rc tr -> chain_sim tj P bs bs' t c ->
    plan_sim (NB (BSource s0) :: NCoGroup lc rc kind tl tr tj :: map NB bs)
             (NB (BSource s0) :: NCoGroup lc rc kind tl tr tj :: map NB bs') t c.

Lemma plan_sim_refl : forall chain t c, plan_cls chain t c -> plan_sim chain chain t c.
Proof.
  intros chain t c H. destruct H as [s bs t c Hcoh Hcls|s0 lc rc kind tl tr tj bs t c Hcoh Hl Hr Hcls].
  - apply psim_linear; [exact Hcoh|apply chain_sim_refl; exact Hcls].
  - apply psim_join; [exact Hl|exact Hr|apply chain_sim_refl; exact Hcls].
Qed.

(* every mode / oracle on the left plan against every mode / oracle on the right plan *)
Lemma plan_sim_sound : forall sh sh' chain chain' t c m m',
    perm_oracle sh -> perm_oracle sh' -> plan_sim chain chain' t c ->
    exists r r',
      exec_mode m sh t chain = Ok r /\ exec_mode m' sh' t chain' = Ok r' /\ rel c r r'.
Proof.
  intros sh sh' chain chain' t c m m' Hsh Hsh' H.
  destruct H as [s bs bs' t c Hcoh Hsim|s0 lc rc kind tl tr tj bs bs' t c Hl Hr Hsim].
  - apply linear_sim_runs; assumption.
  - apply join_sim_runs with (tl := tl) (tr := tr); assumption.
Qed.

Lemma par_equiv_seq : forall sh sh' chain t c parts,
    perm_oracle sh -> perm_oracle sh' -> plan_cls chain t c ->
    exists rp rs, exec_par sh t chain parts = Ok rp /\ exec_seq sh' t chain = Ok rs /\ rel c rp rs.
Proof.
  intros sh sh' chain t c parts Hsh Hsh' Hcls.
  exact (plan_sim_sound sh sh' chain chain t c (Some parts) None Hsh Hsh' (plan_sim_refl _ _ _ Hcls)).
Qed.

(* ---- element-wise pipelines ---- *)
Lemma tags_ok_app : forall a b t,
    tags_ok t (a ++ b) = match tags_ok t a with Some t' => tags_ok t' b | None => None end.
Proof.
  induction a as [|o a IH]; intros b t; cbn [app tags_ok]; [reflexivity|].
  destruct (Nat.eqb t (op_in o)); [apply IH|reflexivity].
Qed.

Lemma ew_chain_cls : forall (opss : list (list dynop)) t t' c,
    flat c -> Forall (Forall ew) opss -> tags_ok t (concat opss) = Some t' ->
    chain_cls t c (map BStateless opss) t' c.
Proof.
  induction opss as [|ops opss IH]; intros t t' c Hfl Hew Htags.
  - cbn [concat tags_ok] in Htags. injection Htags as <-. apply cc_nil.
  - inversion Hew as [|? ? Hops Hrest]; subst.
    cbn [concat] in Htags. rewrite tags_ok_app in Htags.
    destruct (tags_ok t ops) as [t1|] eqn:Ht1; [|discriminate].
    cbn [map]. eapply cc_cons; [apply nc_stateless; eassumption|].
    apply IH; assumption.
Qed.

(* element-wise blocks never consult the map-iteration oracle *)
Lemma par_chain_stateless_sh : forall sh sh0 (opss : list (list dynop)) i ps,
    par_chain sh i (map BStateless opss) ps = par_chain sh0 i (map BStateless opss) ps.
Proof.
  intros sh sh0 opss. induction opss as [|ops opss IH]; intros i ps; cbn [map par_chain par_bnode];
    [reflexivity|].
  apply obind_ext. intros a. apply IH.
Qed.

Lemma seq_chain_stateless_sh : forall sh sh0 term (opss : list (list dynop)) i p,
    seq_chain sh i term (map BStateless opss) p = seq_chain sh0 i term (map BStateless opss) p.
Proof.
  intros sh sh0 term opss. induction opss as [|ops opss IH]; intros i p;
    cbn [map seq_chain seq_bnode]; [reflexivity|].
  apply obind_ext. intros a. apply IH.
Qed.

Lemma elementwise_identical : forall sh sh' s (opss : list (list dynop)) t parts,
    coherent s -> Forall (Forall ew) opss -> tags_ok (s_tag s) (concat opss) = Some t ->
    exec_par sh t (NB (BSource s) :: map (fun ops => NB (BStateless ops)) opss) parts
    = exec_seq sh' t (NB (BSource s) :: map (fun ops => NB (BStateless ops)) opss).
Proof.
  intros sh sh' s opss t parts Hcoh Hew Htags.
  pose proof (ew_chain_cls opss (s_tag s) t E I Hew Htags) as Hcls.
  assert (Hmap : map (fun ops => NB (BStateless ops)) opss = map NB (map BStateless opss))
    by (rewrite map_map; reflexivity).
  rewrite Hmap.
  assert (Hperm : perm_oracle id_sh) by (intros i l; apply Permutation_refl).
  destruct (par_equiv_seq id_sh id_sh _ t E parts Hperm Hperm
                          (pc_linear s (map BStateless opss) t E Hcoh Hcls))
    as (rp & rs & E1 & E2 & Hrel).
  cbn [rel] in Hrel. subst rs.
  transitivity (exec_par id_sh t (NB (BSource s) :: map NB (map BStateless opss)) parts).
  - unfold exec_par. rewrite !par_main_NB. rewrite (par_chain_stateless_sh sh id_sh). reflexivity.
  - rewrite E1, <- E2. unfold exec_seq. cbn [seq_main seq_bnode obind next_site].
    rewrite !seq_main_NB. rewrite (seq_chain_stateless_sh sh' id_sh). reflexivity.
Qed.

(* ================= (6) the optimiser on a classified plan ================= *)

(* the passes on chains of basic nodes *)
Fixpoint fuse_b (bs : list bnode) : list bnode :=
  match bs with
  | [] => []
  | BStateless ops :: r =>
      match fuse_b r with
      | BStateless ops' :: r' => BStateless (ops ++ ops') :: r'
      | fr => BStateless ops :: fr
      end
  | b :: r => b :: fuse_b r
  end.

Fixpoint lift_b (bs : list bnode) : list bnode :=
  match bs with
  | BGroupByKey _ _ :: ((BCombineValues cb tp tg tout true :: r) as tl) =>
      BCombineValues cb tp tg tout false :: lift_b r
  | b :: r => b :: lift_b r
  | [] => []
  end.

Lemma fuse_map_NB : forall bs, fuse (map NB bs) = map NB (fuse_b bs).
Proof.
  induction bs as [|b r IH]; [reflexivity|].
  destruct b as [s|ops|tin tout|cb tp tg tout lg|cb lifted tin tout fanout|t pl];
    cbn [map fuse fuse_b]; rewrite IH; try reflexivity.
  destruct (fuse_b r) as [|b' r']; [reflexivity|]. destruct b'; reflexivity.
Qed.

Lemma lift_b_cons_other : forall b l,
    (match b with BGroupByKey _ _ => False | _ => True end) -> lift_b (b :: l) = b :: lift_b l.
Proof. intros b l Hb. destruct b; try contradiction; reflexivity. Qed.

Lemma lift_map_NB_aux : forall bs,
    lift (map NB bs) = map NB (lift_b bs) /\
    forall b, lift (map NB (b :: bs)) = map NB (lift_b (b :: bs)).
Proof.
  induction bs as [|x r [IHa IHb]].
  - split; [reflexivity|]. intros b. destruct b; reflexivity.
  - split; [apply IHb|]. intros b. specialize (IHb x). cbn [map] in IHb.
    destruct b as [s|ops|tin tout|cb tp tg tout lg|cb lifted tin tout fanout|t pl];
      try (rewrite lift_b_cons_other by exact I; cbn [map];
           rewrite lift_only_there by (intros; discriminate); rewrite IHb; reflexivity).
    destruct x as [s|ops|tin2 tout2|cb tp tg tout2 lg|cb lifted tin2 tout2 fanout|t pl];
      try (match goal with
           | |- _ = map NB (lift_b (?g :: ?y :: r)) =>
               change (lift_b (g :: y :: r)) with (g :: lift_b (y :: r))
           end;
           cbn [map]; rewrite lift_only_there by (intros; discriminate); rewrite IHb; reflexivity).
    destruct lg.
    + cbn [map lift_b]. rewrite lift_fires, IHa. reflexivity.
    + change (lift_b (BGroupByKey tin tout :: BCombineValues cb tp tg tout2 false :: r))
        with (BGroupByKey tin tout :: lift_b (BCombineValues cb tp tg tout2 false :: r)).
      cbn [map]. rewrite lift_only_there by (intros; discriminate). rewrite IHb. reflexivity.
Qed.

Lemma lift_map_NB : forall bs, lift (map NB bs) = map NB (lift_b bs).
Proof. intros bs. apply lift_map_NB_aux. Qed.

Lemma plain_not_mat : forall bs, Forall plainb bs ->
    forallb (fun n => match n with NB (BMaterialized _ _) => false | _ => true end) (map NB bs)
    = true.
Proof.
  intros bs H. induction H as [|b r Hb Hr IH]; [reflexivity|].
  cbn [map forallb]. rewrite IH. destruct b; try contradiction; reflexivity.
Qed.

Definition lift_typed_b (bs : list bnode) : Prop :=
  forall pre a b cb tp tg tout post,
    bs = pre ++ BGroupByKey a b :: BCombineValues cb tp tg tout true :: post -> tp = a.

Lemma lift_typed_b_tail : forall x r, lift_typed_b (x :: r) -> lift_typed_b r.
Proof.
  intros x r H pre a b cb tp tg tout post Heq.
  apply (H (x :: pre) a b cb tp tg tout post). cbn [app]. f_equal. exact Heq.
Qed.

Lemma lift_typed_of_chain : forall (pre0 : list node) bs,
    (forall pre a b cb tp tg tout post,
        pre0 ++ map NB bs
        = pre ++ NB (BGroupByKey a b) :: NB (BCombineValues cb tp tg tout true) :: post -> tp = a) ->
    lift_typed_b bs.
Proof.
  intros pre0 bs H pre a b cb tp tg tout post Heq.
  apply (H (pre0 ++ map NB pre) a b cb tp tg tout (map NB post)).
  rewrite Heq, map_app, <- app_assoc. reflexivity.
Qed.

Lemma opt_gbk_other : forall a b r,
    (forall cb tp tg tout r2, r <> BCombineValues cb tp tg tout true :: r2) ->
    lift_b (fuse_b (BGroupByKey a b :: r)) = BGroupByKey a b :: lift_b (fuse_b r).
Proof.
  intros a b r Hne. cbn [fuse_b].
  destruct r as [|x r2]; [reflexivity|].
  destruct x as [s|ops|tin tout|cb tp tg tout lg|cb lifted tin tout fanout|t pl];
    try reflexivity.
  - cbn [fuse_b]. destruct (fuse_b r2) as [|b' r']; [reflexivity|]. destruct b'; reflexivity.
  - destruct lg; [|reflexivity]. exfalso. exact (Hne cb tp tg tout r2 eq_refl).
Qed.

Lemma opt_sim : forall n bs t c t' c',
    length bs <= n -> chain_cls t c bs t' c' -> lift_typed_b bs ->
    chain_sim t c bs (lift_b (fuse_b bs)) t' c'.
Proof.
  induction n as [|n IH]; intros bs t c t' c' Hlen Hcls Hty.
  - destruct bs as [|b r]; [|cbn [length] in Hlen; lia].
    inversion Hcls; subst. apply cs_nil.
  - destruct bs as [|b r]; [inversion Hcls; subst; apply cs_nil|].
    cbn [length] in Hlen.
    inversion Hcls as [|t0 c0 b0 t1 c1 r0 t2 c2 Hn Hr]; subst.
    pose proof (lift_typed_b_tail _ _ Hty) as Hty_r.
    assert (IHr : chain_sim t1 c1 r (lift_b (fuse_b r)) t' c')
      by (apply IH; [lia|exact Hr|exact Hty_r]).
    destruct b as [s|ops|tin tout|cb tp tg tout lg|cb lifted tin tout fanout|tm pl].
    + inversion Hn.
    + (* element-wise block: fused with the next block, if any *)
      cbn [fuse_b]. destruct (fuse_b r) as [|b' r'] eqn:Hf.
      * eapply cs_same; [exact Hn|exact IHr].
      * destruct b' as [s|ops'|tin tout|cb tp tg tout lg|cb lifted tin tout fanout|tm pl];
          try (rewrite (lift_b_cons_other (BStateless ops)) by exact I;
               eapply cs_same; [exact Hn|exact IHr]).
        rewrite (lift_b_cons_other (BStateless (ops ++ ops'))) by exact I.
        rewrite (lift_b_cons_other (BStateless ops')) in IHr by exact I.
        eapply cs_fuse; eassumption.
    + (* GroupByKey: lifted away when a lifted combine follows *)
      destruct r as [|x r2].
      * rewrite opt_gbk_other by (intros; discriminate). eapply cs_same; [exact Hn|exact IHr].
      * destruct x as [s|ops|tin2 tout2|cb tp tg tout2 lg|cb lifted tin2 tout2 fanout|tm pl];
          try (rewrite opt_gbk_other by (intros; discriminate);
               eapply cs_same; [exact Hn|exact IHr]).
        destruct lg;
          [|rewrite opt_gbk_other by (intros; discriminate); eapply cs_same; [exact Hn|exact IHr]].
        inversion Hr as [|t0 c0 b0 t3 c3 r0 t4 c4 Hn2 Hr2]; subst.
        assert (Htp : tp = tin) by (apply (Hty [] tin tout cb tp tg tout2 r2); reflexivity).
        subst tp.
        assert (Hgbk : tin = t /\ tout = t1 /\ flat c) by (inversion Hn; subst; repeat split; exact I).
        destruct Hgbk as (-> & -> & Hfl).
        inversion Hn2 as [| | | | | |ta ca cb' tp' tb Hlaw|]; subst.
        cbn [fuse_b lift_b]. apply cs_lift; [exact Hfl|exact Hlaw|].
        apply IH; [cbn [length] in Hlen; lia|exact Hr2|].
        apply (lift_typed_b_tail _ _ Hty_r).
    + cbn [fuse_b]. rewrite lift_b_cons_other by exact I. eapply cs_same; [exact Hn|exact IHr].
    + cbn [fuse_b]. rewrite lift_b_cons_other by exact I. eapply cs_same; [exact Hn|exact IHr].
    + inversion Hn.
Qed.

Lemma plan_opt_sim : forall chain t c,
    plan_cls chain t c -> reorder_noop (fuse chain) ->
    (forall pre a b cb tp tg tout post,
        chain = pre ++ NB (BGroupByKey a b) :: NB (BCombineValues cb tp tg tout true) :: post ->
        tp = a) ->
    plan_sim chain (optimise chain) t c.
Proof.
  intros chain t c Hcls Hnoop Hty. unfold optimise. unfold reorder_noop in Hnoop. rewrite Hnoop.
  destruct Hcls as [s bs t c Hcoh Hch|s0 lc rc kind tl tr tj bs t c Hcoh Hl Hr Hch].
  - assert (Htyb : lift_typed_b bs) by (apply (lift_typed_of_chain [NB (BSource s)]); exact Hty).
    pose proof (opt_sim (length bs) bs _ _ _ _ (le_n _) Hch Htyb) as Hsim.
    destruct (chain_sim_plain _ _ _ _ _ _ Hsim) as [_ Hpl'].
    assert (Heq : drop_mid (lift (fuse (NB (BSource s) :: map NB bs)))
                  = NB (BSource s) :: map NB (lift_b (fuse_b bs))).
    { change (fuse (NB (BSource s) :: map NB bs)) with (NB (BSource s) :: fuse (map NB bs)).
      rewrite fuse_map_NB.
      change (lift (NB (BSource s) :: map NB (fuse_b bs)))
        with (NB (BSource s) :: lift (map NB (fuse_b bs))).
      rewrite lift_map_NB. apply drop_mid_identity.
      cbn [forallb]. apply plain_not_mat. exact Hpl'. }
    rewrite Heq. apply psim_linear; assumption.
  - assert (Htyb : lift_typed_b bs)
      by (apply (lift_typed_of_chain [NB (BSource s0); NCoGroup lc rc kind tl tr tj]); exact Hty).
    pose proof (opt_sim (length bs) bs _ _ _ _ (le_n _) Hch Htyb) as Hsim.
    destruct (chain_sim_plain _ _ _ _ _ _ Hsim) as [_ Hpl'].
    assert (Heq : drop_mid (lift (fuse (NB (BSource s0) :: NCoGroup lc rc kind tl tr tj :: map NB bs)))
                  = NB (BSource s0) :: NCoGroup lc rc kind tl tr tj :: map NB (lift_b (fuse_b bs))).
    { change (fuse (NB (BSource s0) :: NCoGroup lc rc kind tl tr tj :: map NB bs))
        with (NB (BSource s0) :: NCoGroup lc rc kind tl tr tj :: fuse (map NB bs)).
      rewrite fuse_map_NB.
      change (lift (NB (BSource s0) :: NCoGroup lc rc kind tl tr tj :: map NB (fuse_b bs)))
        with (NB (BSource s0) :: NCoGroup lc rc kind tl tr tj :: lift (map NB (fuse_b bs))).
      rewrite lift_map_NB. apply drop_mid_identity.
      cbn [forallb]. apply plain_not_mat. exact Hpl'. }
    rewrite Heq. apply psim_join; assumption.
Qed.

Lemma optimise_sound : forall sh sh' chain t c parts,
    perm_oracle sh -> perm_oracle sh' -> plan_cls chain t c -> reorder_noop (fuse chain) ->
    (forall pre a b cb tp tg tout post,
        chain = pre ++ NB (BGroupByKey a b) :: NB (BCombineValues cb tp tg tout true) :: post ->
        tp = a) ->
    exists r1 r2 r3 r4,
      exec_seq sh t (optimise chain) = Ok r1 /\ exec_seq sh' t chain = Ok r2 /\
      exec_par sh t (optimise chain) parts = Ok r3 /\ exec_par sh' t chain parts = Ok r4 /\
      rel c r1 r2 /\ rel c r3 r4.
Proof.
  intros sh sh' chain t c parts Hsh Hsh' Hcls Hnoop Hty.
  pose proof (plan_opt_sim chain t c Hcls Hnoop Hty) as Hsim.
  destruct (plan_sim_sound sh' sh chain (optimise chain) t c None None Hsh' Hsh Hsim)
    as (r2 & r1 & E2 & E1 & Hrel12).
  destruct (plan_sim_sound sh' sh chain (optimise chain) t c (Some parts) (Some parts) Hsh' Hsh Hsim)
    as (r4 & r3 & E4 & E3 & Hrel34).
  cbn [exec_mode] in *.
  exists r1, r2, r3, r4. repeat split; try assumption; apply rel_sym; assumption.
Qed.

(* ================= (7) a concrete plan in the fragment ================= *)

Definition example_plan : list node :=
  plan (SrcVec TKV [VPair (VInt 1%Z) (VInt 10%Z); VPair (VInt 2%Z) (VInt 20%Z);
                    VPair (VInt 1%Z) (VInt 11%Z)])
       [SJoin JLeft [SMapValues (FAdd 1%Z)] [VPair (VInt 1%Z) (VInt 7%Z)];
        SCombineValues CCount; SUnkey; SCombineGlobally CCount false (Some 1)].

Lemma count_lawful : lawful_vcomb (comb_of CCount).
Proof.
  exists (fun (a : Z) (m : list val) => a = Z.of_nat (length m)).
  exists (fun (m : list val) (o : val) => o = VInt (Z.of_nat (length m))).
  split; [|split].
  - constructor; cbn [comb_of vc_c vc_A comb_count c_create c_add c_merge c_finish c_build].
    + reflexivity.
    + intros a m v ->. cbn [length]. lia.
    + intros a b m m' -> ->. rewrite app_length. lia.
    + intros vs. reflexivity.
    + intros a m m' -> Hp. rewrite (Permutation_length Hp). reflexivity.
    + intros a m ->. reflexivity.
  - intros m o o' -> ->. reflexivity.
  - intros m m' o Hp ->. rewrite (Permutation_length Hp). reflexivity.
Qed.

Lemma ew_map : forall i o f uid, ew (op_map i o f uid).
Proof. intros i o f uid. exists (fun x => [f x]). intros l. cbn. rewrite flat_map_single. reflexivity. Qed.
Lemma ew_map_values : forall i o f uid, ew (op_map_values i o f uid).
Proof.
  intros i o f uid. exists (fun x => [on_snd f x]). intros l. cbn. rewrite flat_map_single.
  reflexivity.
Qed.

Lemma example_plan_classified : exists chain t c, plan_cls chain t c /\ chain = example_plan.
Proof.
  assert (Heq :
    example_plan =
    NB (BSource (vec_source TDUMMY [VInt 0%Z]))
    :: NCoGroup [SB (BSource (vec_source TKV [VPair (VInt 1%Z) (VInt 10%Z); VPair (VInt 2%Z) (VInt 20%Z);
                                             VPair (VInt 1%Z) (VInt 11%Z)]))]
                [SB (BSource (vec_source TKV [VPair (VInt 1%Z) (VInt 7%Z)]));
                 SB (BStateless [op_map_values TKV TKV (ef (FAdd 1%Z)) 150])]
                JLeft TKV TKV TJL
    :: map NB [BStateless [op_map TJL TKV join_norm 151];
               BCombineValues (comb_of CCount) TKV TKG TKV false;
               BStateless [op_map TKV TU (fun x => x) 152];
               BCombineGlobal (comb_of CCount) false TU TU (Some 1)])
    by (vm_compute; reflexivity).
  exists example_plan, TU, E. split; [|reflexivity]. rewrite Heq.
  apply pc_join.
  - apply vec_source_coherent.
  - eexists. exists [], E. split; [reflexivity|].
    split; [apply vec_source_coherent|]. split; [apply cc_nil|exact I].
  - eexists. exists [BStateless [op_map_values TKV TKV (ef (FAdd 1%Z)) 150]], E.
    split; [reflexivity|]. split; [apply vec_source_coherent|]. split; [|exact I].
    eapply cc_cons; [|apply cc_nil].
    apply nc_stateless; [exact I|repeat constructor; apply ew_map_values|reflexivity].
  - eapply cc_cons; [apply nc_stateless; [exact I|repeat constructor; apply ew_map|reflexivity]|].
    eapply cc_cons; [apply nc_cv_pairs; [exact I|apply count_lawful]|].
    eapply cc_cons; [apply nc_stateless; [exact I|repeat constructor; apply ew_map|reflexivity]|].
    eapply cc_cons; [apply nc_cg; [exact I|apply count_lawful]|].
    apply cc_nil.
Qed.
