(* Proofs about the checkpointing engines (Ckpt/Runner.v): transparency of both engines and of the
   dispatch, the old sequential engine's failure on joins, clean-up after success and the fate of
   files that do not belong to the running pipeline.  The store facts used are those of property C12
   (Props/C12.v: c12_load_total, c12_clear; Proofs/CkptRetention.v: the directory lemmas). *)
From Coq Require Import List ZArith Bool Arith Lia Permutation.
From IB Require Import Engine.Val Engine.Ops Engine.Nodes Engine.Exec Ckpt.Runner.
From IB Require Ckpt.Bincode Ckpt.Store Proofs.CkptStore Proofs.CkptRetention Props.C12.
Import ListNotations.

(* the names in d that the store's filter accepts for pipeline pid *)
Definition own_files (pid : bytes) (d : dir) : list Store.name :=
  filter (Store.is_ckpt pid) (Store.dir_names d).
Definition listing_ok (readdir : dir -> list Store.name) : Prop :=
  forall d, Permutation (readdir d) (Store.dir_names d).
(* d keeps every file of d0 that is not a checkpoint of pipeline pid, with its content, and has no
   other such file *)
Definition foreign_same (pid : bytes) (d0 d : dir) : Prop :=
  forall x, Store.is_ckpt pid x = false -> Store.dir_lookup d x = Store.dir_lookup d0 x.

(* a Boolean test for dir_ok (used by the examples) *)
Fixpoint nodupb (l : list bytes) : bool :=
  match l with [] => true | x :: r => negb (existsb (Store.bytes_eqb x) r) && nodupb r end.
Lemma nodupb_ok l : nodupb l = true -> NoDup l.
Proof.
  induction l as [|x r IH]; cbn [nodupb]; intro Hb; [constructor|].
  apply andb_true_iff in Hb. destruct Hb as [Hx Hr]. constructor; [|now apply IH].
  intro Hin. apply negb_true_iff in Hx. assert (existsb (Store.bytes_eqb x) r = true); [|congruence].
  apply existsb_exists. exists x. split; [exact Hin | now apply CkptStore.bytes_eqb_eq].
Qed.
Lemma dir_ok_check (d : dir) : nodupb (Store.dir_names d) = true -> Store.dir_ok d.
Proof. apply nodupb_ok. Qed.

Lemma ts_ms_u64 r : Bincode.is_u64 (ts_ms r).
Proof.
  unfold ts_ms, Bincode.is_u64, Bincode.u64_max. destruct (r <? 0)%Z; [lia|].
  pose proof (Z.mod_pos_bound (r / 1000000) 18446744073709551616 ltac:(lia)). lia.
Qed.

Section Facts.
  Variable sh : nat -> list val -> list val.
  Variable readdir : dir -> list Store.name.
  Variable H : bytes -> bytes.
  Variable avail : Z.
  Variable pct : nat -> nat -> Z.
  Variable clock : nat -> nat -> Z.

  (* ---------------------------------------------------------------- the arms mirror exec_seq *)
  Lemma ckpt_arm_bnode i term b buf :
    ckpt_arm sh i term (NB b) buf = seq_bnode sh i term false b buf.
  Proof. destruct b; reflexivity. Qed.

  Lemma seq_main_step i term n r buf :
    seq_main sh i term (n :: r) buf
    = obind (ckpt_arm sh i term n buf) (fun p => seq_main sh (node_next_site i n) term r (Some p)).
  Proof.
    destruct n as [b | lc rc kind tl tr tout].
    - rewrite ckpt_arm_bnode. reflexivity.
    - cbn [seq_main ckpt_arm node_next_site].
      destruct (run_subplan_seq sh (1000 * S i) lc); cbn [obind]; try reflexivity.
      destruct (run_subplan_seq sh (2000 * S i) rc); cbn [obind]; reflexivity.
  Qed.

  Lemma loop_fst c pid total term chain :
    forall i idx buf m,
      fst (seq_ckpt_loop readdir H pct clock (ckpt_arm sh) c pid total term i idx chain buf m)
      = seq_main sh i term chain buf.
  Proof.
    induction chain as [|n r IH]; intros i idx buf m; [reflexivity|].
    rewrite seq_main_step. cbn [seq_ckpt_loop].
    destruct (ckpt_arm sh i term n buf); cbn [obind fst]; try reflexivity. apply IH.
  Qed.

  (* ---------------------------------------------------------------- recovery cannot kill the run *)
  Hypothesis Hav : (Bincode.ckpt_limit <= avail)%Z.

  Lemma load_not_abort d n : Store.load H avail d n <> Store.Abort.
  Proof.
    unfold Store.load. destruct (Store.dir_lookup d n) as [b|]; [|discriminate].
    destruct (C12.c12_load_total H avail Hav b) as [[s E] | [e E]]; rewrite E; discriminate.
  Qed.

  Lemma recover_true c pid d : recover readdir H avail c pid d = true.
  Proof.
    unfold recover. destruct (c_auto_recover c); [|reflexivity].
    destruct (Store.latest readdir (c_enabled c) pid d) as [n|]; [|reflexivity].
    pose proof (load_not_abort d n) as Hn. destruct (Store.load H avail d n); congruence.
  Qed.

  (* ---------------------------------------------------------------- transparency *)
  Theorem seq_transparent c fs term chain :
    fst (exec_seq_ckpt sh readdir H avail pct clock c fs term chain) = exec_seq sh term chain.
  Proof.
    unfold exec_seq_ckpt, exec_seq_ckpt_with, exec_seq. rewrite recover_true.
    pose proof (loop_fst c (pid_seq H (length chain)) (length chain) term chain 0 0 None
                         (mk_mgr None (mkdir fs))) as Hl.
    destruct (seq_ckpt_loop _ _ _ _ _ _ _ _ _ _ _ _ _ _) as [res m]. cbn [fst] in Hl. rewrite <- Hl.
    destruct res as [buf | e | | ]; cbn [obind]; try reflexivity.
    destruct (take buf) as [p | e | | ]; cbn [obind]; try reflexivity.
    destruct (Nat.eqb (fst p) term); reflexivity.
  Qed.

  Theorem par_transparent c fs term chain partitions :
    fst (exec_par_ckpt sh readdir H avail clock c fs term chain partitions)
    = exec_par sh term chain partitions.
  Proof.
    unfold exec_par_ckpt. rewrite recover_true.
    destruct (exec_par sh term chain partitions); reflexivity.
  Qed.

  Theorem run_collect_transparent mode suggested default co fs term chain :
    fst (run_collect sh readdir H avail pct clock mode suggested default co fs term chain)
    = run_plain sh mode suggested default term chain.
  Proof.
    unfold run_collect. destruct co as [c|]; [|reflexivity].
    destruct (c_enabled c); [|reflexivity]. destruct mode as [|p].
    - pose proof (seq_transparent c fs term chain) as E.
      destruct (exec_seq_ckpt _ _ _ _ _ _ _ _ _ _). exact E.
    - pose proof (par_transparent c fs term chain (resolve_parts suggested default p)) as E.
      destruct (exec_par_ckpt _ _ _ _ _ _ _ _ _ _). exact E.
  Qed.

  (* the instance of transparency at a directory left by a run that died: any history of saves,
     then the newest checkpoint overwritten with arbitrary bytes / torn at any byte *)
  Theorem recovers d0 max0 h junk k mode suggested default co term chain :
    let pid := run_pid H mode suggested default chain in
    let left := saves_of readdir max0 d0 h in
    fst (run_collect sh readdir H avail pct clock mode suggested default co
                     (Some (overwrite_latest readdir pid junk left)) term chain)
    = run_plain sh mode suggested default term chain
    /\ fst (run_collect sh readdir H avail pct clock mode suggested default co
                        (Some (truncate_latest readdir pid k left)) term chain)
       = run_plain sh mode suggested default term chain.
  Proof. intros pid left. split; apply run_collect_transparent. Qed.

  (* a configuration that is absent or not enabled never touches (or creates) the directory *)
  Theorem run_collect_disabled mode suggested default co fs term chain :
    match co with Some c => c_enabled c = false | None => True end ->
    snd (run_collect sh readdir H avail pct clock mode suggested default co fs term chain) = fs.
  Proof.
    unfold run_collect. destruct co as [c|]; [|reflexivity]. intros ->. reflexivity.
  Qed.

  (* ---------------------------------------------------------------- the old engine and joins *)
  Definition has_cogroup (chain : list node) : bool :=
    existsb (fun n => match n with NCoGroup _ _ _ _ _ _ => true | NB _ => false end) chain.

  Lemma old_loop_join c pid total term chain :
    forall i idx buf m b,
      has_cogroup chain = true -> seq_main sh i term chain buf = Ok b ->
      fst (seq_ckpt_loop readdir H pct clock (ckpt_arm_old sh) c pid total term i idx chain buf m)
      = Err E_COGROUP_CKPT.
  Proof.
    induction chain as [|n r IH]; intros i idx buf m b Hj Hm; [discriminate|].
    destruct n as [bn | lc rc kind tl tr tout]; [|reflexivity].
    cbn [has_cogroup existsb orb] in Hj. rewrite seq_main_step in Hm.
    cbn [seq_ckpt_loop]. change (ckpt_arm_old sh i term (NB bn) buf) with (ckpt_arm sh i term (NB bn) buf).
    destruct (ckpt_arm sh i term (NB bn) buf) as [p | e | | ]; cbn [obind] in Hm; try discriminate.
    eapply IH; eassumption.
  Qed.

  (* whenever the plain engine succeeds on a plan that contains a join, the old sequential
     checkpointing engine returned the error instead *)
  Theorem old_engine_fails_on_joins c fs term chain rows :
    has_cogroup chain = true -> exec_seq sh term chain = Ok rows ->
    fst (exec_seq_ckpt_old sh readdir H avail pct clock c fs term chain) = Err E_COGROUP_CKPT.
  Proof.
    intros Hj He. unfold exec_seq in He.
    destruct (seq_main sh 0 term chain None) as [b | | | ] eqn:Hm; cbn [obind] in He; try discriminate.
    unfold exec_seq_ckpt_old, exec_seq_ckpt_with. rewrite recover_true.
    pose proof (old_loop_join c (pid_seq H (length chain)) (length chain) term chain 0 0 None
                              (mk_mgr None (mkdir fs)) b Hj Hm) as Hl.
    destruct (seq_ckpt_loop _ _ _ _ _ _ _ _ _ _ _ _ _ _) as [res m]. cbn [fst] in Hl. subst res.
    reflexivity.
  Qed.

  (* on join-free plans the old engine was the new one *)
  Lemma old_loop_same c pid total term chain :
    forall i idx buf m,
      has_cogroup chain = false ->
      seq_ckpt_loop readdir H pct clock (ckpt_arm_old sh) c pid total term i idx chain buf m
      = seq_ckpt_loop readdir H pct clock (ckpt_arm sh) c pid total term i idx chain buf m.
  Proof.
    induction chain as [|n r IH]; intros i idx buf m Hj; [reflexivity|].
    cbn [has_cogroup existsb] in Hj. apply orb_false_iff in Hj. destruct Hj as [Hn Hr].
    destruct n as [bn | ]; [|discriminate]. cbn [seq_ckpt_loop].
    change (ckpt_arm_old sh i term (NB bn) buf) with (ckpt_arm sh i term (NB bn) buf).
    destruct (ckpt_arm sh i term (NB bn) buf); try reflexivity. now apply IH.
  Qed.
  Theorem old_engine_same_without_joins c fs term chain :
    has_cogroup chain = false ->
    exec_seq_ckpt_old sh readdir H avail pct clock c fs term chain
    = exec_seq_ckpt sh readdir H avail pct clock c fs term chain.
  Proof.
    intro Hj. unfold exec_seq_ckpt_old, exec_seq_ckpt, exec_seq_ckpt_with.
    now rewrite old_loop_same.
  Qed.

  (* ---------------------------------------------------------------- EveryNNodes(0) *)
  (* `node_index > 0 && node_index.is_multiple_of(0)`: is_multiple_of(0) holds only for 0 *)
  Lemma every0_never c last now idx b :
    c_policy c = Store.EveryNNodes 0 ->
    Store.should_checkpoint (c_enabled c) (c_policy c) last now (Z.of_nat idx) b = false.
  Proof.
    intros ->. unfold Store.should_checkpoint. destruct (c_enabled c); [|reflexivity].
    cbn [Z.eqb]. destruct (0 <? Z.of_nat idx)%Z eqn:E1; [|reflexivity].
    destruct (Z.of_nat idx =? 0)%Z eqn:E2; [|reflexivity].
    apply Z.ltb_lt in E1. apply Z.eqb_eq in E2. lia.
  Qed.

  Lemma every0_loop arm c pid total term chain :
    c_policy c = Store.EveryNNodes 0 ->
    forall i idx buf m,
      snd (seq_ckpt_loop readdir H pct clock arm c pid total term i idx chain buf m) = m.
  Proof.
    intro Hp. induction chain as [|n r IH]; intros i idx buf m; [reflexivity|].
    cbn [seq_ckpt_loop]. destruct (arm i term n buf); try reflexivity.
    rewrite IH. unfold ckpt_after. now rewrite every0_never.
  Qed.

  (* under EveryNNodes(0) the sequential run writes nothing: the directory is the initial one,
     cleared of this pipeline's files when the run succeeds *)
  Theorem every0_writes_nothing c fs term chain :
    c_policy c = Store.EveryNNodes 0 ->
    let pid := pid_seq H (length chain) in
    let '(res, d') := exec_seq_ckpt sh readdir H avail pct clock c fs term chain in
    d' = match res with Ok _ => Store.clear readdir pid (mkdir fs) | _ => mkdir fs end.
  Proof.
    intros Hp pid. unfold exec_seq_ckpt, exec_seq_ckpt_with. rewrite recover_true. fold pid.
    pose proof (every0_loop (ckpt_arm sh) c pid (length chain) term chain Hp 0 0 None
                            (mk_mgr None (mkdir fs))) as Hl.
    destruct (seq_ckpt_loop _ _ _ _ _ _ _ _ _ _ _ _ _ _) as [res m]. cbn [snd] in Hl. subst m.
    cbn [m_dir]. destruct res as [buf | e | | ]; try reflexivity.
    destruct (take buf) as [p | e | | ]; try reflexivity.
    destruct (Nat.eqb (fst p) term); reflexivity.
  Qed.

  (* ---------------------------------------------------------------- the directory *)
  (* one save only ever writes or deletes checkpoint files of the state's own pipeline *)
  Lemma save_foreign max d s x :
    Bincode.is_u64 (Bincode.timestamp s) -> Store.is_ckpt (Bincode.pipeline_id s) x = false ->
    Store.dir_lookup (snd (Store.save readdir max d s)) x = Store.dir_lookup d x.
  Proof.
    intros Hts Hx. unfold Store.save.
    set (pid := Bincode.pipeline_id s). set (n := Store.ckpt_name pid (Bincode.timestamp s)).
    destruct (Store.name_ok n); [|reflexivity]. cbn [snd].
    assert (Hn : Store.is_ckpt pid n = true) by now apply CkptStore.is_ckpt_name.
    assert (Hw : Store.dir_lookup (Store.dir_write d n (Bincode.encode s)) x = Store.dir_lookup d x).
    { rewrite CkptRetention.lookup_write. destruct (Store.bytes_eqb n x) eqn:E; [|reflexivity].
      apply CkptStore.bytes_eqb_eq in E. subst x. fold pid in Hx. congruence. }
    destruct max as [m|]; [|exact Hw]. unfold Store.retain.
    destruct (_ <=? m)%Z; [exact Hw|].
    rewrite CkptRetention.lookup_remove_all.
    destruct (CkptRetention.bmem x _) eqn:E; [|exact Hw]. exfalso.
    apply CkptRetention.bmem_In in E. apply CkptRetention.firstn_In in E.
    eapply Permutation_in in E; [|apply CkptRetention.sort_by_perm].
    unfold Store.ckpts_of in E. apply filter_In in E. destruct E as [_ E]. fold pid in Hx. congruence.
  Qed.

  Lemma mk_state_pid pid idx ts parts mode total ntype pc :
    Bincode.pipeline_id (mk_state H pid idx ts parts mode total ntype pc) = pid
    /\ Bincode.timestamp (mk_state H pid idx ts parts mode total ntype pc) = ts.
  Proof. split; reflexivity. Qed.

  Definition dir_inv (pid : bytes) (d0 d : dir) : Prop := Store.dir_ok d /\ foreign_same pid d0 d.

  Lemma save_inv pid d0 max d s :
    Bincode.pipeline_id s = pid -> Bincode.is_u64 (Bincode.timestamp s) ->
    dir_inv pid d0 d -> dir_inv pid d0 (snd (Store.save readdir max d s)).
  Proof.
    intros Hp Hts [Hok Hf]. split; [now apply CkptRetention.save_dir_ok|].
    intros x Hx. rewrite save_foreign; [now apply Hf | exact Hts | now rewrite Hp].
  Qed.

  Lemma ckpt_after_inv c pid d0 total idx n m :
    dir_inv pid d0 (m_dir m) ->
    dir_inv pid d0 (m_dir (ckpt_after readdir H pct clock c pid total idx n m)).
  Proof.
    intro Hi. unfold ckpt_after. destruct (Store.should_checkpoint _ _ _ _ _ _); [|exact Hi].
    set (st := mk_state _ _ _ _ _ _ _ _ _).
    pose proof (save_inv pid d0 (c_max c) (m_dir m) st eq_refl (ts_ms_u64 _) Hi) as Hs.
    destruct (Store.save readdir (c_max c) (m_dir m) st) as [[nm | e | ] d']; exact Hs.
  Qed.

  Lemma loop_inv arm c pid d0 total term chain :
    forall i idx buf m,
      dir_inv pid d0 (m_dir m) ->
      dir_inv pid d0 (m_dir (snd (seq_ckpt_loop readdir H pct clock arm c pid total term i idx chain buf m))).
  Proof.
    induction chain as [|n r IH]; intros i idx buf m Hi; [exact Hi|].
    cbn [seq_ckpt_loop]. destruct (arm i term n buf); try exact Hi.
    apply IH. now apply ckpt_after_inv.
  Qed.

  Hypothesis Hperm : listing_ok readdir.

  Lemma clear_facts pid d :
    Store.dir_ok d ->
    Store.dir_ok (Store.clear readdir pid d) /\ own_files pid (Store.clear readdir pid d) = []
    /\ foreign_same pid d (Store.clear readdir pid d).
  Proof.
    intro Hok. destruct (C12.c12_clear readdir Hperm pid d Hok) as (H1 & H2 & H3 & _).
    repeat split; assumption.
  Qed.

  (* every outcome: what does not belong to this pipeline is untouched; Ok: nothing of this
     pipeline is left *)
  Theorem seq_directory c fs term chain :
    Store.dir_ok (mkdir fs) ->
    let pid := pid_seq H (length chain) in
    let '(res, d') := exec_seq_ckpt sh readdir H avail pct clock c fs term chain in
    Store.dir_ok d' /\ foreign_same pid (mkdir fs) d'
    /\ (forall rows, res = Ok rows -> own_files pid d' = []).
  Proof.
    intros Hok pid. unfold exec_seq_ckpt, exec_seq_ckpt_with. rewrite recover_true. fold pid.
    assert (Hi0 : dir_inv pid (mkdir fs) (m_dir (mk_mgr None (mkdir fs)))).
    { split; [exact Hok | intros x _; reflexivity]. }
    pose proof (loop_inv (ckpt_arm sh) c pid (mkdir fs) (length chain) term chain 0 0 None _ Hi0) as Hl.
    destruct (seq_ckpt_loop _ _ _ _ _ _ _ _ _ _ _ _ _ _) as [res m]. cbn [snd] in Hl.
    destruct Hl as [Hokm Hfm].
    assert (Hkeep : forall (o : outcome (list val)), (forall rows, o <> Ok rows) ->
              Store.dir_ok (m_dir m) /\ foreign_same pid (mkdir fs) (m_dir m)
              /\ (forall rows, o = Ok rows -> own_files pid (m_dir m) = [])).
    { intros o Ho. split; [exact Hokm | split; [exact Hfm|]]. intros rows E. now apply Ho in E. }
    destruct res as [buf | e | | ]; try (apply Hkeep; intros rows; discriminate).
    destruct (take buf) as [p | e | | ]; try (apply Hkeep; intros rows; discriminate).
    destruct (Nat.eqb (fst p) term); [|apply Hkeep; intros rows; discriminate].
    destruct (clear_facts pid (m_dir m) Hokm) as (Hc1 & Hc2 & Hc3).
    split; [exact Hc1 | split; [| intros; exact Hc2]].
    intros x Hx. rewrite Hc3 by exact Hx. now apply Hfm.
  Qed.

  Theorem par_directory c fs term chain partitions :
    Store.dir_ok (mkdir fs) ->
    let pid := pid_par H (length chain) partitions in
    let '(res, d') := exec_par_ckpt sh readdir H avail clock c fs term chain partitions in
    Store.dir_ok d' /\ foreign_same pid (mkdir fs) d'
    /\ (forall rows, res = Ok rows -> own_files pid d' = []).
  Proof.
    intros Hok pid. unfold exec_par_ckpt. rewrite recover_true. fold pid.
    destruct (exec_par sh term chain partitions) as [rows | e | | ].
    - destruct (clear_facts pid (mkdir fs) Hok) as (Hc1 & Hc2 & Hc3).
      split; [exact Hc1 | split; [exact Hc3 | intros; exact Hc2]].
    - set (st := mk_state _ _ _ _ _ _ _ _ _).
      assert (Hi0 : dir_inv pid (mkdir fs) (mkdir fs)) by (split; [exact Hok | intros x _; reflexivity]).
      destruct (save_inv pid (mkdir fs) (c_max c) (mkdir fs) st eq_refl (ts_ms_u64 _) Hi0) as [H1 H2].
      split; [exact H1 | split; [exact H2 | intros rows; discriminate]].
    - split; [exact Hok | split; [intros x _; reflexivity | intros rows; discriminate]].
    - split; [exact Hok | split; [intros x _; reflexivity | intros rows; discriminate]].
  Qed.
End Facts.
