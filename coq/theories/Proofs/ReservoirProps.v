(* Final-form statements for Props/C14.v, assembled from Proofs/Reservoir.v and
   Proofs/ReservoirKeyed.v (sub-multiset in the counting form, the four entry points together). *)
From Coq Require Import List NArith ZArith Arith Bool Lia Permutation.
From IB Require Import Combiners.Reservoir Proofs.Reservoir Proofs.ReservoirKeyed.
Import ListNotations.

Section Final.
  Context {T : Type}.
  Variable dec : forall x y : T, {x = y} + {x <> y}.

  Lemma p_sample_size : forall k seed (parts : list (list T)),
    length (sample_parts k seed parts) = Nat.min k (length (concat parts)).
  Proof. exact sample_parts_size. Qed.

  Lemma p_sample_submultiset : forall k seed (parts : list (list T)) x,
    count_occ dec (sample_parts k seed parts) x <= count_occ dec (concat parts) x.
  Proof.
    intros k seed parts x. destruct (sample_parts_sub k seed parts) as [d Hd].
    exact (sub_count dec _ d _ x Hd).
  Qed.

  Lemma p_any_merge_order : forall k seed (a : pracc T) (m : list T),
    built k seed a m ->
    length (finish a) = Nat.min k (length m) /\
    forall x, count_occ dec (finish a) x <= count_occ dec m x.
  Proof.
    intros k seed a m H. split; [exact (built_sample_size _ _ _ _ H)|].
    intros x. destruct (built_sample_sub _ _ _ _ H) as [d Hd]. exact (sub_count dec _ d _ x Hd).
  Qed.

  Lemma p_global_entry_points : forall k seed p (data : list T),
    global_seq_vec k seed data = [global_seq k seed data] /\
    global_par_vec k seed p data = [global_par k seed p data] /\
    length (global_seq k seed data) = Nat.min k (length data) /\
    length (global_par k seed p data) = Nat.min k (length data) /\
    (forall x, count_occ dec (global_seq k seed data) x <= count_occ dec data x) /\
    (forall x, count_occ dec (global_par k seed p data) x <= count_occ dec data x).
  Proof.
    intros k seed p data.
    split; [unfold global_seq, global_seq_vec; cbn [concat]; rewrite app_nil_r; reflexivity|].
    split; [unfold global_par, global_par_vec; cbn [concat]; rewrite app_nil_r; reflexivity|].
    split; [apply global_seq_size|]. split; [apply global_par_size|]. split; intros x.
    - destruct (global_seq_sub k seed data) as [d Hd]. exact (sub_count dec _ d _ x Hd).
    - destruct (global_par_sub k seed p data) as [d Hd]. exact (sub_count dec _ d _ x Hd).
  Qed.

  Lemma p_mode_stable_outside_class : forall k seed (parts1 parts2 : list (list T)),
    concat parts1 = concat parts2 ->
    k = 0 \/ length (concat parts1) <= k \/ parts1 = parts2 ->
    Permutation (sample_parts k seed parts1) (sample_parts k seed parts2).
  Proof. exact sample_parts_stable_outside_class. Qed.

  Section Keyed.
    Context {K : Type}.
    Variable keqb : K -> K -> bool.
    Hypothesis keqb_spec : forall x y, reflect (x = y) (keqb x y).

    Lemma p_per_key : forall k seed (parts : list (list (K * T))),
      let data := concat parts in
      let out := keyed_parts keqb k seed parts in
      NoDup (map fst out) /\
      (forall key, In key (map fst out) <-> In key (map fst data)) /\
      (forall key s, In (key, s) out ->
         length s = Nat.min k (length (vals keqb key data)) /\
         forall x, count_occ dec s x <= count_occ dec (vals keqb key data) x) /\
      (forall key,
         let flat := vals keqb key (flatten_keyed out) in
         length flat = Nat.min k (length (vals keqb key data)) /\
         forall x, count_occ dec flat x <= count_occ dec (vals keqb key data) x).
    Proof.
      intros k seed parts. cbv zeta.
      destruct (keyed_parts_spec keqb keqb_spec k seed parts) as [Hnd [Hkeys Hs]].
      split; [exact Hnd|]. split; [exact Hkeys|]. split.
      - intros key s Hin. destruct (Hs key s Hin) as [Hl [d Hd]]. split; [exact Hl|].
        intros x. exact (sub_count dec _ d _ x Hd).
      - intros key. destruct (keyed_flat_spec keqb keqb_spec k seed parts key) as [Hl [d Hd]].
        split; [exact Hl|]. intros x. exact (sub_count dec _ d _ x Hd).
    Qed.

    (* the four keyed observables are instances (sequential = one partition; parallel = the
       runner's split, whose concatenation is the input) *)
    Lemma p_keyed_entry_points : forall k seed p (data : list (K * T)),
      keyed_seq_vec keqb k seed data = keyed_parts keqb k seed [data] /\
      keyed_par_vec keqb k seed p data = keyed_parts keqb k seed (runner_split p data) /\
      keyed_seq keqb k seed data = flatten_keyed (keyed_seq_vec keqb k seed data) /\
      keyed_par keqb k seed p data = flatten_keyed (keyed_par_vec keqb k seed p data) /\
      concat [data] = data /\ concat (runner_split p data) = data.
    Proof.
      intros. repeat split; try reflexivity.
      - cbn [concat]. apply app_nil_r.
      - apply runner_split_concat.
    Qed.
  End Keyed.
End Final.

(* functional determinism: one (k, seed, partitioning) has one sample *)
Lemma p_reproducible : forall (T : Type) k1 k2 seed1 seed2 (parts1 parts2 : list (list T)),
  k1 = k2 -> seed1 = seed2 -> parts1 = parts2 ->
  sample_parts k1 seed1 parts1 = sample_parts k2 seed2 parts2.
Proof. intros; subst; reflexivity. Qed.

(* the documented mode stability is false of the faithful model *)
Lemma p_mode_stable_refuted :
  let data := map Z.of_nat (seq 0 20) in
  global_seq 5 42%N data = [15; 11; 19; 9; 4]%Z /\
  global_par 5 42%N 4 data = [4; 9; 14; 19; 18]%Z /\
  ~ Permutation (global_seq 5 42%N data) (global_par 5 42%N 4 data).
Proof.
  cbv zeta.
  assert (E1 : global_seq 5 42%N (map Z.of_nat (seq 0 20)) = [15; 11; 19; 9; 4]%Z)
    by (vm_compute; reflexivity).
  assert (E2 : global_par 5 42%N 4 (map Z.of_nat (seq 0 20)) = [4; 9; 14; 19; 18]%Z)
    by (vm_compute; reflexivity).
  split; [exact E1|]. split; [exact E2|]. rewrite E1, E2. intros H.
  assert (Hin : In 15%Z [4; 9; 14; 19; 18]%Z) by (eapply Permutation_in; [exact H|left; reflexivity]).
  cbn [In] in Hin. repeat (destruct Hin as [Hin|Hin]; [discriminate|]). exact Hin.
Qed.
