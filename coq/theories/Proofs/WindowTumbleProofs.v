(* Proofs about the model of Window::tumble (Window/Tumble.v). *)
From Coq Require Import ZArith Bool Lia.
From IB Require Import Window.Tumble.
Open Scope Z_scope.

(* ---------- arithmetic of the correct window start ---------- *)

Lemma win_start_bounds : forall ts size off,
    1 <= size -> win_start ts size off <= ts < win_start ts size off + size.
Proof.
  intros ts size off Hs. unfold win_start.
  pose proof (Z.mod_pos_bound (ts - off) size ltac:(lia)) as Hb. lia.
Qed.

Lemma win_start_multiple : forall ts size off,
    1 <= size -> win_start ts size off = off + ((ts - off) / size) * size.
Proof.
  intros ts size off Hs. unfold win_start.
  pose proof (Z.div_mod (ts - off) size ltac:(lia)) as Hd. lia.
Qed.

Lemma win_start_aligned : forall ts size off,
    1 <= size -> (win_start ts size off - off) mod size = 0.
Proof.
  intros ts size off Hs. rewrite (win_start_multiple ts size off Hs).
  replace (off + (ts - off) / size * size - off) with ((ts - off) / size * size) by lia.
  apply Z.mod_mul. lia.
Qed.

Lemma aligned_multiple : forall s size off,
    1 <= size -> (s - off) mod size = 0 -> exists j, s = off + j * size.
Proof.
  intros s size off Hs Hm. exists ((s - off) / size).
  pose proof (Z.div_mod (s - off) size ltac:(lia)) as Hd. lia.
Qed.

Lemma win_start_unique : forall ts size off s,
    1 <= size -> (s - off) mod size = 0 -> s <= ts < s + size -> s = win_start ts size off.
Proof.
  intros ts size off s Hs Hal Hin.
  destruct (aligned_multiple s size off Hs Hal) as [j Hj].
  unfold win_start.
  assert (Hr : (ts - off) mod size = ts - s).
  { symmetry. apply (Z.mod_unique (ts - off) size j (ts - s)); lia. }
  lia.
Qed.

(* the start computed by the code: floor((ts - off mod size) / size) * size + off mod size *)
Lemma code_start_eq : forall ts size off,
    1 <= size -> (ts - off mod size) / size * size + off mod size = win_start ts size off.
Proof.
  intros ts size off Hs. unfold win_start.
  pose proof (Z.div_mod (ts - off mod size) size ltac:(lia)) as Hd.
  rewrite <- (Zminus_mod_idemp_r ts off size). lia.
Qed.

Lemma win_start_nonneg_iff : forall ts size off,
    1 <= size -> (0 <= win_start ts size off <-> off mod size <= ts).
Proof.
  intros ts size off Hs.
  pose proof (Z.mod_pos_bound off size ltac:(lia)) as Hm.
  pose proof (win_start_bounds ts size off Hs) as Hb.
  split; intros H.
  - (* start >= 0, start = off mod size (mod size) ==> start >= off mod size *)
    destruct (Z_lt_le_dec ts (off mod size)) as [Hlt|]; [|assumption]. exfalso.
    (* then 0 <= start < size and start aligned, so start = off mod size > ts *)
    assert (Hst : win_start ts size off mod size = off mod size).
    { pose proof (win_start_aligned ts size off Hs) as Ha.
      replace (win_start ts size off) with ((win_start ts size off - off) + off) at 1 by lia.
      rewrite Z.add_mod by lia. rewrite Ha. rewrite Z.add_0_l. apply Z.mod_mod. lia. }
    rewrite Z.mod_small in Hst by lia. lia.
  - rewrite <- (code_start_eq ts size off Hs).
    assert (0 <= (ts - off mod size) / size) by (apply Z.div_pos; lia). nia.
Qed.

(* ---------- the model, in closed form ---------- *)

Lemma div_floor_with_pos : forall sub a b,
    0 <= a -> 0 < b -> div_floor_with sub a b = Ok (a / b).
Proof.
  intros sub a b Ha Hb. unfold div_floor_with, cdiv, crem.
  destruct (Z.eqb_spec b 0) as [->|_]; [lia|]. cbn [bind].
  pose proof (Z.mod_pos_bound a b Hb) as Hr.
  destruct (Z.eqb_spec (a mod b) 0) as [_|Hne]; [reflexivity|].
  assert (H1 : (0 <? a mod b) = true) by (apply Z.ltb_lt; lia).
  assert (H2 : (0 <? b) = true) by (apply Z.ltb_lt; lia).
  rewrite H1, H2. reflexivity.
Qed.

Lemma tumble_debug_eq : forall ts size off,
    tumble_debug ts size off =
      if size <=? 0 then Panic
      else if ts <? off mod size then Panic
      else if U64 <=? win_start ts size off + size then Panic
      else Ok (win_start ts size off, win_start ts size off + size).
Proof.
  intros ts size off. unfold tumble_debug, tumble_with.
  destruct (Z.leb_spec size 0) as [Hle|Hpos].
  - assert (H : (0 <? size) = false) by (apply Z.ltb_ge; lia). rewrite H. reflexivity.
  - assert (H : (0 <? size) = true) by (apply Z.ltb_lt; lia). rewrite H. cbn [andb negb].
    unfold crem. destruct (Z.eqb_spec size 0) as [->|_]; [lia|]. cbn [bind].
    unfold csub at 1.
    destruct (Z.ltb_spec ts (off mod size)) as [Hlt|Hge].
    + assert (H0 : (off mod size <=? ts) = false) by (apply Z.leb_gt; lia).
      rewrite H0. reflexivity.
    + assert (H0 : (off mod size <=? ts) = true) by (apply Z.leb_le; lia).
      rewrite H0. cbn [bind].
      rewrite div_floor_with_pos by lia. cbn [bind].
      pose proof (code_start_eq ts size off ltac:(lia)) as Hcs.
      assert (Hq : 0 <= (ts - off mod size) / size) by (apply Z.div_pos; lia).
      pose proof (Z.mod_pos_bound off size ltac:(lia)) as Hm.
      set (q := (ts - off mod size) / size) in *.
      set (w := win_start ts size off) in *.
      unfold cmul.
      destruct (Z.ltb_spec (q * size) U64) as [Hmul|Hmul]; cbn [bind].
      * unfold cadd at 1.
        destruct (Z.ltb_spec (q * size + off mod size) U64) as [Hadd|Hadd]; cbn [bind].
        -- rewrite Hcs. unfold cadd.
           destruct (Z.ltb_spec (w + size) U64) as [He|He]; cbn [bind].
           ++ assert (H1 : (U64 <=? w + size) = false) by (apply Z.leb_gt; lia).
              rewrite H1. reflexivity.
           ++ assert (H1 : (U64 <=? w + size) = true) by (apply Z.leb_le; lia).
              rewrite H1. reflexivity.
        -- assert (H1 : (U64 <=? w + size) = true) by (apply Z.leb_le; lia).
           rewrite H1. reflexivity.
      * assert (H1 : (U64 <=? w + size) = true) by (apply Z.leb_le; lia).
        rewrite H1. reflexivity.
Qed.

(* ---------- the property theorems ---------- *)

Lemma tumble_spec : forall ts size off,
    1 <= size -> off mod size <= ts -> win_start ts size off + size < 2 ^ 64 ->
    let s := win_start ts size off in
    tumble_debug ts size off = Ok (s, s + size)
    /\ s <= ts < s + size
    /\ (s + size) - s = size
    /\ (s - off) mod size = 0
    /\ (exists j, s = off + j * size)
    /\ 0 <= s.
Proof.
  intros ts size off Hs Hlo Hhi s. subst s.
  repeat split.
  - rewrite tumble_debug_eq.
    assert (H1 : (size <=? 0) = false) by (apply Z.leb_gt; lia).
    assert (H2 : (ts <? off mod size) = false) by (apply Z.ltb_ge; lia).
    assert (H3 : (U64 <=? win_start ts size off + size) = false)
      by (apply Z.leb_gt; unfold U64; lia).
    rewrite H1, H2, H3. reflexivity.
  - apply win_start_bounds; assumption.
  - apply win_start_bounds; assumption.
  - lia.
  - apply win_start_aligned; assumption.
  - exists ((ts - off) / size). apply win_start_multiple; assumption.
  - apply win_start_nonneg_iff; assumption.
Qed.

Lemma tumble_unique : forall ts size off s e,
    1 <= size -> e - s = size -> (s - off) mod size = 0 -> s <= ts < e ->
    (s, e) = (win_start ts size off, win_start ts size off + size).
Proof.
  intros ts size off s e Hs He Hal Hin.
  assert (s = win_start ts size off) by (apply win_start_unique; [assumption|assumption|lia]).
  subst s. f_equal. lia.
Qed.

Lemma is_window_of_iff : forall ts size off w,
    1 <= size ->
    (is_window_of ts size off w = true <->
     w = (win_start ts size off, win_start ts size off + size)).
Proof.
  intros ts size off [s e] Hs. unfold is_window_of.
  rewrite !andb_true_iff, Z.eqb_eq, Z.leb_le, Z.ltb_lt, Z.eqb_eq. split.
  - intros [[[He Hle] Hlt] Hal]. apply tumble_unique; try assumption. lia.
  - intros H. injection H as -> ->.
    pose proof (win_start_bounds ts size off Hs). pose proof (win_start_aligned ts size off Hs).
    repeat split; lia.
Qed.

Lemma tumble_panics_iff : forall ts size off,
    tumble_debug ts size off = Panic <-> (size <= 0 \/ unrepresentable ts size off = true).
Proof.
  intros ts size off. rewrite tumble_debug_eq. unfold unrepresentable.
  destruct (Z.leb_spec size 0) as [Hle|Hpos].
  - split; [intros _; left; assumption | reflexivity].
  - assert (H1 : (1 <=? size) = true) by (apply Z.leb_le; lia). rewrite H1. cbn [andb].
    destruct (ts <? off mod size); cbn [orb].
    + split; [intros _; right; reflexivity | reflexivity].
    + destruct (U64 <=? win_start ts size off + size).
      * split; [intros _; right; reflexivity | reflexivity].
      * split; [discriminate | intros [H|H]; [lia | discriminate]].
Qed.

Lemma unrepresentable_low : forall ts size off,
    1 <= size -> ts < off mod size ->
    (forall s e, 0 <= s -> is_window_of ts size off (s, e) = true -> False)
    /\ tumble_debug ts size off = Panic.
Proof.
  intros ts size off Hs Hlt. split.
  - intros s e Hs0 Hw. apply (is_window_of_iff ts size off (s, e) Hs) in Hw.
    injection Hw as -> _.
    apply (win_start_nonneg_iff ts size off Hs) in Hs0. lia.
  - apply tumble_panics_iff. right. unfold unrepresentable.
    assert (H1 : (1 <=? size) = true) by (apply Z.leb_le; lia).
    assert (H2 : (ts <? off mod size) = true) by (apply Z.ltb_lt; lia).
    rewrite H1, H2. reflexivity.
Qed.

Lemma unrepresentable_high : forall ts size off,
    1 <= size -> 2 ^ 64 <= win_start ts size off + size ->
    (forall s e, e < 2 ^ 64 -> is_window_of ts size off (s, e) = true -> False)
    /\ tumble_debug ts size off = Panic.
Proof.
  intros ts size off Hs Hhi. split.
  - intros s e He Hw. apply (is_window_of_iff ts size off (s, e) Hs) in Hw.
    injection Hw as -> ->. lia.
  - apply tumble_panics_iff. right. unfold unrepresentable.
    assert (H1 : (1 <=? size) = true) by (apply Z.leb_le; lia).
    assert (H2 : (U64 <=? win_start ts size off + size) = true)
      by (apply Z.leb_le; unfold U64; lia).
    rewrite H1, H2. apply orb_true_r.
Qed.

(* every representable input gets its window: the complement of the known class *)
Lemma tumble_total_outside_class : forall ts size off,
    1 <= size -> unrepresentable ts size off = false ->
    tumble_debug ts size off = Ok (win_start ts size off, win_start ts size off + size).
Proof.
  intros ts size off Hs Hu. unfold unrepresentable in Hu.
  assert (H1 : (1 <=? size) = true) by (apply Z.leb_le; lia). rewrite H1 in Hu. cbn [andb] in Hu.
  apply orb_false_iff in Hu. destruct Hu as [Ha Hb].
  apply Z.ltb_ge in Ha. apply Z.leb_gt in Hb. unfold U64 in Hb.
  apply (tumble_spec ts size off Hs Ha Hb).
Qed.

(* windows partition event time: two timestamps get the same window iff the second lies in
   the window of the first *)
Lemma same_window_iff : forall size off t1 t2,
    1 <= size ->
    (win_start t1 size off = win_start t2 size off <->
     win_start t1 size off <= t2 < win_start t1 size off + size).
Proof.
  intros size off t1 t2 Hs. split.
  - intros ->. apply win_start_bounds; assumption.
  - intros Hin. apply win_start_unique; [assumption| |assumption].
    apply win_start_aligned; assumption.
Qed.

(* ---------- release profile ---------- *)
Lemma tumble_release_agrees : forall ts size off w,
    tumble_debug ts size off = Ok w -> tumble_release ts size off = Ok w.
Proof.
  intros ts size off w. rewrite tumble_debug_eq.
  destruct (Z.leb_spec size 0) as [|Hpos]; [discriminate|].
  destruct (Z.ltb_spec ts (off mod size)) as [|Hge]; [discriminate|].
  destruct (Z.leb_spec U64 (win_start ts size off + size)) as [|Hhi]; [discriminate|].
  intros H. injection H as <-.
  unfold tumble_release, tumble_with. cbn [andb].
  unfold crem. destruct (Z.eqb_spec size 0) as [->|_]; [lia|]. cbn [bind].
  pose proof (code_start_eq ts size off ltac:(lia)) as Hcs.
  pose proof (win_start_bounds ts size off ltac:(lia)) as Hb.
  pose proof (Z.mod_pos_bound off size ltac:(lia)) as Hm.
  assert (Hq : 0 <= (ts - off mod size) / size) by (apply Z.div_pos; lia).
  unfold wsub at 1. cbn [bind].
  assert (Hrel : (ts - off mod size) mod U64 = ts - off mod size)
    by (apply Z.mod_small; lia).
  rewrite Hrel. rewrite div_floor_with_pos by lia. cbn [bind].
  set (q := (ts - off mod size) / size) in *.
  unfold wmul. cbn [bind].
  assert (Hks : (q * size) mod U64 = q * size) by (apply Z.mod_small; nia).
  rewrite Hks. unfold wadd. cbn [bind].
  rewrite Hcs.
  assert (Hst : win_start ts size off mod U64 = win_start ts size off)
    by (apply Z.mod_small; nia).
  rewrite Hst.
  assert (He : (win_start ts size off + size) mod U64 = win_start ts size off + size)
    by (apply Z.mod_small; nia).
  rewrite He. reflexivity.
Qed.
