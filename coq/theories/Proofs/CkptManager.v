(* Proofs about the checkpoint manager used directly (Ckpt/Manager.v) and about the policies inside the
   checkpointing engines (Ckpt/Runner.v): the decision table of should_checkpoint for every parameter
   value, purity of should_checkpoint, the engine's checkpoint block as a manager call sequence, and
   policy-level equalities of whole runs. *)
From Coq Require Import List ZArith Bool Arith Lia Permutation String.
From IB Require Import Util.J Engine.Val Engine.Ops Engine.Nodes Engine.Exec Ckpt.Runner Ckpt.Manager
     Proofs.CkptRunner.
From IB Require Ckpt.Bincode Ckpt.Store.
Import ListNotations.

(* ------------------------------------------------------------------ the decision table *)
Lemma policy_disabled_or_barrier pol last now idx b :
  Store.should_checkpoint false pol last now idx b = false
  /\ Store.should_checkpoint true Store.AfterEveryBarrier last now idx b = b.
Proof. split; reflexivity. Qed.

Lemma policy_time_first now idx b :
  (forall s, Store.should_checkpoint true (Store.TimeInterval s) None now idx b = true)
  /\ (forall bb s, Store.should_checkpoint true (Store.Hybrid bb s) None now idx b = true).
Proof.
  split; [intro s | intros bb s]; cbn [Store.should_checkpoint Store.time_due]; [reflexivity|].
  apply orb_true_r.
Qed.

Lemma time_due_spec t now s :
  Store.time_due (Some t) now s = true <-> (t <= now /\ s * 1000000000 <= now - t)%Z.
Proof.
  cbn [Store.time_due]. rewrite andb_true_iff, !Z.leb_le. reflexivity.
Qed.

Lemma policy_time_later t now s idx b bb :
  (Store.should_checkpoint true (Store.TimeInterval s) (Some t) now idx b = true
   <-> (t <= now /\ s * 1000000000 <= now - t)%Z)
  /\ (Store.should_checkpoint true (Store.Hybrid bb s) (Some t) now idx b = true
      <-> (bb = true /\ b = true) \/ (t <= now /\ s * 1000000000 <= now - t)%Z).
Proof.
  split.
  - cbn [Store.should_checkpoint]. apply time_due_spec.
  - cbn [Store.should_checkpoint]. rewrite orb_true_iff, andb_true_iff, time_due_spec. reflexivity.
Qed.

(* the interval has not elapsed (or the clock went back): time never triggers, Hybrid is its barrier half *)
Lemma policy_time_pending t now s idx b bb :
  (now < t \/ now - t < s * 1000000000)%Z ->
  Store.should_checkpoint true (Store.TimeInterval s) (Some t) now idx b = false
  /\ Store.should_checkpoint true (Store.Hybrid bb s) (Some t) now idx b = bb && b.
Proof.
  intro Hp.
  assert (Hd : Store.time_due (Some t) now s = false).
  { destruct (Store.time_due (Some t) now s) eqn:E; [|reflexivity].
    apply time_due_spec in E. lia. }
  cbn [Store.should_checkpoint]. rewrite Hd. split; [reflexivity | apply orb_false_r].
Qed.

Lemma policy_every_n n last now idx b :
  (0 <= n)%Z ->
  Store.should_checkpoint true (Store.EveryNNodes n) last now idx b = true
  <-> (0 < idx /\ 0 < n /\ (n | idx))%Z.
Proof.
  intro Hn. cbn [Store.should_checkpoint]. rewrite andb_true_iff, Z.ltb_lt.
  destruct (n =? 0)%Z eqn:E.
  - apply Z.eqb_eq in E. subst n. rewrite Z.eqb_eq. split; [lia|]. intros (_ & Hc & _). lia.
  - apply Z.eqb_neq in E. rewrite Z.eqb_eq, (Z.mod_divide idx n E).
    split; [intros [Hi Hd] | intros (Hi & _ & Hd)]; repeat split; try assumption; lia.
Qed.

(* ------------------------------------------------------------------ should_checkpoint is pure *)
Section Pure.
  Variable readdir : dir -> list Store.name.
  Variable c : cfg.

  Lemma call_keeps_manager now m idx b : snd (mgr_step readdir c now m (MCall idx b)) = m.
  Proof. reflexivity. Qed.

  (* removing every should_checkpoint call from a script changes neither the final manager (its
     last_checkpoint_time, its directory) nor the outcome of any other operation *)
  Lemma calls_are_pure ops :
    forall m,
      snd (mgr_run readdir c m ops) = snd (mgr_run readdir c m (without_calls ops))
      /\ filter (fun r => negb (is_decision r)) (fst (mgr_run readdir c m ops))
         = fst (mgr_run readdir c m (without_calls ops)).
  Proof.
    induction ops as [|[now op] r IH]; intro m; [split; reflexivity|].
    unfold without_calls in *. cbn [mgr_run filter snd].
    destruct op as [idx b | s | l]; cbn [is_call negb].
    - cbn [mgr_step]. specialize (IH m).
      destruct (mgr_run readdir c m r) as [xs m2]. cbn [fst snd filter is_decision negb] in *. exact IH.
    - cbn [mgr_run]. destruct (mgr_step readdir c now m (MSave s)) as [x m1] eqn:Es.
      assert (Hx : is_decision x = false).
      { cbn [mgr_step] in Es. destruct (Store.save readdir (c_max c) (m_dir m) s) as [[nm | e | ] d'];
          inversion Es; reflexivity. }
      specialize (IH m1).
      destruct (mgr_run readdir c m1 r) as [xs m2].
      destruct (mgr_run readdir c m1 (filter _ r)) as [ys m3].
      cbn [fst snd filter] in *. rewrite Hx. cbn [negb]. destruct IH as [IH1 IH2]. split; congruence.
    - cbn [mgr_run mgr_step]. specialize (IH (mk_mgr l (m_dir m))).
      destruct (mgr_run readdir c (mk_mgr l (m_dir m)) r) as [xs m2].
      destruct (mgr_run readdir c (mk_mgr l (m_dir m)) (filter _ r)) as [ys m3].
      cbn [fst snd filter is_decision negb] in *. destruct IH as [IH1 IH2]. split; congruence.
  Qed.
End Pure.

(* ------------------------------------------------------------------ the engines and the policies *)
Section Engines.
  Variable sh : nat -> list val -> list val.
  Variable readdir : dir -> list Store.name.
  Variable H : bytes -> bytes.
  Variable avail : Z.
  Variable pct : nat -> nat -> Z.
  Variable clock : nat -> nat -> Z.

  (* the checkpoint block after a node of the sequential engine IS the manager call sequence
     should_checkpoint, then (when told to) save_checkpoint of the state the engine builds *)
  Lemma ckpt_block_is_call_then_save c pid total idx n m :
    ckpt_after readdir H pct clock c pid total idx n m
    = decide_then_save readdir c (clock idx 0) (clock idx 2) (Z.of_nat idx) (is_barrier n)
        (mk_state H pid (Z.of_nat idx) (ts_ms (clock idx 1)) 1 (string_bytes "sequential"%string)
                  (Z.of_nat total) (node_type n) (pct idx total)) m.
  Proof.
    unfold ckpt_after, decide_then_save. cbn [mgr_step fst].
    destruct (Store.should_checkpoint _ _ _ _ _ _); [|reflexivity].
    destruct (Store.save _ _ _ _) as [[nm | e | ] d']; reflexivity.
  Qed.

  (* two configurations whose checkpoint blocks coincide run the same loop *)
  Lemma loop_policy_ext arm c1 c2 pid total term chain :
    (forall idx n m, ckpt_after readdir H pct clock c1 pid total idx n m
                     = ckpt_after readdir H pct clock c2 pid total idx n m) ->
    forall i idx buf m,
      seq_ckpt_loop readdir H pct clock arm c1 pid total term i idx chain buf m
      = seq_ckpt_loop readdir H pct clock arm c2 pid total term i idx chain buf m.
  Proof.
    intro He. induction chain as [|n r IH]; intros i idx buf m; [reflexivity|].
    cbn [seq_ckpt_loop]. destruct (arm i term n buf); try reflexivity. rewrite He. apply IH.
  Qed.

  (* Hybrid { barriers: false, interval_secs } is TimeInterval(interval_secs): same outcome, same directory *)
  Lemma hybrid_false_is_time en s auto max fs term chain :
    exec_seq_ckpt sh readdir H avail pct clock (mk_cfg en (Store.Hybrid false s) auto max) fs term chain
    = exec_seq_ckpt sh readdir H avail pct clock (mk_cfg en (Store.TimeInterval s) auto max) fs term chain.
  Proof.
    unfold exec_seq_ckpt, exec_seq_ckpt_with.
    set (c1 := mk_cfg en (Store.Hybrid false s) auto max).
    set (c2 := mk_cfg en (Store.TimeInterval s) auto max).
    assert (Hr : forall pid d, recover readdir H avail c1 pid d = recover readdir H avail c2 pid d)
      by reflexivity.
    rewrite Hr. destruct (recover readdir H avail c2 _ _); [|reflexivity].
    rewrite (loop_policy_ext (ckpt_arm sh) c1 c2); [reflexivity|].
    intros idx n m. unfold ckpt_after, c1, c2. cbn [c_enabled c_policy c_max].
    destruct en; reflexivity.
  Qed.

  (* the parallel wrapper never consults the policy *)
  Lemma par_ignores_policy en p1 p2 auto max fs term chain partitions :
    exec_par_ckpt sh readdir H avail clock (mk_cfg en p1 auto max) fs term chain partitions
    = exec_par_ckpt sh readdir H avail clock (mk_cfg en p2 auto max) fs term chain partitions.
  Proof. reflexivity. Qed.

  (* EveryNNodes(n) with n = 0 or n at least the length of the chain (usize::MAX ..) never checkpoints *)
  Lemma every_beyond_never c n total last now idx b :
    c_policy c = Store.EveryNNodes n -> (n = 0 \/ Z.of_nat total <= n)%Z -> (idx < total)%nat ->
    Store.should_checkpoint (c_enabled c) (c_policy c) last now (Z.of_nat idx) b = false.
  Proof.
    intros -> Hn Hi. unfold Store.should_checkpoint. destruct (c_enabled c); [|reflexivity].
    destruct (0 <? Z.of_nat idx)%Z eqn:E1; [|reflexivity]. apply Z.ltb_lt in E1. cbn [andb].
    destruct (n =? 0)%Z eqn:E0.
    - apply Z.eqb_neq. lia.
    - apply Z.eqb_neq in E0. apply Z.eqb_neq. rewrite Z.mod_small; lia.
  Qed.

  Lemma every_beyond_loop arm c pid total term n :
    c_policy c = Store.EveryNNodes n -> (n = 0 \/ Z.of_nat total <= n)%Z ->
    forall chain i idx buf m, (idx + List.length chain <= total)%nat ->
      snd (seq_ckpt_loop readdir H pct clock arm c pid total term i idx chain buf m) = m.
  Proof.
    intros Hp Hn. induction chain as [|x r IH]; intros i idx buf m Hlen; [reflexivity|].
    cbn [seq_ckpt_loop]. cbn [List.length] in Hlen. destruct (arm i term x buf); try reflexivity.
    rewrite IH by lia. unfold ckpt_after.
    rewrite (every_beyond_never c n total) by (try assumption; lia). reflexivity.
  Qed.

  Hypothesis Hav : (Bincode.ckpt_limit <= avail)%Z.

  Theorem every_beyond_writes_nothing c n fs term chain :
    c_policy c = Store.EveryNNodes n -> (n = 0 \/ Z.of_nat (List.length chain) <= n)%Z ->
    let pid := pid_seq H (List.length chain) in
    let '(res, d') := exec_seq_ckpt sh readdir H avail pct clock c fs term chain in
    d' = match res with Ok _ => Store.clear readdir pid (mkdir fs) | _ => mkdir fs end.
  Proof.
    intros Hp Hn pid. unfold exec_seq_ckpt, exec_seq_ckpt_with.
    rewrite (recover_true readdir H avail Hav). fold pid.
    pose proof (every_beyond_loop (ckpt_arm sh) c pid (List.length chain) term n Hp Hn chain 0 0 None
                                  (mk_mgr None (mkdir fs)) ltac:(cbn; lia)) as Hl.
    destruct (seq_ckpt_loop _ _ _ _ _ _ _ _ _ _ _ _ _ _) as [res m]. cbn [snd] in Hl. subst m.
    cbn [m_dir]. destruct res as [buf | e | | ]; try reflexivity.
    destruct (take buf) as [p | e | | ]; try reflexivity.
    destruct (Nat.eqb (fst p) term); reflexivity.
  Qed.
End Engines.

(* ------------------------------------------------------------------ intervals that do not elapse *)
Section Pending.
  Variable readdir : dir -> list Store.name.
  Variable H : bytes -> bytes.
  Variable pct : nat -> nat -> Z.
  Variable clock : nat -> nat -> Z.

  Lemma time_pending_loop arm c pid total term s t :
    c_policy c = Store.TimeInterval s ->
    forall chain i idx buf d,
      interval_pending clock s t idx (idx + List.length chain) ->
      snd (seq_ckpt_loop readdir H pct clock arm c pid total term i idx chain buf (mk_mgr (Some t) d))
      = mk_mgr (Some t) d.
  Proof.
    intros Hp. induction chain as [|n r IH]; intros i idx buf d Hn; [reflexivity|].
    cbn [seq_ckpt_loop]. cbn [List.length] in Hn. destruct (arm i term n buf); try reflexivity.
    assert (Hc : ckpt_after readdir H pct clock c pid total idx n (mk_mgr (Some t) d) = mk_mgr (Some t) d).
    { unfold ckpt_after. cbn [m_last]. rewrite Hp. destruct (c_enabled c); [|reflexivity].
      destruct (policy_time_pending t (clock idx 0%nat) s (Z.of_nat idx) (is_barrier n) false
                                    (Hn idx ltac:(lia))) as [E _].
      rewrite E. reflexivity. }
    rewrite Hc. apply IH. intros j Hj. apply Hn. lia.
  Qed.

  Lemma hybrid_pending_loop arm en s auto max pid total term :
    forall chain i idx buf m t,
      (forall j, (idx <= j < idx + List.length chain)%nat ->
                 interval_pending clock s (clock j 2%nat) idx (idx + List.length chain)) ->
      m_last m = Some t -> interval_pending clock s t idx (idx + List.length chain) ->
      seq_ckpt_loop readdir H pct clock arm (mk_cfg en (Store.Hybrid true s) auto max) pid total term i idx chain buf m
      = seq_ckpt_loop readdir H pct clock arm (mk_cfg en Store.AfterEveryBarrier auto max) pid total term i idx chain buf m.
  Proof.
    induction chain as [|n r IH]; intros i idx buf m t Hs Hm Ht; [reflexivity|].
    cbn [seq_ckpt_loop]. cbn [List.length] in Hs, Ht. destruct (arm i term n buf); try reflexivity.
    set (c1 := mk_cfg en (Store.Hybrid true s) auto max).
    set (c2 := mk_cfg en Store.AfterEveryBarrier auto max).
    assert (Hc : ckpt_after readdir H pct clock c1 pid total idx n m
                 = ckpt_after readdir H pct clock c2 pid total idx n m).
    { unfold ckpt_after, c1, c2. cbn [c_enabled c_policy c_max]. rewrite Hm. destruct en; [|reflexivity].
      destruct (policy_time_pending t (clock idx 0%nat) s (Z.of_nat idx) (is_barrier n) true
                                    (Ht idx ltac:(lia))) as [_ E].
      rewrite E. reflexivity. }
    rewrite Hc.
    assert (Hl : exists t', m_last (ckpt_after readdir H pct clock c2 pid total idx n m) = Some t'
                            /\ interval_pending clock s t' (S idx) (S idx + List.length r)).
    { assert (Hold : interval_pending clock s t (S idx) (S idx + List.length r))
        by (intros j Hj; apply Ht; lia).
      unfold ckpt_after. destruct (Store.should_checkpoint _ _ _ _ _ _); [|exists t; split; assumption].
      destruct (Store.save _ _ _ _) as [[nm | e | ] d']; cbn [m_last];
        [exists (clock idx 2%nat); split; [reflexivity|] | exists t; split; assumption ..].
      intros j Hj. apply (Hs idx); lia. }
    destruct Hl as (t' & Hm' & Ht'). apply (IH _ _ _ _ t'); try assumption.
    intros j Hj k Hk. apply (Hs j); lia.
  Qed.
End Pending.
