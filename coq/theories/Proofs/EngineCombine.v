(* C05 proofs: per-key combine (combine_values / combine_values_lifted) and global combine
   (combine_globally, multi-round fan-in) for EVERY lawful combiner.
   Route: a generic invariant for "fold of map.entry(k).or_insert_with(create) updates",
   instantiated three times (local pairs, local groups, merge of one part), then the merge
   over all parts, then the order oracle; for the global combine an invariant of the rounds
   ("the accumulators represent, in order, multisets whose concatenation is the input"). *)
From Coq Require Import List ZArith Bool Arith Lia Permutation.
From IB Require Import Engine.Val Engine.Ops Engine.AMap Engine.Nodes Engine.Exec Engine.Denote
     Combiners.Lawful Proofs.EngineBase Proofs.CombinersLawful.
Import ListNotations.
Local Open Scope nat_scope.

(* the loop of exec_par as it stood BEFORE the fix: group size max(fanout, 1) *)
Fixpoint merge_rounds_old (A : Type) (c : combiner val A val) (fuel : nat) (f : option nat)
         (accs : list A) : outcome (list A) :=
  match fuel with
  | O => Diverge
  | S fuel' =>
      if (length accs <=? 1)%nat then Ok accs
      else match f with
           | None => Ok [cg_merge A c accs]
           | Some f0 =>
               let f1 := Nat.max f0 1 in
               merge_rounds_old A c fuel' f
                                (map (cg_merge A c) (group_by A (length accs) f1 accs))
           end
  end.

(* ---------- small list facts ---------- *)
Lemma flat_map_single_ib : forall {X Y} (f : X -> Y) (l : list X),
    flat_map (fun x => [f x]) l = map f l.
Proof.
  intros X Y f l. induction l as [|x l IH]; cbn [flat_map map app]; [reflexivity|].
  rewrite IH. reflexivity.
Qed.

Lemma Forall2_firstn_ib : forall {X Y} (P : X -> Y -> Prop) n l l',
    Forall2 P l l' -> Forall2 P (firstn n l) (firstn n l').
Proof.
  intros X Y P n. induction n as [|n IH]; intros l l' H; cbn [firstn]; [constructor|].
  destruct H as [|x y l l' Hxy Hll]; [constructor|]. constructor; [exact Hxy|apply IH; exact Hll].
Qed.

Lemma Forall2_skipn_ib : forall {X Y} (P : X -> Y -> Prop) n l l',
    Forall2 P l l' -> Forall2 P (skipn n l) (skipn n l').
Proof.
  intros X Y P n. induction n as [|n IH]; intros l l' H; cbn [skipn]; [exact H|].
  destruct H as [|x y l l' Hxy Hll]; [constructor|]. apply IH; exact Hll.
Qed.

Lemma values_of_app : forall k l l', values_of k (l ++ l') = values_of k l ++ values_of k l'.
Proof. intros k l l'. unfold values_of. rewrite filter_app, map_app. reflexivity. Qed.

Lemma values_of_concat : forall k ps,
    values_of k (concat ps) = concat (map (fun rows => values_of k rows) ps).
Proof.
  intros k ps. induction ps as [|p ps IH]; cbn [concat map]; [reflexivity|].
  rewrite values_of_app, IH. reflexivity.
Qed.

Lemma group_values_concat : forall k ps,
    concat (map vlist (values_of k (concat ps)))
    = concat (map (fun rows => concat (map vlist (values_of k rows))) ps).
Proof.
  intros k ps. induction ps as [|p ps IH]; cbn [concat map]; [reflexivity|].
  rewrite values_of_app, map_app, concat_app, IH. reflexivity.
Qed.

(* ---------- fold of `*map.entry(key x).or_insert_with(d) = step(old, x)` ---------- *)
Section FoldUpd.
  Variable A : Type.
  Variable d : A.
  Variable X : Type.
  Variable key : X -> val.
  Variable step : A -> X -> A.

  Definition updf (m : vmap A) (x : X) : vmap A :=
    aupd val_eqb (key x) d (fun a => step a x) m.

  Lemma getd_nil : forall k, getd val_eqb k d (@nil (val * A)) = d.
  Proof. reflexivity. Qed.

  Lemma getd_updf : forall k m x,
      getd val_eqb k d (updf m x)
      = if val_eqb (key x) k then step (getd val_eqb k d m) x else getd val_eqb k d m.
  Proof.
    intros k m x. unfold updf. destruct (val_eqb_spec (key x) k) as [He|Hne].
    - subst k. unfold getd at 1. rewrite (aget_aupd_same _ _ val_eqb_spec). reflexivity.
    - unfold getd. rewrite (aget_aupd_other _ _ val_eqb_spec) by congruence. reflexivity.
  Qed.

  Lemma fold_updf_keys : forall xs m k,
      In k (akeys (fold_left updf xs m)) <-> In k (akeys m) \/ In k (map key xs).
  Proof.
    induction xs as [|x xs IH]; intros m k; cbn [fold_left map In].
    - tauto.
    - rewrite IH. unfold updf. rewrite (akeys_aupd_in _ _ val_eqb_spec).
      assert (Hsym : k = key x <-> key x = k) by (split; congruence). tauto.
  Qed.

  Lemma fold_updf_nodup : forall xs m,
      NoDup (akeys m) -> NoDup (akeys (fold_left updf xs m)).
  Proof.
    induction xs as [|x xs IH]; intros m Hnd; cbn [fold_left]; [exact Hnd|].
    apply IH. unfold updf. apply (akeys_aupd_nodup _ _ val_eqb_spec). exact Hnd.
  Qed.

  Lemma filter_key_notin : forall k xs,
      ~ In k (map key xs) -> filter (fun x => val_eqb (key x) k) xs = [].
  Proof.
    intros k xs. induction xs as [|x xs IH]; cbn [filter map In]; intros Hn; [reflexivity|].
    destruct (val_eqb_spec (key x) k) as [He|Hne].
    - exfalso. apply Hn. left. exact He.
    - apply IH. intros Hin. apply Hn. right. exact Hin.
  Qed.

  (* what the entry of k stands for *)
  Variable R : A -> list val -> Prop.
  Variable vals : X -> list val.

  Definition kvals (k : val) (xs : list X) : list val :=
    flat_map vals (filter (fun x => val_eqb (key x) k) xs).

  Lemma fold_updf_R : forall k xs m w,
      (forall x a u, In x xs -> R a u -> R (step a x) (u ++ vals x)) ->
      R (getd val_eqb k d m) w ->
      R (getd val_eqb k d (fold_left updf xs m)) (w ++ kvals k xs).
  Proof.
    intros k xs. unfold kvals.
    induction xs as [|x xs IH]; intros m w Hstep Hw; cbn [fold_left filter].
    - cbn [flat_map]. rewrite app_nil_r. exact Hw.
    - assert (Hstep' : forall x0 a u, In x0 xs -> R a u -> R (step a x0) (u ++ vals x0)).
      { intros x0 a u Hin Ha. apply Hstep; [right; exact Hin|exact Ha]. }
      destruct (val_eqb (key x) k) eqn:E.
      + cbn [flat_map]. rewrite app_assoc. apply IH; [exact Hstep'|].
        rewrite getd_updf, E. apply Hstep; [left; reflexivity|exact Hw].
      + apply IH; [exact Hstep'|]. rewrite getd_updf, E. exact Hw.
  Qed.
End FoldUpd.

(* the three instances *)
Definition upd_pairs (A : Type) (c : combiner val A val) :=
  updf A (c_create c) val vfst (fun a kv => c_add c a (vsnd kv)).
Definition upd_groups (A : Type) (c : combiner val A val) :=
  updf A (c_create c) val vfst (fun a kvs => c_merge c a (c_build c (vlist (vsnd kvs)))).
Definition upd_merge (A : Type) (c : combiner val A val) :=
  updf A (c_create c) (val * A) fst (fun a ka => c_merge c a (snd ka)).
Definition merge_step (A : Type) (c : combiner val A val) (acc m : vmap A) : vmap A :=
  fold_left (upd_merge A c) m acc.

Lemma cv_local_pairs_eq : forall A c rows,
    cv_local_pairs A c rows = fold_left (upd_pairs A c) rows [].
Proof. reflexivity. Qed.
Lemma cv_local_groups_eq : forall A c rows,
    cv_local_groups A c rows = fold_left (upd_groups A c) rows [].
Proof. reflexivity. Qed.
Lemma cv_merge_maps_eq : forall A c parts,
    cv_merge_maps A c parts = fold_left (merge_step A c) parts [].
Proof. reflexivity. Qed.

(* ---------- keys (no lawfulness needed) ---------- *)
Section Keys.
  Variable A : Type.
  Variable c : combiner val A val.

  Lemma cv_local_pairs_keys : forall rows k,
      In k (akeys (cv_local_pairs A c rows)) <-> In k (map vfst rows).
  Proof.
    intros rows k. rewrite cv_local_pairs_eq. unfold upd_pairs. rewrite fold_updf_keys.
    cbn [akeys map In]. tauto.
  Qed.
  Lemma cv_local_pairs_nodup : forall rows, NoDup (akeys (cv_local_pairs A c rows)).
  Proof.
    intros rows. rewrite cv_local_pairs_eq. unfold upd_pairs. apply fold_updf_nodup. constructor.
  Qed.
  Lemma cv_local_groups_keys : forall rows k,
      In k (akeys (cv_local_groups A c rows)) <-> In k (map vfst rows).
  Proof.
    intros rows k. rewrite cv_local_groups_eq. unfold upd_groups. rewrite fold_updf_keys.
    cbn [akeys map In]. tauto.
  Qed.
  Lemma cv_local_groups_nodup : forall rows, NoDup (akeys (cv_local_groups A c rows)).
  Proof.
    intros rows. rewrite cv_local_groups_eq. unfold upd_groups. apply fold_updf_nodup. constructor.
  Qed.

  Lemma merge_fold_keys : forall parts acc k,
      In k (akeys (fold_left (merge_step A c) parts acc))
      <-> In k (akeys acc) \/ In k (concat (map akeys parts)).
  Proof.
    induction parts as [|m parts IH]; intros acc k; cbn [fold_left map concat In].
    - tauto.
    - rewrite IH. unfold merge_step, upd_merge. rewrite fold_updf_keys.
      rewrite in_app_iff. unfold akeys. tauto.
  Qed.
  Lemma merge_fold_nodup : forall parts acc,
      NoDup (akeys acc) -> NoDup (akeys (fold_left (merge_step A c) parts acc)).
  Proof.
    induction parts as [|m parts IH]; intros acc Hnd; cbn [fold_left]; [exact Hnd|].
    apply IH. unfold merge_step, upd_merge. apply fold_updf_nodup. exact Hnd.
  Qed.

  Lemma cv_merge_maps_nodup : forall parts, NoDup (akeys (cv_merge_maps A c parts)).
  Proof. intros parts. rewrite cv_merge_maps_eq. apply merge_fold_nodup. constructor. Qed.
  Lemma cv_merge_maps_keys : forall parts k,
      In k (akeys (cv_merge_maps A c parts)) <-> In k (concat (map akeys parts)).
  Proof.
    intros parts k. rewrite cv_merge_maps_eq, merge_fold_keys. cbn [akeys map In]. tauto.
  Qed.

  Lemma finished_keys : forall (M : vmap A),
      map vfst (map (fun ka => VPair (fst ka) (c_finish c (snd ka))) M) = akeys M.
  Proof. intros M. rewrite map_map. unfold akeys. apply map_ext. intros ka. reflexivity. Qed.

  Section Oracle.
    Variable sh : nat -> list val -> list val.
    Hypothesis sh_perm : forall i l, Permutation (sh i l) l.

    Lemma cv_merge_keys_perm : forall site parts,
        Permutation (map vfst (cv_merge sh A c site parts)) (akeys (cv_merge_maps A c parts)).
    Proof.
      intros site parts. unfold cv_merge. rewrite <- finished_keys.
      apply Permutation_map. apply sh_perm.
    Qed.

    Lemma cv_merge_nodup : forall site parts, NoDup (map vfst (cv_merge sh A c site parts)).
    Proof.
      intros site parts. apply (Permutation_NoDup (Permutation_sym (cv_merge_keys_perm site parts))).
      apply cv_merge_maps_nodup.
    Qed.

    Lemma cv_merge_keys : forall site parts k,
        In k (map vfst (cv_merge sh A c site parts)) <-> In k (concat (map akeys parts)).
    Proof.
      intros site parts k. rewrite <- cv_merge_maps_keys. split; intros Hin.
      - apply (Permutation_in _ (cv_merge_keys_perm site parts)). exact Hin.
      - apply (Permutation_in _ (Permutation_sym (cv_merge_keys_perm site parts))). exact Hin.
    Qed.
  End Oracle.

  Lemma local_keys_concat : forall (local : list val -> vmap A) ps k,
      (forall rows k, In k (akeys (local rows)) <-> In k (map vfst rows)) ->
      (In k (concat (map akeys (map local ps))) <-> In k (map vfst (concat ps))).
  Proof.
    intros local ps k Hloc. induction ps as [|p ps IH]; cbn [map concat]; [tauto|].
    rewrite map_app, !in_app_iff, IH, Hloc. tauto.
  Qed.
End Keys.

Lemma cv_keys_unique : forall (sh : nat -> list val -> list val) (A : Type)
    (c : combiner val A val) (site : nat) (ps : list (list val)),
    (forall i l, Permutation (sh i l) l) ->
    NoDup (map vfst (cv_merge sh A c site (map (cv_local_pairs A c) ps))).
Proof. intros sh A c site ps Hsh. apply cv_merge_nodup. exact Hsh. Qed.

Lemma cv_keys_exact : forall (sh : nat -> list val -> list val) (A : Type)
    (c : combiner val A val) (site : nat) (ps : list (list val)) (k : val),
    (forall i l, Permutation (sh i l) l) ->
    (In k (map vfst (cv_merge sh A c site (map (cv_local_pairs A c) ps)))
     <-> In k (map vfst (concat ps))).
Proof.
  intros sh A c site ps k Hsh. rewrite (cv_merge_keys A c sh Hsh).
  apply local_keys_concat. apply cv_local_pairs_keys.
Qed.

Lemma cvl_keys_unique : forall (sh : nat -> list val -> list val) (A : Type)
    (c : combiner val A val) (site : nat) (gps : list (list val)),
    (forall i l, Permutation (sh i l) l) ->
    NoDup (map vfst (cv_merge sh A c site (map (cv_local_groups A c) gps))).
Proof. intros sh A c site gps Hsh. apply cv_merge_nodup. exact Hsh. Qed.

(* ---------- values (for a lawful combiner) ---------- *)
Section Values.
  Variable A : Type.
  Variable c : combiner val A val.
  Variable R : A -> list val -> Prop.
  Variable spec : list val -> val -> Prop.
  Hypothesis L : lawful c R spec.

  (* the map m holds, for every key k, an accumulator for the multiset W k (a missing entry
     stands for a fresh accumulator and the empty multiset) *)
  Definition repr (m : vmap A) (W : val -> list val) : Prop :=
    NoDup (akeys m)
    /\ (forall k, R (getd val_eqb k (c_create c) m) (W k))
    /\ (forall k, ~ In k (akeys m) -> W k = []).

  Lemma repr_entry : forall m W k a, repr m W -> In (k, a) m -> R a (W k).
  Proof.
    intros m W k a (Hnd & HR & _) Hin.
    apply (in_amap_aget _ _ val_eqb_spec _ k a m Hnd) in Hin.
    specialize (HR k). unfold getd in HR. rewrite Hin in HR. exact HR.
  Qed.

  Lemma repr_pairs : forall rows,
      repr (cv_local_pairs A c rows) (fun k => values_of k rows).
  Proof.
    intros rows. split; [apply cv_local_pairs_nodup|]. split.
    - intros k. rewrite cv_local_pairs_eq. unfold upd_pairs.
      pose proof (fold_updf_R A (c_create c) val vfst (fun a kv => c_add c a (vsnd kv)) R
                              (fun kv => [vsnd kv]) k rows [] []) as H.
      unfold kvals in H. rewrite flat_map_single_ib in H. cbn [app] in H. apply H.
      + intros x a u _ Ha. apply (law_perm _ _ _ L) with (m := vsnd x :: u).
        * apply (law_add _ _ _ L). exact Ha.
        * apply Permutation_cons_append.
      + rewrite getd_nil. apply (law_create _ _ _ L).
    - intros k Hn. unfold values_of. rewrite (filter_key_notin val vfst); [reflexivity|].
      intros Hin. apply Hn. apply cv_local_pairs_keys. exact Hin.
  Qed.

  Lemma repr_groups : forall rows,
      repr (cv_local_groups A c rows) (fun k => concat (map vlist (values_of k rows))).
  Proof.
    intros rows. split; [apply cv_local_groups_nodup|]. split.
    - intros k. rewrite cv_local_groups_eq. unfold upd_groups.
      pose proof (fold_updf_R A (c_create c) val vfst
                              (fun a kvs => c_merge c a (c_build c (vlist (vsnd kvs)))) R
                              (fun kvs => vlist (vsnd kvs)) k rows [] []) as H.
      unfold kvals in H. rewrite flat_map_concat_map in H. cbn [app] in H.
      unfold values_of. rewrite map_map. apply H.
      + intros x a u _ Ha. apply (law_merge _ _ _ L); [exact Ha|apply (law_build _ _ _ L)].
      + rewrite getd_nil. apply (law_create _ _ _ L).
    - intros k Hn. unfold values_of. rewrite (filter_key_notin val vfst); [reflexivity|].
      intros Hin. apply Hn. apply cv_local_groups_keys. exact Hin.
  Qed.

  Lemma kvals_nodup : forall (W : val -> list val) k (m : vmap A),
      NoDup (map fst m) -> (~ In k (map fst m) -> W k = []) ->
      flat_map (fun x : val * A => W (fst x)) (filter (fun x => val_eqb (fst x) k) m) = W k.
  Proof.
    intros W k m. induction m as [|[k' a] r IH]; intros Hnd Habs.
    - cbn [filter flat_map]. symmetry. apply Habs. intros [].
    - cbn [map fst] in Hnd. inversion Hnd as [|? ? Hnotin Hnd']; subst.
      cbn [filter fst]. destruct (val_eqb_spec k' k) as [He|Hne].
      + subst k'. cbn [flat_map fst].
        rewrite (filter_key_notin (val * A) fst k r Hnotin). cbn [flat_map].
        apply app_nil_r.
      + apply IH; [exact Hnd'|]. intros Hn. apply Habs. cbn [map fst In].
        intros [He|Hin]; [exact (Hne He)|exact (Hn Hin)].
  Qed.

  Lemma merge_inner_R : forall m W k acc w,
      repr m W -> R (getd val_eqb k (c_create c) acc) w ->
      R (getd val_eqb k (c_create c) (merge_step A c acc m)) (w ++ W k).
  Proof.
    intros m W k acc w Hrep Hw. unfold merge_step, upd_merge.
    pose proof (fold_updf_R A (c_create c) (val * A) fst (fun a ka => c_merge c a (snd ka)) R
                            (fun ka => W (fst ka)) k m acc w) as H.
    unfold kvals in H. destruct Hrep as (Hnd & HR & Habs).
    rewrite (kvals_nodup W k m Hnd (Habs k)) in H. apply H; [|exact Hw].
    intros [k' a'] a u Hin Ha. cbn [fst snd]. apply (law_merge _ _ _ L); [exact Ha|].
    apply (repr_entry m W k' a'); [split; [exact Hnd|split; [exact HR|exact Habs]]|exact Hin].
  Qed.

  Lemma merge_outer_R : forall (local : list val -> vmap A) (Wf : list val -> val -> list val),
      (forall rows, repr (local rows) (Wf rows)) ->
      forall k ps acc w,
        R (getd val_eqb k (c_create c) acc) w ->
        R (getd val_eqb k (c_create c) (fold_left (merge_step A c) (map local ps) acc))
          (w ++ concat (map (fun rows => Wf rows k) ps)).
  Proof.
    intros local Wf Hloc k ps. induction ps as [|p ps IH]; intros acc w Hw;
      cbn [map fold_left concat].
    - rewrite app_nil_r. exact Hw.
    - rewrite app_assoc. apply IH. apply merge_inner_R; [apply Hloc|exact Hw].
  Qed.

  Lemma cv_merge_value : forall (sh : nat -> list val -> list val) site
      (local : list val -> vmap A) (Wf : list val -> val -> list val) ps g,
      (forall i l, Permutation (sh i l) l) ->
      (forall rows, repr (local rows) (Wf rows)) ->
      In g (cv_merge sh A c site (map local ps)) ->
      exists o, g = VPair (vfst g) o
                /\ spec (concat (map (fun rows => Wf rows (vfst g)) ps)) o.
  Proof.
    intros sh site local Wf ps g Hsh Hloc Hin. unfold cv_merge in Hin.
    apply (Permutation_in _ (Hsh site _)) in Hin.
    apply in_map_iff in Hin. destruct Hin as ([k a] & Hg & Hka). cbn [fst snd] in Hg. subst g.
    cbn [vfst]. exists (c_finish c a). split; [reflexivity|].
    apply (law_finish _ _ _ L).
    pose proof (cv_merge_maps_nodup A c (map local ps)) as Hnd.
    apply (in_amap_aget _ _ val_eqb_spec _ k a _ Hnd) in Hka.
    pose proof (merge_outer_R local Wf Hloc k ps [] []) as H.
    rewrite <- cv_merge_maps_eq in H. unfold getd at 2 in H. rewrite Hka in H. cbn [app] in H.
    apply H. rewrite getd_nil. apply (law_create _ _ _ L).
  Qed.
End Values.

Lemma cv_value : forall (sh : nat -> list val -> list val) (A : Type) (c : combiner val A val)
    (R : A -> list val -> Prop) (spec : list val -> val -> Prop) (site : nat)
    (ps : list (list val)) (g : val),
    (forall i l, Permutation (sh i l) l) -> lawful c R spec ->
    In g (cv_merge sh A c site (map (cv_local_pairs A c) ps)) ->
    exists o, g = VPair (vfst g) o /\ spec (values_of (vfst g) (concat ps)) o.
Proof.
  intros sh A c R spec site ps g Hsh L Hin.
  destruct (cv_merge_value A c R spec L sh site (cv_local_pairs A c)
                           (fun rows k => values_of k rows) ps g Hsh
                           (repr_pairs A c R spec L) Hin) as (o & Hg & Hs).
  exists o. split; [exact Hg|]. rewrite values_of_concat. exact Hs.
Qed.

Lemma cv_equals_fold : forall (sh : nat -> list val -> list val) (A : Type)
    (c : combiner val A val) (R : A -> list val -> Prop) (spec : list val -> val -> Prop)
    (site : nat) (ps : list (list val)) (g : val),
    (forall i l, Permutation (sh i l) l) -> lawful c R spec ->
    (forall m o o', spec m o -> spec m o' -> o = o') ->
    In g (cv_merge sh A c site (map (cv_local_pairs A c) ps)) ->
    g = VPair (vfst g) (c_finish c (fold_acc c (values_of (vfst g) (concat ps)))).
Proof.
  intros sh A c R spec site ps g Hsh L Hfun Hin.
  destruct (cv_value sh A c R spec site ps g Hsh L Hin) as (o & Hg & Hs).
  rewrite (Hfun _ _ _ (fold_spec c R spec L (values_of (vfst g) (concat ps))) Hs).
  exact Hg.
Qed.

Lemma cvl_value : forall (sh : nat -> list val -> list val) (A : Type) (c : combiner val A val)
    (R : A -> list val -> Prop) (spec : list val -> val -> Prop) (site : nat)
    (gps : list (list val)) (g : val),
    (forall i l, Permutation (sh i l) l) -> lawful c R spec ->
    In g (cv_merge sh A c site (map (cv_local_groups A c) gps)) ->
    exists o, g = VPair (vfst g) o /\
              spec (concat (map vlist (values_of (vfst g) (concat gps)))) o.
Proof.
  intros sh A c R spec site gps g Hsh L Hin.
  destruct (cv_merge_value A c R spec L sh site (cv_local_groups A c)
                           (fun rows k => concat (map vlist (values_of k rows))) gps g Hsh
                           (repr_groups A c R spec L) Hin) as (o & Hg & Hs).
  exists o. split; [exact Hg|]. rewrite group_values_concat. exact Hs.
Qed.

(* ---------- the multi-round fan-in ---------- *)
Section Rounds.
  Variable A : Type.
  Variable c : combiner val A val.

  Lemma group_by_S_cons : forall fuel f a (r : list A),
      group_by A (S fuel) f (a :: r)
      = firstn f (a :: r) :: group_by A fuel f (skipn f (a :: r)).
  Proof. reflexivity. Qed.

  (* with group size >= 2 the number of groups is at most half (rounded up) *)
  Lemma group_by_length : forall fuel f (accs : list A),
      2 <= f -> length accs <= fuel ->
      2 * length (group_by A fuel f accs) <= length accs + 1.
  Proof.
    induction fuel as [|fuel IH]; intros f accs Hf Hlen.
    - cbn [group_by length]. lia.
    - destruct accs as [|a r]; [cbn [group_by length]; lia|].
      rewrite group_by_S_cons.
      assert (Hs : length (skipn f (a :: r)) <= fuel).
      { rewrite skipn_length. cbn [length] in *. lia. }
      specialize (IH f _ Hf Hs). rewrite skipn_length in IH. cbn [length] in *. lia.
  Qed.

  Lemma merge_rounds_S : forall fuel f accs,
      merge_rounds A c (S fuel) f accs
      = if (length accs <=? 1)%nat then Ok accs
        else match f with
             | None => Ok [cg_merge A c accs]
             | Some f0 =>
                 merge_rounds A c fuel f
                              (map (cg_merge A c) (group_by A (length accs) (Nat.max f0 2) accs))
             end.
  Proof. reflexivity. Qed.

  (* the loop ends within `length accs` rounds with at most one accumulator, and keeps every
     invariant that one merge / one round of grouped merges keeps *)
  Lemma merge_rounds_inv : forall (Inv : list A -> Prop),
      (forall accs, Inv accs -> Inv [cg_merge A c accs]) ->
      (forall accs f, 2 <= f -> Inv accs ->
                      Inv (map (cg_merge A c) (group_by A (length accs) f accs))) ->
      forall fuel fanout accs,
        length accs <= fuel -> Inv accs ->
        exists accs', merge_rounds A c (S fuel) fanout accs = Ok accs'
                      /\ length accs' <= 1 /\ Inv accs'.
  Proof.
    intros Inv Hone Hround.
    induction fuel as [|fuel IH]; intros fanout accs Hlen Hinv; rewrite merge_rounds_S.
    - destruct (Nat.leb_spec (length accs) 1) as [H1|H1]; [|lia].
      exists accs. split; [reflexivity|]. split; [exact H1|exact Hinv].
    - destruct (Nat.leb_spec (length accs) 1) as [H1|H1].
      + exists accs. split; [reflexivity|]. split; [exact H1|exact Hinv].
      + destruct fanout as [f0|].
        * apply IH.
          -- rewrite map_length.
             pose proof (group_by_length (length accs) (Nat.max f0 2) accs) as Hg. lia.
          -- apply Hround; [lia|exact Hinv].
        * exists [cg_merge A c accs]. split; [reflexivity|].
          split; [cbn [length]; lia|apply Hone; exact Hinv].
  Qed.
End Rounds.

Lemma merge_rounds_terminates : forall (A : Type) (c : combiner val A val) (fuel : nat)
    (fanout : option nat) (accs : list A),
    length accs <= fuel -> exists accs', merge_rounds A c (S fuel) fanout accs = Ok accs'.
Proof.
  intros A c fuel fanout accs Hlen.
  destruct (merge_rounds_inv A c (fun _ => True) (fun _ _ => I) (fun _ _ _ _ => I)
                             fuel fanout accs Hlen I) as (accs' & Heq & _).
  exists accs'. exact Heq.
Qed.

Section Global.
  Variable A : Type.
  Variable c : combiner val A val.
  Variable R : A -> list val -> Prop.
  Variable spec : list val -> val -> Prop.
  Hypothesis L : lawful c R spec.

  Lemma fold_merge_R : forall r ms, Forall2 R r ms ->
      forall a m, R a m -> R (fold_left (c_merge c) r a) (m ++ concat ms).
  Proof.
    intros r ms H. induction H as [|b mb r ms Hb Hr IH]; intros a m Ha; cbn [fold_left concat].
    - rewrite app_nil_r. exact Ha.
    - rewrite app_assoc. apply IH. apply (law_merge _ _ _ L); [exact Ha|exact Hb].
  Qed.

  Lemma cg_merge_R : forall accs ms, Forall2 R accs ms -> R (cg_merge A c accs) (concat ms).
  Proof.
    intros accs ms H. destruct H as [|a m r ms Ha Hr]; cbn [cg_merge concat].
    - apply (law_create _ _ _ L).
    - apply fold_merge_R; [exact Hr|exact Ha].
  Qed.

  Lemma cg_local_R : forall lifted rows, R (cg_local A c lifted rows) rows.
  Proof.
    intros lifted rows. unfold cg_local. destruct lifted.
    - apply (law_build _ _ _ L).
    - apply (fold_acc_R c R spec L rows).
  Qed.

  Lemma grouped_merge_R : forall fuel f accs ms,
      1 <= f -> length accs <= fuel -> Forall2 R accs ms ->
      exists ms', Forall2 R (map (cg_merge A c) (group_by A fuel f accs)) ms'
                  /\ concat ms' = concat ms.
  Proof.
    induction fuel as [|fuel IH]; intros f accs ms Hf Hlen H.
    - destruct H as [|a m r mr Ha Hr]; [|cbn [length] in Hlen; lia].
      exists []. split; [constructor|reflexivity].
    - destruct H as [|a m r mr Ha Hr].
      + exists []. split; [constructor|reflexivity].
      + rewrite group_by_S_cons. cbn [map].
        assert (Hall : Forall2 R (a :: r) (m :: mr)) by (constructor; assumption).
        assert (Hs : length (skipn f (a :: r)) <= fuel).
        { rewrite skipn_length. cbn [length] in *. lia. }
        destruct (IH f _ _ Hf Hs (Forall2_skipn_ib R f _ _ Hall)) as (ms' & HF & Hc).
        exists (concat (firstn f (m :: mr)) :: ms'). split.
        * constructor; [|exact HF]. apply cg_merge_R. apply Forall2_firstn_ib. exact Hall.
        * cbn [concat]. rewrite Hc, <- concat_app, firstn_skipn. reflexivity.
  Qed.

  (* the invariant of the rounds *)
  Definition represents (M : list val) (accs : list A) : Prop :=
    exists ms, Forall2 R accs ms /\ concat ms = M.

  Lemma merge_rounds_spec : forall M fuel fanout accs,
      length accs <= fuel -> represents M accs ->
      exists accs', merge_rounds A c (S fuel) fanout accs = Ok accs'
                    /\ length accs' <= 1 /\ represents M accs'.
  Proof.
    intros M. apply merge_rounds_inv.
    - intros accs (ms & HF & Hc). exists [concat ms]. split.
      + constructor; [apply cg_merge_R; exact HF|constructor].
      + cbn [concat]. rewrite app_nil_r. exact Hc.
    - intros accs f Hf (ms & HF & Hc).
      destruct (grouped_merge_R (length accs) f accs ms) as (ms' & HF' & Hc');
        [lia|lia|exact HF|].
      exists ms'. split; [exact HF'|]. rewrite Hc'. exact Hc.
  Qed.

  Lemma finish_rounds_spec : forall M accs,
      length accs <= 1 -> represents M accs ->
      exists o, finish_rounds A c accs = [o] /\ spec M o.
  Proof.
    intros M accs Hlen (ms & HF & Hc). destruct HF as [|a m r mr Ha Hr].
    - exists (c_finish c (c_create c)). split; [reflexivity|].
      cbn [concat] in Hc. subst M. apply (law_finish _ _ _ L). apply (law_create _ _ _ L).
    - destruct Hr as [|b mb r mr Hb Hr]; [|cbn [length] in Hlen; lia].
      exists (c_finish c a). split; [reflexivity|].
      cbn [concat] in Hc. rewrite app_nil_r in Hc. subst M. apply (law_finish _ _ _ L). exact Ha.
  Qed.

  Lemma locals_represent : forall lifted (ps : list part),
      represents (concat (map snd ps)) (map (fun p => cg_local A c lifted (snd p)) ps).
  Proof.
    intros lifted ps. exists (map snd ps). split; [|reflexivity].
    induction ps as [|p ps IH]; cbn [map]; constructor; [apply cg_local_R|exact IH].
  Qed.
End Global.

Lemma cg_par_spec : forall (A : Type) (c : combiner val A val) (R : A -> list val -> Prop)
    (spec : list val -> val -> Prop) (lifted : bool) (tin tout : tag) (fanout : option nat)
    (ps : list part),
    lawful c R spec -> check_tags tin ps = true ->
    exists o,
      run_combine_global_par {| vc_A := A; vc_c := c |} lifted tin tout fanout ps = Ok (tout, [o])
      /\ spec (concat (map snd ps)) o.
Proof.
  intros A c R spec lifted tin tout fanout ps L Hct.
  unfold run_combine_global_par. rewrite Hct. cbn [vc_A vc_c]. cbv zeta.
  set (accs := map (fun p => cg_local A c lifted (snd p)) ps).
  destruct (merge_rounds_spec A c R spec L (concat (map snd ps)) (length accs) fanout accs
                              (le_n _) (locals_represent A c R spec L lifted ps))
    as (accs' & Heq & Hlen & Hrep).
  rewrite Heq. cbn [obind].
  destruct (finish_rounds_spec A c R spec L _ accs' Hlen Hrep) as (o & Hfin & Hs).
  exists o. rewrite Hfin. split; [reflexivity|exact Hs].
Qed.

Lemma cg_seq_spec : forall (A : Type) (c : combiner val A val) (R : A -> list val -> Prop)
    (spec : list val -> val -> Prop) (lifted : bool) (tin tout : tag) (p : part),
    lawful c R spec -> fst p = tin ->
    exists o,
      run_combine_global_seq {| vc_A := A; vc_c := c |} lifted tin tout p = Ok (tout, [o])
      /\ spec (snd p) o.
Proof.
  intros A c R spec lifted tin tout p L Htag.
  unfold run_combine_global_seq. rewrite Htag, Nat.eqb_refl. cbn [vc_A vc_c].
  exists (c_finish c (cg_local A c lifted (snd p))). split; [reflexivity|].
  apply (law_finish _ _ _ L). apply (cg_local_R A c R spec L).
Qed.

(* ---------- the loop before the fix ---------- *)
Lemma old_loop_diverges : forall (A : Type) (c : combiner val A val) (fuel : nat) (a b : A)
    (f : nat),
    (f <= 1)%nat -> merge_rounds_old A c fuel (Some f) [a; b] = Diverge.
Proof.
  intros A c fuel a b f Hf. induction fuel as [|fuel IH]; [reflexivity|].
  cbn [merge_rounds_old length Nat.leb].
  replace (Nat.max f 1) with 1 by lia.
  cbn [group_by firstn skipn map cg_merge fold_left]. exact IH.
Qed.
