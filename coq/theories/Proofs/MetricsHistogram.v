(* Proofs about the histogram model (Metrics/Histogram.v). *)
From Coq Require Import List ZArith Bool Lia Permutation Sorted.
From IB Require Import Metrics.Histogram.
Import ListNotations.
Open Scope Z_scope.

(* ================================================================ sorting *)

Lemma ins_perm : forall x l, Permutation (ins x l) (x :: l).
Proof.
  intros x l. induction l as [|y r IH]; cbn [ins]; [apply Permutation_refl|].
  destruct (x <=? y); [apply Permutation_refl|].
  apply perm_trans with (y :: x :: r); [apply perm_skip; exact IH|apply perm_swap].
Qed.

Lemma sort_perm : forall l, Permutation (sort_samples l) l.
Proof.
  induction l as [|x r IH]; cbn [sort_samples fold_right]; [apply perm_nil|].
  fold (sort_samples r). apply perm_trans with (x :: sort_samples r); [apply ins_perm|].
  apply perm_skip. exact IH.
Qed.

Lemma sort_length : forall l, length (sort_samples l) = length l.
Proof. intro l. apply Permutation_length. apply sort_perm. Qed.

Lemma forall_ins : forall (P : Z -> Prop) x l, P x -> Forall P l -> Forall P (ins x l).
Proof.
  intros P x l Hx Hl. induction Hl as [|y r Hy Hr IH]; cbn [ins].
  - constructor; [exact Hx|constructor].
  - destruct (x <=? y); constructor; try assumption. constructor; assumption.
Qed.

Lemma ins_sorted : forall x l, StronglySorted Z.le l -> StronglySorted Z.le (ins x l).
Proof.
  intros x l H. induction H as [|y r Hr IH Hy]; cbn [ins].
  - constructor; constructor.
  - destruct (Z.leb_spec x y) as [Hxy|Hxy].
    + constructor; [constructor; assumption|].
      constructor; [exact Hxy|]. eapply Forall_impl; [|exact Hy]. intros z Hz. cbv beta in Hz. lia.
    + constructor; [exact IH|]. apply forall_ins; [lia|exact Hy].
Qed.

Lemma sort_sorted : forall l, StronglySorted Z.le (sort_samples l).
Proof.
  induction l as [|x r IH]; cbn [sort_samples fold_right]; [constructor|].
  fold (sort_samples r). apply ins_sorted. exact IH.
Qed.

(* positions in a sorted list are ordered *)
Lemma sorted_nth_mono : forall l i j a b,
  StronglySorted Z.le l -> (i <= j)%nat ->
  nth_error l i = Some a -> nth_error l j = Some b -> a <= b.
Proof.
  intros l i j a b H. revert i j. induction H as [|y r Hr IH Hy]; intros i j Hij Ha Hb.
  - destruct i; discriminate.
  - destruct i as [|i], j as [|j]; cbn [nth_error] in Ha, Hb.
    + inversion Ha; inversion Hb; subst. lia.
    + inversion Ha; subst y. apply nth_error_In in Hb.
      rewrite Forall_forall in Hy. apply Hy. exact Hb.
    + lia.
    + apply (IH i j); [lia|assumption|assumption].
Qed.

(* a sorted list is determined by its elements *)
Lemma sorted_perm_eq : forall a b,
  StronglySorted Z.le a -> StronglySorted Z.le b -> Permutation a b -> a = b.
Proof.
  induction a as [|x a IH]; intros b Ha Hb Hp.
  - apply Permutation_nil in Hp. subst. reflexivity.
  - destruct b as [|y b]; [apply Permutation_sym, Permutation_nil in Hp; discriminate|].
    inversion Ha as [|x' a' Ha' Hxa]; subst. inversion Hb as [|y' b' Hb' Hyb]; subst.
    rewrite Forall_forall in Hxa, Hyb.
    assert (Hxy : x = y).
    { assert (H1 : In y (x :: a)) by (eapply Permutation_in; [apply Permutation_sym; exact Hp|left; reflexivity]).
      assert (H2 : In x (y :: b)) by (eapply Permutation_in; [exact Hp|left; reflexivity]).
      destruct H1 as [H1|H1]; [exact H1|]. destruct H2 as [H2|H2]; [symmetry; exact H2|].
      specialize (Hxa y H1). specialize (Hyb x H2). lia. }
    subst y. f_equal. apply IH; try assumption. eapply Permutation_cons_inv. exact Hp.
Qed.

Lemma sort_perm_eq : forall a b, Permutation a b -> sort_samples a = sort_samples b.
Proof.
  intros a b H. apply sorted_perm_eq; try apply sort_sorted.
  apply perm_trans with a; [apply sort_perm|].
  apply perm_trans with b; [exact H|apply Permutation_sym, sort_perm].
Qed.

Lemma zsum_perm : forall a b, Permutation a b -> zsum a = zsum b.
Proof.
  intros a b H. induction H as [|x l l' H IH|x y l|l l' l'' H1 IH1 H2 IH2]; cbn [zsum fold_right].
  - reflexivity.
  - fold (zsum l). fold (zsum l'). rewrite IH. reflexivity.
  - fold (zsum l). lia.
  - rewrite IH1. exact IH2.
Qed.

(* ================================================================ the indices stats() uses *)

Lemma idx_half : forall n, (1 <= n)%nat -> (n / 2 < n)%nat.
Proof. intros n H. apply Nat.div_lt_upper_bound; lia. Qed.
Lemma idx_95 : forall n, (1 <= n)%nat -> (n * 95 / 100 < n)%nat.
Proof. intros n H. apply Nat.div_lt_upper_bound; lia. Qed.
Lemma idx_99 : forall n, (1 <= n)%nat -> (n * 99 / 100 < n)%nat.
Proof. intros n H. apply Nat.div_lt_upper_bound; lia. Qed.
Lemma idx_half_95 : forall n, (n / 2 <= n * 95 / 100)%nat.
Proof.
  intro n. rewrite <- (Nat.div_mul_cancel_r n 2 50) by lia.
  apply Nat.div_le_mono; lia.
Qed.
Lemma idx_95_99 : forall n, (n * 95 / 100 <= n * 99 / 100)%nat.
Proof. intro n. apply Nat.div_le_mono; lia. Qed.

Lemma pick_some : forall l i, (i < length l)%nat -> exists a, pick l i = Some a.
Proof.
  intros l i H. unfold pick. destruct (nth_error l i) as [a|] eqn:E; [exists a; reflexivity|].
  apply nth_error_None in E. lia.
Qed.

(* stats() on a non-empty histogram, opened up *)
Lemma stats_nonempty : forall values,
  values <> [] ->
  let sorted := sort_samples values in
  let n := length sorted in
  exists a b c d e,
    pick sorted 0 = Some a /\ pick sorted (n - 1) = Some b /\ pick sorted (n / 2)%nat = Some c /\
    pick sorted (n * 95 / 100)%nat = Some d /\ pick sorted (n * 99 / 100)%nat = Some e /\
    stats values = Some (HS n (zsum sorted) a b c d e).
Proof.
  intros values Hne sorted n.
  assert (Hn : (1 <= n)%nat).
  { unfold n, sorted. rewrite sort_length. destruct values; [contradiction|cbn [length]; lia]. }
  destruct (pick_some sorted 0) as [a Ea]; [fold n; lia|].
  destruct (pick_some sorted (n - 1)) as [b Eb]; [fold n; lia|].
  destruct (pick_some sorted (n / 2)%nat) as [c Ec]; [fold n; apply idx_half; exact Hn|].
  destruct (pick_some sorted (n * 95 / 100)%nat) as [d Ed]; [fold n; apply idx_95; exact Hn|].
  destruct (pick_some sorted (n * 99 / 100)%nat) as [e Ee]; [fold n; apply idx_99; exact Hn|].
  exists a, b, c, d, e. repeat (split; [assumption|]).
  unfold stats. destruct values as [|v vs]; [contradiction|].
  fold sorted. fold n. rewrite Ea, Eb, Ec, Ed, Ee. reflexivity.
Qed.

(* no index is ever out of range: stats() does not panic *)
Theorem hist_stats_total : forall values, exists st, stats values = Some st.
Proof.
  intro values. destruct values as [|v vs] eqn:E.
  - exists hist_default. reflexivity.
  - destruct (stats_nonempty (v :: vs)) as (a & b & c & d & e & _ & _ & _ & _ & _ & H); [discriminate|].
    eexists. exact H.
Qed.

Theorem hist_stats_spec : forall values st,
  values <> [] -> stats values = Some st ->
  hs_count st = length values /\ hs_sum st = zsum values /\
  In (hs_min st) values /\ In (hs_max st) values /\
  In (hs_p50 st) values /\ In (hs_p95 st) values /\ In (hs_p99 st) values /\
  (forall x, In x values -> hs_min st <= x <= hs_max st) /\
  hs_min st <= hs_p50 st /\ hs_p50 st <= hs_p95 st /\ hs_p95 st <= hs_p99 st /\ hs_p99 st <= hs_max st.
Proof.
  intros values st Hne Hst.
  destruct (stats_nonempty values Hne) as (a & b & c & d & e & Ea & Eb & Ec & Ed & Ee & H).
  rewrite H in Hst. inversion Hst; subst st. clear Hst H. cbn [hs_count hs_sum hs_min hs_max hs_p50 hs_p95 hs_p99].
  set (sorted := sort_samples values) in *. set (n := length sorted) in *.
  assert (Hn : (1 <= n)%nat).
  { unfold n, sorted. rewrite sort_length. destruct values; [contradiction|cbn [length]; lia]. }
  pose proof (sort_sorted values) as Hs. fold sorted in Hs.
  assert (Hin : forall i x, pick sorted i = Some x -> In x values).
  { intros i x Hx. apply nth_error_In in Hx. eapply Permutation_in; [apply sort_perm|exact Hx]. }
  unfold pick in *.
  split; [unfold n, sorted; apply sort_length|].
  split; [apply zsum_perm, sort_perm|].
  split; [eapply Hin; exact Ea|]. split; [eapply Hin; exact Eb|]. split; [eapply Hin; exact Ec|].
  split; [eapply Hin; exact Ed|]. split; [eapply Hin; exact Ee|].
  split.
  - intros x Hx.
    assert (Hx' : In x sorted) by (eapply Permutation_in; [apply Permutation_sym, sort_perm|exact Hx]).
    apply In_nth_error in Hx'. destruct Hx' as [i Hi].
    assert (Hlt : (i < n)%nat) by (apply nth_error_Some; rewrite Hi; discriminate).
    split.
    + apply (sorted_nth_mono sorted 0 i a x Hs); [lia|exact Ea|exact Hi].
    + apply (sorted_nth_mono sorted i (n - 1) x b Hs); [lia|exact Hi|exact Eb].
  - split; [apply (sorted_nth_mono sorted 0 (n / 2) a c Hs); [lia|exact Ea|exact Ec]|].
    split; [apply (sorted_nth_mono sorted (n / 2) (n * 95 / 100) c d Hs); [apply idx_half_95|exact Ec|exact Ed]|].
    split; [apply (sorted_nth_mono sorted (n * 95 / 100) (n * 99 / 100) d e Hs); [apply idx_95_99|exact Ed|exact Ee]|].
    apply (sorted_nth_mono sorted (n * 99 / 100) (n - 1) e b Hs); [|exact Ee|exact Eb].
    pose proof (idx_99 n Hn). lia.
Qed.

(* the statistics depend on the multiset of samples only, not on the order they were recorded in *)
Theorem hist_stats_perm : forall a b, Permutation a b -> stats a = stats b.
Proof.
  intros a b H. unfold stats. destruct a as [|x a'], b as [|y b'].
  - reflexivity.
  - apply Permutation_nil in H. discriminate.
  - apply Permutation_sym, Permutation_nil in H. discriminate.
  - rewrite (sort_perm_eq _ _ H). reflexivity.
Qed.

(* record() one by one from new() = with_values() *)
Theorem hist_record_is_with_values : forall vs,
  fold_left (fun h v => hist_record v h) vs hist_new = hist_with_values vs.
Proof.
  intro vs. unfold hist_new, hist_with_values.
  assert (G : forall acc, fold_left (fun h v => hist_record v h) vs acc = acc ++ vs).
  { induction vs as [|v r IH]; intro acc; cbn [fold_left]; [symmetry; apply app_nil_r|].
    rewrite IH. unfold hist_record. rewrite <- app_assoc. reflexivity. }
  apply G.
Qed.
