(* More proofs about the metrics model: the u64 budget (no overflow, no poisoned Mutex), the
   pre-fix lost update, transparency of run_collect, elapsed time, JSON export. *)
From Coq Require Import List ZArith NArith Bool Lia.
From IB Require Import Metrics.Metrics Metrics.Spec Proofs.MetricsProofs.
Import ListNotations.

(* ================================================================ volumes *)

Lemma lookup_volume : forall n s m, lookup n s = Some m -> (metric_volume m <= store_volume s)%N.
Proof.
  intros n s. induction s as [|[k x] r IH]; cbn [lookup store_volume fold_right snd]; intros m H.
  - discriminate.
  - fold (store_volume r). destruct (Z.eqb k n).
    + inversion H; subst. lia.
    + specialize (IH m H). lia.
Qed.

Lemma store_volume_insert_new : forall n m s,
  lookup n s = None -> store_volume (insert n m s) = (store_volume s + metric_volume m)%N.
Proof.
  intros n m s. induction s as [|[k x] r IH]; cbn [lookup insert store_volume fold_right snd]; intro H.
  - lia.
  - fold (store_volume r). destruct (Z.eqb k n) eqn:E; [discriminate|].
    cbn [store_volume fold_right snd]. fold (store_volume (insert n m r)). rewrite (IH H). lia.
Qed.

Lemma store_volume_insert_old : forall n m s old,
  lookup n s = Some old ->
  (store_volume (insert n m s) + metric_volume old = store_volume s + metric_volume m)%N.
Proof.
  intros n m s. induction s as [|[k x] r IH]; cbn [lookup insert store_volume fold_right snd]; intros old H.
  - discriminate.
  - fold (store_volume r). destruct (Z.eqb k n) eqn:E.
    + inversion H; subst. cbn [store_volume fold_right snd]. fold (store_volume r). lia.
    + cbn [store_volume fold_right snd]. fold (store_volume (insert n m r)).
      specialize (IH old H). lia.
Qed.

Lemma store_volume_insert_le : forall n m s,
  (store_volume (insert n m s) <= store_volume s + metric_volume m)%N.
Proof.
  intros n m s. destruct (lookup n s) as [old|] eqn:L.
  - pose proof (store_volume_insert_old n m s old L). lia.
  - rewrite (store_volume_insert_new n m s L). lia.
Qed.

Lemma worklist_volume_app : forall a b,
  worklist_volume (a ++ b) = (worklist_volume a + worklist_volume b)%N.
Proof.
  intros a b. induction a as [|x r IH]; cbn [app worklist_volume fold_right]; [reflexivity|].
  fold (worklist_volume (r ++ b)). fold (worklist_volume r). rewrite IH. lia.
Qed.

Lemma pool_volume_app : forall a b, pool_volume (a ++ b) = (pool_volume a + pool_volume b)%N.
Proof.
  intros a b. induction a as [|x r IH]; cbn [app pool_volume fold_right]; [reflexivity|].
  fold (pool_volume (r ++ b)). fold (pool_volume r). rewrite IH. lia.
Qed.

Lemma pool_volume_cons : forall w r, pool_volume (w :: r) = (worklist_volume w + pool_volume r)%N.
Proof. reflexivity. Qed.
Lemma worklist_volume_cons : forall x w,
  worklist_volume (x :: w) = (section_volume x + worklist_volume w)%N.
Proof. reflexivity. Qed.

(* a current-code section within the budget neither overflows nor leaves work behind *)
Lemma exec_budget : forall x s,
  current_section x = true ->
  ms_poisoned s = false ->
  (store_volume (ms_metrics s) + section_volume x < U64_MOD)%N ->
  ms_poisoned (fst (exec_section x s)) = false /\
  (store_volume (ms_metrics (fst (exec_section x s))) <=
   store_volume (ms_metrics s) + section_volume x)%N /\
  snd (exec_section x s) = [].
Proof.
  intros x s Hcur Hs Hb. unfold exec_section. rewrite Hs.
  destruct x as [n v|n v|n m|t|t|n v]; cbn [current_section section_volume] in *;
    try discriminate.
  - destruct (lookup n (ms_metrics s)) as [[c|tg]|] eqn:L.
    + pose proof (lookup_volume _ _ _ L) as Hc. cbn [metric_volume] in Hc.
      assert (Hlt : N.ltb (c + v) U64_MOD = true) by (apply N.ltb_lt; lia).
      rewrite Hlt. cbn [fst snd set_metrics ms_metrics ms_poisoned].
      repeat split; try assumption.
      pose proof (store_volume_insert_old n (Counter (c + v)) _ _ L) as H.
      cbn [metric_volume] in H. lia.
    + cbn [fst snd]. repeat split; [assumption|lia].
    + cbn [fst snd set_metrics ms_metrics ms_poisoned]. repeat split; try assumption.
      rewrite (store_volume_insert_new _ _ _ L). cbn [metric_volume]. lia.
  - cbn [fst snd set_metrics ms_metrics ms_poisoned]. repeat split; try assumption.
    pose proof (store_volume_insert_le n (Counter v) (ms_metrics s)) as H.
    cbn [metric_volume] in H. lia.
  - cbn [fst snd set_metrics ms_metrics ms_poisoned]. repeat split; try assumption.
    apply store_volume_insert_le.
  - cbn [fst snd ms_metrics ms_poisoned]. repeat split; lia.
  - cbn [fst snd ms_metrics ms_poisoned]. repeat split; lia.
Qed.

Lemma current_cont : forall x s y,
  current_section x = true -> In y (snd (exec_section x s)) -> current_section y = true.
Proof.
  intros x s y Hx Hy. destruct (exec_continuation _ _ _ Hy) as (k & v & w & -> & ->).
  reflexivity.
Qed.

Lemma run_budget : forall sched ts s,
  pool_ok current_section ts ->
  ms_poisoned s = false ->
  (store_volume (ms_metrics s) + pool_volume ts < U64_MOD)%N ->
  ms_poisoned (run sched ts s) = false.
Proof.
  unfold run.
  induction sched as [|t rest IH]; intros ts s Hok Hs Hb; cbn [run_full].
  - exact Hs.
  - destruct (step t ts s) as [[ts1 s1] ev] eqn:E.
    pose proof (step_shape _ _ _ _ _ _ E) as Hshape.
    pose proof (step_exec _ _ _ _ _ _ E) as Hexec.
    destruct (step_pool_ok current_section current_cont _ _ _ _ _ _ Hok E) as [Hok1 Hev].
    specialize (IH ts1 s1 Hok1). destruct (run_full rest ts1 s1) as [[ts2 s2] tr] eqn:E2.
    cbn [fst snd] in *. destruct ev as [x|].
    + destruct Hshape as (pre & w & post & -> & ->).
      rewrite pool_volume_app, pool_volume_cons, worklist_volume_cons in Hb.
      destruct (exec_budget x s Hev Hs) as (Hp1 & Hv1 & Hk); [lia|].
      subst s1. apply IH; [exact Hp1|].
      rewrite Hk. cbn [app]. rewrite pool_volume_app, pool_volume_cons. lia.
    + subst ts1 s1. apply IH; assumption.
Qed.

Theorem no_poison :
  forall (threads : list (list call)) (sched : list nat) (s0 : mstate),
    ms_poisoned s0 = false ->
    (forall cs c, In cs threads -> In c cs -> current_call c = true) ->
    (budget s0 threads < U64_MOD)%N ->
    ms_poisoned (run sched (compile threads) s0) = false.
Proof.
  intros threads sched s0 Hs Hcur Hb. apply run_budget; [|exact Hs|exact Hb].
  apply compile_pool_ok. exact Hcur.
Qed.

Theorem no_lost_update_bounded :
  forall (n : name) (threads : list (list call)) (sched : list nat) (s0 : mstate) (init : N),
    ms_poisoned s0 = false ->
    counter_of n s0 = Some init ->
    (forall cs c, In cs threads -> In c cs -> call_incr_only n c = true /\ current_call c = true) ->
    (budget s0 threads < U64_MOD)%N ->
    complete sched (compile threads) s0 = true ->
    counter_of n (run sched (compile threads) s0) = Some (init + total_increments n threads)%N.
Proof.
  intros n threads sched s0 init Hs Hinit Hcalls Hb Hcomplete.
  apply no_lost_update; try assumption.
  - intros cs c Hcs Hc. exact (proj1 (Hcalls cs c Hcs Hc)).
  - apply no_poison; try assumption. intros cs c Hcs Hc. exact (proj2 (Hcalls cs c Hcs Hc)).
Qed.

(* ================================================================ the pre-fix code loses updates *)

Lemma exec_old_read : forall n v c s,
  ms_poisoned s = false -> lookup n (ms_metrics s) = Some (Counter c) ->
  (c + v < U64_MOD)%N ->
  exec_section (SIncrOldRead n v) s = (s, [SSet n (c + v)%N]).
Proof.
  intros n v c s Hs L Hlt. unfold exec_section. rewrite Hs, L.
  apply N.ltb_lt in Hlt. rewrite Hlt. reflexivity.
Qed.

Lemma exec_set : forall n v s,
  ms_poisoned s = false ->
  exec_section (SSet n v) s = (set_metrics (insert n (Counter v)) s, []).
Proof. intros n v s Hs. unfold exec_section. rewrite Hs. reflexivity. Qed.

Theorem old_code_lost_update :
  forall (n : name) (s0 : mstate) (init v1 v2 : N),
    ms_poisoned s0 = false ->
    counter_of n s0 = Some init ->
    (init + v1 < U64_MOD)%N -> (init + v2 < U64_MOD)%N ->
    let threads := [[IncrOld n v1]; [IncrOld n v2]] in
    let sched := [0; 1; 0; 1]%nat in           (* r1 r2 w1 w2 *)
    complete sched (compile threads) s0 = true /\
    counter_of n (run sched (compile threads) s0) = Some (init + v2)%N /\
    ((0 < v1)%N -> counter_of n (run sched (compile threads) s0)
                   <> Some (init + total_increments n [[Incr n v1]; [Incr n v2]])%N).
Proof.
  intros n s0 init v1 v2 Hs Hinit H1 H2 threads sched.
  assert (L : lookup n (ms_metrics s0) = Some (Counter init)).
  { unfold counter_of in Hinit. destruct (lookup n (ms_metrics s0)) as [[c|t]|]; try discriminate.
    inversion Hinit; reflexivity. }
  assert (Hrun : run_full sched (compile threads) s0 =
                 ([[]; []],
                  set_metrics (insert n (Counter (init + v2)%N))
                              (set_metrics (insert n (Counter (init + v1)%N)) s0),
                  [SIncrOldRead n v1; SIncrOldRead n v2; SSet n (init + v1)%N; SSet n (init + v2)%N])).
  { subst threads sched.
    cbn [compile map compile_thread flat_map sections_of app run_full step].
    rewrite (exec_old_read n v1 init s0 Hs L H1). cbn [app].
    rewrite (exec_old_read n v2 init s0 Hs L H2). cbn [app].
    rewrite (exec_set n (init + v1)%N s0 Hs).
    rewrite (exec_set n (init + v2)%N) by (cbn; exact Hs).
    reflexivity. }
  unfold complete, remaining, run. rewrite Hrun. cbn [fst snd].
  split; [reflexivity|]. rewrite counter_of_insert_same. split; [reflexivity|].
  intros Hpos Heq. inversion Heq as [Heq']. revert Heq'.
  unfold total_increments. cbn. rewrite Z.eqb_refl. lia.
Qed.

(* ================================================================ run_collect *)

Theorem metrics_transparent :
  forall (C R : Type) (plan : outcome C) (exec : C -> outcome R)
         (clk clk' : nat -> Z) (i j i' j' : nat) (m m' : mstate),
    ms_poisoned m = false ->
    fst (run_collect true plan exec clk i j m) = fst (run_collect false plan exec clk' i' j' m').
Proof.
  intros C R plan exec clk clk' i j i' j' m m' Hm. unfold run_collect. rewrite Hm.
  cbn [andb]. destruct plan as [c|e|]; try reflexivity.
  destruct (exec c); reflexivity.
Qed.

(* a detached pipeline never touches the collector *)
Theorem detached_untouched :
  forall (C R : Type) (plan : outcome C) (exec : C -> outcome R) clk i j m,
    snd (run_collect false plan exec clk i j m) = m.
Proof.
  intros. unfold run_collect. cbn [andb]. destruct plan as [c|e|]; try reflexivity.
  destruct (exec c); reflexivity.
Qed.

Lemma exec_start : forall t m, ms_poisoned m = false ->
  fst (exec_section (SStart t) m) = MS (ms_metrics m) (Some t) (ms_end m) false.
Proof. intros t m H. unfold exec_section. rewrite H. reflexivity. Qed.
Lemma exec_end : forall t m, ms_poisoned m = false ->
  fst (exec_section (SEnd t) m) = MS (ms_metrics m) (ms_start m) (Some t) false.
Proof. intros t m H. unfold exec_section. rewrite H. reflexivity. Qed.

Theorem elapsed_some_nonneg :
  forall (C R : Type) (plan : outcome C) (exec : C -> outcome R) (clk : nat -> Z)
         (i j : nat) (m : mstate) (r : R),
    monotone clk -> (i <= j)%nat ->
    ms_poisoned m = false ->
    fst (run_collect true plan exec clk i j m) = Ok r ->
    let m' := snd (run_collect true plan exec clk i j m) in
    elapsed m' = Some (clk j - clk i)%Z /\ (0 <= clk j - clk i)%Z /\
    ms_start m' = Some (clk i) /\ ms_end m' = Some (clk j) /\
    ms_metrics m' = ms_metrics m.
Proof.
  intros C R plan exec clk i j m r Hmono Hij Hm. unfold run_collect. rewrite Hm. cbn [andb].
  specialize (Hmono i j Hij).
  destruct plan as [c|e|]; cbn [fst snd]; try discriminate.
  destruct (exec c) as [r'|e|] eqn:E; cbn [fst snd]; try discriminate.
  intros _. unfold record_metrics_start, record_metrics_end.
  rewrite (exec_start _ _ Hm), exec_end by reflexivity.
  unfold elapsed. cbn [ms_start ms_end ms_metrics].
  repeat split; try lia. f_equal. lia.
Qed.

(* what a failing run leaves behind: build_plan's error skips record_end, an engine error does not *)
Theorem failed_plan_leaves_end :
  forall (C R : Type) (exec : C -> outcome R) clk i j m e,
    ms_poisoned m = false ->
    let m' := snd (run_collect true (@Err C e) exec clk i j m) in
    ms_start m' = Some (clk i) /\ ms_end m' = ms_end m.
Proof.
  intros C R exec clk i j m e Hm. unfold run_collect. rewrite Hm. cbn [andb snd].
  unfold record_metrics_start. rewrite (exec_start _ _ Hm). split; reflexivity.
Qed.

Theorem failed_engine_records_end :
  forall (C R : Type) (c : C) (exec : C -> outcome R) clk i j m e,
    ms_poisoned m = false -> exec c = Err e ->
    let m' := snd (run_collect true (Ok c) exec clk i j m) in
    ms_start m' = Some (clk i) /\ ms_end m' = Some (clk j).
Proof.
  intros C R c exec clk i j m e Hm He. unfold run_collect. rewrite Hm, He. cbn [andb snd].
  unfold record_metrics_start, record_metrics_end.
  rewrite (exec_start _ _ Hm), exec_end by reflexivity. split; reflexivity.
Qed.

(* ================================================================ JSON export *)

Lemma jinsert_keys : forall k n e l,
  In k (map fst (jinsert n e l)) <-> k = n \/ In k (map fst l).
Proof.
  intros k n e l. induction l as [|[j x] r IH]; cbn [jinsert map fst In].
  - intuition.
  - destruct (Z.eqb j n) eqn:E; cbn [map fst In].
    + apply Z.eqb_eq in E. subst j. intuition.
    + rewrite IH. intuition.
Qed.

Lemma jinsert_nodup : forall n e l, NoDup (map fst l) -> NoDup (map fst (jinsert n e l)).
Proof.
  intros n e l. induction l as [|[j x] r IH]; cbn [jinsert map fst]; intro H.
  - constructor; [intros []|constructor].
  - inversion H as [|a l' Hnin Hnd]; subst.
    destruct (Z.eqb j n) eqn:E; cbn [map fst].
    + constructor; assumption.
    + constructor; [|apply IH; exact Hnd].
      intro Hin. apply jinsert_keys in Hin. destruct Hin as [->|Hin].
      * rewrite Z.eqb_refl in E. discriminate.
      * contradiction.
Qed.

Lemma base_keys : forall (s : store),
  map fst (map (fun p => (fst p, JMetric (snd p))) s) = map fst s.
Proof. intros s. rewrite map_map. apply map_ext. reflexivity. Qed.

Lemma json_keys_store : forall s k, In k (map fst (ms_metrics s)) -> In k (json_keys s).
Proof.
  intros s k H. unfold json_keys, to_json. destruct (elapsed s).
  - apply jinsert_keys. right. rewrite base_keys. exact H.
  - rewrite base_keys. exact H.
Qed.

Lemma json_keys_nodup : forall s, NoDup (map fst (ms_metrics s)) -> NoDup (json_keys s).
Proof.
  intros s H. unfold json_keys, to_json. destruct (elapsed s).
  - apply jinsert_nodup. rewrite base_keys. exact H.
  - rewrite base_keys. exact H.
Qed.

Lemma json_time_key : forall s d, elapsed s = Some d -> In exec_time_name (json_keys s).
Proof.
  intros s d H. unfold json_keys, to_json. rewrite H. apply jinsert_keys. left. reflexivity.
Qed.

(* the exported execution time is elapsed() in whole milliseconds (no wrap at one second) *)
Lemma jlookup_jinsert_same : forall n e l, jlookup n (jinsert n e l) = Some e.
Proof.
  intros n e l. induction l as [|[k x] r IH]; cbn [jinsert jlookup].
  - rewrite Z.eqb_refl. reflexivity.
  - destruct (Z.eqb k n) eqn:E; cbn [jlookup]; rewrite E; [reflexivity|exact IH].
Qed.
Lemma jlookup_base_notime : forall n (st : store) ms,
  jlookup n (map (fun p => (fst p, JMetric (snd p))) st) <> Some (JTime ms).
Proof.
  intros n st ms. induction st as [|[k m] r IH]; cbn [map jlookup fst snd].
  - discriminate.
  - destruct (Z.eqb k n); [discriminate|exact IH].
Qed.
Theorem json_time_elapsed : forall s,
  json_time s = option_map (fun d => d / 1000000)%Z (elapsed s).
Proof.
  intros s. unfold json_time, to_json. destruct (elapsed s) as [d|]; cbn [option_map].
  - rewrite jlookup_jinsert_same. reflexivity.
  - destruct (jlookup exec_time_name _) as [[m|ms]|] eqn:E; try reflexivity.
    exfalso. exact (jlookup_base_notime _ _ _ E).
Qed.
Theorem json_time_after_run :
  forall (C R : Type) (plan : outcome C) (exec : C -> outcome R) (clk : nat -> Z)
         (i j : nat) (m : mstate) (r : R) (slept_ms : Z),
    monotone clk -> (i <= j)%nat ->
    ms_poisoned m = false ->
    fst (run_collect true plan exec clk i j m) = Ok r ->
    (slept_ms * 1000000 <= clk j - clk i)%Z ->
    let m' := snd (run_collect true plan exec clk i j m) in
    json_time m' = Some ((clk j - clk i) / 1000000)%Z /\
    (slept_ms <= (clk j - clk i) / 1000000)%Z.
Proof.
  intros C R plan exec clk i j m r k Hmono Hij Hm Hok Hk m'.
  destruct (elapsed_some_nonneg C R plan exec clk i j m r Hmono Hij Hm Hok) as [He _].
  fold m' in He. rewrite json_time_elapsed, He. cbn [option_map]. split; [reflexivity|].
  apply Z.div_le_lower_bound; lia.
Qed.

Lemma exec_nodup : forall x s,
  NoDup (map fst (ms_metrics s)) -> NoDup (map fst (ms_metrics (fst (exec_section x s)))).
Proof.
  intros x s H. unfold exec_section. destruct (ms_poisoned s); [exact H|].
  destruct x as [n v|n v|n m|t|t|n v]; cbn [fst].
  - destruct (lookup n (ms_metrics s)) as [[c|tg]|]; [destruct (N.ltb (c + v) U64_MOD)| |];
      cbn [fst set_metrics poison ms_metrics]; try exact H; apply nodup_insert; exact H.
  - apply nodup_insert; exact H.
  - apply nodup_insert; exact H.
  - exact H.
  - exact H.
  - destruct (lookup n (ms_metrics s)) as [[c|tg]|]; [destruct (N.ltb (c + v) U64_MOD)| |];
      cbn [fst set_metrics poison ms_metrics]; try exact H; apply nodup_insert; exact H.
Qed.

Lemma exec_seq_nodup : forall tr s,
  NoDup (map fst (ms_metrics s)) -> NoDup (map fst (ms_metrics (exec_seq tr s))).
Proof.
  induction tr as [|x r IH]; intros s H; [exact H|].
  rewrite exec_seq_cons. apply IH. apply exec_nodup. exact H.
Qed.

Lemma call_name_section : forall c n,
  In n (call_names c) -> exists x, In x (sections_of c) /\ section_name x = Some n.
Proof.
  intros c n H. destruct c as [k v|k v|k m|ms|t|t|k v]; cbn [call_names sections_of] in *;
    try (destruct H as [<-|[]]; eexists; split; [left; reflexivity|reflexivity]);
    try (destruct H).
  apply in_map_iff in H. destruct H as ([k m] & <- & Hin).
  exists (SReg k m). split; [|reflexivity].
  apply in_map_iff. exists (k, m). split; [reflexivity|exact Hin].
Qed.

Theorem json_has_all_registered :
  forall (threads : list (list call)) (sched : list nat) (s0 : mstate),
    complete sched (compile threads) s0 = true ->
    ms_poisoned (run sched (compile threads) s0) = false ->
    forall cs c n, In cs threads -> In c cs -> In n (call_names c) ->
                   In n (json_keys (run sched (compile threads) s0)).
Proof.
  intros threads sched s0 Hcomplete Hp cs c n Hcs Hc Hn.
  destruct (call_name_section c n Hn) as (x & Hx & Hname).
  assert (Hin : In x (trace sched (compile threads) s0)).
  { apply complete_in_trace; [exact Hcomplete|]. eapply call_section_in_pool; eassumption. }
  apply json_keys_store. rewrite run_full_exec in *.
  apply in_split in Hin. destruct Hin as (a & b & Htr). rewrite Htr in *.
  rewrite exec_seq_app, exec_seq_cons in *.
  apply exec_seq_keys_mono. apply exec_adds_key; [exact Hname|].
  eapply exec_seq_poison_mono. exact Hp.
Qed.

Theorem json_one_entry_per_name :
  forall (threads : list (list call)) (sched : list nat),
    NoDup (json_keys (run sched (compile threads) empty_state)).
Proof.
  intros threads sched. apply json_keys_nodup. rewrite run_full_exec.
  apply exec_seq_nodup. constructor.
Qed.

(* duplicate names: register replaces; register_all keeps the LAST metric of each name *)
Lemma exec_reg : forall n m s, ms_poisoned s = false ->
  fst (exec_section (SReg n m) s) = set_metrics (insert n m) s.
Proof. intros n m s H. unfold exec_section. rewrite H. reflexivity. Qed.

Theorem register_all_last_wins :
  forall (ms : list (name * metric)) (s : mstate) (n : name),
    ms_poisoned s = false ->
    lookup n (ms_metrics (run_calls [RegAll ms] s)) =
    match last_assoc n ms with Some m => Some m | None => lookup n (ms_metrics s) end /\
    ms_poisoned (run_calls [RegAll ms] s) = false.
Proof.
  unfold run_calls, compile_thread. cbn [flat_map sections_of]. intros ms.
  induction ms as [|[k m] r IH]; intros s n Hs; cbn [map app last_assoc fst snd].
  - split; [reflexivity|exact Hs].
  - rewrite exec_seq_cons, (exec_reg k m s Hs).
    destruct (IH (set_metrics (insert k m) s) n Hs) as [IH1 IH2]. cbn [app] in IH1, IH2.
    split; [|exact IH2]. rewrite IH1.
    destruct (last_assoc n r); [reflexivity|]. cbn [set_metrics ms_metrics].
    destruct (Z.eqb k n) eqn:E.
    + apply Z.eqb_eq in E. subst k. apply lookup_insert_same.
    + apply lookup_insert_other. intro; subst. rewrite Z.eqb_refl in E. discriminate.
Qed.

(* ================================================================ the pipeline's metrics slot *)
Lemma nth_upd_same : forall (A : Type) k (x d : A) l, (k < length l)%nat -> nth k (upd k x l) d = x.
Proof.
  intros A k x d l. revert k. induction l as [|y r IH]; intros [|k] H; cbn in *; try lia.
  - reflexivity.
  - apply IH. lia.
Qed.
Lemma nth_upd_other : forall (A : Type) k j (x d : A) l, j <> k -> nth j (upd k x l) d = nth j l d.
Proof.
  intros A k j x d l. revert k j. induction l as [|y r IH]; intros [|k] [|j] H; cbn; try reflexivity.
  - congruence.
  - apply IH. congruence.
Qed.

(* p_set_metrics replaces: whatever was attached, the pipeline hands out the collector of the LAST
   p_set_metrics, and attaching does not touch any collector *)
Theorem slot_last_set_wins : forall k1 k2 p,
  p_get_metrics (p_set_metrics k2 (p_set_metrics k1 p)) = Some k2 /\
  p_take_metrics (p_set_metrics k2 (p_set_metrics k1 p)) = (Some k2, PS None (ps_colls p)) /\
  p_get_metrics (snd (p_take_metrics (p_set_metrics k2 p))) = None.
Proof. intros. repeat split. Qed.

(* a run stamps the attached collector and no other *)
Theorem run_touches_attached_only :
  forall (C R : Type) (plan : outcome C) (exec : C -> outcome R) clk i j p k,
    ps_slot p <> Some k ->
    coll k (snd (run_on plan exec clk i j p)) = coll k p.
Proof.
  intros C R plan exec clk i j p k H. unfold run_on, coll.
  destruct (ps_slot p) as [a|] eqn:E; cbn [snd ps_colls]; [|reflexivity].
  apply nth_upd_other. intro Hk. apply H. congruence.
Qed.

(* set_metrics(m2) over an attached m1, then a successful run: m2 carries this run's stamps, the
   pipeline hands out m2, m1 is untouched *)
Theorem reattach_then_run :
  forall (C R : Type) (plan : outcome C) (exec : C -> outcome R) (clk : nat -> Z)
         (i j : nat) (p : pstate) (k1 k2 : nat) (r : R),
    monotone clk -> (i <= j)%nat -> k1 <> k2 -> (k2 < length (ps_colls p))%nat ->
    ms_poisoned (coll k2 p) = false ->
    let p2 := p_set_metrics k2 (p_set_metrics k1 p) in
    fst (run_on plan exec clk i j p2) = Ok r ->
    let p' := snd (run_on plan exec clk i j p2) in
    elapsed (coll k2 p') = Some (clk j - clk i)%Z /\
    coll k1 p' = coll k1 p /\
    fst (p_take_metrics p') = Some k2.
Proof.
  intros C R plan exec clk i j p k1 k2 r Hmono Hij Hne Hlen Hpo p2 Hok p'.
  unfold p', p2 in *. unfold run_on, p_set_metrics in *. cbn [ps_slot ps_colls fst snd] in *.
  unfold coll in *. cbn [ps_colls] in *.
  repeat split.
  - rewrite nth_upd_same by exact Hlen.
    destruct (elapsed_some_nonneg C R plan exec clk i j _ r Hmono Hij Hpo Hok) as [He _]. exact He.
  - apply nth_upd_other. exact Hne.
Qed.

