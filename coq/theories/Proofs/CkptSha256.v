(* Proofs about the SHA-256 model (Ckpt/Sha256.v): the streaming hasher driven by
   compute_checksum computes the FIPS one-shot function however the input is cut into `update`
   calls - for EVERY compression function, initial value and output function (Section MD), hence
   for both word instances; shape of digest and checksum; padding; the integrity theorems
   instantiated. *)
From Coq Require Import List ZArith Bool Lia.
From IB Require Import Ckpt.Bincode Ckpt.Store Ckpt.Sha256 Proofs.CkptStore.
Import ListNotations.
Open Scope Z_scope.

Local Ltac zdm := Z.div_mod_to_equations; lia.

Lemma firstn_app_le : forall (A : Type) (n : nat) (l r : list A),
  (n <= length l)%nat -> firstn n (l ++ r) = firstn n l.
Proof.
  intros A n l r Hn. rewrite firstn_app. replace (n - length l)%nat with 0%nat by lia.
  cbn [firstn]. apply app_nil_r.
Qed.
Lemma skipn_app_le : forall (A : Type) (n : nat) (l r : list A),
  (n <= length l)%nat -> skipn n (l ++ r) = skipn n l ++ r.
Proof.
  intros A n l r Hn. rewrite skipn_app. replace (n - length l)%nat with 0%nat by lia.
  reflexivity.
Qed.
Lemma firstn_all_len : forall (A : Type) (l : list A) n, length l = n -> firstn n l = l.
Proof. intros A l n H. subst n. apply firstn_all. Qed.
Lemma repeat_add : forall (A : Type) (x : A) a b, repeat x (a + b) = repeat x a ++ repeat x b.
Proof. intros A x a b. induction a as [|a IH]; [reflexivity|]. cbn. rewrite IH. reflexivity. Qed.
Lemma be64_length : forall n, length (be64 n) = 8%nat.
Proof. reflexivity. Qed.
Lemma div64 : forall a : nat, exists q r, a = (q * 64 + r)%nat /\ (r < 64)%nat /\ (a / 64 = q)%nat.
Proof.
  intro a. exists (a / 64)%nat, (a mod 64)%nat.
  pose proof (Nat.div_mod a 64 ltac:(lia)) as E.
  pose proof (Nat.mod_upper_bound a 64 ltac:(lia)) as B.
  repeat split; lia.
Qed.

Section MDProofs.
  Variable hst : Type.
  Variable compress : hst -> bytes -> hst.
  Variable h0 : hst.
  Variable digest_of : hst -> bytes.
  Local Notation hash_blocks := (hash_blocks compress).
  Local Notation sha_h0 := h0.
  Local Notation sha_new := (md_new h0).
  Local Notation sha_update := (md_update compress).
  Local Notation sha_finalize := (md_finalize compress digest_of).
  Local Notation sha256_spec := (md_spec compress h0 digest_of).
  Local Notation sha256 := (md_stream compress h0 digest_of).

(* ------------------------------------------------------------------ hash_blocks *)
Lemma hash_blocks_nil : forall f h, hash_blocks f h [] = h.
Proof. intros f h. destruct f; reflexivity. Qed.

(* n whole blocks in front: they are consumed by n units of fuel *)
Lemma hash_blocks_app : forall n m h l r,
  length l = (n * 64)%nat ->
  hash_blocks (n + m) h (l ++ r) = hash_blocks m (hash_blocks n h l) r.
Proof.
  induction n as [|n IH]; intros m h l r Hl.
  - destruct l; [reflexivity | discriminate].
  - destruct l as [|x l']; [discriminate|].
    assert (H64 : (64 <= length (x :: l'))%nat) by lia.
    change (S n + m)%nat with (S (n + m)).
    cbn [hash_blocks]. change ((x :: l') ++ r) with (x :: l' ++ r).
    change (x :: l' ++ r) with ((x :: l') ++ r).
    rewrite (firstn_app_le _ 64 (x :: l') r H64), (skipn_app_le _ 64 (x :: l') r H64).
    apply IH. rewrite skipn_length. lia.
Qed.

(* more fuel than blocks changes nothing *)
Lemma hash_blocks_fuel : forall f l h g,
  (length l <= f * 64)%nat -> (f <= g)%nat -> hash_blocks g h l = hash_blocks f h l.
Proof.
  induction f as [|f IH]; intros l h g Hl Hg.
  - destruct l; [|cbn in Hl; lia]. rewrite hash_blocks_nil. reflexivity.
  - destruct g as [|g]; [lia|]. destruct l as [|x l']; [reflexivity|].
    cbn [hash_blocks]. apply IH; [|lia]. rewrite skipn_length. lia.
Qed.

Lemma hash_blocks_one : forall h b, length b = 64%nat -> hash_blocks 1 h b = compress h b.
Proof.
  intros h b Hb. destruct b as [|x b']; [discriminate|]. cbn [hash_blocks].
  rewrite (firstn_all_len _ (x :: b') 64 Hb). reflexivity.
Qed.

(* ------------------------------------------------------------------ the streaming invariant *)
(* hs has absorbed the message p: n whole blocks compressed, the rest (< 64 bytes) buffered *)
Definition absorbed (hs : hasher hst) (p : bytes) : Prop :=
  exists full n,
    p = full ++ hs_buf hs /\ length full = (n * 64)%nat /\ (length (hs_buf hs) < 64)%nat
    /\ hs_state hs = hash_blocks n sha_h0 full /\ hs_blocks hs = Z.of_nat n.

Lemma absorbed_new : absorbed sha_new [].
Proof. exists [], 0%nat. repeat split; cbn; lia. Qed.

(* feeding whole blocks directly (split_blocks + compress) *)
Lemma absorb_tail : forall full n st nb input1,
  length full = (n * 64)%nat -> st = hash_blocks n sha_h0 full -> nb = Z.of_nat n ->
  let nfull := (length input1 / 64)%nat in
  absorbed (mk_hasher (hash_blocks nfull st (firstn (nfull * 64) input1)) (nb + Z.of_nat nfull)
                      (skipn (nfull * 64) input1))
           (full ++ input1).
Proof.
  intros full n st nb input1 Hfull Hst Hnb nfull.
  destruct (div64 (length input1)) as [q [r [E [Hr Hq]]]].
  unfold nfull. rewrite Hq.
  exists (full ++ firstn (q * 64) input1), (n + q)%nat. cbn [hs_buf hs_state hs_blocks].
  assert (Hf : length (firstn (q * 64) input1) = (q * 64)%nat) by (rewrite firstn_length; lia).
  split; [rewrite <- app_assoc, firstn_skipn; reflexivity|].
  split; [rewrite app_length, Hf; lia|].
  split; [rewrite skipn_length; lia|].
  split; [|lia].
  rewrite (hash_blocks_app n q sha_h0 full _ Hfull), <- Hst. reflexivity.
Qed.

Lemma absorbed_update : forall hs p a, absorbed hs p -> absorbed (sha_update hs a) (p ++ a).
Proof.
  intros hs p a [full [n [Hp [Hfull [Hbuf [Hst Hnb]]]]]].
  unfold sha_update.
  destruct (Nat.ltb (length a) (64 - length (hs_buf hs))) eqn:Hlt.
  - apply Nat.ltb_lt in Hlt. exists full, n. cbn [hs_buf hs_state hs_blocks].
    split; [rewrite Hp, app_assoc; reflexivity|].
    split; [exact Hfull|]. split; [rewrite app_length; lia|]. split; assumption.
  - apply Nat.ltb_ge in Hlt.
    destruct (hs_buf hs) as [|b0 buf'] eqn:Ebuf.
    + rewrite Hp, app_nil_r. apply (absorb_tail full n); assumption.
    + set (buf := b0 :: buf') in *.
      set (rem := (64 - length buf)%nat) in *.
      assert (HB : length (buf ++ firstn rem a) = 64%nat).
      { rewrite app_length, firstn_length. unfold rem. lia. }
      replace (p ++ a) with ((full ++ (buf ++ firstn rem a)) ++ skipn rem a).
      2:{ rewrite Hp, <- !app_assoc. f_equal. f_equal. apply firstn_skipn. }
      apply (absorb_tail (full ++ (buf ++ firstn rem a)) (n + 1)).
      * rewrite app_length, HB. lia.
      * rewrite (hash_blocks_app n 1 sha_h0 full _ Hfull), <- Hst. symmetry.
        apply hash_blocks_one. exact HB.
      * lia.
Qed.

Lemma absorbed_finalize : forall hs p, absorbed hs p -> sha_finalize hs = sha256_spec p.
Proof.
  intros hs p [full [n [Hp [Hfull [Hbuf [Hst Hnb]]]]]].
  unfold sha_finalize, sha256_spec. f_equal.
  remember (hs_buf hs) as buf eqn:Ebuf. rewrite app_length. cbn [length]. rewrite Nat.add_1_r.
  remember (length buf) as pos eqn:Epos.
  assert (Hlen : length p = (n * 64 + pos)%nat) by (rewrite Hp, app_length; lia).
  assert (Hbits : 8 * (Z.of_nat pos + hs_blocks hs * 64) = 8 * Z.of_nat (length p)) by lia.
  rewrite Hbits.
  set (bl := be64 (8 * Z.of_nat (length p))).
  unfold sha_pad. fold bl.
  destruct (Nat.leb (S pos) 56) eqn:Hle.
  - apply Nat.leb_le in Hle.
    assert (Hk : Z.to_nat ((55 - Z.of_nat (length p)) mod 64) = (56 - S pos)%nat) by (rewrite Hlen; zdm).
    rewrite Hk.
    set (blk := (buf ++ [128]) ++ repeat 0 (56 - S pos) ++ bl).
    assert (Hblk : length blk = 64%nat).
    { unfold blk. rewrite !app_length, repeat_length. unfold bl. rewrite be64_length. cbn [length]. lia. }
    assert (Em : p ++ 128 :: repeat 0 (56 - S pos) ++ bl = full ++ blk).
    { unfold blk. rewrite Hp, <- !app_assoc. reflexivity. }
    rewrite Em.
    rewrite (hash_blocks_fuel (n + 1) (full ++ blk) sha_h0).
    + rewrite (hash_blocks_app n 1 sha_h0 full blk Hfull), <- Hst. symmetry. apply hash_blocks_one. exact Hblk.
    + rewrite app_length, Hblk. lia.
    + unfold blocks_fuel. rewrite app_length, Hblk, Hfull. zdm.
  - apply Nat.leb_gt in Hle.
    assert (Hk : Z.to_nat ((55 - Z.of_nat (length p)) mod 64) = ((64 - S pos) + 56)%nat) by (rewrite Hlen; zdm).
    rewrite Hk, repeat_add.
    set (blkA := (buf ++ [128]) ++ repeat 0 (64 - S pos)).
    set (blkB := repeat 0 56 ++ bl).
    assert (HA : length blkA = 64%nat).
    { unfold blkA. rewrite !app_length, repeat_length. cbn [length]. lia. }
    assert (HB : length blkB = 64%nat).
    { unfold blkB. rewrite app_length, repeat_length. unfold bl. rewrite be64_length. lia. }
    assert (Em : p ++ 128 :: (repeat 0 (64 - S pos) ++ repeat 0 56) ++ bl = (full ++ blkA) ++ blkB).
    { unfold blkA, blkB. rewrite Hp, <- !app_assoc. reflexivity. }
    rewrite Em.
    assert (HfA : length (full ++ blkA) = ((n + 1) * 64)%nat) by (rewrite app_length, HA; lia).
    rewrite (hash_blocks_fuel (n + 1 + 1) ((full ++ blkA) ++ blkB) sha_h0).
    + rewrite (hash_blocks_app (n + 1) 1 sha_h0 (full ++ blkA) blkB HfA).
      rewrite (hash_blocks_app n 1 sha_h0 full blkA Hfull), <- Hst.
      rewrite (hash_blocks_one _ blkA HA). symmetry. apply hash_blocks_one. exact HB.
    + rewrite app_length, HfA, HB. lia.
    + unfold blocks_fuel. rewrite app_length, HfA, HB. zdm.
Qed.

(* ------------------------------------------------------------------ main statements *)
(* however the message is cut into `update` calls, the streaming hasher computes the one-shot
   FIPS function of the concatenation *)
Theorem sha_stream_chunks : forall chunks,
  sha_finalize (fold_left sha_update chunks sha_new) = sha256_spec (concat chunks).
Proof.
  intro chunks. apply absorbed_finalize.
  assert (G : forall cs hs p, absorbed hs p -> absorbed (fold_left sha_update cs hs) (p ++ concat cs)).
  { induction cs as [|c cs IH]; intros hs p Ha.
    - cbn. rewrite app_nil_r. exact Ha.
    - cbn [fold_left concat]. rewrite app_assoc. apply IH. apply absorbed_update. exact Ha. }
  apply (G chunks sha_new [] absorbed_new).
Qed.

(* compute_checksum's single update: the model used in the correspondence run IS the FIPS function *)
Theorem sha_stream_spec : forall data, sha256 data = sha256_spec data.
Proof.
  intro data. unfold sha256. apply absorbed_finalize.
  apply (absorbed_update sha_new [] data absorbed_new).
Qed.

(* feeding only the whole blocks of a message (what `chunks_exact(64)` yields) hashes the message
   WITHOUT its last `len mod 64` bytes: the remainder must be fed too *)
Theorem sha_whole_blocks_only : forall data,
  sha_finalize (sha_update sha_new (firstn (length data / 64 * 64) data))
  = sha256_spec (firstn (length data / 64 * 64) data).
Proof. intro data. apply sha_stream_spec. Qed.
End MDProofs.

(* ------------------------------------------------------------------ shape *)
Lemma land255_byte : forall x, is_byte (Z.land x 255).
Proof.
  intro x. unfold is_byte. replace (Z.land x 255) with (x mod 256).
  2:{ change 255 with (Z.ones 8). rewrite Z.land_ones by lia. reflexivity. }
  pose proof (Z.mod_pos_bound x 256 ltac:(lia)) as B. lia.
Qed.

(* a digest function that emits 32 bytes *)
Definition digest_ok {hst : Type} (digest_of : hst -> bytes) : Prop :=
  forall h, length (digest_of h) = 32%nat /\ Forall is_byte (digest_of h).

Lemma fips_digest_z_ok : digest_ok (fips_digest ops_z).
Proof.
  intro h. unfold fips_digest. split.
  - rewrite !app_length. reflexivity.
  - repeat (apply Forall_app; split); cbn [w_bytes ops_z]; repeat constructor; apply land255_byte.
Qed.

Theorem md_spec_shape : forall (hst : Type) (compress : hst -> bytes -> hst) h0 digest_of,
  digest_ok digest_of ->
  forall data, length (md_spec compress h0 digest_of data) = 32%nat
               /\ Forall is_byte (md_spec compress h0 digest_of data).
Proof. intros hst compress h0 digest_of Hd data. apply Hd. Qed.

Theorem sha256_z_shape : forall data,
  length (sha256_spec_z data) = 32%nat /\ Forall is_byte (sha256_spec_z data).
Proof. intro data. apply fips_digest_z_ok. Qed.

Definition is_lower_hex (c : Z) : Prop := 48 <= c <= 57 \/ 97 <= c <= 102.

Lemma hex_shape : forall l, Forall is_byte l ->
  length (hex l) = (2 * length l)%nat /\ Forall is_lower_hex (hex l).
Proof.
  induction l as [|b l IH]; intro Hl.
  - split; [reflexivity | constructor].
  - inversion Hl as [|b' l' Hb Hl']; subst. destruct (IH Hl') as [IL IF].
    unfold hex in *. cbn [flat_map]. split.
    + cbn [app length]. rewrite IL. lia.
    + unfold is_byte in Hb.
      assert (D : forall n, 0 <= n <= 15 -> is_lower_hex (hex_digit n)).
      { intros n Hn. unfold hex_digit, is_lower_hex. destruct (n <? 10) eqn:E.
        - apply Z.ltb_lt in E. lia.
        - apply Z.ltb_ge in E. lia. }
      cbn [app]. constructor; [apply D; zdm|]. constructor; [apply D; zdm|]. exact IF.
Qed.

(* the checksum string compute_checksum returns: 64 lower-case hex digits *)
Theorem checksum_shape : forall (hst : Type) (compress : hst -> bytes -> hst) h0 digest_of,
  digest_ok digest_of ->
  forall data,
    length (compute_checksum (md_stream compress h0 digest_of) data) = 64%nat
    /\ Forall is_lower_hex (compute_checksum (md_stream compress h0 digest_of) data).
Proof.
  intros hst compress h0 digest_of Hd data. unfold compute_checksum. rewrite sha_stream_spec.
  destruct (md_spec_shape hst compress h0 digest_of Hd data) as [L F].
  destruct (hex_shape _ F) as [HL HF].
  split; [rewrite HL, L; reflexivity | exact HF].
Qed.

Theorem checksum_shape_z : forall data,
  length (compute_checksum sha256_z data) = 64%nat
  /\ Forall is_lower_hex (compute_checksum sha256_z data).
Proof. apply checksum_shape. exact fips_digest_z_ok. Qed.

(* 5.1.1: the padded message is a whole number of blocks and ends with the bit length *)
Theorem sha_pad_blocks : forall data,
  let m := data ++ sha_pad (Z.of_nat (length data)) in
  Z.of_nat (length m) mod 64 = 0
  /\ (length data + 9 <= length m < length data + 73)%nat
  /\ skipn (length m - 8) m = be64 (8 * Z.of_nat (length data)).
Proof.
  intro data. cbv zeta. unfold sha_pad.
  set (k := Z.to_nat ((55 - Z.of_nat (length data)) mod 64)).
  assert (Hk : Z.of_nat k = (55 - Z.of_nat (length data)) mod 64) by (unfold k; zdm).
  assert (HL : length (data ++ 128 :: repeat 0 k ++ be64 (8 * Z.of_nat (length data)))
               = (length data + 1 + k + 8)%nat).
  { rewrite app_length. cbn [length]. rewrite app_length, repeat_length, be64_length. lia. }
  rewrite HL. split; [zdm|]. split; [zdm|].
  replace (length data + 1 + k + 8 - 8)%nat with (length (data ++ 128 :: repeat 0 k)).
  2:{ rewrite app_length. cbn [length]. rewrite repeat_length. lia. }
  replace (data ++ 128 :: repeat 0 k ++ be64 (8 * Z.of_nat (length data)))
    with ((data ++ 128 :: repeat 0 k) ++ be64 (8 * Z.of_nat (length data))).
  2:{ rewrite <- app_assoc. reflexivity. }
  rewrite skipn_app, skipn_all, Nat.sub_diag. reflexivity.
Qed.

(* ------------------------------------------------------------------ integrity with H := SHA-256 *)
From IB Require Import Proofs.CkptBincode Proofs.CkptMain.

Section Integrity256.
  Variable hst : Type.
  Variable compress : hst -> bytes -> hst.
  Variable h0 : hst.
  Variable digest_of : hst -> bytes.
  Hypothesis Hdig : digest_ok digest_of.
  Local Notation sha256 := (md_stream compress h0 digest_of).
  Local Notation sha256_spec := (md_spec compress h0 digest_of).

(* b = any bytes. Accepted with the checksum of the saved state s but other protected fields:
   then two different protected strings have the same one-shot digest *)
Theorem tamper_detected_sha256 : forall avail, ckpt_limit <= avail -> forall s b s',
  nums_nonneg s -> Forall is_byte b ->
  checksum s = compute_checksum sha256 (meta_str s) ->
  load_bytes sha256 avail b = Ok s' -> checksum s' = checksum s ->
  protected s' <> protected s ->
  meta_str s' <> meta_str s /\ sha256_spec (meta_str s') = sha256_spec (meta_str s).
Proof.
  intros avail Ha s b s' Hs Hb Hck Hl Hsame Hp.
  destruct (tamper_detected sha256 avail Ha s b s' Hs Hb Hck Hl Hsame Hp) as [Hne Hhex].
  split; [exact Hne|]. rewrite !sha_stream_spec in Hhex.
  apply hex_inj in Hhex; [exact Hhex | apply Hdig | apply Hdig].
Qed.

(* the file of a state s2 that differs from the saved s in ANY protected field (id, index,
   timestamp, partition count - ids of any length) but keeps s's checksum: the outcome of load is
   the checksum error (LimitExceeded when s2 is over the decode limit), or a collision *)
Theorem field_tamper_sha256 : forall avail, ckpt_limit <= avail -> forall s s2 junk,
  nums_nonneg s -> wf_value s2 ->
  checksum s = compute_checksum sha256 (meta_str s) ->
  checksum s2 = checksum s -> protected s2 <> protected s ->
  load_bytes sha256 avail (encode s2 ++ junk) = Err LChecksum
  \/ load_bytes sha256 avail (encode s2 ++ junk) = Err (LDecode ELimit)
  \/ (meta_str s2 <> meta_str s /\ sha256_spec (meta_str s2) = sha256_spec (meta_str s)).
Proof.
  intros avail Ha s s2 junk Hs Hw Hck Hsame Hp. unfold load_bytes.
  rewrite (main_decode_exact avail s2 junk Ha Hw).
  destruct (claim_total s2 <=? ckpt_limit); [|right; left; reflexivity].
  destruct (bytes_eqb (compute_checksum sha256 (meta_str s2)) (checksum s2)) eqn:E;
    [|left; reflexivity].
  right; right. apply bytes_eqb_eq in E.
  assert (Hs2 : nums_nonneg s2).
  { destruct Hw as (_ & A & B & C & _). unfold nums_nonneg, is_u64 in *. lia. }
  split.
  - intro Em. apply Hp. apply meta_str_injective; assumption.
  - assert (Hhex : hex (sha256 (meta_str s2)) = hex (sha256 (meta_str s))).
    { unfold compute_checksum in *. congruence. }
    rewrite !sha_stream_spec in Hhex.
    apply hex_inj in Hhex; [exact Hhex | apply Hdig | apply Hdig].
Qed.
End Integrity256.
