(* Proofs about the source model Pipeline/Source.v (C08): a lawful source is read as ONE list of
   rows by both engines, for every partition count; the adapters of the public API are lawful;
   reads through a shared adapter object; the memoising adapter of C08-r4m1 is not. *)
From Coq Require Import List Arith NArith Bool Lia.
From IB Require Import IO.Shards IO.Jsonl Proofs.ShardsProofs Proofs.JsonlProofs.
From IB Require Import Pipeline.Graph Pipeline.History Pipeline.Source Proofs.PipelineMain.
Import ListNotations.
Close Scope N_scope.
Open Scope nat_scope.

Section SourceProofs.
  Variable V : Type.

  (* ---------- both engines read a lawful source as its rows ---------- *)
  Lemma par_parts_bounds : forall (s : source V) partitions,
    1 <= par_parts s partitions <= Nat.max partitions 1.
  Proof.
    intros s partitions. unfold par_parts.
    destruct (vo_len (s_ops s) (s_payload s)) as [n|]; lia.
  Qed.

  Lemma par_parts_nolen : forall (s : source V) partitions,
    vo_len (s_ops s) (s_payload s) = None -> par_parts s partitions = 1.
  Proof. intros s partitions H. unfold par_parts. rewrite H. lia. Qed.

  Lemma source_modes : forall (s : source V) (rows : list V),
    lawful (s_ops s) (s_payload s) rows ->
    seq_read s = ROk rows /\
    forall partitions,
      par_read s partitions = ROk rows /\
      (exists ps, par_head s partitions = ROk ps /\ concat ps = rows) /\
      1 <= par_parts s partitions <= Nat.max partitions 1.
  Proof.
    intros s rows [Hc Hs]. split.
    - unfold seq_read. now rewrite Hc.
    - intros partitions. unfold par_read, par_head.
      destruct (vo_split (s_ops s) (s_payload s) (par_parts s partitions)) as [ps|] eqn:E.
      + pose proof (Hs _ _ E) as Hps. split; [now rewrite Hps|].
        split; [exists ps; split; [reflexivity|exact Hps]|apply par_parts_bounds].
      + rewrite Hc. cbn [concat]. rewrite app_nil_r. split; [reflexivity|].
        split; [exists [rows]; split; [reflexivity|cbn [concat]; apply app_nil_r]
               |apply par_parts_bounds].
  Qed.

  (* ---------- VecOpsImpl ---------- *)
  Lemma chunks_fuel_concat : forall fuel k (l : list V),
    1 <= k -> length l <= fuel -> concat (chunks_fuel fuel k l) = l.
  Proof.
    induction fuel as [|f IH]; intros k l Hk Hl.
    - destruct l as [|x l']; [reflexivity|cbn [length] in Hl; lia].
    - destruct l as [|x l']; [reflexivity|].
      cbn [chunks_fuel concat]. rewrite IH.
      + apply firstn_skipn.
      + exact Hk.
      + rewrite skipn_length. cbn [length] in *. lia.
  Qed.

  Lemma chunks_concat : forall k (l : list V), 1 <= k -> concat (chunks k l) = l.
  Proof. intros k l Hk. unfold chunks. apply chunks_fuel_concat; [exact Hk|lia]. Qed.

  Lemma impl_split_concat : forall (v : list V) n, concat (impl_split v n) = v.
  Proof.
    intros v n. unfold impl_split.
    destruct ((n <=? 1) || (length v <=? 1)) eqn:E.
    - cbn [concat]. apply app_nil_r.
    - apply orb_false_iff in E. destruct E as [E1 E2].
      apply Nat.leb_gt in E1. apply Nat.leb_gt in E2.
      apply chunks_concat. unfold div_ceil_nat.
      apply Nat.div_le_lower_bound; lia.
  Qed.

  Lemma impl_lawful : forall v : list V, lawful impl_ops v v.
  Proof.
    intros v. split; [reflexivity|].
    intros n ps H. cbn in H. inversion H. apply impl_split_concat.
  Qed.

  (* ---------- user-written adapters ---------- *)
  Lemma nolen_lawful : forall P (o : vec_ops V P) p rows,
    lawful o p rows -> lawful (nolen_ops o) p rows.
  Proof. intros P o p rows [Hc Hs]. split; [exact Hc|exact Hs]. Qed.

  Lemma pages_lawful : forall len_known sm (pg : list (list V)),
    lawful (pages_ops len_known sm) pg (concat pg).
  Proof.
    intros len_known sm pg. split; [reflexivity|].
    intros n ps H. cbn in H. destruct sm; inversion H; subst.
    - reflexivity.
    - apply impl_split_concat.
  Qed.

  (* ---------- streamed files ---------- *)
  Lemma rows_of_lines_app : forall a b : list (option V),
    rows_of_lines (a ++ b) = rows_of_lines a ++ rows_of_lines b.
  Proof. intros a b. unfold rows_of_lines. apply flat_map_app. Qed.

  Lemma rows_of_lines_concat : forall xs : list (list (option V)),
    rows_of_lines (concat xs) = concat (map rows_of_lines xs).
  Proof.
    induction xs as [|x xs IH]; [reflexivity|].
    cbn [concat map]. rewrite rows_of_lines_app, IH. reflexivity.
  Qed.

  Lemma jsonl_lawful : forall (ls : list (option V)) (per : N),
    lawful jsonl_ops (build_jsonl_shards ls per) (rows_of_lines ls).
  Proof.
    intros ls per. split.
    - cbn. unfold read_jsonl_range. now rewrite slice_all.
    - intros n ps H. cbn in H. inversion H; subst. unfold read_jsonl_range.
      rewrite <- (map_map (slice ls) rows_of_lines), <- rows_of_lines_concat.
      rewrite chain_concat_all; [reflexivity|apply ranges_chain].
  Qed.

  Lemma csv_lawful : forall (rows : list V) (per : N),
    lawful csv_ops (build_csv_shards rows per) rows.
  Proof.
    intros rows per. split.
    - cbn. now rewrite slice_all.
    - intros n ps H. cbn in H. inversion H; subst.
      apply chain_concat_all. apply ranges_chain.
  Qed.

  Lemma parquet_lawful : forall (groups : list (list V)) (per : N),
    lawful parquet_ops (build_parquet_shards groups per) (concat groups).
  Proof.
    intros groups per. destruct (pq_streamed_eq_whole groups per) as [Hp Hs]. split.
    - cbn. exact (f_equal Some Hs).
    - intros n ps H. cbn in H. inversion H; subst. exact Hp.
  Qed.

  Lemma builtin_sources_lawful :
    (forall v : list V, lawful impl_ops v v) /\
    (forall P (o : vec_ops V P) p rows, lawful o p rows -> lawful (nolen_ops o) p rows) /\
    (forall len_known sm (pg : list (list V)), lawful (pages_ops len_known sm) pg (concat pg)).
  Proof. split; [exact impl_lawful|]. split; [exact nolen_lawful|exact pages_lawful]. Qed.

  Lemma streamed_sources_lawful :
    (forall (ls : list (option V)) (per : N),
        lawful jsonl_ops (build_jsonl_shards ls per) (rows_of_lines ls)) /\
    (forall (rows : list V) (per : N), lawful csv_ops (build_csv_shards rows per) rows) /\
    (forall (groups : list (list V)) (per : N),
        lawful parquet_ops (build_parquet_shards groups per) (concat groups)).
  Proof. split; [exact jsonl_lawful|]. split; [exact csv_lawful|exact parquet_lawful]. Qed.

  (* a source whose adapter cannot tell its length (len() = None) is read through ONE partition
     request by the parallel engine and returns its rows in both modes *)
  Lemma nolen_source_reads : forall P (o : vec_ops V P) (p : P) (rows : list V) partitions,
    lawful o p rows ->
    let s := mk_source P (nolen_ops o) p in
    par_parts s partitions = 1 /\ par_read s partitions = ROk rows /\ seq_read s = ROk rows.
  Proof.
    intros P o p rows partitions HL s.
    assert (HL' : lawful (s_ops s) (s_payload s) rows) by (apply nolen_lawful; exact HL).
    destruct (source_modes s rows HL') as [Hs Hp].
    split; [apply par_parts_nolen; reflexivity|].
    split; [exact (proj1 (Hp partitions))|exact Hs].
  Qed.

  (* ---------- reads through one shared adapter object ---------- *)
  Lemma shared_adapter_reads :
    forall St P (o : st_ops V St P) (ok : P -> Prop) (rows : P -> list V),
    st_lawful o ok rows ->
    forall (l : list (P * read_mode)) (st : St),
      Forall (fun pm => ok (fst pm)) l ->
      st_reads o st l = map (fun pm => ROk (rows (fst pm))) l.
  Proof.
    intros St P o ok rows HL. induction l as [|[p m] rest IH]; intros st Hok; [reflexivity|].
    inversion Hok as [|x y Hp Hrest]; subst. cbn [fst] in Hp.
    cbn [st_reads map fst].
    assert (Hr : exists st', st_read o st p m = (st', ROk (rows p))).
    { destruct m as [|partitions]; cbn [st_read].
      - destruct (HL st p Hp) as [Hc _]. destruct (so_clone o st p) as [st' [v|]] eqn:E;
          cbn [snd] in Hc; inversion Hc; subst. now exists st'.
      - match goal with |- context [so_split o st p ?n] => set (parts := n) end.
        destruct (HL st p Hp) as [_ Hs]. specialize (Hs parts).
        destruct (so_split o st p parts) as [st' [ps|]] eqn:E; cbn [snd] in Hs.
        + exists st'. now rewrite (Hs ps eq_refl).
        + destruct (HL st' p Hp) as [Hc _].
          destruct (so_clone o st' p) as [st'' [v|]] eqn:E2; cbn [snd] in Hc;
            inversion Hc; subst. now exists st''. }
    destruct Hr as [st' Hr]. rewrite Hr. now rewrite (IH st' Hrest).
  Qed.

  Lemma pure_st_lawful : forall P (o : vec_ops V P) (ok : P -> Prop) (rows : P -> list V),
    (forall p, ok p -> lawful o p (rows p)) -> st_lawful (pure_st o) ok rows.
  Proof.
    intros P o ok rows H st p Hp. destruct (H p Hp) as [Hc Hs]. cbn. split; [exact Hc|exact Hs].
  Qed.

  (* any program of reads - any order, any modes, any partition counts - over sources that share
     ONE (stateless) JSONL adapter object: every read returns the rows of its own file *)
  Lemma jsonl_shared_reads : forall (l : list (list (option V) * N * read_mode)),
    st_reads (pure_st jsonl_ops) tt
             (map (fun x => (build_jsonl_shards (fst (fst x)) (snd (fst x)), snd x)) l)
    = map (fun x => ROk (rows_of_lines (fst (fst x)))) l.
  Proof.
    intros l.
    pose (ok := fun s : line_shards V => exists ls per, s = build_jsonl_shards ls per).
    assert (HL : st_lawful (pure_st (@jsonl_ops V)) ok (fun s => rows_of_lines (ls_lines s))).
    { apply pure_st_lawful. intros s [ls [per Hs]]. subst s. apply jsonl_lawful. }
    rewrite (shared_adapter_reads _ _ _ ok _ HL).
    - rewrite map_map. reflexivity.
    - apply Forall_forall. intros pm Hin. apply in_map_iff in Hin.
      destruct Hin as [x [Hx _]]. subst pm. cbn [fst]. now exists (fst (fst x)), (snd (fst x)).
  Qed.

  (* ---------- a source handle of a history ---------- *)
  (* whatever the history and its continuation, collecting the handle of a lawful custom source
     returns the rows that both engines read from the source *)
  Lemma custom_source_rerunnable :
    forall (F G : Type) (interp_f : F -> list V -> list V)
           (interp_g : G -> list V -> list V -> list V)
           (s : source V) (rows : list V)
           (h1 h2 : list (label V F G)) (c1 c2 : config V F G) (e1 e2 : list (event V F G))
           (x : handle V F G),
      lawful (s_ops s) (s_payload s) rows ->
      run init_config h1 = Some (c1, e1) ->
      In x (c_pool c1) -> h_lin x = LSrc rows ->
      run c1 h2 = Some (c2, e2) ->
      collect interp_f interp_g (c_state c2) x = Ok rows /\
      seq_read s = ROk rows /\
      forall partitions, par_read s partitions = ROk rows.
  Proof.
    intros F G interp_f interp_g s rows h1 h2 c1 c2 e1 e2 x HL H1 Hin Hlin H2.
    destruct (lineage_only V F G interp_f interp_g h1 h2 c1 c2 e1 e2 x H1 Hin H2) as [Hc _].
    destruct (source_modes s rows HL) as [Hs Hp].
    split; [rewrite Hc, Hlin; reflexivity|]. split; [exact Hs|].
    intros partitions. exact (proj1 (Hp partitions)).
  Qed.
End SourceProofs.

(* ---------- the memoising adapter of C08-r4m1 is not lawful ---------- *)
(* two files with equal line ranges: whichever is read first defines what the other returns *)
Lemma memo_adapter_refuted :
  let a := build_jsonl_shards [Some 1; Some 2; Some 3; Some 4] 2%N in
  let b := build_jsonl_shards [Some 10; Some 20; Some 30; Some 40] 2%N in
  st_reads memo_jsonl_ops [] [(a, RdSeq); (b, RdSeq); (b, RdPar 2); (a, RdPar 2)]
    = [ROk [1; 2; 3; 4]; ROk [1; 2; 3; 4]; ROk [10; 20; 30; 40]; ROk [10; 20; 30; 40]]
  /\ st_reads (pure_st jsonl_ops) tt [(a, RdSeq); (b, RdSeq); (b, RdPar 2); (a, RdPar 2)]
    = [ROk [1; 2; 3; 4]; ROk [10; 20; 30; 40]; ROk [10; 20; 30; 40]; ROk [1; 2; 3; 4]].
Proof. vm_compute. split; reflexivity. Qed.
