(* The per-key sample as a closed form:
   - collected directly (planner-lifted GroupByKey + CombineValues, `local_pairs`): for every key the
     sample is [topk_spec] of the key's values cut by the partitioning (keyed_parts_topk);
   - feeding a join (un-lifted: GroupByKey, then the group-wise `local_groups`): for every key the
     sample is [topk_spec] of ALL the key's values as ONE partition, whatever the partitioning
     (keyed_unfused_topk) - i.e. what the sequential direct collection gives;
   - both agree at every key with the evaluators [keyed_topk] / [keyed_topk_unfused] of
     Combiners/ReservoirTopK.v that the correspondence check runs. *)
From Coq Require Import List NArith Arith Bool Lia Permutation.
From IB Require Import Combiners.Reservoir Combiners.ReservoirTopK
  Proofs.Reservoir Proofs.ReservoirKeyed Proofs.ReservoirTopK.
Import ListNotations.

(* ---------------------------------------------------------------- empty partitions are invisible *)
Section EmptyParts.
  Context {T : Type}.
  Definition nonempty (l : list T) : bool := match l with [] => false | _ :: _ => true end.

  Lemma max_len_filter : forall ps : list (list T), max_len (filter nonempty ps) = max_len ps.
  Proof.
    intros ps. unfold max_len. generalize 0 as m.
    induction ps as [|p r IH]; intros m; [reflexivity|].
    destruct p as [|v p]; cbn [filter nonempty fold_left length].
    - rewrite Nat.max_0_r. apply IH.
    - apply IH.
  Qed.
  Lemma items_parts_filter : forall (P : Type) (prios : list P) (ps : list (list T)) g,
    items_parts prios g (filter nonempty ps) = items_parts prios g ps.
  Proof.
    intros P prios ps. induction ps as [|p r IH]; intros g; [reflexivity|].
    destruct p as [|v p]; cbn [filter nonempty items_parts].
    - cbn [items_part length N.of_nat app]. rewrite N.add_0_r. apply IH.
    - rewrite IH. reflexivity.
  Qed.
  Lemma topk_spec_filter : forall k seed (ps : list (list T)),
    topk_spec k seed (filter nonempty ps) = topk_spec k seed ps.
  Proof.
    intros k seed ps. unfold topk_spec, topk_sample.
    rewrite max_len_filter, items_parts_filter. reflexivity.
  Qed.
End EmptyParts.

(* merging into a fresh `create` does not change what finish returns *)
Lemma finish_merge_create : forall (T : Type) k seed (b : pracc T),
  InvK k b -> finish (merge (create k seed) b) = finish b.
Proof.
  intros T k seed b [[Hperm Hcn] [Hk Hle]]. unfold merge. cbn [create pk].
  destruct (Nat.eqb k 0) eqn:E.
  - apply Nat.eqb_eq in E. rewrite E in Hk. unfold finish. cbn [create pk]. rewrite Hk, E. reflexivity.
  - cbn [create prng pseq pheap pstore palive app Nat.add].
    rewrite Hk, Nat.max_id, app_nil_r.
    unfold trim_loop. cbn [pheap]. cbn [trim pk palive].
    rewrite live_slots_length, <- Hcn.
    destruct (Nat.ltb k (palive b)) eqn:L; [apply Nat.ltb_lt in L; lia|].
    unfold finish. cbn [pk palive pstore]. rewrite Hk, live_items_live_slots. reflexivity.
Qed.

Section KeyedTopK.
  Context {K T : Type}.
  Variable keqb : K -> K -> bool.
  Hypothesis keqb_spec : forall x y, reflect (x = y) (keqb x y).
  Notation vals := (@ReservoirKeyed.vals K T keqb).
  Notation lookup := (Reservoir.lookup keqb).

  Definition kparts (key : K) (parts : list (list (K * T))) : list (list T) :=
    filter nonempty (map (vals key) parts).

  Lemma vals_cons : forall key k0 (v0 : T) r,
    vals key ((k0, v0) :: r) = if keqb key k0 then v0 :: vals key r else vals key r.
  Proof. intros. unfold ReservoirKeyed.vals. cbn [filter fst]. destruct (keqb key k0); reflexivity. Qed.
  Lemma vals_in : forall key rows, In key (map fst rows) -> vals key rows <> [].
  Proof.
    intros key rows. induction rows as [|[k0 v0] r IH]; intros Hin; [destruct Hin|].
    rewrite vals_cons. destruct (keqb_spec key k0) as [E|NE]; [discriminate|].
    apply IH. destruct Hin as [E|Hin]; [cbn [fst] in E; congruence|exact Hin].
  Qed.
  Lemma kparts_nil : forall key parts,
    kparts key parts = [] <-> ~ In key (map fst (concat parts)).
  Proof.
    intros key parts. unfold kparts. induction parts as [|p r IH]; cbn [map filter concat].
    - split; [intros _ []|reflexivity].
    - rewrite map_app. destruct (vals key p) as [|v vs] eqn:E; cbn [nonempty].
      + rewrite IH. split.
        * intros H Hin. apply in_app_or in Hin. destruct Hin as [Hin|Hin]; [|exact (H Hin)].
          exact (vals_in _ _ Hin E).
        * intros H Hin. apply H. apply in_or_app. right. exact Hin.
      + split; [discriminate|]. intros H. exfalso. apply H. apply in_or_app. left.
        destruct (in_dec (fun x y => match keqb_spec x y with
                                     | ReflectT _ e => left e | ReflectF _ n => right n end)
                         key (map fst p)) as [Hin|Hnin]; [exact Hin|].
        rewrite (vals_notin keqb keqb_spec _ _ Hnin) in E. discriminate.
  Qed.

  (* ---------- local_pairs: the accumulator of a key after one partition ---------- *)
  Lemma local_fold_lookup : forall k seed rows (m : list (K * pracc T)) key,
    lookup key (fold_left (fun m kv => upsert keqb (fst kv) (create k seed)
                                              (fun a => add a (snd kv)) m) rows m)
    = match lookup key m with
      | Some a => Some (fold_left add (vals key rows) a)
      | None => match vals key rows with
                | [] => None
                | _ :: _ => Some (fold_left add (vals key rows) (create k seed))
                end
      end.
  Proof.
    intros k seed rows. induction rows as [|[k0 v0] r IH]; intros m key.
    - cbn [fold_left]. unfold ReservoirKeyed.vals. cbn [filter map fold_left].
      destruct (lookup key m); reflexivity.
    - cbn [fold_left fst snd]. rewrite IH, (lookup_upsert keqb keqb_spec), vals_cons.
      destruct (keqb_spec key k0) as [E|NE].
      + subst k0. destruct (lookup key m) as [a|]; reflexivity.
      + destruct (lookup key m) as [a|]; reflexivity.
  Qed.
  Lemma cv_local_lookup : forall k seed rows key,
    lookup key (cv_local keqb k seed rows)
    = match vals key rows with [] => None | _ :: _ => Some (local k seed (vals key rows)) end.
  Proof. intros. unfold cv_local. rewrite local_fold_lookup. reflexivity. Qed.

  Lemma merge_fold_lookup : forall k seed parts (accs : list (K * pracc T)) key,
    lookup key (fold_left (cv_merge_one keqb k seed) (map (cv_local keqb k seed) parts) accs)
    = match lookup key accs with
      | Some a => Some (fold_left merge (map (local k seed) (kparts key parts)) a)
      | None => match kparts key parts with
                | [] => None
                | _ :: _ => Some (fold_left merge (map (local k seed) (kparts key parts))
                                            (create k seed))
                end
      end.
  Proof.
    intros k seed parts. induction parts as [|p r IH]; intros accs key.
    - cbn [map fold_left kparts filter]. destruct (lookup key accs); reflexivity.
    - cbn [map fold_left]. rewrite IH.
      rewrite (merge_one_lookup keqb keqb_spec _ _ _ _ _ (nodup_local keqb keqb_spec k seed p)).
      rewrite cv_local_lookup. unfold kparts. cbn [map filter]. fold (kparts key r).
      destruct (vals key p) as [|v vs] eqn:E; cbn [nonempty].
      + destruct (lookup key accs); reflexivity.
      + cbn [map fold_left]. destruct (lookup key accs); reflexivity.
  Qed.

  Lemma lookup_map_snd : forall A B (f : A -> B) (m : list (K * A)) key,
    lookup key (map (fun ka => (fst ka, f (snd ka))) m) = option_map f (lookup key m).
  Proof.
    intros A B f m key. induction m as [|[k0 a] r IH]; [reflexivity|].
    cbn [map Reservoir.lookup fst snd]. destruct (keqb key k0); [reflexivity|exact IH].
  Qed.

  Theorem keyed_parts_topk : forall k seed (parts : list (list (K * T))) key,
    (In key (map fst (concat parts)) ->
     lookup key (keyed_parts keqb k seed parts)
     = Some (topk_spec k seed (map (key_vals keqb key) parts))) /\
    (~ In key (map fst (concat parts)) -> lookup key (keyed_parts keqb k seed parts) = None).
  Proof.
    intros k seed parts key. unfold keyed_parts, cv_merge.
    rewrite lookup_map_snd, merge_fold_lookup. cbn [Reservoir.lookup].
    destruct (kparts key parts) as [|l ls] eqn:E.
    - apply kparts_nil in E. split; [intros H; exfalso; exact (E H)|reflexivity].
    - split.
      + intros _. cbn [option_map]. f_equal. rewrite <- E.
        rewrite fold_merge_create_topk. unfold kparts. rewrite topk_spec_filter. reflexivity.
      + intros H. apply kparts_nil in H. rewrite H in E. discriminate.
  Qed.

  (* ---------- the un-lifted route ---------- *)
  Lemma fold_upsert_lookup : forall A B (dflt : A) (g : A -> B -> A)
                                    (m : list (K * B)) (accs : list (K * A)) key,
    NoDup (map fst m) ->
    lookup key (fold_left (fun acc kb => upsert keqb (fst kb) dflt (fun a => g a (snd kb)) acc) m accs)
    = match lookup key m with
      | Some b => Some (g (match lookup key accs with Some a => a | None => dflt end) b)
      | None => lookup key accs
      end.
  Proof.
    intros A B dflt g m. induction m as [|[k0 b] r IH]; intros accs key Hnd; [reflexivity|].
    cbn [map fst] in Hnd. inversion Hnd as [|x l Hnot Hnd']; subst.
    cbn [fold_left fst snd Reservoir.lookup]. rewrite (IH _ key Hnd'), (lookup_upsert keqb keqb_spec).
    destruct (keqb_spec key k0) as [E|NE].
    - subst k0. apply (lookup_none keqb keqb_spec) in Hnot. rewrite Hnot. reflexivity.
    - reflexivity.
  Qed.
  Lemma fold_upsert_nodup : forall A B (dflt : A) (g : A -> B -> A)
                                   (m : list (K * B)) (accs : list (K * A)),
    NoDup (map fst accs) ->
    NoDup (map fst (fold_left (fun acc kb => upsert keqb (fst kb) dflt (fun a => g a (snd kb)) acc)
                              m accs)).
  Proof.
    intros A B dflt g m. induction m as [|kb r IH]; intros accs H; cbn [fold_left]; [exact H|].
    apply IH. apply (upsert_nodup keqb keqb_spec). exact H.
  Qed.

  Lemma gbk_local_fold : forall rows (m : list (K * list T)) key,
    lookup key (fold_left (fun m kv => upsert keqb (fst kv) [] (fun vs => vs ++ [snd kv]) m) rows m)
    = match lookup key m with
      | Some a => Some (a ++ vals key rows)
      | None => match vals key rows with [] => None | _ :: _ => Some (vals key rows) end
      end.
  Proof.
    intros rows. induction rows as [|[k0 v0] r IH]; intros m key.
    - cbn [fold_left]. unfold ReservoirKeyed.vals. cbn [filter map].
      destruct (lookup key m); [rewrite app_nil_r|]; reflexivity.
    - cbn [fold_left fst snd]. rewrite IH, (lookup_upsert keqb keqb_spec), vals_cons.
      destruct (keqb_spec key k0) as [E|NE].
      + subst k0. destruct (lookup key m) as [a|].
        * rewrite <- app_assoc. reflexivity.
        * reflexivity.
      + destruct (lookup key m) as [a|]; reflexivity.
  Qed.
  Lemma gbk_local_lookup : forall rows key,
    lookup key (gbk_local keqb rows)
    = match vals key rows with [] => None | _ :: _ => Some (vals key rows) end.
  Proof. intros. unfold gbk_local. rewrite gbk_local_fold. reflexivity. Qed.
  Lemma gbk_local_nodup : forall rows : list (K * T), NoDup (map fst (gbk_local keqb rows)).
  Proof.
    intros rows. unfold gbk_local.
    apply (fold_upsert_nodup (list T) T [] (fun vs v => vs ++ [v]) rows []). constructor.
  Qed.

  Lemma gbk_merge_fold : forall parts (acc : list (K * list T)) key,
    NoDup (map fst acc) ->
    let r := fold_left (fun acc m => fold_left (fun acc kvs => upsert keqb (fst kvs) []
                                                  (fun vs => vs ++ snd kvs) acc) m acc)
                       (map (gbk_local keqb) parts) acc in
    NoDup (map fst r) /\
    lookup key r = match lookup key acc with
                   | Some a => Some (a ++ vals key (concat parts))
                   | None => match vals key (concat parts) with
                             | [] => None
                             | _ :: _ => Some (vals key (concat parts))
                             end
                   end.
  Proof.
    intros parts. induction parts as [|p r IH]; intros acc key Hnd; cbn [map fold_left concat].
    - split; [exact Hnd|]. unfold ReservoirKeyed.vals. cbn [filter map].
      destruct (lookup key acc); [rewrite app_nil_r|]; reflexivity.
    - set (acc' := fold_left (fun acc kvs => upsert keqb (fst kvs) [] (fun vs => vs ++ snd kvs) acc)
                             (gbk_local keqb p) acc).
      assert (Hnd' : NoDup (map fst acc')).
      { unfold acc'. apply (fold_upsert_nodup (list T) (list T) [] (fun vs ws => vs ++ ws)). exact Hnd. }
      destruct (IH acc' key Hnd') as [H1 H2]. split; [exact H1|]. rewrite H2.
      unfold acc'.
      rewrite (fold_upsert_lookup (list T) (list T) [] (fun vs ws => vs ++ ws)
                 (gbk_local keqb p) acc key (gbk_local_nodup p)).
      rewrite gbk_local_lookup, (vals_app keqb).
      destruct (vals key p) as [|v vs] eqn:E.
      + cbn [app]. reflexivity.
      + destruct (lookup key acc) as [a|].
        * rewrite <- app_assoc. reflexivity.
        * cbn [app]. reflexivity.
  Qed.
  Lemma gbk_merge_lookup : forall (parts : list (list (K * T))) key,
    NoDup (map fst (gbk_merge keqb (map (gbk_local keqb) parts))) /\
    lookup key (gbk_merge keqb (map (gbk_local keqb) parts))
    = match vals key (concat parts) with [] => None | _ :: _ => Some (vals key (concat parts)) end.
  Proof.
    intros parts key. unfold gbk_merge.
    destruct (gbk_merge_fold parts [] key (NoDup_nil _)) as [H1 H2]. split; [exact H1|exact H2].
  Qed.

  Theorem keyed_unfused_topk : forall k seed (parts : list (list (K * T))) key,
    (In key (map fst (concat parts)) ->
     lookup key (keyed_unfused_parts keqb k seed parts)
     = Some (topk_spec k seed [key_vals keqb key (concat parts)])) /\
    (~ In key (map fst (concat parts)) ->
     lookup key (keyed_unfused_parts keqb k seed parts) = None).
  Proof.
    intros k seed parts key. unfold keyed_unfused_parts, cv_merge. cbn [fold_left].
    destruct (gbk_merge_lookup parts key) as [Hnd Hl].
    set (groups := gbk_merge keqb (map (gbk_local keqb) parts)) in *.
    assert (Hnd2 : NoDup (map fst (cv_local_groups keqb k seed groups))).
    { unfold cv_local_groups.
      apply (fold_upsert_nodup (pracc T) (list T) (create k seed)
               (fun a vs => merge a (local k seed vs))). constructor. }
    rewrite lookup_map_snd.
    rewrite (merge_one_lookup keqb keqb_spec _ _ _ _ _ Hnd2). cbn [Reservoir.lookup].
    unfold cv_local_groups.
    rewrite (fold_upsert_lookup (pracc T) (list T) (create k seed)
               (fun a vs => merge a (local k seed vs)) groups [] key Hnd).
    rewrite Hl. cbn [Reservoir.lookup].
    destruct (vals key (concat parts)) as [|v vs] eqn:E.
    - split; [|reflexivity]. intros Hin. exfalso. exact (vals_in _ _ Hin E).
    - split.
      + intros _. cbn [option_map]. f_equal.
        assert (I1 : InvK k (local k seed (v :: vs))) by exact (R_InvK _ _ _ (R_local k seed (v :: vs))).
        assert (I2 : InvK k (merge (create k seed) (local k seed (v :: vs)))).
        { destruct (invariant_preserved (T := T) k seed) as [Hc [_ Hm]]. apply Hm; [exact Hc|exact I1]. }
        rewrite (finish_merge_create T k seed _ I2), (finish_merge_create T k seed _ I1).
        rewrite <- sample_parts_topk. unfold key_vals. fold (vals key (concat parts)). rewrite E.
        reflexivity.
      + intros H. exfalso. rewrite (vals_notin keqb keqb_spec _ _ H) in E. discriminate.
  Qed.

  (* ---------- the evaluators of Combiners/ReservoirTopK.v ---------- *)
  Lemma key_list_fold : forall (rows : list (K * T)) acc,
    NoDup acc ->
    let r := fold_left (fun acc kv => if existsb (keqb (fst kv)) acc then acc else fst kv :: acc)
                       rows acc in
    NoDup r /\ forall key, In key r <-> In key acc \/ In key (map fst rows).
  Proof.
    intros rows. induction rows as [|[k0 v0] r IH]; intros acc Hnd; cbn [fold_left map fst].
    - split; [exact Hnd|]. intros key. split; [intros H; left; exact H|intros [H|[]]; exact H].
    - destruct (existsb (keqb k0) acc) eqn:E.
      + destruct (IH acc Hnd) as [H1 H2]. split; [exact H1|]. intros key. rewrite H2.
        apply existsb_exists in E. destruct E as [x [Hx Ex]].
        destruct (keqb_spec k0 x) as [<-|]; [|discriminate].
        split; [intros [H|H]; [left; exact H|right; right; exact H]|].
        intros [H|[H|H]]; [left; exact H|subst; left; exact Hx|right; exact H].
      + assert (Hn : ~ In k0 acc).
        { intros Hin. assert (X : existsb (keqb k0) acc = true).
          { apply existsb_exists. exists k0. split; [exact Hin|].
            destruct (keqb_spec k0 k0); [reflexivity|congruence]. }
          rewrite X in E. discriminate. }
        destruct (IH (k0 :: acc) (NoDup_cons _ Hn Hnd)) as [H1 H2]. split; [exact H1|].
        intros key. rewrite H2. cbn [In]. tauto.
  Qed.
  Lemma key_list_spec : forall rows : list (K * T),
    NoDup (key_list keqb rows) /\ forall key, In key (key_list keqb rows) <-> In key (map fst rows).
  Proof.
    intros rows. unfold key_list. destruct (key_list_fold rows [] (NoDup_nil _)) as [H1 H2]. split.
    - apply NoDup_rev. exact H1.
    - intros key. rewrite <- in_rev, H2. cbn [In]. tauto.
  Qed.
  Lemma lookup_tabulate : forall A (F : K -> A) (keys : list K) key,
    lookup key (map (fun key => (key, F key)) keys) = if existsb (keqb key) keys then Some (F key) else None.
  Proof.
    intros A F keys key. induction keys as [|k0 r IH]; [reflexivity|].
    cbn [map Reservoir.lookup existsb]. destruct (keqb_spec key k0) as [E|NE].
    - subst. reflexivity.
    - cbn [orb]. exact IH.
  Qed.
  Lemma existsb_in : forall (keys : list K) key, existsb (keqb key) keys = true <-> In key keys.
  Proof.
    intros keys key. rewrite existsb_exists. split.
    - intros [x [Hx E]]. destruct (keqb_spec key x) as [->|]; [exact Hx|discriminate].
    - intros H. exists key. split; [exact H|]. destruct (keqb_spec key key); [reflexivity|congruence].
  Qed.

  Theorem keyed_evaluators_agree : forall k seed (parts : list (list (K * T))) key,
    lookup key (keyed_parts keqb k seed parts)
    = lookup key (keyed_topk keqb (@topk_spec T) k seed parts) /\
    lookup key (keyed_unfused_parts keqb k seed parts)
    = lookup key (keyed_topk_unfused keqb (@topk_spec T) k seed parts).
  Proof.
    intros k seed parts key. unfold keyed_topk, keyed_topk_unfused.
    rewrite !lookup_tabulate.
    destruct (key_list_spec (concat parts)) as [_ Hk].
    destruct (keyed_parts_topk k seed parts key) as [A1 A2].
    destruct (keyed_unfused_topk k seed parts key) as [B1 B2].
    destruct (existsb (keqb key) (key_list keqb (concat parts))) eqn:E.
    - apply existsb_in, Hk in E. split; [exact (A1 E)|exact (B1 E)].
    - assert (N : ~ In key (map fst (concat parts))).
      { intros H. apply Hk, existsb_in in H. rewrite H in E. discriminate. }
      split; [exact (A2 N)|exact (B2 N)].
  Qed.
End KeyedTopK.
