(* Proofs about IO/Exec.v (C09): every execution configuration of src/runner.rs returns the
   whole-file read of a streamed source, for any shard description that tiles; stale handles;
   join sides; composition of range reads. *)
From Coq Require Import List Arith ZArith NArith Bool Lia.
From IB Require Import IO.Shards IO.Jsonl IO.Exec Proofs.ShardsProofs Proofs.JsonlProofs.
Import ListNotations.
Open Scope N_scope.

Lemma slice_prefix : forall {A} (l : list A) t, slice l (0, t) = firstn (N.to_nat t) l.
Proof. intros A l t. unfold slice. cbn [fst snd skipn N.to_nat]. now rewrite N.sub_0_r. Qed.

(* a range that reaches beyond the end of the list reads what is there: clamping both ends to the
   length changes nothing (used by Corr/C09.v to evaluate huge hand-built ranges cheaply) *)
Lemma slice_clamp : forall {A} (l : list A) s e,
  slice l (N.min s (nlen l), N.min e (nlen l)) = slice l (s, e).
Proof.
  intros A l s e. unfold slice, nlen. cbn [fst snd].
  destruct (N.le_gt_cases (N.of_nat (length l)) s) as [Hs|Hs].
  - rewrite (skipn_all2 l) by lia. rewrite (skipn_all2 l) by lia. now rewrite !firstn_nil.
  - replace (N.min s (N.of_nat (length l))) with s by lia.
    destruct (N.le_gt_cases e (N.of_nat (length l))) as [He|He].
    + now replace (N.min e (N.of_nat (length l))) with e by lia.
    + replace (N.min e (N.of_nat (length l))) with (N.of_nat (length l)) by lia.
      rewrite !firstn_all2; [reflexivity| |]; rewrite skipn_length; lia.
Qed.

Lemma last_end_chain : forall rs b, chain 0 rs b -> last_end rs = b.
Proof. intros rs b H. unfold last_end. exact (chain_last_end rs 0 b H). Qed.

(* ---------- JSONL ---------- *)
Section JsonlExec.
  Context {R : Type}.
  Variable de : list Z -> option R.

  Lemma read_range_not_panic : forall ls r, read_range de ls r <> Panic.
  Proof. intros ls r. rewrite read_range_spec. apply read_vec_not_panic. Qed.

  (* one partition per range of a chain, against the plain read of the spanned lines *)
  Lemma split_o_chain : forall ls rs a b,
    chain a rs b ->
    match read_vec de (slice ls (a, b)) with
    | Ok v => exists parts, otraverse_o (read_range de ls) rs = Ok parts /\ concat parts = v
    | _ => otraverse_o (read_range de ls) rs = Err
    end.
  Proof.
    intros ls. induction rs as [|r rs IH]; intros a b H; cbn [chain] in H.
    - subst. rewrite slice_empty. cbn [read_vec otraverse_o]. exists []. split; reflexivity.
    - destruct H as [H1 [H2 H3]]. destruct r as [s e]. cbn [fst snd] in *. subst s.
      pose proof (chain_le _ _ _ H3) as Hle.
      rewrite <- (slice_app ls a e b H2 Hle), read_vec_app.
      specialize (IH _ _ H3). cbn [otraverse_o]. rewrite read_range_spec.
      destruct (read_vec de (slice ls (a, e))) as [u| |] eqn:Hu; cbn [oapp].
      + destruct (read_vec de (slice ls (e, b))) as [v| |] eqn:Hv.
        * destruct IH as [parts [Hp Hc]]. rewrite Hp. exists (u :: parts).
          split; [reflexivity|]. cbn [concat]. now rewrite Hc.
        * now rewrite IH.
        * now rewrite IH.
      + reflexivity.
      + exfalso. eapply read_vec_not_panic. eassumption.
  Qed.

  (* ANY shard description whose ranges tile [0, total): every engine returns the plain read of
     the first `total` lines of the CURRENT content, or fails in its own way *)
  Theorem exec_jsonl_any_tiling : forall e ls rs total,
    chain 0 rs total ->
    exec_source e (jsonl_adapter de ls rs total) = lift_whole e (read_vec de (firstn (N.to_nat total) ls)).
  Proof.
    intros e ls rs total H.
    pose proof (split_o_chain ls rs 0 total H) as Hs. rewrite slice_prefix in Hs.
    unfold exec_source, source_parts, jsonl_adapter. cbn [ad_split ad_clone].
    rewrite read_range_spec, slice_prefix.
    destruct (read_vec de (firstn (N.to_nat total) ls)) as [v| |] eqn:Hv; cbn [lift_whole].
    - destruct Hs as [parts [Hp Hc]]. rewrite Hp.
      destruct (engine_par e); cbn [concat]; [now rewrite Hc|now rewrite app_nil_r].
    - rewrite Hs. unfold engine_fail. destruct (engine_par e); reflexivity.
    - exfalso. eapply read_vec_not_panic. eassumption.
  Qed.

  Theorem exec_jsonl_source : forall e ls per,
    exec_source e (jsonl_source de ls per) = lift_whole e (read_vec de ls).
  Proof.
    intros e ls per. unfold jsonl_source.
    rewrite (exec_jsonl_any_tiling e ls (build_shards ls per) (total_lines ls) (ranges_chain _ per)).
    unfold total_lines, nlen. now rewrite Nat2N.id, firstn_all.
  Qed.

  (* the file was rewritten after the source was built over `ls0` *)
  Theorem exec_jsonl_stale : forall e ls0 ls per,
    exec_source e (jsonl_adapter de ls (build_shards ls0 per) (total_lines ls0))
    = lift_whole e (read_vec de (firstn (length ls0) ls)).
  Proof.
    intros e ls0 ls per.
    rewrite (exec_jsonl_any_tiling e ls (build_shards ls0 per) (total_lines ls0) (ranges_chain _ per)).
    unfold total_lines, nlen. now rewrite Nat2N.id.
  Qed.

  (* range reads compose; an empty or inverted range reads nothing *)
  Theorem read_range_app : forall ls a b c,
    a <= b -> b <= c ->
    oapp (read_range de ls (a, b)) (read_range de ls (b, c)) = read_range de ls (a, c).
  Proof.
    intros ls a b c H1 H2. rewrite !read_range_spec, <- read_vec_app. now rewrite slice_app.
  Qed.

  Theorem read_range_degenerate : forall ls s e, e <= s -> read_range de ls (s, e) = Ok [].
  Proof.
    intros ls s e H. rewrite read_range_spec. unfold slice. cbn [fst snd].
    replace (N.to_nat (e - s)) with 0%nat by lia. reflexivity.
  Qed.
End JsonlExec.

(* ---------- CSV rows ---------- *)
Theorem exec_rows_any_tiling : forall {R} e (rows : list R) rs total,
  chain 0 rs total ->
  exec_source e (rows_adapter rows rs total) = Ok (firstn (N.to_nat total) rows).
Proof.
  intros R e rows rs total H. unfold exec_source, source_parts, rows_adapter.
  cbn [ad_split ad_clone]. rewrite <- slice_prefix.
  destruct (engine_par e); cbn [concat].
  - f_equal. exact (chain_concat rows rs 0 total H).
  - unfold rows_read_range. now rewrite app_nil_r.
Qed.

Theorem exec_rows_source : forall {R} e (rows : list R) per,
  exec_source e (rows_source rows per) = Ok rows.
Proof.
  intros R e rows per. unfold rows_source.
  rewrite (exec_rows_any_tiling e rows _ _ (ranges_chain (nlen rows) per)).
  unfold nlen. now rewrite Nat2N.id, firstn_all.
Qed.

(* ---------- Parquet row groups ---------- *)
Section PqExec.
  Context {R : Type}.

  Lemma pq_split_chain_ok : forall (groups : list (list R)) rs a b,
    chain a rs b -> b <= nlen groups ->
    otraverse_o (pq_read_checked groups) rs = Ok (map (pq_read groups) rs).
  Proof.
    intros groups. induction rs as [|r rs IH]; intros a b H Hb; cbn [chain] in H; [reflexivity|].
    destruct H as [H1 [H2 H3]]. pose proof (chain_le _ _ _ H3) as Hle.
    cbn [otraverse_o map]. rewrite (IH _ _ H3 Hb).
    unfold pq_read_checked. destruct (N.leb_spec (snd r) (fst r)) as [Hd|Hd].
    - assert (He : pq_read groups r = []).
      { unfold pq_read, slice. replace (N.to_nat (snd r - fst r)) with 0%nat by lia. reflexivity. }
      now rewrite He.
    - destruct (N.leb_spec (snd r) (nlen groups)); [reflexivity|lia].
  Qed.

  Lemma pq_split_chain_panic : forall (groups : list (list R)) rs a b,
    chain a rs b -> a <= nlen groups -> nlen groups < b ->
    otraverse_o (pq_read_checked groups) rs = Panic.
  Proof.
    intros groups. induction rs as [|r rs IH]; intros a b H Ha Hb; cbn [chain] in H; [lia|].
    destruct H as [H1 [H2 H3]]. cbn [otraverse_o].
    destruct (N.le_gt_cases (snd r) (nlen groups)) as [Hin|Hout].
    - rewrite (IH _ _ H3 Hin Hb). unfold pq_read_checked.
      destruct (snd r <=? fst r); [reflexivity|].
      destruct (N.leb_spec (snd r) (nlen groups)); [reflexivity|lia].
    - unfold pq_read_checked.
      destruct (N.leb_spec (snd r) (fst r)); [lia|].
      destruct (N.leb_spec (snd r) (nlen groups)); [lia|reflexivity].
  Qed.

  (* any tiling of the first ng row groups, the file still has at least ng groups: every engine
     returns the rows of those groups *)
  Theorem exec_pq_any_tiling : forall e (groups : list (list R)) rs ng tr,
    chain 0 rs ng -> ng <= nlen groups ->
    exec_source e (pq_adapter groups rs tr) = Ok (concat (firstn (N.to_nat ng) groups)).
  Proof.
    intros e groups rs ng tr H Hle. unfold exec_source, source_parts, pq_adapter.
    cbn [ad_split ad_clone]. rewrite (last_end_chain rs ng H), (pq_split_chain_ok groups rs 0 ng H Hle).
    rewrite <- slice_prefix. unfold pq_read_checked at 1. cbn [fst snd].
    destruct (engine_par e).
    - now rewrite (concat_slice_groups groups rs 0 ng H).
    - destruct (N.leb_spec ng 0) as [Hz|Hz].
      + assert (ng = 0) by lia. subst ng. reflexivity.
      + destruct (N.leb_spec ng (nlen groups)); [|lia]. cbn [concat]. unfold pq_read. now rewrite app_nil_r.
  Qed.

  (* the file shrank below the row groups the handle knows: every engine panics (the parquet
     crate's row-group selection), none returns a partial result *)
  Theorem exec_pq_stale_shrunk : forall e (groups : list (list R)) rs ng tr,
    chain 0 rs ng -> nlen groups < ng ->
    exec_source e (pq_adapter groups rs tr) = Panic.
  Proof.
    intros e groups rs ng tr H Hlt. unfold exec_source, source_parts, pq_adapter.
    cbn [ad_split ad_clone]. rewrite (last_end_chain rs ng H).
    rewrite (pq_split_chain_panic groups rs 0 ng H ltac:(lia) Hlt).
    unfold pq_read_checked. cbn [fst snd].
    destruct (N.leb_spec ng 0); [lia|]. destruct (N.leb_spec ng (nlen groups)); [lia|].
    destruct (engine_par e); reflexivity.
  Qed.

  Theorem exec_pq_source : forall e (groups : list (list R)) per,
    exec_source e (pq_source groups per) = Ok (pq_whole groups).
  Proof.
    intros e groups per. unfold pq_source, pq_whole.
    rewrite (exec_pq_any_tiling e groups _ (nlen groups) _ (group_ranges_chain (nlen groups) per) (N.le_refl _)).
    unfold nlen. now rewrite Nat2N.id, firstn_all.
  Qed.
End PqExec.

(* ---------- join sides ---------- *)
Lemma join_side_via_exec : forall e (a : adapter Z) other,
  join_side_ids e a other
  = match exec_source e a with Ok v => Ok (join_keys v other) | Err => Err | Panic => Panic end.
Proof.
  intros e a other. unfold join_side_ids, subplan_source, exec_source.
  destruct (source_parts e a); reflexivity.
Qed.

Theorem join_side_eq_whole : forall e (a : adapter Z) other v,
  exec_source e a = Ok v ->
  join_side_ids e a other = Ok (join_keys v other)
  /\ exists parts, subplan_source e a = Ok parts /\ concat parts = v.
Proof.
  intros e a other v H. rewrite join_side_via_exec, H. split; [reflexivity|].
  unfold exec_source in H. unfold subplan_source.
  destruct (source_parts e a) as [parts| |]; [|discriminate|discriminate].
  exists parts. split; [reflexivity|]. now injection H.
Qed.

(* all four engines return the same records whenever any of them succeeds, for an adapter whose
   split and clone_any describe the same data *)
Theorem engines_agree : forall {R} (a : adapter R) parts,
  ad_split a = Ok parts -> ad_clone a = Ok (concat parts) ->
  forall e, exec_source e a = Ok (concat parts).
Proof.
  intros R a parts Hs Hc e. unfold exec_source, source_parts. rewrite Hs, Hc.
  destruct (engine_par e); [reflexivity|]. cbn [concat]. now rewrite app_nil_r.
Qed.
