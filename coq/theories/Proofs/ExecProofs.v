(* Proofs about IO/Exec.v (C09): every execution configuration of src/runner.rs returns the
   whole-file read of a streamed source, for any shard description that tiles; stale handles;
   join sides; composition of range reads. *)
From Coq Require Import List Arith ZArith NArith Bool Lia.
From IB Require Import IO.Shards IO.Jsonl IO.Exec Proofs.ShardsProofs Proofs.JsonlProofs.
Import ListNotations.
Open Scope N_scope.

Lemma slice_prefix : forall {A} (l : list A) t, slice l (0, t) = firstn (N.to_nat t) l.
Proof. intros A l t. unfold slice. cbn [fst snd skipn N.to_nat]. now rewrite N.sub_0_r. Qed.

(* a range that reaches beyond the end of the list reads what is there: clamping both ends to the
   length changes nothing (used by Corr/C09.v to evaluate huge hand-built ranges cheaply) *)
Lemma slice_clamp : forall {A} (l : list A) s e,
  slice l (N.min s (nlen l), N.min e (nlen l)) = slice l (s, e).
Proof.
  intros A l s e. unfold slice, nlen. cbn [fst snd].
  destruct (N.le_gt_cases (N.of_nat (length l)) s) as [Hs|Hs].
  - rewrite (skipn_all2 l) by lia. rewrite (skipn_all2 l) by lia. now rewrite !firstn_nil.
  - replace (N.min s (N.of_nat (length l))) with s by lia.
    destruct (N.le_gt_cases e (N.of_nat (length l))) as [He|He].
    + now replace (N.min e (N.of_nat (length l))) with e by lia.
    + replace (N.min e (N.of_nat (length l))) with (N.of_nat (length l)) by lia.
      rewrite !firstn_all2; [reflexivity| |]; rewrite skipn_length; lia.
Qed.

Lemma last_end_chain : forall rs b, chain 0 rs b -> last_end rs = b.
Proof. intros rs b H. unfold last_end. exact (chain_last_end rs 0 b H). Qed.

(* ---------- JSONL ---------- *)
Section JsonlExec.
  Context {R : Type}.
  Variable de : list Z -> option R.

  Lemma read_range_not_panic : forall ls r, read_range de ls r <> Panic.
  Proof. intros ls r. rewrite read_range_spec. apply read_vec_not_panic. Qed.

  (* one partition per range of a chain, against the plain read of the spanned lines *)
  Lemma split_o_chain : forall ls rs a b,
    chain a rs b ->
    match read_vec de (slice ls (a, b)) with
    | Ok v => exists parts, otraverse_o (read_range de ls) rs = Ok parts /\ concat parts = v
    | _ => otraverse_o (read_range de ls) rs = Err
    end.
  Proof.
    intros ls. induction rs as [|r rs IH]; intros a b H; cbn [chain] in H.
    - subst. rewrite slice_empty. cbn [read_vec otraverse_o]. exists []. split; reflexivity.
    - destruct H as [H1 [H2 H3]]. destruct r as [s e]. cbn [fst snd] in *. subst s.
      pose proof (chain_le _ _ _ H3) as Hle.
      rewrite <- (slice_app ls a e b H2 Hle), read_vec_app.
      specialize (IH _ _ H3). cbn [otraverse_o]. rewrite read_range_spec.
      destruct (read_vec de (slice ls (a, e))) as [u| |] eqn:Hu; cbn [oapp].
      + destruct (read_vec de (slice ls (e, b))) as [v| |] eqn:Hv.
        * destruct IH as [parts [Hp Hc]]. rewrite Hp. exists (u :: parts).
          split; [reflexivity|]. cbn [concat]. now rewrite Hc.
        * now rewrite IH.
        * now rewrite IH.
      + reflexivity.
      + exfalso. eapply read_vec_not_panic. eassumption.
  Qed.

  (* ANY shard description whose ranges tile [0, total): every engine returns the plain read of
     the first `total` lines of the CURRENT content, or fails in its own way *)
  Theorem exec_jsonl_any_tiling : forall e p ls rs total,
    chain 0 rs total ->
    exec_source e p (jsonl_adapter de ls rs total) = lift_whole e (read_vec de (firstn (N.to_nat total) ls)).
  Proof.
    intros e p ls rs total H.
    pose proof (split_o_chain ls rs 0 total H) as Hs. rewrite slice_prefix in Hs.
    unfold exec_source, source_parts, jsonl_adapter. cbn [ad_split ad_clone].
    rewrite read_range_spec, slice_prefix.
    destruct (read_vec de (firstn (N.to_nat total) ls)) as [v| |] eqn:Hv; cbn [lift_whole].
    - destruct Hs as [parts [Hp Hc]]. rewrite Hp.
      destruct (engine_par e); cbn [concat]; [now rewrite Hc|now rewrite app_nil_r].
    - rewrite Hs. unfold engine_fail. destruct (engine_par e); reflexivity.
    - exfalso. eapply read_vec_not_panic. eassumption.
  Qed.

  Theorem exec_jsonl_source : forall e p ls per,
    exec_source e p (jsonl_source de ls per) = lift_whole e (read_vec de ls).
  Proof.
    intros e p ls per. unfold jsonl_source.
    rewrite (exec_jsonl_any_tiling e p ls (build_shards ls per) (total_lines ls) (ranges_chain _ per)).
    unfold total_lines, nlen. now rewrite Nat2N.id, firstn_all.
  Qed.

  (* the file was rewritten after the source was built over `ls0` *)
  Theorem exec_jsonl_stale : forall e p ls0 ls per,
    exec_source e p (jsonl_adapter de ls (build_shards ls0 per) (total_lines ls0))
    = lift_whole e (read_vec de (firstn (length ls0) ls)).
  Proof.
    intros e p ls0 ls per.
    rewrite (exec_jsonl_any_tiling e p ls (build_shards ls0 per) (total_lines ls0) (ranges_chain _ per)).
    unfold total_lines, nlen. now rewrite Nat2N.id.
  Qed.

  (* range reads compose; an empty or inverted range reads nothing *)
  Theorem read_range_app : forall ls a b c,
    a <= b -> b <= c ->
    oapp (read_range de ls (a, b)) (read_range de ls (b, c)) = read_range de ls (a, c).
  Proof.
    intros ls a b c H1 H2. rewrite !read_range_spec, <- read_vec_app. now rewrite slice_app.
  Qed.

  Theorem read_range_degenerate : forall ls s e, e <= s -> read_range de ls (s, e) = Ok [].
  Proof.
    intros ls s e H. rewrite read_range_spec. unfold slice. cbn [fst snd].
    replace (N.to_nat (e - s)) with 0%nat by lia. reflexivity.
  Qed.
End JsonlExec.

(* ---------- CSV rows ---------- *)
Theorem exec_rows_any_tiling : forall {R} e p (rows : list R) rs total,
  chain 0 rs total ->
  exec_source e p (rows_adapter rows rs total) = Ok (firstn (N.to_nat total) rows).
Proof.
  intros R e p rows rs total H. unfold exec_source, source_parts, rows_adapter.
  cbn [ad_split ad_clone]. rewrite <- slice_prefix.
  destruct (engine_par e); cbn [concat].
  - f_equal. exact (chain_concat rows rs 0 total H).
  - unfold rows_read_range. now rewrite app_nil_r.
Qed.

Theorem exec_rows_source : forall {R} e p (rows : list R) per,
  exec_source e p (rows_source rows per) = Ok rows.
Proof.
  intros R e p rows per. unfold rows_source.
  rewrite (exec_rows_any_tiling e p rows _ _ (ranges_chain (nlen rows) per)).
  unfold nlen. now rewrite Nat2N.id, firstn_all.
Qed.

(* ---------- Parquet row groups ---------- *)
Section PqExec.
  Context {R : Type}.

  Lemma pq_split_chain_ok : forall (groups : list (list R)) rs a b,
    chain a rs b -> b <= nlen groups ->
    otraverse_o (pq_read_checked groups) rs = Ok (map (pq_read groups) rs).
  Proof.
    intros groups. induction rs as [|r rs IH]; intros a b H Hb; cbn [chain] in H; [reflexivity|].
    destruct H as [H1 [H2 H3]]. pose proof (chain_le _ _ _ H3) as Hle.
    cbn [otraverse_o map]. rewrite (IH _ _ H3 Hb).
    unfold pq_read_checked. destruct (N.leb_spec (snd r) (fst r)) as [Hd|Hd].
    - assert (He : pq_read groups r = []).
      { unfold pq_read, slice. replace (N.to_nat (snd r - fst r)) with 0%nat by lia. reflexivity. }
      now rewrite He.
    - destruct (N.leb_spec (snd r) (nlen groups)); [reflexivity|lia].
  Qed.

  Lemma pq_split_chain_panic : forall (groups : list (list R)) rs a b,
    chain a rs b -> a <= nlen groups -> nlen groups < b ->
    otraverse_o (pq_read_checked groups) rs = Panic.
  Proof.
    intros groups. induction rs as [|r rs IH]; intros a b H Ha Hb; cbn [chain] in H; [lia|].
    destruct H as [H1 [H2 H3]]. cbn [otraverse_o].
    destruct (N.le_gt_cases (snd r) (nlen groups)) as [Hin|Hout].
    - rewrite (IH _ _ H3 Hin Hb). unfold pq_read_checked.
      destruct (snd r <=? fst r); [reflexivity|].
      destruct (N.leb_spec (snd r) (nlen groups)); [reflexivity|lia].
    - unfold pq_read_checked.
      destruct (N.leb_spec (snd r) (fst r)); [lia|].
      destruct (N.leb_spec (snd r) (nlen groups)); [lia|reflexivity].
  Qed.

  (* any tiling of the first ng row groups, the file still has at least ng groups: every engine
     returns the rows of those groups *)
  Theorem exec_pq_any_tiling : forall e p (groups : list (list R)) rs ng tr,
    chain 0 rs ng -> ng <= nlen groups ->
    exec_source e p (pq_adapter groups rs tr) = Ok (concat (firstn (N.to_nat ng) groups)).
  Proof.
    intros e p groups rs ng tr H Hle. unfold exec_source, source_parts, pq_adapter.
    cbn [ad_split ad_clone]. rewrite (last_end_chain rs ng H), (pq_split_chain_ok groups rs 0 ng H Hle).
    rewrite <- slice_prefix. unfold pq_read_checked at 1. cbn [fst snd].
    destruct (engine_par e).
    - now rewrite (concat_slice_groups groups rs 0 ng H).
    - destruct (N.leb_spec ng 0) as [Hz|Hz].
      + assert (ng = 0) by lia. subst ng. reflexivity.
      + destruct (N.leb_spec ng (nlen groups)); [|lia]. cbn [concat]. unfold pq_read. now rewrite app_nil_r.
  Qed.

  (* the file shrank below the row groups the handle knows: every engine panics (the parquet
     crate's row-group selection), none returns a partial result *)
  Theorem exec_pq_stale_shrunk : forall e p (groups : list (list R)) rs ng tr,
    chain 0 rs ng -> nlen groups < ng ->
    exec_source e p (pq_adapter groups rs tr) = Panic.
  Proof.
    intros e p groups rs ng tr H Hlt. unfold exec_source, source_parts, pq_adapter.
    cbn [ad_split ad_clone]. rewrite (last_end_chain rs ng H).
    rewrite (pq_split_chain_panic groups rs 0 ng H ltac:(lia) Hlt).
    unfold pq_read_checked. cbn [fst snd].
    destruct (N.leb_spec ng 0); [lia|]. destruct (N.leb_spec ng (nlen groups)); [lia|].
    destruct (engine_par e); reflexivity.
  Qed.

  Theorem exec_pq_source : forall e p (groups : list (list R)) per,
    exec_source e p (pq_source groups per) = Ok (pq_whole groups).
  Proof.
    intros e p groups per. unfold pq_source, pq_whole.
    rewrite (exec_pq_any_tiling e p groups _ (nlen groups) _ (group_ranges_chain (nlen groups) per) (N.le_refl _)).
    unfold nlen. now rewrite Nat2N.id, firstn_all.
  Qed.
End PqExec.

(* ---------- join sides ---------- *)
Lemma join_side_via_exec : forall e p (a : adapter Z) other,
  join_side_ids e p a other
  = match exec_source e p a with Ok v => Ok (join_keys v other) | Err => Err | Panic => Panic end.
Proof.
  intros e p a other. unfold join_side_ids, subplan_source, exec_source.
  destruct (source_parts e p a); reflexivity.
Qed.

Theorem join_side_eq_whole : forall e p (a : adapter Z) other v,
  exec_source e p a = Ok v ->
  join_side_ids e p a other = Ok (join_keys v other)
  /\ exists parts, subplan_source e p a = Ok parts /\ concat parts = v.
Proof.
  intros e p a other v H. rewrite join_side_via_exec, H. split; [reflexivity|].
  unfold exec_source in H. unfold subplan_source.
  destruct (source_parts e p a) as [parts| |]; [|discriminate|discriminate].
  exists parts. split; [reflexivity|]. now injection H.
Qed.

(* all four engines return the same records, for every partition count, for an adapter whose split
   (for every n) and clone_any describe the same data *)
Theorem engines_agree : forall {R} (a : adapter R) v,
  ad_clone a = Ok v ->
  (forall n, exists parts, ad_split a n = Ok parts /\ concat parts = v) ->
  forall e p, exec_source e p a = Ok v.
Proof.
  intros R a v Hc Hs e p. unfold exec_source, source_parts. rewrite Hc.
  destruct (engine_par e).
  - destruct (Hs (par_parts p a)) as [parts [Hp Hcc]]. rewrite Hp. now rewrite Hcc.
  - cbn [concat]. now rewrite app_nil_r.
Qed.

(* ---------- the CSV index loop ---------- *)
Lemma rows_loop_spec : forall {R} (rows : list R) i s e,
  rows_read_loop i rows s e
  = firstn (N.to_nat (e - N.max i s)) (skipn (N.to_nat (s - i)) rows).
Proof.
  intros R rows. induction rows as [|x r IH]; intros i s e.
  - cbn [rows_read_loop]. now rewrite skipn_nil, firstn_nil.
  - cbn [rows_read_loop]. destruct (N.ltb_spec i s) as [Hlt|Hge].
    + rewrite IH. replace (N.to_nat (s - i)) with (S (N.to_nat (s - (i + 1)))) by lia.
      cbn [skipn]. replace (N.max (i + 1) s) with (N.max i s) by lia. reflexivity.
    + replace (N.to_nat (s - i)) with 0%nat by lia. cbn [skipn].
      destruct (N.leb_spec e i) as [Hei|Hei].
      * replace (N.to_nat (e - N.max i s)) with 0%nat by lia. reflexivity.
      * replace (N.to_nat (e - N.max i s)) with (S (N.to_nat (e - N.max (i + 1) s))) by lia.
        cbn [firstn]. rewrite IH.
        replace (N.to_nat (s - (i + 1))) with 0%nat by lia. cbn [skipn]. reflexivity.
Qed.

Theorem rows_loop_is_slice : forall {R} (rows : list R) (r : range),
  rows_read_loop 0 rows (fst r) (snd r) = rows_read_range rows r
  /\ (snd r <= fst r -> rows_read_range rows r = [])
  /\ rows_read_range rows (N.min (fst r) (nlen rows), N.min (snd r) (nlen rows)) = rows_read_range rows r.
Proof.
  intros R rows [s e]. cbn [fst snd]. split; [|split].
  - rewrite rows_loop_spec. unfold rows_read_range, slice. cbn [fst snd].
    replace (N.max 0 s) with s by lia. now rewrite N.sub_0_r.
  - intros H. unfold rows_read_range, slice. cbn [fst snd].
    replace (N.to_nat (e - s)) with 0%nat by lia. reflexivity.
  - unfold rows_read_range. apply slice_clamp.
Qed.

(* ---------- the in-memory adapter ---------- *)
Lemma concat_chunks_fuel : forall {R} fuel k (l : list R),
  (1 <= k)%nat -> (length l <= fuel)%nat -> concat (chunks_fuel fuel k l) = l.
Proof.
  intros R fuel. induction fuel as [|f IH]; intros k l Hk Hl.
  - destruct l; [reflexivity|cbn [length] in Hl; lia].
  - cbn [chunks_fuel]. destruct l as [|x l']; [reflexivity|].
    cbn [concat]. rewrite IH; [apply firstn_skipn|assumption|].
    rewrite skipn_length. cbn [length] in *. lia.
Qed.

Lemma mem_split_concat : forall {R} (v : list R) n, concat (mem_split v n) = v.
Proof.
  intros R v n. unfold mem_split.
  destruct ((n <=? 1) || (nlen v <=? 1)) eqn:Hc.
  - cbn [concat]. apply app_nil_r.
  - apply orb_false_iff in Hc. destruct Hc as [Hn Hv].
    apply N.leb_gt in Hn. apply N.leb_gt in Hv.
    unfold chunks. apply concat_chunks_fuel; [|lia].
    pose proof (div_ceil_pos (nlen v) n ltac:(lia) ltac:(lia)). lia.
Qed.

Theorem exec_mem_source : forall {R} e p (v : list R), exec_source e p (mem_adapter v) = Ok v.
Proof.
  intros R e p v. apply engines_agree; [reflexivity|].
  intros n. exists (mem_split v n). split; [reflexivity|apply mem_split_concat].
Qed.

(* the seeded change C09-r4m2: correct on every in-memory source, wrong on a file source with
   two shards *)
Theorem first_split_refuted :
  (forall {R} (v : list R), source_first_split (mem_adapter v) = Ok v)
  /\ source_first_split (rows_source [1; 2; 3]%Z 2) = Ok [1; 2]%Z
  /\ exec_source ESeqCk 4 (rows_source [1; 2; 3]%Z 2) = Ok [1; 2; 3]%Z.
Proof.
  split; [|split; vm_compute; reflexivity].
  intros R v. unfold source_first_split, mem_adapter, mem_split. cbn [ad_split].
  reflexivity.
Qed.

(* ---------- links to the first model (IO/Jsonl.v) and corollaries ---------- *)
(* collect_seq / collect_par as modelled in IO/Jsonl.v are the ESeq / EPar instances *)
Theorem stream_is_exec : forall {R} (de : list Z -> option R) ls per p,
  stream_seq de ls per = exec_source ESeq p (jsonl_source de ls per)
  /\ stream_par de ls per = exec_source EPar p (jsonl_source de ls per).
Proof.
  intros R de ls per p. rewrite !exec_jsonl_source.
  pose proof (streamed_eq_whole de ls per) as H.
  destruct (read_vec de ls) as [v| |] eqn:Hv; cbn [lift_whole engine_fail engine_par].
  - destruct H as [_ [H1 H2]]. now split.
  - destruct H as [_ [H1 H2]]. now split.
  - exfalso. exact (read_vec_not_panic de ls Hv).
Qed.

Theorem rows_pq_stream_is_exec : forall {R} (rows : list R) (groups : list (list R)) per p,
  exec_source ESeq p (rows_source rows per) = Ok (rows_stream_seq rows per)
  /\ exec_source EPar p (rows_source rows per) = Ok (rows_stream_par rows per)
  /\ exec_source ESeq p (pq_source groups per) = Ok (pq_stream_seq groups per)
  /\ exec_source EPar p (pq_source groups per) = Ok (pq_stream_par groups per).
Proof.
  intros R rows groups per p. rewrite !exec_rows_source, !exec_pq_source.
  destruct (rows_streamed_eq_whole rows per) as [H1 H2].
  destruct (pq_streamed_eq_whole groups per) as [H3 H4].
  rewrite H1, H2, H3, H4. repeat split; reflexivity.
Qed.

(* a JSONL file that only GREW (lines appended) after the handle was built: every engine returns
   exactly the records the file had then *)
Theorem exec_jsonl_appended : forall {R} (de : list Z -> option R) e p ls0 extra per,
  exec_source e p (jsonl_adapter de (ls0 ++ extra) (build_shards ls0 per) (total_lines ls0))
  = lift_whole e (read_vec de ls0).
Proof.
  intros R de e p ls0 extra per. rewrite exec_jsonl_stale.
  rewrite firstn_app, Nat.sub_diag, firstn_all. cbn [firstn]. now rewrite app_nil_r.
Qed.

(* the partition count handed to split is between 1 and max(len, 1) *)
Theorem par_parts_bounds : forall {R} (a : adapter R) p,
  1 <= par_parts p a
  /\ par_parts p a <= N.max p 1
  /\ par_parts p a <= N.max (match ad_len a with Some l => l | None => 0 end) 1.
Proof. intros R a p. unfold par_parts. lia. Qed.
