(* Lemmas and proofs about the metrics model (Metrics/Metrics.v, Metrics/Spec.v). *)
From Coq Require Import List ZArith NArith Bool Lia.
From IB Require Import Metrics.Metrics Metrics.Spec.
Import ListNotations.

(* ================================================================ the store *)

Lemma lookup_insert_same : forall n m s, lookup n (insert n m s) = Some m.
Proof.
  intros n m s. induction s as [|[k x] r IH]; cbn [insert lookup].
  - rewrite Z.eqb_refl. reflexivity.
  - destruct (Z.eqb k n) eqn:E; cbn [lookup]; rewrite E; [reflexivity|exact IH].
Qed.

Lemma lookup_insert_other : forall k n m s, k <> n -> lookup k (insert n m s) = lookup k s.
Proof.
  intros k n m s Hne. induction s as [|[j x] r IH]; cbn [insert lookup].
  - destruct (Z.eqb n k) eqn:E; [apply Z.eqb_eq in E; congruence|reflexivity].
  - destruct (Z.eqb j n) eqn:E; cbn [lookup].
    + apply Z.eqb_eq in E. subst j.
      destruct (Z.eqb n k) eqn:E2; [apply Z.eqb_eq in E2; congruence|reflexivity].
    + destruct (Z.eqb j k); [reflexivity|exact IH].
Qed.

Lemma keys_insert : forall k n m s,
  In k (map fst (insert n m s)) <-> k = n \/ In k (map fst s).
Proof.
  intros k n m s. induction s as [|[j x] r IH]; cbn [insert map fst In].
  - intuition.
  - destruct (Z.eqb j n) eqn:E; cbn [map fst In].
    + apply Z.eqb_eq in E. subst j. intuition.
    + rewrite IH. intuition.
Qed.

Lemma nodup_insert : forall n m s, NoDup (map fst s) -> NoDup (map fst (insert n m s)).
Proof.
  intros n m s. induction s as [|[j x] r IH]; cbn [insert map fst]; intro H.
  - constructor; [intros []|constructor].
  - inversion H as [|a l Hnin Hnd]; subst.
    destruct (Z.eqb j n) eqn:E; cbn [map fst].
    + constructor; assumption.
    + constructor; [|apply IH; exact Hnd].
      intro Hin. apply keys_insert in Hin. destruct Hin as [->|Hin].
      * rewrite Z.eqb_refl in E. discriminate.
      * contradiction.
Qed.

Lemma lookup_in_keys : forall n s m, lookup n s = Some m -> In n (map fst s).
Proof.
  intros n s. induction s as [|[k x] r IH]; cbn [lookup map fst In]; intros m H.
  - discriminate.
  - destruct (Z.eqb k n) eqn:E; [left; apply Z.eqb_eq; exact E|right; eapply IH; exact H].
Qed.

Lemma in_keys_lookup : forall n s, In n (map fst s) -> exists m, lookup n s = Some m.
Proof.
  intros n s. induction s as [|[k x] r IH]; cbn [lookup map fst In]; intro H.
  - contradiction.
  - destruct (Z.eqb k n) eqn:E; [eexists; reflexivity|].
    destruct H as [->|H]; [rewrite Z.eqb_refl in E; discriminate|exact (IH H)].
Qed.

(* ================================================================ one critical section *)

Lemma exec_poisoned : forall x s, ms_poisoned s = true -> exec_section x s = (s, []).
Proof. intros x s H. unfold exec_section. rewrite H. reflexivity. Qed.

Lemma exec_poison_mono : forall x s,
  ms_poisoned (fst (exec_section x s)) = false -> ms_poisoned s = false.
Proof.
  intros x s H. destruct (ms_poisoned s) eqn:E; [|reflexivity].
  rewrite (exec_poisoned x s E) in H. cbn in H. congruence.
Qed.

(* the sections a section leaves behind are plain set_counter calls on the same name *)
Lemma exec_continuation : forall x s y,
  In y (snd (exec_section x s)) ->
  exists n v w, x = SIncrOldRead n w /\ y = SSet n v.
Proof.
  intros x s y. unfold exec_section.
  destruct (ms_poisoned s); [intros []|].
  destruct x as [n v|n v|n m|t|t|n v]; cbn [snd].
  - destruct (lookup n (ms_metrics s)) as [[c|tg]|]; [destruct (N.ltb (c + v) U64_MOD)| |]; intros [].
  - intros [].
  - intros [].
  - intros [].
  - intros [].
  - destruct (lookup n (ms_metrics s)) as [[c|tg]|]; [destruct (N.ltb (c + v) U64_MOD)| |];
      cbn [snd In].
    + intros [<-|[]]. exists n, (c + v)%N, v. split; reflexivity.
    + intros [].
    + intros [].
    + intros [].
Qed.

Lemma exec_keys_mono : forall x s k,
  In k (map fst (ms_metrics s)) -> In k (map fst (ms_metrics (fst (exec_section x s)))).
Proof.
  intros x s k Hin. unfold exec_section.
  destruct (ms_poisoned s); [exact Hin|].
  destruct x as [n v|n v|n m|t|t|n v]; cbn [fst].
  - destruct (lookup n (ms_metrics s)) as [[c|tg]|]; [destruct (N.ltb (c + v) U64_MOD)| |];
      cbn [fst set_metrics poison ms_metrics]; try exact Hin; apply keys_insert; right; exact Hin.
  - cbn [set_metrics ms_metrics]. apply keys_insert. right. exact Hin.
  - cbn [set_metrics ms_metrics]. apply keys_insert. right. exact Hin.
  - exact Hin.
  - exact Hin.
  - destruct (lookup n (ms_metrics s)) as [[c|tg]|]; [destruct (N.ltb (c + v) U64_MOD)| |];
      cbn [fst set_metrics poison ms_metrics]; try exact Hin; apply keys_insert; right; exact Hin.
Qed.

(* after a metric operation on name n (no panic), n is a key *)
Lemma exec_adds_key : forall x s n,
  section_name x = Some n ->
  ms_poisoned (fst (exec_section x s)) = false ->
  In n (map fst (ms_metrics (fst (exec_section x s)))).
Proof.
  intros x s n Hn Hp. pose proof (exec_poison_mono x s Hp) as Hs.
  revert Hp. unfold exec_section. rewrite Hs.
  destruct x as [k v|k v|k m|t|t|k v]; cbn [section_name] in Hn; inversion Hn; subst k; cbn [fst].
  - destruct (lookup n (ms_metrics s)) as [[c|tg]|] eqn:L;
      [destruct (N.ltb (c + v) U64_MOD)| |]; cbn [fst set_metrics poison ms_metrics ms_poisoned]; intro Hp;
      try discriminate; try (apply keys_insert; left; reflexivity);
      eapply lookup_in_keys; exact L.
  - intros _. cbn [set_metrics ms_metrics]. apply keys_insert. left. reflexivity.
  - intros _. cbn [set_metrics ms_metrics]. apply keys_insert. left. reflexivity.
  - destruct (lookup n (ms_metrics s)) as [[c|tg]|] eqn:L;
      [destruct (N.ltb (c + v) U64_MOD)| |]; cbn [fst set_metrics poison ms_metrics ms_poisoned]; intro Hp;
      try discriminate; try (apply keys_insert; left; reflexivity);
      eapply lookup_in_keys; exact L.
Qed.

(* ================================================================ sequential execution *)

Lemma exec_seq_cons : forall x tr s, exec_seq (x :: tr) s = exec_seq tr (fst (exec_section x s)).
Proof. reflexivity. Qed.

Lemma exec_seq_app : forall a b s, exec_seq (a ++ b) s = exec_seq b (exec_seq a s).
Proof. intros a b s. unfold exec_seq. apply fold_left_app. Qed.

Lemma exec_seq_poisoned : forall tr s, ms_poisoned s = true -> exec_seq tr s = s.
Proof.
  induction tr as [|x r IH]; intros s H; [reflexivity|].
  rewrite exec_seq_cons, (exec_poisoned x s H). cbn [fst]. apply IH. exact H.
Qed.

Lemma exec_seq_poison_mono : forall tr s,
  ms_poisoned (exec_seq tr s) = false -> ms_poisoned s = false.
Proof.
  intros tr s H. destruct (ms_poisoned s) eqn:E; [|reflexivity].
  rewrite (exec_seq_poisoned tr s E) in H. congruence.
Qed.

Lemma exec_seq_keys_mono : forall tr s k,
  In k (map fst (ms_metrics s)) -> In k (map fst (ms_metrics (exec_seq tr s))).
Proof.
  induction tr as [|x r IH]; intros s k H; [exact H|].
  rewrite exec_seq_cons. apply IH. apply exec_keys_mono. exact H.
Qed.

(* ================================================================ schedules *)

(* the final state of a scheduled run is the sequential execution of its trace *)
Lemma step_exec : forall t ts s ts' s' ev,
  step t ts s = (ts', s', ev) ->
  s' = match ev with Some x => fst (exec_section x s) | None => s end.
Proof.
  induction t as [|t IH]; intros ts s ts' s' ev H; destruct ts as [|w r]; cbn [step] in H.
  - inversion H; subst. reflexivity.
  - destruct w as [|x w'].
    + inversion H; subst. reflexivity.
    + destruct (exec_section x s) as [s1 k] eqn:E. inversion H; subst. rewrite E. reflexivity.
  - inversion H; subst. reflexivity.
  - destruct (step t r s) as [[r' s1] ev1] eqn:E. inversion H; subst.
    eapply IH. exact E.
Qed.

Lemma run_full_exec : forall sched ts s,
  run sched ts s = exec_seq (trace sched ts s) s.
Proof.
  unfold run, trace.
  induction sched as [|t rest IH]; intros ts s; cbn [run_full].
  - reflexivity.
  - destruct (step t ts s) as [[ts1 s1] ev] eqn:E.
    specialize (IH ts1 s1). destruct (run_full rest ts1 s1) as [[ts2 s2] tr] eqn:E2.
    cbn [fst snd] in *. rewrite IH.
    pose proof (step_exec _ _ _ _ _ _ E) as Hs. destruct ev as [x|]; subst s1; reflexivity.
Qed.

(* a step moves the head section of one worklist into the trace *)
Lemma step_shape : forall t ts s ts' s' ev,
  step t ts s = (ts', s', ev) ->
  match ev with
  | None => ts' = ts
  | Some x => exists pre w post,
      ts = pre ++ (x :: w) :: post /\
      ts' = pre ++ (snd (exec_section x s) ++ w) :: post
  end.
Proof.
  induction t as [|t IH]; intros ts s ts' s' ev H; destruct ts as [|w r]; cbn [step] in H.
  - inversion H; subst. reflexivity.
  - destruct w as [|x w'].
    + inversion H; subst. reflexivity.
    + destruct (exec_section x s) as [s1 k] eqn:E. inversion H; subst.
      exists [], w', r. rewrite E. cbn [app snd]. split; reflexivity.
  - inversion H; subst. reflexivity.
  - destruct (step t r s) as [[r' s1] ev1] eqn:E. inversion H; subst.
    specialize (IH _ _ _ _ _ E). destruct ev as [x|].
    + destruct IH as (pre & w0 & post & -> & ->).
      exists (w :: pre), w0, post. split; reflexivity.
    + subst r'. reflexivity.
Qed.

(* ---------- sums of increments ---------- *)
Lemma sum_incr_app : forall n a b, sum_incr n (a ++ b) = (sum_incr n a + sum_incr n b)%N.
Proof.
  intros n a b. induction a as [|x r IH]; cbn [app sum_incr fold_right]; [reflexivity|].
  fold (sum_incr n (r ++ b)). fold (sum_incr n r). rewrite IH. lia.
Qed.

Lemma sum_incr_threads_app : forall n a b,
  sum_incr_threads n (a ++ b) = (sum_incr_threads n a + sum_incr_threads n b)%N.
Proof.
  intros n a b. induction a as [|x r IH]; cbn [app sum_incr_threads fold_right]; [reflexivity|].
  fold (sum_incr_threads n (r ++ b)). fold (sum_incr_threads n r). rewrite IH. lia.
Qed.

Lemma sum_incr_threads_cons : forall n w r,
  sum_incr_threads n (w :: r) = (sum_incr n w + sum_incr_threads n r)%N.
Proof. reflexivity. Qed.

Lemma sum_incr_cons : forall n x r, sum_incr n (x :: r) = (incr_amount n x + sum_incr n r)%N.
Proof. reflexivity. Qed.

Lemma continuation_no_incr : forall n x s, sum_incr n (snd (exec_section x s)) = 0%N.
Proof.
  intros n x s.
  assert (H : forall y, In y (snd (exec_section x s)) -> incr_amount n y = 0%N).
  { intros y Hy. destruct (exec_continuation _ _ _ Hy) as (k & v & w & _ & ->). reflexivity. }
  induction (snd (exec_section x s)) as [|y r IH]; [reflexivity|].
  rewrite sum_incr_cons, (H y (or_introl eq_refl)), IH; [reflexivity|].
  intros z Hz. apply H. right. exact Hz.
Qed.

Lemma step_sum : forall n t ts s ts' s' ev,
  step t ts s = (ts', s', ev) ->
  sum_incr_threads n ts =
  (match ev with Some x => incr_amount n x | None => 0 end + sum_incr_threads n ts')%N.
Proof.
  intros n t ts s ts' s' ev H. pose proof (step_shape _ _ _ _ _ _ H) as Hs.
  destruct ev as [x|].
  - destruct Hs as (pre & w & post & -> & ->).
    rewrite !sum_incr_threads_app, !sum_incr_threads_cons, sum_incr_app, sum_incr_cons,
      continuation_no_incr. lia.
  - subst ts'. lia.
Qed.

Lemma run_full_sum : forall n sched ts s,
  sum_incr_threads n ts =
  (sum_incr n (trace sched ts s) + sum_incr_threads n (remaining sched ts s))%N.
Proof.
  unfold trace, remaining.
  intros n. induction sched as [|t rest IH]; intros ts s; cbn [run_full].
  - cbn [fst snd]. change (sum_incr n []) with 0%N. lia.
  - destruct (step t ts s) as [[ts1 s1] ev] eqn:E.
    specialize (IH ts1 s1). destruct (run_full rest ts1 s1) as [[ts2 s2] tr] eqn:E2.
    cbn [fst snd] in *. rewrite (step_sum n _ _ _ _ _ _ E), IH.
    destruct ev as [x|]; [rewrite sum_incr_cons|]; lia.
Qed.

Lemma all_done_sum : forall n ts, all_done ts = true -> sum_incr_threads n ts = 0%N.
Proof.
  intros n ts. induction ts as [|w r IH]; cbn [all_done forallb]; intro H; [reflexivity|].
  apply andb_true_iff in H. destruct H as [Hw Hr]. destruct w; [|discriminate].
  rewrite sum_incr_threads_cons. cbn [sum_incr fold_right]. rewrite (IH Hr). reflexivity.
Qed.

(* ---------- a predicate closed under continuations holds of the whole trace ---------- *)
Section TraceForall.
  Variable P : section -> bool.
  Hypothesis P_cont : forall x s y, P x = true -> In y (snd (exec_section x s)) -> P y = true.

  Definition pool_ok (ts : list worklist) : Prop := forall w x, In w ts -> In x w -> P x = true.

  Lemma step_pool_ok : forall t ts s ts' s' ev,
    pool_ok ts -> step t ts s = (ts', s', ev) ->
    pool_ok ts' /\ match ev with Some x => P x = true | None => True end.
  Proof.
    intros t ts s ts' s' ev Hok H. pose proof (step_shape _ _ _ _ _ _ H) as Hs.
    destruct ev as [x|].
    - destruct Hs as (pre & w & post & -> & ->).
      assert (Px : P x = true).
      { apply (Hok (x :: w)); [apply in_or_app; right; left; reflexivity|left; reflexivity]. }
      split; [|exact Px].
      intros w0 y Hw0 Hy. apply in_app_or in Hw0. destruct Hw0 as [Hw0|[<-|Hw0]].
      + apply (Hok w0); [apply in_or_app; left; exact Hw0|exact Hy].
      + apply in_app_or in Hy. destruct Hy as [Hy|Hy].
        * eapply P_cont; [exact Px|exact Hy].
        * apply (Hok (x :: w)); [apply in_or_app; right; left; reflexivity|right; exact Hy].
      + apply (Hok w0); [apply in_or_app; right; right; exact Hw0|exact Hy].
    - subst ts'. split; [exact Hok|exact I].
  Qed.

  Lemma trace_forall : forall sched ts s,
    pool_ok ts -> forall x, In x (trace sched ts s) -> P x = true.
  Proof.
    unfold trace.
    induction sched as [|t rest IH]; intros ts s Hok x; cbn [run_full].
    - intros [].
    - destruct (step t ts s) as [[ts1 s1] ev] eqn:E.
      destruct (step_pool_ok _ _ _ _ _ _ Hok E) as [Hok1 Hev].
      specialize (IH ts1 s1 Hok1 x). destruct (run_full rest ts1 s1) as [[ts2 s2] tr] eqn:E2.
      cbn [fst snd] in *. destruct ev as [y|]; [|exact IH].
      intros [<-|Hin]; [exact Hev|exact (IH Hin)].
  Qed.
End TraceForall.

Lemma incr_only_cont : forall n x s y,
  incr_only n x = true -> In y (snd (exec_section x s)) -> incr_only n y = true.
Proof.
  intros n x s y Hx Hy. destruct (exec_continuation _ _ _ Hy) as (k & v & w & -> & ->).
  exact Hx.
Qed.

Lemma incr_or_set_cont : forall n x s y,
  incr_or_set n x = true -> In y (snd (exec_section x s)) -> incr_or_set n y = true.
Proof.
  intros n x s y Hx Hy. destruct (exec_continuation _ _ _ Hy) as (k & v & w & -> & ->).
  reflexivity.
Qed.

Lemma compile_pool_ok : forall (P : section -> bool) (threads : list (list call)),
  (forall cs c, In cs threads -> In c cs -> forallb P (sections_of c) = true) ->
  pool_ok P (compile threads).
Proof.
  intros P threads H w x Hw Hx. unfold compile in Hw. apply in_map_iff in Hw.
  destruct Hw as (cs & <- & Hcs). unfold compile_thread in Hx. apply in_flat_map in Hx.
  destruct Hx as (c & Hc & Hx). specialize (H cs c Hcs Hc).
  rewrite forallb_forall in H. exact (H x Hx).
Qed.

(* every section of the pool is executed or still pending *)
Lemma pool_in_trace : forall sched ts s x,
  (exists w, In w ts /\ In x w) ->
  In x (trace sched ts s) \/ exists w, In w (remaining sched ts s) /\ In x w.
Proof.
  unfold trace, remaining. induction sched as [|t rest IH]; intros ts s x Hx; cbn [run_full].
  - right. exact Hx.
  - destruct (step t ts s) as [[ts1 s1] ev] eqn:Es.
    pose proof (step_shape _ _ _ _ _ _ Es) as Hs.
    specialize (IH ts1 s1 x). destruct (run_full rest ts1 s1) as [[ts2 s2] tr] eqn:E2.
    cbn [fst snd] in *. destruct ev as [y|].
    + destruct Hs as (pre & w & post & -> & ->).
      destruct Hx as (w0 & Hw0 & Hxw0).
      apply in_app_or in Hw0. destruct Hw0 as [Hw0|[<-|Hw0]].
      * destruct IH as [IH|IH]; [exists w0; split; [apply in_or_app; left; exact Hw0|exact Hxw0]
                                |left; right; exact IH|right; exact IH].
      * destruct Hxw0 as [<-|Hxw0]; [left; left; reflexivity|].
        destruct IH as [IH|IH];
          [exists (snd (exec_section y s) ++ w); split;
           [apply in_or_app; right; left; reflexivity|apply in_or_app; right; exact Hxw0]
          |left; right; exact IH|right; exact IH].
      * destruct IH as [IH|IH]; [exists w0; split; [apply in_or_app; right; right; exact Hw0|exact Hxw0]
                                |left; right; exact IH|right; exact IH].
    + subst ts1. exact (IH Hx).
Qed.

Lemma complete_in_trace : forall sched ts s x,
  complete sched ts s = true -> (exists w, In w ts /\ In x w) -> In x (trace sched ts s).
Proof.
  intros sched ts s x Hc Hx. destruct (pool_in_trace sched ts s x Hx) as [H|(w & Hw & Hxw)]; [exact H|].
  unfold complete, all_done in Hc. rewrite forallb_forall in Hc.
  specialize (Hc w Hw). destruct w; [destruct Hxw|discriminate].
Qed.

Lemma call_section_in_pool : forall threads cs c x,
  In cs threads -> In c cs -> In x (sections_of c) ->
  exists w, In w (compile threads) /\ In x w.
Proof.
  intros threads cs c x Hcs Hc Hx. exists (compile_thread cs). split; [apply in_map; exact Hcs|].
  unfold compile_thread. apply in_flat_map. exists c. split; assumption.
Qed.

(* ================================================================ the counter along a trace *)

(* sequential specification of counter n: what a list of atomic increments / sets does *)
Fixpoint nspec (n : name) (cur : option N) (tr : list section) : option N :=
  match tr with
  | [] => cur
  | x :: r =>
      nspec n
        (match x with
         | SIncr k v => if Z.eqb k n
                        then Some (match cur with Some c => c + v | None => v end)%N else cur
         | SSet k v => if Z.eqb k n then Some v else cur
         | _ => cur
         end) r
  end.

Lemma not_other_counter : forall n s,
  not_other n s = true ->
  lookup n (ms_metrics s) = match counter_of n s with Some c => Some (Counter c) | None => None end.
Proof.
  intros n s. unfold not_other, counter_of.
  destruct (lookup n (ms_metrics s)) as [[c|t]|]; intro H; try reflexivity. discriminate.
Qed.

Lemma counter_of_insert_same : forall n c s,
  counter_of n (set_metrics (insert n (Counter c)) s) = Some c.
Proof. intros. unfold counter_of. cbn [set_metrics ms_metrics]. rewrite lookup_insert_same. reflexivity. Qed.

Lemma counter_of_insert_other : forall n k m s, n <> k ->
  counter_of n (set_metrics (insert k m) s) = counter_of n s.
Proof. intros. unfold counter_of. cbn [set_metrics ms_metrics]. rewrite lookup_insert_other by assumption. reflexivity. Qed.

Lemma not_other_insert_same : forall n c s, not_other n (set_metrics (insert n (Counter c)) s) = true.
Proof. intros. unfold not_other. cbn [set_metrics ms_metrics]. rewrite lookup_insert_same. reflexivity. Qed.

Lemma not_other_insert_other : forall n k m s, n <> k ->
  not_other n (set_metrics (insert k m) s) = not_other n s.
Proof. intros. unfold not_other. cbn [set_metrics ms_metrics]. rewrite lookup_insert_other by assumption. reflexivity. Qed.

(* one section on a live collector, seen from counter n *)
Lemma exec_counter_step : forall n x s,
  incr_or_set n x = true ->
  not_other n s = true ->
  ms_poisoned (fst (exec_section x s)) = false ->
  counter_of n (fst (exec_section x s)) = nspec n (counter_of n s) [x] /\
  not_other n (fst (exec_section x s)) = true.
Proof.
  intros n x s Hx Hno Hp. pose proof (exec_poison_mono x s Hp) as Hs.
  pose proof (not_other_counter n s Hno) as Hl.
  revert Hp. unfold exec_section. rewrite Hs. cbn [nspec].
  destruct x as [k v|k v|k m|t|t|k v]; cbn [incr_or_set] in Hx.
  - destruct (Z.eqb k n) eqn:E.
    + apply Z.eqb_eq in E. subst k. rewrite Hl.
      destruct (counter_of n s) as [c|] eqn:C.
      * destruct (N.ltb (c + v) U64_MOD); cbn [fst poison ms_poisoned]; intro Hp; [|discriminate].
        split; [apply counter_of_insert_same|apply not_other_insert_same].
      * cbn [fst]. intros _. split; [apply counter_of_insert_same|apply not_other_insert_same].
    + assert (Hne : n <> k) by (intro; subst; rewrite Z.eqb_refl in E; discriminate).
      destruct (lookup k (ms_metrics s)) as [[c|tg]|];
        [destruct (N.ltb (c + v) U64_MOD)| |]; cbn [fst poison ms_poisoned]; intro Hp;
        try discriminate; try (split; [reflexivity|exact Hno]);
        (split; [apply counter_of_insert_other|rewrite not_other_insert_other]; assumption).
  - cbn [fst]. intros _. destruct (Z.eqb k n) eqn:E.
    + apply Z.eqb_eq in E. subst k.
      split; [apply counter_of_insert_same|apply not_other_insert_same].
    + assert (Hne : n <> k) by (intro; subst; rewrite Z.eqb_refl in E; discriminate).
      split; [apply counter_of_insert_other|rewrite not_other_insert_other]; assumption.
  - cbn [fst]. intros _. apply negb_true_iff in Hx.
    assert (Hne : n <> k) by (intro; subst; rewrite Z.eqb_refl in Hx; discriminate).
    split; [apply counter_of_insert_other|rewrite not_other_insert_other]; assumption.
  - cbn [fst]. intros _. split; [reflexivity|exact Hno].
  - cbn [fst]. intros _. split; [reflexivity|exact Hno].
  - apply negb_true_iff in Hx.
    assert (Hne : n <> k) by (intro; subst; rewrite Z.eqb_refl in Hx; discriminate).
    destruct (lookup k (ms_metrics s)) as [[c|tg]|];
      [destruct (N.ltb (c + v) U64_MOD)| |]; cbn [fst poison ms_poisoned]; intro Hp;
      try discriminate; try (split; [reflexivity|exact Hno]);
      (split; [apply counter_of_insert_other|rewrite not_other_insert_other]; assumption).
Qed.

Lemma nspec_cons : forall n cur x r, nspec n cur (x :: r) = nspec n (nspec n cur [x]) r.
Proof. reflexivity. Qed.

Lemma exec_seq_counter : forall n tr s,
  (forall x, In x tr -> incr_or_set n x = true) ->
  not_other n s = true ->
  ms_poisoned (exec_seq tr s) = false ->
  counter_of n (exec_seq tr s) = nspec n (counter_of n s) tr /\
  not_other n (exec_seq tr s) = true.
Proof.
  intros n. induction tr as [|x r IH]; intros s Hall Hno Hp.
  - split; [reflexivity|exact Hno].
  - rewrite exec_seq_cons in *.
    pose proof (exec_seq_poison_mono _ _ Hp) as Hp1.
    destruct (exec_counter_step n x s (Hall x (or_introl eq_refl)) Hno Hp1) as [Hc Hno1].
    destruct (IH _ (fun y Hy => Hall y (or_intror Hy)) Hno1 Hp) as [Hc2 Hno2].
    split; [|exact Hno2]. rewrite Hc2, Hc, <- nspec_cons. reflexivity.
Qed.

(* ---------- pure facts about nspec ---------- *)
Lemma incr_only_no_set : forall n x, incr_only n x = true -> has_set n x = false.
Proof.
  intros n x. destruct x; cbn; try reflexivity. intro H. apply negb_true_iff in H. exact H.
Qed.

Lemma nspec_some_no_set : forall n tr c,
  (forall x, In x tr -> has_set n x = false) ->
  nspec n (Some c) tr = Some (c + sum_incr n tr)%N.
Proof.
  intros n. induction tr as [|x r IH]; intros c H; cbn [nspec].
  - cbn. f_equal. lia.
  - rewrite sum_incr_cons. pose proof (H x (or_introl eq_refl)) as Hx.
    assert (Hr : forall y, In y r -> has_set n y = false) by (intros y Hy; apply H; right; exact Hy).
    destruct x as [k v|k v|k m|t|t|k v]; cbn [incr_amount has_set] in *;
      try (rewrite (IH _ Hr); f_equal; lia).
    + destruct (Z.eqb k n); rewrite (IH _ Hr); f_equal; lia.
    + rewrite Hx. rewrite (IH _ Hr). f_equal; lia.
Qed.

Lemma nspec_none_no_set : forall n tr,
  (forall x, In x tr -> has_set n x = false) ->
  nspec n None tr = if existsb (has_incr n) tr then Some (sum_incr n tr) else None.
Proof.
  intros n. induction tr as [|x r IH]; intros H; cbn [nspec existsb].
  - reflexivity.
  - rewrite sum_incr_cons. pose proof (H x (or_introl eq_refl)) as Hx.
    assert (Hr : forall y, In y r -> has_set n y = false) by (intros y Hy; apply H; right; exact Hy).
    destruct x as [k v|k v|k m|t|t|k v]; cbn [incr_amount has_set has_incr orb] in *;
      try (rewrite (IH Hr); destruct (existsb (has_incr n) r); [f_equal; lia|reflexivity]).
    + destruct (Z.eqb k n); cbn [orb].
      * rewrite (nspec_some_no_set _ _ _ Hr). reflexivity.
      * rewrite (IH Hr). destruct (existsb (has_incr n) r); [f_equal; lia|reflexivity].
    + rewrite Hx. rewrite (IH Hr). destruct (existsb (has_incr n) r); [f_equal; lia|reflexivity].
Qed.

Lemma last_set_none : forall n tr, last_set n tr = None -> forall x, In x tr -> has_set n x = false.
Proof.
  intros n. induction tr as [|y r IH]; cbn [last_set]; intros H x Hin; [destruct Hin|].
  destruct (last_set n r) as [p|] eqn:E; [discriminate|].
  destruct Hin as [<-|Hin]; [|exact (IH eq_refl x Hin)].
  destruct y as [k v|k v|k m|t|t|k v]; cbn [has_set]; try reflexivity.
  destruct (Z.eqb k n); [discriminate|reflexivity].
Qed.

Lemma last_set_some : forall n tr v after,
  last_set n tr = Some (v, after) ->
  exists before, tr = before ++ SSet n v :: after /\ last_set n after = None.
Proof.
  intros n. induction tr as [|y r IH]; cbn [last_set]; intros v after H; [discriminate|].
  destruct (last_set n r) as [p|] eqn:E.
  - inversion H; subst p. destruct (IH v after eq_refl) as (b & -> & Hn).
    exists (y :: b). split; [reflexivity|exact Hn].
  - destruct y as [k w|k w|k m|t|t|k w]; try discriminate.
    destruct (Z.eqb k n) eqn:Ek; [|discriminate]. apply Z.eqb_eq in Ek. subst k.
    inversion H; subst. exists []. split; [reflexivity|exact E].
Qed.

Lemma nspec_app : forall n a b cur, nspec n cur (a ++ b) = nspec n (nspec n cur a) b.
Proof.
  intros n a. induction a as [|x r IH]; intros b cur; [reflexivity|].
  cbn [app nspec]. apply IH.
Qed.

(* the value of counter n after a linearisation: last set + the increments after it *)
Lemma nspec_last_set : forall n tr cur,
  nspec n cur tr =
  match last_set n tr with
  | Some (v, after) => Some (v + sum_incr n after)%N
  | None => match cur with
            | Some c => Some (c + sum_incr n tr)%N
            | None => if existsb (has_incr n) tr then Some (sum_incr n tr) else None
            end
  end.
Proof.
  intros n tr cur. destruct (last_set n tr) as [[v after]|] eqn:E.
  - destruct (last_set_some _ _ _ _ E) as (before & -> & Hn).
    rewrite nspec_app. cbn [nspec]. rewrite Z.eqb_refl.
    apply nspec_some_no_set. apply last_set_none. exact Hn.
  - pose proof (last_set_none _ _ E) as Hn. destruct cur as [c|].
    + apply nspec_some_no_set. exact Hn.
    + apply nspec_none_no_set. exact Hn.
Qed.

(* ================================================================ no lost update *)

Lemma poison_run_trace : forall sched ts s,
  ms_poisoned (run sched ts s) = false -> ms_poisoned (exec_seq (trace sched ts s) s) = false.
Proof. intros. rewrite <- run_full_exec. assumption. Qed.

Theorem no_lost_update :
  forall (n : name) (threads : list (list call)) (sched : list nat) (s0 : mstate) (init : N),
    counter_of n s0 = Some init ->
    (forall cs c, In cs threads -> In c cs -> call_incr_only n c = true) ->
    complete sched (compile threads) s0 = true ->
    ms_poisoned (run sched (compile threads) s0) = false ->
    counter_of n (run sched (compile threads) s0) = Some (init + total_increments n threads)%N.
Proof.
  intros n threads sched s0 init Hinit Hcalls Hcomplete Hp.
  assert (Hok : pool_ok (incr_only n) (compile threads)) by (apply compile_pool_ok; exact Hcalls).
  pose proof (trace_forall (incr_only n) (incr_only_cont n) sched _ s0 Hok) as Htr.
  assert (Hno : not_other n s0 = true).
  { unfold not_other. unfold counter_of in Hinit.
    destruct (lookup n (ms_metrics s0)) as [[c|t]|]; try reflexivity; discriminate. }
  assert (Htr2 : forall x, In x (trace sched (compile threads) s0) -> incr_or_set n x = true).
  { intros x Hx. specialize (Htr x Hx). destruct x; cbn in *; try reflexivity; exact Htr. }
  rewrite run_full_exec in *.
  destruct (exec_seq_counter n _ s0 Htr2 Hno Hp) as [Hc _].
  rewrite Hc, Hinit, nspec_some_no_set.
  - f_equal. f_equal. unfold total_increments.
    rewrite (run_full_sum n sched (compile threads) s0).
    unfold complete in Hcomplete. rewrite (all_done_sum n _ Hcomplete). lia.
  - intros x Hx. apply incr_only_no_set. exact (Htr x Hx).
Qed.

(* the same for a name that does not exist yet: the first increment creates the counter *)
Theorem no_lost_update_fresh :
  forall (n : name) (threads : list (list call)) (sched : list nat) (s0 : mstate),
    lookup n (ms_metrics s0) = None ->
    (forall cs c, In cs threads -> In c cs -> call_incr_only n c = true) ->
    complete sched (compile threads) s0 = true ->
    ms_poisoned (run sched (compile threads) s0) = false ->
    cval n (run sched (compile threads) s0) = total_increments n threads /\
    ((exists cs v, In cs threads /\ In (Incr n v) cs) ->
     counter_of n (run sched (compile threads) s0) = Some (total_increments n threads)).
Proof.
  intros n threads sched s0 Hinit Hcalls Hcomplete Hp.
  assert (Hok : pool_ok (incr_only n) (compile threads)) by (apply compile_pool_ok; exact Hcalls).
  pose proof (trace_forall (incr_only n) (incr_only_cont n) sched _ s0 Hok) as Htr.
  assert (Hno : not_other n s0 = true) by (unfold not_other; rewrite Hinit; reflexivity).
  assert (Hc0 : counter_of n s0 = None) by (unfold counter_of; rewrite Hinit; reflexivity).
  assert (Htr2 : forall x, In x (trace sched (compile threads) s0) -> incr_or_set n x = true).
  { intros x Hx. specialize (Htr x Hx). destruct x; cbn in *; try reflexivity; exact Htr. }
  assert (Hsum : sum_incr n (trace sched (compile threads) s0) = total_increments n threads).
  { unfold total_increments. rewrite (run_full_sum n sched (compile threads) s0).
    unfold complete in Hcomplete. rewrite (all_done_sum n _ Hcomplete). lia. }
  assert (Hrem : remaining sched (compile threads) s0 = remaining sched (compile threads) s0) by reflexivity.
  unfold cval. rewrite run_full_exec in *.
  destruct (exec_seq_counter n _ s0 Htr2 Hno Hp) as [Hc _].
  rewrite Hc, Hc0, nspec_none_no_set by (intros x Hx; apply incr_only_no_set; exact (Htr x Hx)).
  rewrite Hsum. split.
  - destruct (existsb (has_incr n) (trace sched (compile threads) s0)) eqn:E; [reflexivity|].
    (* no increment of n was executed: the total is 0 *)
    rewrite <- Hsum.
    assert (Hz : forall tr, existsb (has_incr n) tr = false -> sum_incr n tr = 0%N).
    { induction tr as [|x r IH]; cbn [existsb]; intro H; [reflexivity|].
      apply orb_false_iff in H. destruct H as [Hx Hr]. rewrite sum_incr_cons, (IH Hr).
      destruct x; cbn [has_incr incr_amount] in *; try reflexivity. rewrite Hx. reflexivity. }
    symmetry. apply Hz. exact E.
  - intros (cs & v & Hcs & Hin).
    destruct (existsb (has_incr n) (trace sched (compile threads) s0)) eqn:E; [reflexivity|].
    exfalso.
    (* the increment is in the pool, the pool was run to completion, so it is in the trace *)
    assert (Hin2 : In (SIncr n v) (trace sched (compile threads) s0)).
    { apply complete_in_trace; [exact Hcomplete|].
      apply (call_section_in_pool threads cs (Incr n v)); [exact Hcs|exact Hin|left; reflexivity]. }
    assert (Hf : existsb (has_incr n) (trace sched (compile threads) s0) = true).
    { apply existsb_exists. exists (SIncr n v). split; [exact Hin2|]. cbn. apply Z.eqb_refl. }
    congruence.
Qed.

(* with set_counter interleaved: last set in schedule order + the increments after it *)
Theorem sets_and_increments :
  forall (n : name) (threads : list (list call)) (sched : list nat) (s0 : mstate),
    not_other n s0 = true ->
    (forall cs c, In cs threads -> In c cs -> call_incr_or_set n c = true) ->
    ms_poisoned (run sched (compile threads) s0) = false ->
    let tr := trace sched (compile threads) s0 in
    counter_of n (run sched (compile threads) s0) =
    match last_set n tr with
    | Some (v, after) => Some (v + sum_incr n after)%N
    | None => match counter_of n s0 with
              | Some c => Some (c + sum_incr n tr)%N
              | None => if existsb (has_incr n) tr then Some (sum_incr n tr) else None
              end
    end.
Proof.
  intros n threads sched s0 Hno Hcalls Hp tr. subst tr.
  assert (Hok : pool_ok (incr_or_set n) (compile threads)) by (apply compile_pool_ok; exact Hcalls).
  pose proof (trace_forall (incr_or_set n) (incr_or_set_cont n) sched _ s0 Hok) as Htr.
  rewrite run_full_exec in *.
  destruct (exec_seq_counter n _ s0 Htr Hno Hp) as [Hc _].
  rewrite Hc. apply nspec_last_set.
Qed.
