(* Generic facts used by Proofs/ReservoirTopK.v:
   - the merge sort [msort] of Combiners/ReservoirTopK.v returns a sorted permutation of its input
     (for a total, transitive comparison);
   - a list sorted by an order that is antisymmetric on its elements is determined by its
     multiset (two sorted permutations of each other are equal);
   - counting the elements above a given one ([cnt]). *)
From Coq Require Import List Arith Bool Lia Permutation Sorting.Sorted.
From IB Require Import Combiners.ReservoirTopK.
Import ListNotations.

Section MSortProofs.
  Context {A : Type}.
  Variable leb : A -> A -> bool.
  Hypothesis leb_total : forall a b, leb a b = true \/ leb b a = true.
  Hypothesis leb_trans : forall a b c, leb a b = true -> leb b c = true -> leb a c = true.
  Let le (a b : A) : Prop := leb a b = true.

  Lemma ms_merge_nil_l : forall l2, ms_merge leb [] l2 = l2.
  Proof. intros [|b l2]; reflexivity. Qed.
  Lemma ms_merge_nil_r : forall l1, ms_merge leb l1 [] = l1.
  Proof. intros [|a l1]; reflexivity. Qed.
  Lemma ms_merge_cons : forall a1 l1 a2 l2,
    ms_merge leb (a1 :: l1) (a2 :: l2) =
    if leb a1 a2 then a1 :: ms_merge leb l1 (a2 :: l2) else a2 :: ms_merge leb (a1 :: l1) l2.
  Proof. intros. reflexivity. Qed.

  Lemma ms_merge_perm : forall l1 l2, Permutation (ms_merge leb l1 l2) (l1 ++ l2).
  Proof.
    induction l1 as [|a1 l1 IH1]; intros l2.
    - rewrite ms_merge_nil_l. apply Permutation_refl.
    - induction l2 as [|a2 l2 IH2].
      + rewrite ms_merge_nil_r, app_nil_r. apply Permutation_refl.
      + rewrite ms_merge_cons. destruct (leb a1 a2).
        * cbn [app]. apply perm_skip. apply IH1.
        * eapply Permutation_trans; [apply perm_skip, IH2|].
          apply (Permutation_middle (a1 :: l1) l2 a2).
  Qed.

  Lemma ms_merge_sorted : forall l1 l2,
    StronglySorted le l1 -> StronglySorted le l2 -> StronglySorted le (ms_merge leb l1 l2).
  Proof.
    induction l1 as [|a1 l1 IH1]; intros l2 H1 H2.
    - rewrite ms_merge_nil_l. exact H2.
    - induction l2 as [|a2 l2 IH2].
      + rewrite ms_merge_nil_r. exact H1.
      + rewrite ms_merge_cons. destruct (leb a1 a2) eqn:E.
        * apply StronglySorted_inv in H1. destruct H1 as [H1 F1].
          constructor; [apply IH1; assumption|].
          eapply Permutation_Forall; [apply Permutation_sym, ms_merge_perm|].
          apply Forall_app. split; [exact F1|].
          apply StronglySorted_inv in H2. destruct H2 as [_ F2].
          constructor; [exact E|].
          eapply Forall_impl; [|exact F2]. intros c Hc. exact (leb_trans _ _ _ E Hc).
        * assert (E' : leb a2 a1 = true).
          { destruct (leb_total a1 a2) as [X|X]; [rewrite X in E; discriminate|exact X]. }
          pose proof H2 as H2'.
          apply StronglySorted_inv in H2. destruct H2 as [H2 F2].
          constructor; [apply IH2; assumption|].
          eapply Permutation_Forall; [apply Permutation_sym, ms_merge_perm|].
          apply Forall_app. split; [|exact F2].
          apply StronglySorted_inv in H1. destruct H1 as [_ F1].
          constructor; [exact E'|].
          eapply Forall_impl; [|exact F1]. intros c Hc. exact (leb_trans _ _ _ E' Hc).
  Qed.

  (* the stack of the bottom-up sort: every present run is sorted; its content *)
  Fixpoint stack_flat (stack : list (option (list A))) : list A :=
    match stack with
    | [] => []
    | None :: s => stack_flat s
    | Some l :: s => l ++ stack_flat s
    end.
  Definition stack_sorted (stack : list (option (list A))) : Prop :=
    Forall (fun o => match o with Some l => StronglySorted le l | None => True end) stack.

  Lemma ms_push_perm : forall stack l,
    Permutation (stack_flat (ms_push leb stack l)) (l ++ stack_flat stack).
  Proof.
    induction stack as [|[l'|] s IH]; intros l; cbn [ms_push stack_flat].
    - apply Permutation_refl.
    - eapply Permutation_trans; [apply IH|].
      eapply Permutation_trans; [apply Permutation_app_tail, ms_merge_perm|].
      rewrite <- app_assoc.
      rewrite !app_assoc. apply Permutation_app_tail. apply Permutation_app_comm.
    - apply Permutation_refl.
  Qed.
  Lemma ms_push_sorted : forall stack l,
    stack_sorted stack -> StronglySorted le l -> stack_sorted (ms_push leb stack l).
  Proof.
    induction stack as [|[l'|] s IH]; intros l Hs Hl; cbn [ms_push].
    - constructor; [exact Hl|constructor].
    - inversion Hs as [|o s' Ho Hs']; subst. constructor; [exact I|].
      apply IH; [exact Hs'|]. apply ms_merge_sorted; assumption.
    - inversion Hs as [|o s' Ho Hs']; subst. constructor; assumption.
  Qed.
  Lemma ms_flush_perm : forall stack, Permutation (ms_flush leb stack) (stack_flat stack).
  Proof.
    induction stack as [|[l|] s IH]; cbn [ms_flush stack_flat].
    - apply Permutation_refl.
    - eapply Permutation_trans; [apply ms_merge_perm|]. apply Permutation_app_head. exact IH.
    - exact IH.
  Qed.
  Lemma ms_flush_sorted : forall stack, stack_sorted stack -> StronglySorted le (ms_flush leb stack).
  Proof.
    induction stack as [|[l|] s IH]; intros Hs; cbn [ms_flush].
    - constructor.
    - inversion Hs as [|o s' Ho Hs']; subst. apply ms_merge_sorted; [exact Ho|apply IH; exact Hs'].
    - inversion Hs as [|o s' Ho Hs']; subst. apply IH. exact Hs'.
  Qed.
  Lemma ms_iter_perm : forall l stack,
    Permutation (ms_iter leb stack l) (l ++ stack_flat stack).
  Proof.
    induction l as [|a l IH]; intros stack; cbn [ms_iter].
    - apply ms_flush_perm.
    - eapply Permutation_trans; [apply IH|].
      eapply Permutation_trans; [apply Permutation_app_head, ms_push_perm|].
      cbn [app]. apply Permutation_sym, Permutation_middle.
  Qed.
  Lemma ms_iter_sorted : forall l stack,
    stack_sorted stack -> StronglySorted le (ms_iter leb stack l).
  Proof.
    induction l as [|a l IH]; intros stack Hs; cbn [ms_iter].
    - apply ms_flush_sorted. exact Hs.
    - apply IH. apply ms_push_sorted; [exact Hs|]. constructor; constructor.
  Qed.

  Theorem msort_perm : forall l, Permutation (msort leb l) l.
  Proof.
    intros l. unfold msort. eapply Permutation_trans; [apply ms_iter_perm|].
    cbn [stack_flat]. rewrite app_nil_r. apply Permutation_refl.
  Qed.
  Theorem msort_sorted : forall l, StronglySorted le (msort leb l).
  Proof. intros l. unfold msort. apply ms_iter_sorted. constructor. Qed.
End MSortProofs.

Section Unique.
  Context {A : Type}.
  Variable le : A -> A -> Prop.

  (* two sorted lists with the same elements are equal when the order is antisymmetric on them *)
  Lemma sorted_perm_unique : forall l1 l2,
    StronglySorted le l1 -> StronglySorted le l2 -> Permutation l1 l2 ->
    (forall a b, In a l1 -> In b l1 -> le a b -> le b a -> a = b) ->
    l1 = l2.
  Proof.
    induction l1 as [|a l1 IH]; intros l2 H1 H2 HP Hanti.
    - apply Permutation_nil in HP. symmetry. exact HP.
    - destruct l2 as [|b l2]; [apply Permutation_sym, Permutation_nil in HP; discriminate|].
      apply StronglySorted_inv in H1. destruct H1 as [H1 F1].
      apply StronglySorted_inv in H2. destruct H2 as [H2 F2].
      assert (Eab : a = b).
      { assert (Ia : In a (b :: l2)) by (eapply Permutation_in; [exact HP|left; reflexivity]).
        assert (Ib : In b (a :: l1))
          by (eapply Permutation_in; [apply Permutation_sym, HP|left; reflexivity]).
        destruct Ia as [Ea|Ia]; [symmetry; exact Ea|].
        destruct Ib as [Eb|Ib]; [exact Eb|].
        rewrite Forall_forall in F1, F2.
        apply Hanti; [left; reflexivity|right; exact Ib|apply F1; exact Ib|apply F2; exact Ia]. }
      subst b. f_equal. apply IH; [exact H1|exact H2|eapply Permutation_cons_inv; exact HP|].
      intros x y Hx Hy. apply Hanti; right; assumption.
  Qed.

  Lemma StronglySorted_remove_mid : forall l1 x l2,
    StronglySorted le (l1 ++ x :: l2) -> StronglySorted le (l1 ++ l2).
  Proof.
    induction l1 as [|a l1 IH]; intros x l2 H; cbn [app] in *.
    - apply StronglySorted_inv in H. exact (proj1 H).
    - apply StronglySorted_inv in H. destruct H as [H F].
      constructor; [eapply IH; exact H|].
      apply Forall_app in F. destruct F as [Fa Fb]. apply Forall_app. split; [exact Fa|].
      inversion Fb; assumption.
  Qed.

  Lemma StronglySorted_app : forall l1 l2,
    StronglySorted le l1 -> StronglySorted le l2 ->
    (forall a b, In a l1 -> In b l2 -> le a b) ->
    StronglySorted le (l1 ++ l2).
  Proof.
    induction l1 as [|a l1 IH]; intros l2 H1 H2 Hc; cbn [app]; [exact H2|].
    apply StronglySorted_inv in H1. destruct H1 as [H1 F1].
    constructor.
    - apply IH; [exact H1|exact H2|]. intros x y Hx Hy. apply Hc; [right; exact Hx|exact Hy].
    - apply Forall_app. split; [exact F1|]. apply Forall_forall. intros y Hy.
      apply Hc; [left; reflexivity|exact Hy].
  Qed.

  (* in a sorted list, everything before an element is below it and everything after above *)
  Lemma StronglySorted_split : forall l1 x l2,
    StronglySorted le (l1 ++ x :: l2) ->
    (forall a, In a l1 -> le a x) /\ (forall b, In b l2 -> le x b).
  Proof.
    induction l1 as [|a l1 IH]; intros x l2 H; cbn [app] in *.
    - apply StronglySorted_inv in H. destruct H as [_ F]. rewrite Forall_forall in F.
      split; [intros a []|exact F].
    - apply StronglySorted_inv in H. destruct H as [H F].
      destruct (IH _ _ H) as [Ha Hb]. split; [|exact Hb].
      intros c [Ec|Hc]; [|apply Ha; exact Hc]. subst c.
      rewrite Forall_forall in F. apply F. apply in_or_app. right. left. reflexivity.
  Qed.
End Unique.

Lemma NoDup_app_left : forall {A} (l1 l2 : list A), NoDup (l1 ++ l2) -> NoDup l1.
Proof.
  intros A l1 l2. induction l1 as [|a l1 IH]; intros H; [constructor|].
  cbn [app] in H. inversion H as [|x l Hn Hd]; subst. constructor; [|apply IH; exact Hd].
  intros Hin. apply Hn. apply in_or_app. left. exact Hin.
Qed.

(* ---------------------------------------------------------------- counting *)
Section Count.
  Context {A : Type}.
  Definition cnt (p : A -> bool) (l : list A) : nat := length (filter p l).

  Lemma cnt_app : forall p l1 l2, cnt p (l1 ++ l2) = cnt p l1 + cnt p l2.
  Proof. intros. unfold cnt. rewrite filter_app, app_length. reflexivity. Qed.
  Lemma cnt_perm : forall p l1 l2, Permutation l1 l2 -> cnt p l1 = cnt p l2.
  Proof.
    intros p l1 l2 H. unfold cnt. induction H as [|x l l' H IH|x y l|l l' l'' H1 IH1 H2 IH2].
    - reflexivity.
    - cbn [filter]. destruct (p x); cbn [length]; rewrite IH; reflexivity.
    - cbn [filter]. destruct (p x), (p y); reflexivity.
    - rewrite IH1. exact IH2.
  Qed.
  Lemma cnt_all : forall p l, (forall x, In x l -> p x = true) -> cnt p l = length l.
  Proof.
    intros p l H. unfold cnt. induction l as [|x l IH]; [reflexivity|].
    cbn [filter]. rewrite (H x (or_introl eq_refl)). cbn [length]. f_equal.
    apply IH. intros y Hy. apply H. right. exact Hy.
  Qed.
  Lemma cnt_none : forall p l, (forall x, In x l -> p x = false) -> cnt p l = 0.
  Proof.
    intros p l H. unfold cnt. induction l as [|x l IH]; [reflexivity|].
    cbn [filter]. rewrite (H x (or_introl eq_refl)).
    apply IH. intros y Hy. apply H. right. exact Hy.
  Qed.
  Lemma cnt_cons_ge : forall p x l, cnt p l <= cnt p (x :: l).
  Proof. intros p x l. unfold cnt. cbn [filter]. destruct (p x); cbn [length]; lia. Qed.
  Lemma cnt_le_length : forall p l, cnt p l <= length l.
  Proof.
    intros p l. unfold cnt. induction l as [|x l IH]; [apply le_n|].
    cbn [filter]. destruct (p x); cbn [length]; lia.
  Qed.
End Count.

(* ---------------------------------------------------------------- sorting commutes with an
   order-preserving relabelling *)
Section MSortMap.
  Context {A B : Type}.
  Variable f : A -> B.
  Variable leb : A -> A -> bool.
  Variable leb' : B -> B -> bool.
  Hypothesis leb_f : forall x y, leb' (f x) (f y) = leb x y.

  Lemma ms_merge_map : forall l1 l2,
    ms_merge leb' (map f l1) (map f l2) = map f (ms_merge leb l1 l2).
  Proof.
    induction l1 as [|a1 l1 IH1]; intros l2.
    - cbn [map]. destruct l2; reflexivity.
    - induction l2 as [|a2 l2 IH2].
      + cbn [map]. reflexivity.
      + cbn [map]. change (ms_merge leb' (f a1 :: map f l1) (f a2 :: map f l2))
          with (if leb' (f a1) (f a2) then f a1 :: ms_merge leb' (map f l1) (f a2 :: map f l2)
                else f a2 :: ms_merge leb' (f a1 :: map f l1) (map f l2)).
        change (ms_merge leb (a1 :: l1) (a2 :: l2))
          with (if leb a1 a2 then a1 :: ms_merge leb l1 (a2 :: l2)
                else a2 :: ms_merge leb (a1 :: l1) l2).
        rewrite leb_f. destruct (leb a1 a2); cbn [map].
        * f_equal. exact (IH1 (a2 :: l2)).
        * f_equal. exact IH2.
  Qed.

  Definition stack_map (s : list (option (list A))) : list (option (list B)) :=
    map (option_map (map f)) s.
  Lemma ms_push_map : forall s l,
    ms_push leb' (stack_map s) (map f l) = stack_map (ms_push leb s l).
  Proof.
    induction s as [|[l'|] s IH]; intros l; cbn [stack_map map option_map ms_push].
    - reflexivity.
    - fold (stack_map s). rewrite ms_merge_map, IH. reflexivity.
    - reflexivity.
  Qed.
  Lemma ms_flush_map : forall s, ms_flush leb' (stack_map s) = map f (ms_flush leb s).
  Proof.
    induction s as [|[l|] s IH]; cbn [stack_map map option_map ms_flush].
    - reflexivity.
    - fold (stack_map s). rewrite IH, ms_merge_map. reflexivity.
    - exact IH.
  Qed.
  Lemma ms_iter_map : forall l s,
    ms_iter leb' (stack_map s) (map f l) = map f (ms_iter leb s l).
  Proof.
    induction l as [|a l IH]; intros s; cbn [map ms_iter].
    - apply ms_flush_map.
    - rewrite <- IH. f_equal. exact (ms_push_map s [a]).
  Qed.
  Theorem msort_map : forall l, msort leb' (map f l) = map f (msort leb l).
  Proof. intros l. unfold msort. exact (ms_iter_map l []). Qed.
End MSortMap.
