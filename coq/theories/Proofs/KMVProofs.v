(* Proofs about the KMV sketch model (Combiners/KMV.v): an accumulator obtained in ANY way through
   create / add_input / merge / build_from_group holds exactly the k smallest distinct ranks of
   everything that went in. Ranks: any type with a Boolean strict total order. *)
From Coq Require Import List Bool Arith Lia Permutation Sorted.
From IB Require Import Combiners.Lawful Combiners.KMV.
Import ListNotations.

Section KMVProofs.
  Context {R : Type} (ltb eqb : R -> R -> bool).
  Hypothesis ltb_irrefl : forall a, ltb a a = false.
  Hypothesis ltb_trans : forall a b c, ltb a b = true -> ltb b c = true -> ltb a c = true.
  Hypothesis ltb_total : forall a b, ltb a b = false -> ltb b a = false -> a = b.
  Hypothesis eqb_eq : forall a b, eqb a b = true <-> a = b.

  Local Notation lt := (fun a b => ltb a b = true).
  Local Notation sorted := (StronglySorted lt).
  Local Notation uinsert := (uinsert ltb eqb).
  Local Notation usort := (usort ltb eqb).
  Local Notation ksmallest := (ksmallest ltb eqb).
  Local Notation try_insert := (try_insert ltb eqb).
  Local Notation merge_from := (merge_from ltb eqb).
  Local Notation kmv_build := (kmv_build ltb eqb).

  Lemma eqb_refl : forall a, eqb a a = true.
  Proof. intro a. apply eqb_eq. reflexivity. Qed.

  Lemma eqb_false_iff : forall a b, eqb a b = false <-> a <> b.
  Proof.
    intros a b. split.
    - intros H E. apply eqb_eq in E. congruence.
    - intro H. destruct (eqb a b) eqn:E; [apply eqb_eq in E; contradiction | reflexivity].
  Qed.

  Lemma ltb_asym : forall a b, ltb a b = true -> ltb b a = false.
  Proof.
    intros a b H. destruct (ltb b a) eqn:E; [|reflexivity].
    pose proof (ltb_trans _ _ _ H E) as C. rewrite ltb_irrefl in C. discriminate.
  Qed.

  Lemma ltb_neq : forall a b, ltb a b = true -> a <> b.
  Proof. intros a b H E. subst. rewrite ltb_irrefl in H. discriminate. Qed.

  (* ---------------------------------------------------------------- uinsert / usort *)
  Lemma uinsert_in : forall r l x, In x (uinsert r l) <-> x = r \/ In x l.
  Proof.
    intros r l x. induction l as [|y t IH]; cbn [KMV.uinsert].
    - cbn. intuition.
    - destruct (ltb r y) eqn:L.
      + cbn. intuition.
      + destruct (eqb r y) eqn:E.
        * apply eqb_eq in E. subst y. cbn. intuition.
        * cbn [In]. rewrite IH. intuition.
  Qed.

  Lemma uinsert_sorted : forall r l, sorted l -> sorted (uinsert r l).
  Proof.
    intros r l H. induction H as [|y t Ht IH Hy]; cbn [KMV.uinsert].
    - constructor; constructor.
    - destruct (ltb r y) eqn:L.
      + constructor.
        * constructor; assumption.
        * constructor; [exact L|].
          rewrite Forall_forall in Hy |- *. intros z Hz. eapply ltb_trans; [exact L|auto].
      + destruct (eqb r y) eqn:E.
        * constructor; assumption.
        * constructor; [exact IH|].
          rewrite Forall_forall in Hy |- *. intros z Hz. apply uinsert_in in Hz.
          destruct Hz as [->|Hz]; [|auto].
          destruct (ltb y r) eqn:L2; [reflexivity|].
          apply eqb_false_iff in E. exfalso. apply E. apply ltb_total; assumption.
  Qed.

  Lemma usort_sorted : forall l, sorted (usort l).
  Proof.
    induction l as [|x t IH]; cbn; [constructor | apply uinsert_sorted; exact IH].
  Qed.

  Lemma usort_in : forall l x, In x (usort l) <-> In x l.
  Proof.
    induction l as [|y t IH]; intro x; cbn; [tauto|].
    rewrite uinsert_in, IH. intuition.
  Qed.

  Lemma sorted_nodup : forall l, sorted l -> NoDup l.
  Proof.
    intros l H. induction H as [|y t Ht IH Hy]; constructor; [|exact IH].
    intro Hin. rewrite Forall_forall in Hy. apply Hy in Hin. rewrite ltb_irrefl in Hin.
    discriminate.
  Qed.

  (* strictly sorted lists with the same elements are equal *)
  Lemma sorted_ext : forall l1 l2, sorted l1 -> sorted l2 ->
    (forall x, In x l1 <-> In x l2) -> l1 = l2.
  Proof.
    intros l1 l2 H1. revert l2.
    induction H1 as [|a t1 Ht1 IH Ha]; intros l2 H2 Hext.
    - destruct l2 as [|b t2]; [reflexivity|]. exfalso. apply (Hext b). left. reflexivity.
    - destruct H2 as [|b t2 Ht2 Hb].
      + exfalso. apply (Hext a). left. reflexivity.
      + rewrite Forall_forall in Ha, Hb.
        assert (Hab : a = b).
        { assert (Ia : In a (b :: t2)) by (apply Hext; left; reflexivity).
          assert (Ib : In b (a :: t1)) by (apply Hext; left; reflexivity).
          destruct Ia as [->|Ia]; [reflexivity|]. destruct Ib as [->|Ib]; [reflexivity|].
          apply Hb in Ia. apply Ha in Ib. apply ltb_asym in Ia. congruence. }
        subst b. f_equal. apply IH; [exact Ht2|].
        intro x. split; intro Hx.
        * assert (I : In x (a :: t2)) by (apply Hext; right; exact Hx).
          destruct I as [->|I]; [|exact I].
          apply Ha in Hx. rewrite ltb_irrefl in Hx. discriminate.
        * assert (I : In x (a :: t1)) by (apply Hext; right; exact Hx).
          destruct I as [->|I]; [|exact I].
          apply Hb in Hx. rewrite ltb_irrefl in Hx. discriminate.
  Qed.

  Lemma usort_ext : forall l l', (forall x, In x l <-> In x l') -> usort l = usort l'.
  Proof.
    intros l l' H. apply sorted_ext; try apply usort_sorted.
    intro x. rewrite !usort_in. apply H.
  Qed.

  Lemma usort_idem : forall l, sorted l -> usort l = l.
  Proof.
    intros l H. apply sorted_ext; [apply usort_sorted | exact H | apply usort_in].
  Qed.

  Lemma usort_app : forall a b, usort (a ++ b) = fold_right uinsert (usort b) a.
  Proof. intros a b. unfold KMV.usort. apply fold_right_app. Qed.

  Lemma usort_app_comm : forall a b, usort (a ++ b) = usort (b ++ a).
  Proof. intros a b. apply usort_ext. intro x. rewrite !in_app_iff. tauto. Qed.

  Lemma sorted_firstn : forall k l, sorted l -> sorted (firstn k l).
  Proof.
    induction k as [|k IH]; intros l H; [constructor|].
    destruct H as [|y t Ht Hy]; cbn; [constructor|].
    constructor; [apply IH; exact Ht|].
    rewrite Forall_forall in Hy |- *. intros z Hz. apply Hy.
    rewrite <- (firstn_skipn k t). apply in_or_app. left. exact Hz.
  Qed.

  (* ---------------------------------------------------------------- truncation commutes *)
  Lemma firstn_cons_firstn : forall k (y : R) t, firstn k (y :: firstn k t) = firstn k (y :: t).
  Proof.
    intros [|k] y t; [reflexivity|]. rewrite !firstn_cons. f_equal.
    rewrite firstn_firstn. f_equal. lia.
  Qed.

  Lemma firstn_uinsert_firstn : forall L k r,
    firstn k (uinsert r (firstn k L)) = firstn k (uinsert r L).
  Proof.
    induction L as [|y t IH]; intros k r.
    - destruct k; reflexivity.
    - destruct k as [|k]; [reflexivity|].
      cbn [firstn KMV.uinsert]. destruct (ltb r y) eqn:L1.
      + cbn [firstn]. f_equal. apply firstn_cons_firstn.
      + destruct (eqb r y) eqn:E.
        * cbn [firstn]. f_equal. rewrite firstn_firstn. f_equal. lia.
        * cbn [firstn]. f_equal. apply IH.
  Qed.

  Lemma firstn_fold_uinsert_firstn : forall xs L k,
    firstn k (fold_right uinsert (firstn k L) xs) = firstn k (fold_right uinsert L xs).
  Proof.
    induction xs as [|x xs IH]; intros L k; cbn [fold_right].
    - rewrite firstn_firstn. f_equal. lia.
    - rewrite <- firstn_uinsert_firstn. rewrite IH. apply firstn_uinsert_firstn.
  Qed.

  (* ---------------------------------------------------------------- try_insert *)
  Lemma mem_in : forall r l, kmv_mem eqb r l = true <-> In r l.
  Proof.
    intros r l. unfold kmv_mem. rewrite existsb_exists. split.
    - intros [x [Hx E]]. apply eqb_eq in E. subst. exact Hx.
    - intro H. exists r. split; [exact H | apply eqb_refl].
  Qed.

  Lemma push_uinsert : forall r l, ~ In r l -> kmv_push ltb r l = uinsert r l.
  Proof.
    intros r l. induction l as [|y t IH]; intro H; cbn; [reflexivity|].
    destruct (ltb r y); [reflexivity|].
    assert (E : eqb r y = false) by (apply eqb_false_iff; intro; subst; apply H; left; reflexivity).
    rewrite E. f_equal. apply IH. intro I. apply H. right. exact I.
  Qed.

  Lemma uinsert_member : forall r l, sorted l -> In r l -> uinsert r l = l.
  Proof.
    intros r l H. induction H as [|y t Ht IH Hy]; intro I; [destruct I|].
    cbn [KMV.uinsert]. destruct I as [->|I].
    - rewrite ltb_irrefl, eqb_refl. reflexivity.
    - rewrite Forall_forall in Hy. pose proof (Hy _ I) as Lyr.
      rewrite (ltb_asym _ _ Lyr).
      assert (E : eqb r y = false) by (apply eqb_false_iff; intro; subst; rewrite ltb_irrefl in Lyr; discriminate).
      rewrite E. f_equal. apply IH. exact I.
  Qed.

  Lemma length_uinsert_new : forall r l, ~ In r l -> length (uinsert r l) = S (length l).
  Proof.
    intros r l. induction l as [|y t IH]; intro H; cbn; [reflexivity|].
    destruct (ltb r y); [reflexivity|].
    assert (E : eqb r y = false) by (apply eqb_false_iff; intro; subst; apply H; left; reflexivity).
    rewrite E. cbn. f_equal. apply IH. intro I. apply H. right. exact I.
  Qed.

  Lemma unsnoc_spec : forall (l i : list R) (z : R), unsnoc l = Some (i, z) -> l = i ++ [z].
  Proof.
    induction l as [|x t IH]; intros i z H; cbn in H; [discriminate|].
    destruct (unsnoc t) as [[i' z']|] eqn:U.
    - inversion H; subst. cbn. f_equal. apply IH. reflexivity.
    - inversion H; subst. destruct t as [|y t']; [reflexivity|].
      cbn in U. destruct (unsnoc t') as [[? ?]|]; discriminate.
  Qed.

  Lemma unsnoc_none : forall (l : list R), unsnoc l = None -> l = [].
  Proof.
    intros [|x t] H; [reflexivity|]. cbn in H. destruct (unsnoc t) as [[? ?]|]; discriminate.
  Qed.

  Lemma uinsert_before_last : forall r i z, ltb r z = true ->
    uinsert r (i ++ [z]) = uinsert r i ++ [z].
  Proof.
    intros r i z L. induction i as [|y t IH]; cbn.
    - rewrite L. reflexivity.
    - destruct (ltb r y); [reflexivity|]. destruct (eqb r y); [reflexivity|].
      cbn. f_equal. exact IH.
  Qed.

  Lemma uinsert_after_all : forall r l, Forall (fun y => ltb y r = true) l ->
    uinsert r l = l ++ [r].
  Proof.
    intros r l H. induction H as [|y t Hy Ht IH]; cbn; [reflexivity|].
    rewrite (ltb_asym _ _ Hy).
    assert (E : eqb r y = false) by (apply eqb_false_iff; intro; subst; rewrite ltb_irrefl in Hy; discriminate).
    rewrite E. f_equal. exact IH.
  Qed.

  Lemma sorted_snoc_all_le : forall i z, sorted (i ++ [z]) -> Forall (fun y => ltb y z = true) i.
  Proof.
    induction i as [|y t IH]; intros z H; [constructor|].
    cbn in H. inversion H as [|? ? Ht Hy]; subst. constructor.
    - rewrite Forall_forall in Hy. apply Hy. apply in_or_app. right. left. reflexivity.
    - apply IH. exact Ht.
  Qed.

  (* the key step: on a well-formed accumulator try_insert = "insert, keep the k smallest" *)
  Lemma try_insert_items : forall l k r,
    sorted l -> length l <= k -> 1 <= k ->
    try_insert {| k_items := l; k_k := k |} r
    = {| k_items := firstn k (uinsert r l); k_k := k |}.
  Proof.
    intros l k r Hs Hlen Hk. unfold KMV.try_insert. cbn [k_items k_k].
    destruct (kmv_mem eqb r l) eqn:M.
    - apply mem_in in M. rewrite (uinsert_member _ _ Hs M).
      rewrite firstn_all2 by exact Hlen. reflexivity.
    - assert (NI : ~ In r l) by (intro I; apply mem_in in I; congruence).
      destruct (length l <? k) eqn:LK.
      + apply Nat.ltb_lt in LK. rewrite (push_uinsert _ _ NI).
        rewrite firstn_all2; [reflexivity|]. rewrite (length_uinsert_new _ _ NI). lia.
      + apply Nat.ltb_ge in LK. assert (Hl : length l = k) by lia.
        destruct (unsnoc l) as [[i z]|] eqn:U.
        * apply unsnoc_spec in U. subst l.
          rewrite app_length in Hl. cbn in Hl.
          assert (NIi : ~ In r i) by (intro I; apply NI; apply in_or_app; left; exact I).
          destruct (ltb r z) eqn:Lrz.
          -- rewrite (push_uinsert _ _ NIi). rewrite (uinsert_before_last _ _ _ Lrz).
             rewrite firstn_app.
             rewrite (length_uinsert_new _ _ NIi).
             replace (k - S (length i)) with 0 by lia. cbn [firstn]. rewrite app_nil_r.
             rewrite firstn_all2; [reflexivity|]. rewrite (length_uinsert_new _ _ NIi). lia.
          -- assert (Lzr : ltb z r = true).
             { destruct (ltb z r) eqn:E; [reflexivity|]. exfalso. apply NI.
               apply in_or_app. right. left. apply ltb_total; assumption. }
             pose proof (sorted_snoc_all_le _ _ Hs) as Hall.
             rewrite uinsert_after_all.
             ++ rewrite firstn_app. rewrite app_length. cbn [length].
                replace (k - (length i + 1)) with 0 by lia. cbn [firstn]. rewrite app_nil_r.
                rewrite firstn_all2; [reflexivity|]. rewrite app_length. cbn. lia.
             ++ apply Forall_app. split.
                ** rewrite Forall_forall in Hall |- *. intros y Hy.
                   eapply ltb_trans; [apply Hall; exact Hy | exact Lzr].
                ** constructor; [exact Lzr | constructor].
        * apply unsnoc_none in U. subst l. cbn in Hl. lia.
  Qed.

  (* ---------------------------------------------------------------- representation *)
  (* accumulator a stands for the multiset of ranks m (sketch size k >= 1) *)
  Definition krep (k : nat) (a : kmv R) (m : list R) : Prop :=
    1 <= k /\ k_k a = k /\ k_items a = ksmallest k m.

  Lemma ksmallest_sorted : forall k m, sorted (ksmallest k m).
  Proof. intros. apply sorted_firstn. apply usort_sorted. Qed.

  Lemma ksmallest_length : forall k m, length (ksmallest k m) <= k.
  Proof. intros. unfold KMV.ksmallest. apply firstn_le_length. Qed.

  Lemma krep_new : forall k, krep (Nat.max k 4) (kmv_new k) [].
  Proof. intro k. unfold krep, kmv_new. cbn. repeat split; try lia. destruct (Nat.max k 4); reflexivity. Qed.

  Lemma krep_add : forall k a m r, krep k a m -> krep k (try_insert a r) (r :: m).
  Proof.
    intros k a m r (Hk & Hkk & Hit). destruct a as [l k0]. cbn in Hkk, Hit. subst k0 l.
    rewrite try_insert_items; [|apply ksmallest_sorted|apply ksmallest_length|exact Hk].
    unfold krep. cbn [k_items k_k]. repeat split; [exact Hk|].
    unfold KMV.ksmallest. rewrite firstn_uinsert_firstn. reflexivity.
  Qed.

  (* folding try_insert over a list of ranks *)
  Lemma fold_try_insert : forall rs k a m,
    krep k a m -> krep k (fold_left try_insert rs a) (rev rs ++ m).
  Proof.
    induction rs as [|r rs IH]; intros k a m H; cbn [fold_left rev app]; [exact H|].
    rewrite <- app_assoc. cbn [app]. apply IH. apply krep_add. exact H.
  Qed.

  Lemma krep_ext : forall k a m m', krep k a m -> (forall x, In x m <-> In x m') -> krep k a m'.
  Proof.
    intros k a m m' (Hk & Hkk & Hit) E. repeat split; [exact Hk | exact Hkk|].
    rewrite Hit. unfold KMV.ksmallest. f_equal. apply usort_ext. exact E.
  Qed.

  Lemma krep_build : forall k rs, krep (Nat.max k 4) (kmv_build k rs) rs.
  Proof.
    intros k rs. unfold KMV.kmv_build.
    apply krep_ext with (m := rev rs ++ []).
    - apply fold_try_insert. apply krep_new.
    - intro x. rewrite app_nil_r. symmetry. apply in_rev.
  Qed.

  (* k smallest of (m ++ the k smallest of m') = k smallest of (m ++ m') *)
  Lemma ksmallest_absorb : forall k m m',
    ksmallest k (m ++ ksmallest k m') = ksmallest k (m ++ m').
  Proof.
    intros k m m'. unfold KMV.ksmallest at 1 3.
    rewrite !usort_app.
    rewrite (usort_idem _ (ksmallest_sorted k m')).
    unfold KMV.ksmallest. apply firstn_fold_uinsert_firstn.
  Qed.

  Lemma krep_merge : forall k a b m m',
    krep k a m -> krep k b m' -> krep k (merge_from a b) (m ++ m').
  Proof.
    intros k a b m m' Ha (Hk & Hbk & Hbi). unfold KMV.merge_from. rewrite Hbi.
    pose proof (fold_try_insert (rev (ksmallest k m')) k a m Ha) as H.
    rewrite rev_involutive in H.
    destruct H as (_ & Hkk & Hit). repeat split; [exact Hk | exact Hkk|].
    rewrite Hit.
    (* ksmallest k (ksmallest k m' ++ m) = ksmallest k (m ++ m') *)
    unfold KMV.ksmallest at 1. rewrite usort_app_comm. fold (ksmallest k (m ++ ksmallest k m')).
    apply ksmallest_absorb.
  Qed.

  (* ---------------------------------------------------------------- finish *)
  Lemma unsnoc_last : forall (l : list R), l <> [] ->
    exists i z, unsnoc l = Some (i, z) /\ l = i ++ [z].
  Proof.
    intros l H. destruct (unsnoc l) as [[i z]|] eqn:U.
    - exists i, z. split; [reflexivity | apply unsnoc_spec; exact U].
    - apply unsnoc_none in U. contradiction.
  Qed.

  Lemma krep_finish : forall k a m, krep k a m -> kmv_finish a = kmv_spec ltb eqb k m.
  Proof.
    intros k a m (Hk & Hkk & Hit). unfold kmv_finish, kmv_spec. rewrite Hkk, Hit.
    unfold KMV.ksmallest. set (u := usort m). rewrite firstn_length.
    destruct (length u <? k) eqn:LK.
    - apply Nat.ltb_lt in LK. rewrite Nat.min_r by lia.
      destruct (length u =? 0) eqn:Z.
      + apply Nat.eqb_eq in Z. rewrite Z. reflexivity.
      + assert (LK' : (length u <? k) = true) by (apply Nat.ltb_lt; exact LK).
        rewrite LK'. reflexivity.
    - apply Nat.ltb_ge in LK. rewrite Nat.min_l by lia.
      assert (Z : (k =? 0) = false) by (apply Nat.eqb_neq; lia). rewrite Z.
      rewrite Nat.ltb_irrefl.
      assert (NE : firstn k u <> []).
      { intro E. apply (f_equal (@length R)) in E. rewrite firstn_length in E. cbn in E. lia. }
      destruct (unsnoc_last _ NE) as (i & z & U & E). rewrite U.
      assert (Li : length i = k - 1).
      { apply (f_equal (@length R)) in E. rewrite firstn_length, app_length in E. cbn in E. lia. }
      assert (N : nth_error u (k - 1) = Some z).
      { rewrite <- (firstn_skipn k u). rewrite nth_error_app1 by (rewrite firstn_length; lia).
        rewrite E. rewrite nth_error_app2 by lia. rewrite Li, Nat.sub_diag. reflexivity. }
      rewrite N. reflexivity.
  Qed.

  (* ---------------------------------------------------------------- all accumulator expressions *)
  Theorem kmv_represents : forall k (e : aexpr R),
    krep (Nat.max k 4) (aeval (kmv_combiner ltb eqb k) e) (avalues e).
  Proof.
    intros k e. induction e as [|e IH v|l IHl r IHr|vs]; cbn [aeval avalues kmv_combiner c_create c_add c_merge c_build].
    - apply krep_new.
    - apply krep_add. exact IH.
    - apply krep_merge; assumption.
    - apply krep_build.
  Qed.

  Theorem kmv_items : forall k (e : aexpr R),
    k_items (aeval (kmv_combiner ltb eqb k) e) = ksmallest (Nat.max k 4) (avalues e).
  Proof. intros k e. apply (kmv_represents k e). Qed.

  Theorem kmv_finish_spec : forall k (e : aexpr R),
    kmv_finish (aeval (kmv_combiner ltb eqb k) e) = kmv_spec ltb eqb (Nat.max k 4) (avalues e).
  Proof. intros k e. eapply krep_finish. apply kmv_represents. Qed.

  Theorem kmv_exact_below_k : forall k (e : aexpr R),
    length (usort (avalues e)) < Nat.max k 4 ->
    kmv_finish (aeval (kmv_combiner ltb eqb k) e) = KCount (length (usort (avalues e))).
  Proof.
    intros k e H. rewrite kmv_finish_spec. unfold kmv_spec.
    apply Nat.ltb_lt in H. rewrite H. reflexivity.
  Qed.

  Theorem kmv_partition_independent : forall k (e1 e2 : aexpr R),
    (forall x, In x (avalues e1) <-> In x (avalues e2)) ->
    kmv_finish (aeval (kmv_combiner ltb eqb k) e1)
    = kmv_finish (aeval (kmv_combiner ltb eqb k) e2).
  Proof.
    intros k e1 e2 H. rewrite !kmv_finish_spec. unfold kmv_spec.
    rewrite (usort_ext _ _ H). reflexivity.
  Qed.

  (* the distinct ranks: usort lists every rank of the input exactly once *)
  Theorem usort_distinct : forall l, NoDup (usort l) /\ forall x, In x (usort l) <-> In x l.
  Proof. intro l. split; [apply sorted_nodup; apply usort_sorted | apply usort_in]. Qed.

  (* lawfulness in the sense of Combiners/Lawful.v *)
  Theorem kmv_lawful : forall k,
    lawful (kmv_combiner ltb eqb k) (krep (Nat.max k 4))
           (fun m o => o = kmv_spec ltb eqb (Nat.max k 4) m).
  Proof.
    intro k. constructor; cbn [kmv_combiner c_create c_add c_merge c_finish c_build].
    - apply krep_new.
    - intros a m v H. apply krep_add. exact H.
    - intros a b m m' Ha Hb. apply krep_merge; assumption.
    - intro vs. apply krep_build.
    - intros a m m' H P. eapply krep_ext; [exact H|].
      intro x. split; intro I; [eapply Permutation_in; [exact P|exact I]
                               | eapply Permutation_in; [apply Permutation_sym; exact P|exact I]].
    - intros a m H. eapply krep_finish. exact H.
  Qed.

  (* ---------------------------------------------------------------- the O(n log n) specification
     merge sort + removal of adjacent duplicates computes exactly `usort`, hence `kmv_fast` is
     `kmv_spec` *)
  Local Notation le := (fun a b => ltb b a = false).
  Local Notation wsorted := (StronglySorted le).
  Local Notation kmerge := (kmerge ltb).
  Local Notation kpairs := (kpairs ltb).
  Local Notation kmsort_fuel := (kmsort_fuel ltb).
  Local Notation kmsort := (kmsort ltb).
  Local Notation kdedup := (kdedup eqb).

  Lemma nlt_trans : forall a b c, ltb b a = false -> ltb c b = false -> ltb c a = false.
  Proof.
    intros a b c Hab Hbc. destruct (ltb c a) eqn:Eca; [|reflexivity]. exfalso.
    destruct (ltb a b) eqn:Eab.
    - pose proof (ltb_trans _ _ _ Eca Eab) as Hcb. congruence.
    - pose proof (ltb_total _ _ Eab Hab) as E. subst b. congruence.
  Qed.

  Lemma kmerge_nil_l : forall b, kmerge [] b = b.
  Proof. reflexivity. Qed.
  Lemma kmerge_nil_r : forall a, kmerge a [] = a.
  Proof. destruct a; reflexivity. Qed.
  Lemma kmerge_cons : forall x a y b,
    kmerge (x :: a) (y :: b) = if ltb y x then y :: kmerge (x :: a) b else x :: kmerge a (y :: b).
  Proof. reflexivity. Qed.

  Lemma kmerge_in : forall a b x, In x (kmerge a b) <-> In x a \/ In x b.
  Proof.
    induction a as [|x0 a' IHa]; intros b x.
    - rewrite kmerge_nil_l. cbn [In]. tauto.
    - induction b as [|y b' IHb].
      + rewrite kmerge_nil_r. cbn [In]. tauto.
      + rewrite kmerge_cons. destruct (ltb y x0).
        * cbn [In]. rewrite IHb. cbn [In]. tauto.
        * cbn [In]. rewrite IHa. cbn [In]. tauto.
  Qed.

  Lemma kmerge_wsorted : forall a b, wsorted a -> wsorted b -> wsorted (kmerge a b).
  Proof.
    induction a as [|x0 a' IHa]; intros b Ha Hb.
    - rewrite kmerge_nil_l. exact Hb.
    - induction b as [|y b' IHb].
      + rewrite kmerge_nil_r. exact Ha.
      + rewrite kmerge_cons.
        inversion Ha as [|? ? Ha' Fa]; subst. inversion Hb as [|? ? Hb' Fb]; subst.
        rewrite Forall_forall in Fa, Fb.
        destruct (ltb y x0) eqn:L.
        * constructor; [apply IHb; exact Hb'|].
          rewrite Forall_forall. intros z Hz. apply (proj1 (kmerge_in _ _ _)) in Hz.
          destruct Hz as [[<-|Hz]|Hz].
          -- apply ltb_asym. exact L.
          -- eapply nlt_trans; [apply ltb_asym; exact L | apply Fa; exact Hz].
          -- apply Fb. exact Hz.
        * constructor; [apply IHa; [exact Ha' | exact Hb]|].
          rewrite Forall_forall. intros z Hz. apply (proj1 (kmerge_in _ _ _)) in Hz.
          destruct Hz as [Hz|[<-|Hz]].
          -- apply Fa. exact Hz.
          -- exact L.
          -- eapply nlt_trans; [exact L | apply Fb; exact Hz].
  Qed.

  Lemma kpairs_wsorted : forall n l, length l <= n -> Forall wsorted l -> Forall wsorted (kpairs l).
  Proof.
    induction n as [|n IH]; intros l Hn H.
    - destruct l; [exact H | cbn in Hn; lia].
    - destruct l as [|a [|b r]]; cbn [KMV.kpairs]; try exact H.
      inversion H as [|? ? Ha H']; subst. inversion H' as [|? ? Hb Hr]; subst.
      constructor; [apply kmerge_wsorted; assumption|].
      apply IH; [cbn in Hn; lia | exact Hr].
  Qed.

  Lemma kpairs_in : forall n l x, length l <= n ->
    (In x (concat (kpairs l)) <-> In x (concat l)).
  Proof.
    induction n as [|n IH]; intros l x Hn.
    - destruct l; [tauto | cbn in Hn; lia].
    - destruct l as [|a [|b r]]; cbn [KMV.kpairs]; try tauto.
      cbn [concat]. rewrite !in_app_iff, kmerge_in, (IH r x) by (cbn in Hn; lia). tauto.
  Qed.

  Lemma fold_kmerge_spec : forall l, Forall wsorted l ->
    wsorted (fold_right kmerge [] l) /\
    forall x, In x (fold_right kmerge [] l) <-> In x (concat l).
  Proof.
    induction l as [|a l IH]; intro H; cbn [fold_right concat].
    - split; [constructor | tauto].
    - inversion H as [|? ? Ha Hl]; subst. destruct (IH Hl) as [S I].
      split; [apply kmerge_wsorted; assumption|].
      intro x. rewrite kmerge_in, in_app_iff, I. tauto.
  Qed.

  Lemma kmsort_fuel_spec : forall fuel l, Forall wsorted l ->
    wsorted (kmsort_fuel fuel l) /\ forall x, In x (kmsort_fuel fuel l) <-> In x (concat l).
  Proof.
    induction fuel as [|f IH]; intros l H; cbn [KMV.kmsort_fuel].
    - apply fold_kmerge_spec. exact H.
    - destruct l as [|a [|b r]].
      + split; [constructor | cbn; tauto].
      + inversion H as [|? ? Ha _]; subst. split; [exact Ha|].
        intro x. cbn [concat]. rewrite app_nil_r. tauto.
      + destruct (IH (kpairs (a :: b :: r))) as [S I].
        { eapply kpairs_wsorted; [apply le_n | exact H]. }
        split; [exact S|]. intro x. rewrite I. eapply kpairs_in. apply le_n.
  Qed.

  Lemma kmsort_spec : forall l, wsorted (kmsort l) /\ forall x, In x (kmsort l) <-> In x l.
  Proof.
    intro l. unfold KMV.kmsort.
    destruct (kmsort_fuel_spec 64 (map (fun x => [x]) l)) as [S I].
    { rewrite Forall_forall. intros s Hs. apply in_map_iff in Hs. destruct Hs as (x & <- & _).
      constructor; constructor. }
    split; [exact S|]. intro x. rewrite I.
    clear S I. induction l as [|y l IHl]; cbn [map concat app In]; [tauto|]. rewrite IHl. tauto.
  Qed.

  Lemma kdedup_cons2 : forall a b r,
    kdedup (a :: b :: r) = if eqb a b then kdedup (b :: r) else a :: kdedup (b :: r).
  Proof. reflexivity. Qed.

  Lemma kdedup_in : forall l x, In x (kdedup l) <-> In x l.
  Proof.
    induction l as [|a l IH]; intro x; [tauto|].
    destruct l as [|b r]; [tauto|]. rewrite kdedup_cons2.
    destruct (eqb a b) eqn:E.
    - apply eqb_eq in E. subst b. rewrite IH. cbn [In]. tauto.
    - cbn [In]. rewrite IH. cbn [In]. tauto.
  Qed.

  Lemma kdedup_sorted : forall l, wsorted l -> sorted (kdedup l).
  Proof.
    induction l as [|a l IH]; intro H; [constructor|].
    destruct l as [|b r]; [constructor; constructor|]. rewrite kdedup_cons2.
    inversion H as [|? ? Hl Fa]; subst.
    destruct (eqb a b) eqn:E; [apply IH; exact Hl|].
    constructor; [apply IH; exact Hl|].
    rewrite Forall_forall in Fa |- *. intros z Hz. apply (proj1 (kdedup_in _ _)) in Hz.
    assert (Hab : ltb a b = true).
    { destruct (ltb a b) eqn:L; [reflexivity|]. exfalso. apply eqb_false_iff in E. apply E.
      apply ltb_total; [exact L | apply Fa; left; reflexivity]. }
    cbn [In] in Hz. destruct Hz as [Hz|Hz]; [subst z; exact Hab|].
    destruct (ltb a z) eqn:L; [reflexivity|]. exfalso.
    assert (Eaz : a = z) by (apply ltb_total; [exact L | apply Fa; right; exact Hz]).
    subst z. inversion Hl as [|? ? _ Fb]; subst. rewrite Forall_forall in Fb.
    specialize (Fb a Hz). cbn beta in Fb. congruence.
  Qed.

  Theorem usort_fast_eq : forall l, usort_fast ltb eqb l = usort l.
  Proof.
    intro l. unfold usort_fast. destruct (kmsort_spec l) as [S I].
    apply sorted_ext; [apply kdedup_sorted; exact S | apply usort_sorted|].
    intro x. rewrite kdedup_in, I, usort_in. tauto.
  Qed.

  Theorem kmv_fast_eq : forall k l, kmv_fast ltb eqb k l = kmv_spec ltb eqb k l.
  Proof. intros k l. unfold kmv_fast, kmv_spec. rewrite usort_fast_eq. reflexivity. Qed.

  (* what every accumulator expression finishes to, in the fast form *)
  Theorem kmv_finish_fast : forall k (e : aexpr R),
    kmv_finish (aeval (kmv_combiner ltb eqb k) e) = kmv_fast ltb eqb (Nat.max k 4) (avalues e).
  Proof. intros k e. rewrite kmv_fast_eq. apply kmv_finish_spec. Qed.

  (* any two sketch sizes above the number of distinct ranks give the same (exact) answer *)
  Theorem kmv_oversized_k : forall k1 k2 (e : aexpr R),
    length (usort (avalues e)) < Nat.max k1 4 -> length (usort (avalues e)) < Nat.max k2 4 ->
    kmv_finish (aeval (kmv_combiner ltb eqb k1) e) = kmv_finish (aeval (kmv_combiner ltb eqb k2) e).
  Proof. intros k1 k2 e H1 H2. rewrite !kmv_exact_below_k by assumption. reflexivity. Qed.
End KMVProofs.
