(* Proofs about the validation model (Validation/Model.v, Validation/Pipe.v). *)
From Coq Require Import List Bool Arith Lia Permutation ZArith.
From IB Require Import Engine.Val Engine.Ops Engine.Nodes Engine.Planner
                       Validation.Model Validation.Pipe.
Import ListNotations.
Local Open Scope nat_scope.

(* ---------- generic list facts ---------- *)
Lemma filter_concat : forall (A : Type) (f : A -> bool) (ls : list (list A)),
    filter f (concat ls) = concat (map (filter f) ls).
Proof.
  intros A f ls. induction ls as [|l ls IH]; [reflexivity|].
  cbn [concat map]. rewrite filter_app, IH. reflexivity.
Qed.

Lemma concat_all_nil : forall (A : Type) (ls : list (list A)),
    Forall (fun l => l = []) ls -> concat ls = [].
Proof.
  intros A ls H. induction H as [|l ls Hl _ IH]; [reflexivity|].
  cbn [concat]. rewrite Hl, IH. reflexivity.
Qed.

Lemma flat_map_over_concat : forall (A B : Type) (f : A -> list B) (ls : list (list A)),
    flat_map f (concat ls) = concat (map (flat_map f) ls).
Proof.
  intros A B f ls. induction ls as [|l ls IH]; [reflexivity|].
  cbn [concat map]. rewrite flat_map_app, IH. reflexivity.
Qed.

Lemma length_concat_map : forall (A : Type) (ls : list (list A)),
    length (concat ls) = list_sum (map (@length A) ls).
Proof.
  intros A ls. induction ls as [|l ls IH]; [reflexivity|].
  cbn [concat map list_sum]. rewrite app_length, IH. reflexivity.
Qed.

(* ---------- interleavings ---------- *)
Lemma interleaving_perm : forall (A : Type) (ls : list (list A)) (out : list A),
    interleaving ls out -> Permutation out (concat ls).
Proof.
  intros A ls out H. induction H as [ls Hnil | pre x l post out _ IH].
  - rewrite (concat_all_nil _ _ Hnil). constructor.
  - rewrite concat_app in *. cbn [concat] in *.
    cbn [app]. apply Permutation_cons_app. exact IH.
Qed.

Lemma interleaving_length : forall (A : Type) (ls : list (list A)) (out : list A),
    interleaving ls out -> length out = length (concat ls).
Proof. intros A ls out H. apply Permutation_length, interleaving_perm, H. Qed.

Lemma interleaving_cons_nil : forall (A : Type) (ls : list (list A)) (out : list A),
    interleaving ls out -> interleaving ([] :: ls) out.
Proof.
  intros A ls out H. induction H as [ls Hnil | pre x l post out _ IH].
  - apply il_done. constructor; [reflexivity|exact Hnil].
  - change ([] :: pre ++ (x :: l) :: post) with (([] :: pre) ++ (x :: l) :: post).
    apply il_step. exact IH.
Qed.

(* a list of sequences is interleaved by itself, first sequence first *)
Lemma interleaving_concat : forall (A : Type) (ls : list (list A)), interleaving ls (concat ls).
Proof.
  intros A ls. induction ls as [|l ls IH].
  - apply il_done. constructor.
  - induction l as [|x l IHl].
    + cbn [concat app]. apply interleaving_cons_nil, IH.
    + cbn [concat app]. apply (il_step [] x l ls). exact IHl.
Qed.

(* one sequence can only be "interleaved" as itself: the sequential engine *)
Lemma interleaving_single_aux : forall (A : Type) (ls : list (list A)) (out : list A),
    interleaving ls out -> forall l, ls = [l] -> out = l.
Proof.
  intros A ls out H. induction H as [ls Hnil | pre x l0 post out _ IH]; intros l Hl.
  - subst ls. inversion Hnil as [|l' ls' Hhd Htl]. subst. reflexivity.
  - destruct pre as [|p pre].
    + cbn [app] in Hl. injection Hl as Hl1 Hl2. subst post l.
      f_equal. apply IH. reflexivity.
    + cbn [app] in Hl. injection Hl as _ Hl2. destruct pre; discriminate Hl2.
Qed.
Lemma interleaving_single : forall (A : Type) (l out : list A),
    interleaving [l] out -> out = l.
Proof. intros A l out H. exact (interleaving_single_aux _ _ _ H l eq_refl). Qed.

(* ---------- oall ---------- *)
Lemma oall_all_ok : forall (A B : Type) (f : A -> outcome B) (g : A -> B) (l : list A),
    (forall x, In x l -> f x = Ok (g x)) -> oall f l = Ok (map g l).
Proof.
  intros A B f g l. induction l as [|x r IH]; intros H; [reflexivity|].
  cbn [oall map]. rewrite (H x (or_introl eq_refl)). cbn [obind].
  rewrite IH by (intros y Hy; apply H; right; exact Hy). reflexivity.
Qed.

Lemma oall_guarded : forall (A B : Type) (b : A -> bool) (g : A -> B) (l : list A),
    oall (fun x => if b x then Ok (g x) else Panic) l =
    if forallb b l then Ok (map g l) else Panic.
Proof.
  intros A B b g l. induction l as [|x r IH]; [reflexivity|].
  cbn [oall map forallb]. destruct (b x); cbn [obind andb]; [|reflexivity].
  rewrite IH. destruct (forallb b r); reflexivity.
Qed.

(* ---------- the operator on one partition ---------- *)
Section ApplyFacts.
  Context {R E : Type}.
  Variable validate : R -> vresult E.
  Local Notation is_valid := (is_valid validate).

  (* the appends of one partition, positions counted from idx *)
  Fixpoint entries_from (idx : nat) (l : list R) : list (entry E) :=
    match l with
    | [] => []
    | x :: r =>
        match validate x with
        | VOk => entries_from (S idx) r
        | VErr es => mk_entry idx es :: entries_from (S idx) r
        end
    end.

  Lemma local_entries_from : forall (l : list R) (idx : nat),
      flat_map (fun ir : nat * R => match validate (snd ir) with
                                    | VOk => []
                                    | VErr es => [mk_entry (fst ir) es]
                                    end)
               (combine (seq idx (length l)) l) = entries_from idx l.
  Proof.
    induction l as [|x r IH]; intros idx; [reflexivity|].
    cbn [length seq combine flat_map entries_from fst snd]. rewrite IH.
    destruct (validate x); reflexivity.
  Qed.
  Lemma local_entries_eq : forall l, local_entries validate l = entries_from 0 l.
  Proof. intros l. unfold local_entries. apply local_entries_from. Qed.

  Lemma apply_from_skip : forall hc l idx,
      apply_from validate SkipInvalid hc idx l = Ok (filter is_valid l, []).
  Proof.
    intros hc. induction l as [|x r IH]; intros idx; [reflexivity|].
    cbn [apply_from filter]. unfold Model.is_valid at 1. destruct (validate x) as [|es].
    - rewrite IH. reflexivity.
    - apply IH.
  Qed.

  Lemma apply_from_log : forall hc l idx,
      apply_from validate LogAndContinue hc idx l =
      Ok (filter is_valid l, if hc then entries_from idx l else []).
  Proof.
    intros hc. induction l as [|x r IH]; intros idx.
    - cbn [apply_from filter entries_from]. destruct hc; reflexivity.
    - cbn [apply_from filter entries_from]. unfold Model.is_valid at 1.
      destruct (validate x) as [|es]; rewrite IH; cbn [obind fst snd]; destruct hc; reflexivity.
  Qed.

  Lemma apply_from_failfast : forall hc l idx,
      apply_from validate FailFast hc idx l =
      if forallb is_valid l then Ok (l, []) else Panic.
  Proof.
    intros hc. induction l as [|x r IH]; intros idx; [reflexivity|].
    cbn [apply_from forallb]. unfold Model.is_valid at 1. destruct (validate x) as [|es].
    - rewrite IH. cbn [andb]. destruct (forallb is_valid r); reflexivity.
    - reflexivity.
  Qed.

  (* what a partition appends, by mode *)
  Definition part_log (m : mode) (hc : bool) (p : list R) : list (entry E) :=
    match m with
    | LogAndContinue => if hc then entries_from 0 p else []
    | _ => []
    end.

  Lemma apply_not_failfast : forall m hc p,
      m <> FailFast -> apply validate m hc p = Ok (filter is_valid p, part_log m hc p).
  Proof.
    intros m hc p Hm. unfold apply. destruct m.
    - apply apply_from_skip.
    - apply apply_from_log.
    - contradiction.
  Qed.

  Lemma run_parts_not_failfast : forall m hc ps,
      m <> FailFast ->
      run_parts validate m hc ps = Ok (map (fun p => (filter is_valid p, part_log m hc p)) ps).
  Proof.
    intros m hc ps Hm. unfold run_parts. apply oall_all_ok.
    intros p _. apply apply_not_failfast, Hm.
  Qed.

  Lemma run_parts_failfast : forall hc ps,
      run_parts validate FailFast hc ps =
      if forallb is_valid (concat ps) then Ok (map (fun p => (p, [])) ps) else Panic.
  Proof.
    intros hc ps. unfold run_parts.
    assert (Hf : forall p, apply validate FailFast hc p =
                           if forallb is_valid p then Ok ((fun p => (p, @nil (entry E))) p)
                           else Panic)
      by (intros p; apply apply_from_failfast).
    replace (oall (apply validate FailFast hc) ps)
      with (oall (fun p => if forallb is_valid p then Ok (p, @nil (entry E)) else Panic) ps).
    - rewrite (oall_guarded _ _ (forallb is_valid) (fun p => (p, @nil (entry E))) ps).
      replace (forallb (forallb is_valid) ps) with (forallb is_valid (concat ps)); [reflexivity|].
      clear Hf. induction ps as [|p ps IH]; [reflexivity|].
      cbn [concat forallb]. rewrite forallb_app, IH. reflexivity.
    - clear - Hf. induction ps as [|p ps IH]; [reflexivity|].
      cbn [oall]. rewrite Hf, IH. reflexivity.
  Qed.

  Lemma output_of_map : forall (f : list R -> list R) (g : list R -> list (entry E)) ps,
      output_of (map (fun p => (f p, g p)) ps) = concat (map f ps).
  Proof. intros f g ps. unfold output_of. rewrite map_map. reflexivity. Qed.
  Lemma logs_of_map : forall (f : list R -> list R) (g : list R -> list (entry E)) ps,
      logs_of (map (fun p => (f p, g p)) ps) = map g ps.
  Proof. intros f g ps. unfold logs_of. rewrite map_map. reflexivity. Qed.

  (* ----- output ----- *)
  Lemma output_is_filter_valid : forall m hc ps,
      m <> FailFast ->
      exists rs, run_parts validate m hc ps = Ok rs /\
                 output_of rs = filter is_valid (concat ps).
  Proof.
    intros m hc ps Hm. eexists. split; [apply run_parts_not_failfast, Hm|].
    rewrite output_of_map, filter_concat. reflexivity.
  Qed.

  (* ----- facts about entries_from ----- *)
  Lemma entries_errors : forall l idx,
      map (@e_errors E) (entries_from idx l) = invalid_errors validate l.
  Proof.
    induction l as [|x r IH]; intros idx; [reflexivity|].
    unfold invalid_errors in *. cbn [entries_from flat_map].
    destruct (validate x) as [|es]; cbn [map app e_errors]; rewrite IH; reflexivity.
  Qed.

  Lemma entries_length : forall l idx,
      length (entries_from idx l) = count_invalid validate l.
  Proof.
    induction l as [|x r IH]; intros idx; [reflexivity|].
    unfold count_invalid in *. cbn [entries_from filter]. unfold Model.is_valid at 1.
    destruct (validate x) as [|es]; cbn [negb length]; rewrite IH; reflexivity.
  Qed.

  Lemma valid_plus_invalid : forall l,
      length (filter is_valid l) + count_invalid validate l = length l.
  Proof.
    induction l as [|x r IH]; [reflexivity|].
    unfold count_invalid in *. cbn [filter]. destruct (is_valid x); cbn [negb length]; lia.
  Qed.

  Lemma count_invalid_concat : forall ps,
      count_invalid validate (concat ps) = list_sum (map (count_invalid validate) ps).
  Proof.
    intros ps. unfold count_invalid. rewrite filter_concat, length_concat_map, map_map.
    reflexivity.
  Qed.

  Lemma entries_from_in : forall l idx e,
      In e (entries_from idx l) ->
      idx <= e_idx e /\
      exists r, nth_error l (e_idx e - idx) = Some r /\ validate r = VErr (e_errors e).
  Proof.
    induction l as [|x r IH]; intros idx e Hin; [contradiction|].
    cbn [entries_from] in Hin. destruct (validate x) as [|es] eqn:Hv.
    - destruct (IH _ _ Hin) as [Hle [r0 [Hn Hr]]]. split; [lia|].
      exists r0. split; [|exact Hr].
      replace (e_idx e - idx) with (S (e_idx e - S idx)) by lia. exact Hn.
    - destruct Hin as [He|Hin].
      + subst e. cbn [e_idx e_errors]. split; [lia|]. exists x.
        rewrite Nat.sub_diag. split; [reflexivity|exact Hv].
      + destruct (IH _ _ Hin) as [Hle [r0 [Hn Hr]]]. split; [lia|].
        exists r0. split; [|exact Hr].
        replace (e_idx e - idx) with (S (e_idx e - S idx)) by lia. exact Hn.
  Qed.

  Lemma entries_from_complete : forall l idx i r es,
      nth_error l i = Some r -> validate r = VErr es ->
      In (mk_entry (idx + i) es) (entries_from idx l).
  Proof.
    induction l as [|x t IH]; intros idx i r es Hn Hv; [destruct i; discriminate|].
    cbn [entries_from]. destruct i as [|i].
    - cbn [nth_error] in Hn. injection Hn as Hx. subst x. rewrite Hv, Nat.add_0_r. left.
      reflexivity.
    - cbn [nth_error] in Hn. specialize (IH (S idx) i r es Hn Hv).
      replace (idx + S i) with (S idx + i) by lia.
      destruct (validate x); [exact IH|right; exact IH].
  Qed.

  (* ----- the log-mode collector ----- *)
  Lemma log_accounting : forall ps rs coll,
      run_parts validate LogAndContinue true ps = Ok rs ->
      interleaving (logs_of rs) coll ->
      Permutation coll (flat_map (local_entries validate) ps) /\
      Permutation (map (@e_errors E) coll) (invalid_errors validate (concat ps)) /\
      length coll = count_invalid validate (concat ps) /\
      length (output_of rs) + length coll = length (concat ps).
  Proof.
    intros ps rs coll Hrun Hil.
    rewrite run_parts_not_failfast in Hrun by discriminate. injection Hrun as Hrs. subst rs.
    rewrite logs_of_map in Hil. rewrite output_of_map.
    cbn [part_log] in Hil.
    assert (Hperm : Permutation coll (flat_map (local_entries validate) ps)).
    { rewrite flat_map_concat_map.
      replace (map (local_entries validate) ps) with (map (entries_from 0) ps)
        by (apply map_ext; intros p; symmetry; apply local_entries_eq).
      apply interleaving_perm, Hil. }
    assert (Herrs : map (@e_errors E) (flat_map (local_entries validate) ps) =
                    invalid_errors validate (concat ps)).
    { unfold invalid_errors at 1. rewrite flat_map_over_concat.
      rewrite flat_map_concat_map, concat_map, map_map. f_equal. apply map_ext.
      intros p. rewrite local_entries_eq. apply entries_errors. }
    assert (Hlen : length coll = count_invalid validate (concat ps)).
    { rewrite (Permutation_length Hperm), <- (map_length (@e_errors E)), Herrs.
      clear. unfold invalid_errors, count_invalid.
      induction (concat ps) as [|x r IH]; [reflexivity|].
      cbn [flat_map filter]. unfold Model.is_valid at 1.
      destruct (validate x); cbn [negb app length]; rewrite IH; reflexivity. }
    split; [exact Hperm|]. split.
    - rewrite <- Herrs. apply Permutation_map, Hperm.
    - split; [exact Hlen|]. rewrite Hlen, <- filter_concat. apply valid_plus_invalid.
  Qed.

  (* every entry names a record of some partition by its position THERE, and carries exactly
     that record's errors; conversely every invalid record of every partition has its entry *)
  Lemma log_record_ids : forall ps rs coll,
      run_parts validate LogAndContinue true ps = Ok rs ->
      interleaving (logs_of rs) coll ->
      (forall e, In e coll ->
                 exists p r, In p ps /\ nth_error p (e_idx e) = Some r /\
                             validate r = VErr (e_errors e)) /\
      (forall p i r es, In p ps -> nth_error p i = Some r -> validate r = VErr es ->
                        In (mk_entry i es) coll).
  Proof.
    intros ps rs coll Hrun Hil.
    destruct (log_accounting ps rs coll Hrun Hil) as [Hperm _].
    split.
    - intros e He. apply (Permutation_in _ Hperm) in He.
      apply in_flat_map in He. destruct He as [p [Hp He]].
      rewrite local_entries_eq in He. destruct (entries_from_in _ _ _ He) as [_ [r [Hn Hr]]].
      rewrite Nat.sub_0_r in Hn. exists p, r. split; [exact Hp|]. split; assumption.
    - intros p i r es Hp Hn Hv. apply (Permutation_in _ (Permutation_sym Hperm)).
      apply in_flat_map. exists p. split; [exact Hp|].
      rewrite local_entries_eq. exact (entries_from_complete p 0 i r es Hn Hv).
  Qed.

  (* sequential engine: one partition, the collector holds the entries in input order with the
     GLOBAL positions *)
  Lemma log_sequential_exact : forall input rs coll,
      run_parts validate LogAndContinue true [input] = Ok rs ->
      interleaving (logs_of rs) coll ->
      coll = local_entries validate input /\ output_of rs = filter is_valid input.
  Proof.
    intros input rs coll Hrun Hil.
    rewrite run_parts_not_failfast in Hrun by discriminate. injection Hrun as Hrs. subst rs.
    cbn [map logs_of snd output_of fst concat] in *. rewrite app_nil_r.
    split; [|reflexivity]. rewrite local_entries_eq.
    apply interleaving_single. exact Hil.
  Qed.

  (* modes that never write to the collector *)
  Lemma nothing_collected : forall m hc ps rs coll,
      (m = LogAndContinue -> hc = false) ->
      run_parts validate m hc ps = Ok rs ->
      interleaving (logs_of rs) coll -> coll = [].
  Proof.
    intros m hc ps rs coll Hm Hrun Hil.
    assert (Hnil : Forall (fun l : list (entry E) => l = []) (logs_of rs)).
    { destruct m.
      - rewrite run_parts_not_failfast in Hrun by discriminate. injection Hrun as Hrs. subst rs.
        rewrite logs_of_map. apply Forall_forall. intros l Hl. apply in_map_iff in Hl.
        destruct Hl as [p [Hl _]]. subst l. reflexivity.
      - rewrite run_parts_not_failfast in Hrun by discriminate. injection Hrun as Hrs. subst rs.
        rewrite logs_of_map. apply Forall_forall. intros l Hl. apply in_map_iff in Hl.
        destruct Hl as [p [Hl _]]. subst l. cbn [part_log]. rewrite (Hm eq_refl). reflexivity.
      - rewrite run_parts_failfast in Hrun. destruct (forallb is_valid (concat ps)); [|discriminate].
        injection Hrun as Hrs. subst rs.
        rewrite (logs_of_map (fun p => p) (fun _ => [])). apply Forall_forall. intros l Hl.
        apply in_map_iff in Hl. destruct Hl as [p [Hl _]]. subst l. reflexivity. }
    apply Permutation_nil. apply Permutation_sym.
    rewrite <- (concat_all_nil _ _ Hnil). apply interleaving_perm, Hil.
  Qed.

  (* ----- fail-fast ----- *)
  Lemma fail_fast_iff : forall hc ps,
      (run_parts validate FailFast hc ps = Panic <->
       exists r, In r (concat ps) /\ is_valid r = false) /\
      ((forall r, In r (concat ps) -> is_valid r = true) ->
       exists rs, run_parts validate FailFast hc ps = Ok rs /\ output_of rs = concat ps /\
                  forall coll, interleaving (logs_of rs) coll -> coll = []) /\
      (run_parts validate FailFast hc ps = Panic \/
       exists rs, run_parts validate FailFast hc ps = Ok rs).
  Proof.
    intros hc ps. rewrite run_parts_failfast.
    destruct (forallb is_valid (concat ps)) eqn:Hall.
    - split; [|split].
      + split; [discriminate|]. intros [r [Hin Hr]].
        rewrite forallb_forall in Hall. rewrite (Hall r Hin) in Hr. discriminate.
      + intros _. eexists. split; [reflexivity|]. split.
        * rewrite (output_of_map (fun p => p) (fun _ => [])), map_id. reflexivity.
        * intros coll Hil. rewrite (logs_of_map (fun p => p) (fun _ => [])) in Hil.
          apply Permutation_nil, Permutation_sym.
          rewrite <- (concat_all_nil _ (map (fun _ : list R => @nil (entry E)) ps)).
          -- apply interleaving_perm, Hil.
          -- apply Forall_forall. intros l Hl. apply in_map_iff in Hl.
             destruct Hl as [p [Hl _]]. symmetry. exact Hl.
      + right. eexists. reflexivity.
    - split; [|split].
      + split; [|reflexivity]. intros _.
        destruct (existsb (fun r => negb (is_valid r)) (concat ps)) eqn:Hex.
        * apply existsb_exists in Hex. destruct Hex as [r [Hin Hr]]. exists r.
          split; [exact Hin|]. destruct (is_valid r); [discriminate|reflexivity].
        * exfalso. assert (forallb is_valid (concat ps) = true); [|congruence].
          apply forallb_forall. intros r Hin.
          destruct (is_valid r) eqn:Hr; [reflexivity|]. exfalso.
          assert (Ht : existsb (fun r => negb (is_valid r)) (concat ps) = true)
            by (apply existsb_exists; exists r; split; [exact Hin|rewrite Hr; reflexivity]).
          congruence.
      + intros Hallv. exfalso. assert (forallb is_valid (concat ps) = true); [|congruence].
        apply forallb_forall. exact Hallv.
      + left. reflexivity.
  Qed.
End ApplyFacts.

(* ---------- keyed variant: an instance ---------- *)
Lemma keyed_is_valid : forall (K V E : Type) (validate : V -> vresult E) (kv : K * V),
    is_valid (validate_value validate) kv = is_valid validate (snd kv).
Proof. reflexivity. Qed.

(* ---------- the planner never moves a validation operator ---------- *)
Lemma reorder_ops_pinned : forall ops,
    (exists o, In o ops /\ op_rs o = false) -> reorder_ops ops = ops.
Proof.
  intros ops [o [Hin Hrs]]. unfold reorder_ops.
  assert (Hall : all_value_only ops = false).
  { unfold all_value_only. destruct (forallb _ ops) eqn:Hf; [|reflexivity].
    rewrite forallb_forall in Hf. specialize (Hf o Hin). rewrite Hrs in Hf.
    rewrite andb_false_r in Hf. discriminate. }
  rewrite Hall. reflexivity.
Qed.

Lemma reorder_chain_pinned : forall c,
    Forall (fun n => match n with
                     | NB (BStateless ops) => exists o, In o ops /\ op_rs o = false
                     | _ => True
                     end) c ->
    reorder c = c.
Proof.
  intros c H. unfold reorder. induction H as [|n c Hn _ IH]; [reflexivity|].
  cbn [map]. rewrite IH. f_equal.
  destruct n as [b|]; [|reflexivity]. destruct b; try reflexivity.
  rewrite (reorder_ops_pinned _ Hn). reflexivity.
Qed.

Lemma validation_flags : forall (E : Type) t (v : val -> vresult E) m hc uid,
    (op_kp (op_validate t v m hc uid), op_vo (op_validate t v m hc uid),
     op_rs (op_validate t v m hc uid), op_cost (op_validate t v m hc uid))
    = (false, false, false, 10) /\
    (op_kp (op_validate_values t v m hc uid), op_vo (op_validate_values t v m hc uid),
     op_rs (op_validate_values t v m hc uid), op_cost (op_validate_values t v m hc uid))
    = (true, true, false, 10).
Proof. intros. split; reflexivity. Qed.

Definition is_validation_op (o : dynop) : Prop :=
  exists (E : Type) t (v : val -> vresult E) m hc uid,
    o = op_validate t v m hc uid \/ o = op_validate_values t v m hc uid.

Lemma validate_not_reordered : forall pre o post,
    is_validation_op o -> reorder_ops (pre ++ o :: post) = pre ++ o :: post.
Proof.
  intros pre o post [E [t [v [m [hc [uid Ho]]]]]]. apply reorder_ops_pinned.
  exists o. split; [apply in_elt|]. destruct Ho as [Ho|Ho]; subst o; reflexivity.
Qed.

(* the pipelines of the correspondence runs: with a validation step anywhere, the planned order
   is the written order *)
Lemma compile_from_uids : forall ss uid,
    map op_uid (compile_from uid ss) = seq uid (length ss).
Proof.
  induction ss as [|s r IH]; intros uid; [reflexivity|].
  cbn [compile_from map length seq]. rewrite IH. destruct s; reflexivity.
Qed.

Lemma flat_map_nth_seq : forall (A : Type) (ss pre : list A),
    flat_map (fun i => match nth_error (pre ++ ss) i with Some s => [s] | None => [] end)
             (seq (length pre) (length ss)) = ss.
Proof.
  intros A ss. induction ss as [|s r IH]; intros pre; [reflexivity|].
  cbn [length seq flat_map].
  rewrite nth_error_app2 by lia. rewrite Nat.sub_diag. cbn [nth_error app].
  f_equal. specialize (IH (pre ++ [s])). rewrite <- app_assoc in IH. cbn [app] in IH.
  rewrite app_length in IH. cbn [length] in IH. rewrite Nat.add_1_r in IH. exact IH.
Qed.

Lemma plan_steps_pinned : forall ss,
    (exists md hc, In (SValidateValues md hc) ss) -> plan_steps ss = ss.
Proof.
  intros ss [md [hc Hin]]. unfold plan_steps.
  rewrite reorder_ops_pinned.
  - assert (Hfm : forall (ops : list dynop),
               flat_map (fun o => match nth_error ss (op_uid o) with
                                  | Some s => [s] | None => [] end) ops =
               flat_map (fun i => match nth_error ss i with Some s => [s] | None => [] end)
                        (map op_uid ops)).
    { induction ops as [|o r IH]; [reflexivity|]. cbn [flat_map map]. rewrite IH. reflexivity. }
    rewrite Hfm, compile_from_uids. exact (flat_map_nth_seq _ ss []).
  - assert (Hgen : forall uid, exists o, In o (compile_from uid ss) /\ op_rs o = false).
    { clear - Hin. induction ss as [|s r IH]; intros uid; [contradiction|].
      destruct Hin as [Hs|Hin].
      - subst s. eexists. split; [left; reflexivity|reflexivity].
      - destruct (IH Hin (S uid)) as [o [Ho Hrs]]. exists o. split; [right; exact Ho|exact Hrs]. }
    apply Hgen.
Qed.

(* ---------- combine_validations ---------- *)
Lemma existsb_failed_false : forall (E : Type) (rs : list (vresult E)),
    existsb result_failed rs = false <-> Forall (fun r => r = VOk) rs.
Proof.
  intros E rs. induction rs as [|r t IH].
  - split; [constructor|reflexivity].
  - cbn [existsb]. destruct r as [|es]; cbn [result_failed orb].
    + rewrite IH. split.
      * intros H. constructor; [reflexivity|exact H].
      * intros H. inversion H as [|? ? _ Ht]. exact Ht.
    + split; [discriminate|]. intros H. inversion H as [|? ? Hr _]. discriminate Hr.
Qed.

Lemma combine_ok_iff : forall (E : Type) (rs : list (vresult E)),
    combine_validations rs = VOk <-> Forall (fun r => r = VOk) rs.
Proof.
  intros E rs. rewrite <- existsb_failed_false. unfold combine_validations.
  destruct (existsb result_failed rs); split; intros H; try reflexivity; discriminate H.
Qed.

Lemma combine_err : forall (E : Type) (rs : list (vresult E)),
    ~ Forall (fun r => r = VOk) rs ->
    combine_validations rs = VErr (flat_map result_errors rs).
Proof.
  intros E rs H. unfold combine_validations.
  destruct (existsb result_failed rs) eqn:Hex; [reflexivity|].
  exfalso. apply H. apply existsb_failed_false. exact Hex.
Qed.

(* the regression repaired by 2f7c47a, about the OLD definition *)
Lemma combine_old_refuted :
  exists (rs : list (vresult Z)),
    ~ Forall (fun r => r = VOk) rs /\ combine_validations_old rs = VOk /\
    combine_validations rs = VErr [].
Proof.
  exists [VOk; VErr []]. split; [|split; reflexivity].
  intros H. inversion H as [|? ? _ H2]. inversion H2 as [|? ? H3 _]. discriminate H3.
Qed.

(* ---------- statements in the form used by Props/C17.v ---------- *)
Lemma output_is_filter_valid_input :
  forall (R E : Type) (validate : R -> vresult E) (m : mode) (has_collector : bool)
         (input : list R) (ps : list (list R)),
    concat ps = input -> m <> FailFast ->
    exists rs, run_parts validate m has_collector ps = Ok rs /\
               output_of rs = filter (is_valid validate) input.
Proof.
  intros R E validate m hc input ps Hc Hm. subst input.
  exact (output_is_filter_valid validate m hc ps Hm).
Qed.

Lemma output_is_filter_valid_keyed :
  forall (K V E : Type) (validate : V -> vresult E) (m : mode) (has_collector : bool)
         (input : list (K * V)) (ps : list (list (K * V))),
    concat ps = input -> m <> FailFast ->
    exists rs, run_parts_values validate m has_collector ps = Ok rs /\
               output_of rs = filter (fun kv => is_valid validate (snd kv)) input.
Proof.
  intros K V E validate m hc input ps Hc Hm. subst input.
  exact (output_is_filter_valid (validate_value validate) m hc ps Hm).
Qed.

Lemma log_accounting_input :
  forall (R E : Type) (validate : R -> vresult E) (input : list R) (ps : list (list R))
         (rs : list (list R * list (entry E))) (coll : list (entry E)),
    concat ps = input ->
    run_parts validate LogAndContinue true ps = Ok rs ->
    interleaving (logs_of rs) coll ->
    Permutation coll (flat_map (local_entries validate) ps) /\
    Permutation (map (@e_errors E) coll) (invalid_errors validate input) /\
    length coll = count_invalid validate input /\
    length (output_of rs) + length coll = length input.
Proof.
  intros R E validate input ps rs coll Hc. subst input.
  exact (log_accounting validate ps rs coll).
Qed.

Lemma invalid_errors_keyed : forall (K V E : Type) (validate : V -> vresult E) (l : list (K * V)),
    invalid_errors (validate_value validate) l = invalid_errors validate (map snd l).
Proof.
  intros K V E validate l. unfold invalid_errors, validate_value.
  induction l as [|x r IH]; [reflexivity|]. cbn [flat_map map]. rewrite IH. reflexivity.
Qed.
Lemma count_invalid_keyed : forall (K V E : Type) (validate : V -> vresult E) (l : list (K * V)),
    count_invalid (validate_value validate) l = count_invalid validate (map snd l).
Proof.
  intros K V E validate l. unfold count_invalid.
  induction l as [|x r IH]; [reflexivity|]. cbn [filter map].
  change (is_valid (validate_value validate) x) with (is_valid validate (snd x)).
  destruct (is_valid validate (snd x)); cbn [negb length]; rewrite IH; reflexivity.
Qed.

Lemma log_accounting_keyed :
  forall (K V E : Type) (validate : V -> vresult E) (input : list (K * V))
         (ps : list (list (K * V))) (rs : list (list (K * V) * list (entry E)))
         (coll : list (entry E)),
    concat ps = input ->
    run_parts_values validate LogAndContinue true ps = Ok rs ->
    interleaving (logs_of rs) coll ->
    Permutation (map (@e_errors E) coll)
                (invalid_errors validate (map snd input)) /\
    length coll = count_invalid validate (map snd input) /\
    length (output_of rs) + length coll = length input.
Proof.
  intros K V E validate input ps rs coll Hc Hrun Hil.
  destruct (log_accounting_input _ _ (validate_value validate) input ps rs coll Hc Hrun Hil)
    as [_ [H2 [H3 H4]]].
  rewrite invalid_errors_keyed in H2. rewrite count_invalid_keyed in H3.
  split; [exact H2|]. split; [exact H3|exact H4].
Qed.

Lemma not_reordered_all :
  (forall (E : Type) (t : tag) (v : val -> vresult E) (m : mode) (hc : bool) (uid : nat),
      (op_kp (op_validate t v m hc uid), op_vo (op_validate t v m hc uid),
       op_rs (op_validate t v m hc uid), op_cost (op_validate t v m hc uid))
      = (false, false, false, 10) /\
      (op_kp (op_validate_values t v m hc uid), op_vo (op_validate_values t v m hc uid),
       op_rs (op_validate_values t v m hc uid), op_cost (op_validate_values t v m hc uid))
      = (true, true, false, 10)) /\
  (forall ops, (exists o, In o ops /\ op_rs o = false) -> reorder_ops ops = ops) /\
  (forall pre o post, is_validation_op o -> reorder_ops (pre ++ o :: post) = pre ++ o :: post) /\
  (forall c,
      Forall (fun n => match n with
                       | NB (BStateless ops) => exists o, In o ops /\ op_rs o = false
                       | _ => True
                       end) c ->
      reorder c = c).
Proof.
  split; [exact validation_flags|]. split; [exact reorder_ops_pinned|].
  split; [exact validate_not_reordered|exact reorder_chain_pinned].
Qed.

Lemma combine_all :
  forall (E : Type) (rs : list (vresult E)),
    (combine_validations rs = VOk <-> Forall (fun r => r = VOk) rs) /\
    (~ Forall (fun r => r = VOk) rs ->
     combine_validations rs = VErr (flat_map result_errors rs)).
Proof.
  intros E rs. split; [exact (combine_ok_iff E rs)|exact (combine_err E rs)].
Qed.

(* ---------- one collector over several runs ---------- *)
Lemma collector_across_runs :
  forall (R E : Type) (validate : R -> vresult E) (m : mode) (has_collector : bool)
         (ps : list (list R)) (before after : list (entry E)),
    run_effect validate m has_collector ps before after ->
    (m = LogAndContinue -> has_collector = true ->
     exists app, after = before ++ app /\
                 Permutation app (flat_map (local_entries validate) ps) /\
                 Permutation (map (@e_errors E) app) (invalid_errors validate (concat ps)) /\
                 length after = length before + count_invalid validate (concat ps)) /\
    ((m = LogAndContinue -> has_collector = false) -> after = before).
Proof.
  intros R E validate m hc ps before after H.
  destruct H as [rs app Hrun Hil | Hpanic].
  - split.
    + intros Hm Hhc. subst m hc. exists app. split; [reflexivity|].
      destruct (log_accounting validate ps rs app Hrun Hil) as [H1 [H2 [H3 _]]].
      split; [exact H1|]. split; [exact H2|]. rewrite app_length, H3. reflexivity.
    + intros Hm. rewrite (nothing_collected validate m hc ps rs app Hm Hrun Hil).
      apply app_nil_r.
  - split.
    + intros Hm Hhc. subst m. rewrite run_parts_not_failfast in Hpanic by discriminate.
      discriminate Hpanic.
    + intros _. reflexivity.
Qed.
