(* Proofs about the checkpoint store model (Ckpt/Store.v), part 2: the directory model, retention
   (cleanup_old_checkpoints through save_checkpoint), find_latest_checkpoint, clear_checkpoints.
   The directory listing `readdir` is an arbitrary function that returns a permutation of the
   names present. *)
From Coq Require Import List ZArith Bool Lia Permutation Sorted.
From IB Require Import Ckpt.Bincode Ckpt.Store Proofs.CkptBincode Proofs.CkptStore.
Import ListNotations.
Open Scope Z_scope.

(* ------------------------------------------------------------------ lists *)
Definition bmem (x : bytes) (l : list bytes) : bool := existsb (bytes_eqb x) l.

Lemma bmem_In x l : bmem x l = true <-> In x l.
Proof.
  unfold bmem. rewrite existsb_exists. split.
  - intros (y & Hy & E). apply bytes_eqb_eq in E. now subst.
  - intro H. exists x. split; [assumption | apply bytes_eqb_refl].
Qed.
Lemma bmem_not_In x l : bmem x l = false <-> ~ In x l.
Proof.
  rewrite <- bmem_In. destruct (bmem x l); split; intro H.
  - discriminate.
  - exfalso. now apply H.
  - intro X. discriminate.
  - reflexivity.
Qed.

Lemma Permutation_filter {A} (f : A -> bool) l l' :
  Permutation l l' -> Permutation (filter f l) (filter f l').
Proof.
  induction 1 as [|x l l' HP IH|x y l|l l' l'' H1 IH1 H2 IH2]; cbn [filter].
  - constructor.
  - destruct (f x); [now constructor | assumption].
  - destruct (f x), (f y); try reflexivity; try (constructor; reflexivity).
  - etransitivity; eassumption.
Qed.

Lemma filter_all {A} (f : A -> bool) l : (forall x, In x l -> f x = true) -> filter f l = l.
Proof.
  induction l as [|x l IH]; intro H; cbn [filter]; [reflexivity|].
  rewrite (H x (or_introl eq_refl)). f_equal. apply IH. intros y Hy. apply H. now right.
Qed.
Lemma filter_none {A} (f : A -> bool) l : (forall x, In x l -> f x = false) -> filter f l = [].
Proof.
  induction l as [|x l IH]; intro H; cbn [filter]; [reflexivity|].
  rewrite (H x (or_introl eq_refl)). apply IH. intros y Hy. apply H. now right.
Qed.
Lemma filter_comm {A} (f g : A -> bool) l : filter f (filter g l) = filter g (filter f l).
Proof.
  induction l as [|x l IH]; cbn [filter]; [reflexivity|].
  destruct (f x) eqn:F, (g x) eqn:Gx; cbn [filter]; rewrite ?F, ?Gx, IH; reflexivity.
Qed.
Lemma firstn_In {A} n (l : list A) x : In x (firstn n l) -> In x l.
Proof. intro H. rewrite <- (firstn_skipn n l). apply in_or_app. now left. Qed.
Lemma NoDup_filter {A} (f : A -> bool) l : NoDup l -> NoDup (filter f l).
Proof.
  induction 1 as [|x l Hx Hl IH]; cbn [filter]; [constructor|].
  destruct (f x); [|assumption]. constructor; [|assumption].
  intro H. apply filter_In in H. tauto.
Qed.

(* ------------------------------------------------------------------ directory model *)
Lemma names_remove d n :
  dir_names (dir_remove d n) = filter (fun x => negb (bytes_eqb x n)) (dir_names d).
Proof.
  unfold dir_names, dir_remove. induction d as [|[k v] d IH]; cbn [filter map fst]; [reflexivity|].
  destruct (bytes_eqb k n); cbn [negb map fst]; now rewrite IH.
Qed.

Lemma filter_bmem_cons n ns l :
  filter (fun x => negb (bytes_eqb x n)) (filter (fun x => negb (bmem x ns)) l)
  = filter (fun x => negb (bmem x (n :: ns))) l.
Proof.
  induction l as [|a l IHl]; cbn [filter]; [reflexivity|].
  assert (E0 : bmem a (n :: ns) = bytes_eqb a n || bmem a ns) by reflexivity. rewrite E0.
  destruct (bmem a ns) eqn:E; cbn [negb].
  - rewrite orb_true_r. cbn [negb]. exact IHl.
  - rewrite orb_false_r. cbn [filter]. destruct (bytes_eqb a n); cbn [negb]; now rewrite IHl.
Qed.

Lemma names_remove_all ns : forall d,
  dir_names (dir_remove_all d ns) = filter (fun x => negb (bmem x ns)) (dir_names d).
Proof.
  unfold dir_remove_all. induction ns as [|n ns IH]; intro d; cbn [fold_left].
  - symmetry. apply filter_all. reflexivity.
  - rewrite IH, names_remove, filter_comm. apply filter_bmem_cons.
Qed.

Lemma lookup_remove d n x :
  dir_lookup (dir_remove d n) x = if bytes_eqb x n then None else dir_lookup d x.
Proof.
  unfold dir_remove. induction d as [|[k v] d IH]; cbn [filter dir_lookup fst].
  - now destruct (bytes_eqb x n).
  - destruct (bytes_eqb k n) eqn:E; cbn [negb dir_lookup].
    + rewrite IH. apply bytes_eqb_eq in E. subst k.
      destruct (bytes_eqb x n) eqn:E2; [reflexivity|].
      destruct (bytes_eqb n x) eqn:E3; [|reflexivity].
      apply bytes_eqb_eq in E3. subst. now rewrite bytes_eqb_refl in E2.
    + rewrite IH. destruct (bytes_eqb k x) eqn:E2; [|reflexivity].
      apply bytes_eqb_eq in E2. subst k. now rewrite E.
Qed.

Lemma lookup_remove_all ns : forall d x,
  dir_lookup (dir_remove_all d ns) x = if bmem x ns then None else dir_lookup d x.
Proof.
  unfold dir_remove_all. induction ns as [|n ns IH]; intros d x; cbn [fold_left]; [reflexivity|].
  rewrite IH, lookup_remove. unfold bmem at 2. cbn [existsb]. fold (bmem x ns).
  destruct (bmem x ns); [now rewrite orb_true_r|]. now rewrite orb_false_r.
Qed.

Lemma lookup_write d n b x :
  dir_lookup (dir_write d n b) x = if bytes_eqb n x then Some b else dir_lookup d x.
Proof.
  unfold dir_write. cbn [dir_lookup]. destruct (bytes_eqb n x) eqn:E; [reflexivity|].
  rewrite lookup_remove. destruct (bytes_eqb x n) eqn:E2; [|reflexivity].
  apply bytes_eqb_eq in E2. subst. now rewrite bytes_eqb_refl in E.
Qed.

Lemma names_write d n b :
  dir_names (dir_write d n b) = n :: filter (fun x => negb (bytes_eqb x n)) (dir_names d).
Proof. unfold dir_write, dir_names. cbn [map fst]. f_equal. apply names_remove. Qed.

Lemma dir_ok_write d n b : dir_ok d -> dir_ok (dir_write d n b).
Proof.
  unfold dir_ok. intro H. rewrite names_write. constructor; [|now apply NoDup_filter].
  intro Hin. apply filter_In in Hin. destruct Hin as [_ Hin]. now rewrite bytes_eqb_refl in Hin.
Qed.

Lemma dir_ok_remove_all d ns : dir_ok d -> dir_ok (dir_remove_all d ns).
Proof. unfold dir_ok. intro H. rewrite names_remove_all. now apply NoDup_filter. Qed.

Lemma lookup_in_names d x b : dir_lookup d x = Some b -> In x (dir_names d).
Proof.
  induction d as [|[k v] d IH]; cbn [dir_lookup dir_names map fst]; [discriminate|].
  destruct (bytes_eqb k x) eqn:E.
  - apply bytes_eqb_eq in E. intros _. now left.
  - intro H. right. exact (IH H).
Qed.

Lemma names_in_lookup d x : In x (dir_names d) -> exists b, dir_lookup d x = Some b.
Proof.
  induction d as [|[k v] d IH]; cbn [dir_lookup dir_names map fst]; [contradiction|].
  intros [->|H]; [rewrite bytes_eqb_refl; eauto|].
  destruct (bytes_eqb k x); eauto.
Qed.

(* ------------------------------------------------------------------ the stable sort *)
Section SortFacts.
  Variable key : name -> Z.
  Notation R := (fun x y => key x <= key y).

  Lemma insert_by_perm x l : Permutation (insert_by key x l) (x :: l).
  Proof.
    induction l as [|y l IH]; cbn [insert_by]; [reflexivity|].
    destruct (key x <=? key y); [reflexivity|].
    etransitivity; [apply perm_skip, IH | apply perm_swap].
  Qed.

  Lemma sort_by_perm l : Permutation (sort_by key l) l.
  Proof.
    induction l as [|x l IH]; cbn [sort_by fold_right]; [constructor|].
    fold (sort_by key l). etransitivity; [apply insert_by_perm | now constructor].
  Qed.

  Lemma insert_by_sorted x l : StronglySorted R l -> StronglySorted R (insert_by key x l).
  Proof.
    induction 1 as [|y l Hl IH Hy]; cbn [insert_by].
    - constructor; constructor.
    - destruct (Z.leb_spec (key x) (key y)).
      + constructor; [constructor; assumption|].
        constructor; [assumption|]. rewrite Forall_forall in *. intros z Hz. specialize (Hy z Hz). lia.
      + constructor; [assumption|].
        rewrite Forall_forall in *. intros z Hz.
        apply (Permutation_in _ (insert_by_perm x l)) in Hz. destruct Hz as [<-|Hz]; [lia|auto].
  Qed.

  Lemma sort_by_sorted l : StronglySorted R (sort_by key l).
  Proof.
    induction l as [|x l IH]; cbn [sort_by fold_right]; [constructor|]. now apply insert_by_sorted.
  Qed.

  Lemma sorted_app a : forall b, StronglySorted R (a ++ b) ->
    forall x y, In x a -> In y b -> key x <= key y.
  Proof.
    induction a as [|z a IH]; intros b H x y Hx Hy; [contradiction|].
    cbn [app] in H. inversion H as [|? ? Hs Hf]; subst. destruct Hx as [->|Hx].
    - rewrite Forall_forall in Hf. apply Hf. apply in_or_app. now right.
    - eapply IH; eassumption.
  Qed.

  Lemma sorted_last l : StronglySorted R l -> forall x, In x l -> key x <= key (last l []).
  Proof.
    intros H x Hx. assert (Hne : l <> []) by (intro E0; subst; contradiction).
    assert (Hex : exists rw lw, l = rw ++ [lw] /\ last l [] = lw).
    { exists (removelast l), (last l []). split; [now apply app_removelast_last | reflexivity]. }
    destruct Hex as (rw & lw & E & E2). rewrite E2. clear E2.
    subst l. apply in_app_or in Hx. destruct Hx as [Hx|[<-|[]]]; [|lia].
    eapply sorted_app; [exact H | exact Hx | now left].
  Qed.
End SortFacts.

(* ------------------------------------------------------------------ retention *)
Section Retention.
  Variable readdir : dir -> list name.
  Hypothesis readdir_perm : forall d, Permutation (readdir d) (dir_names d).

  Lemma ckpts_of_perm pid d : Permutation (ckpts_of readdir pid d) (filter (is_ckpt pid) (dir_names d)).
  Proof. unfold ckpts_of. apply Permutation_filter, readdir_perm. Qed.

  (* the files of pipeline pid present in d *)
  Definition own (pid : bytes) (d : dir) : list name := filter (is_ckpt pid) (dir_names d).

  (* what one run of cleanup_old_checkpoints guarantees *)
  Record retained (m : Z) (pid : bytes) (d d' : dir) : Prop := {
    ret_ok : dir_ok d';
    (* only deletions, and never of a file that is not a checkpoint of this pipeline *)
    ret_sub : forall x b, dir_lookup d' x = Some b -> dir_lookup d x = Some b;
    ret_other : forall x, is_ckpt pid x = false -> dir_lookup d' x = dir_lookup d x;
    (* exactly min(m, count) remain *)
    ret_count : Z.of_nat (length (own pid d')) = Z.min m (Z.of_nat (length (own pid d)));
    (* no deleted one is newer than a kept one *)
    ret_recent : forall k x, In k (own pid d') -> In x (own pid d) -> ~ In x (own pid d') ->
                             ts_key pid x <= ts_key pid k
  }.

  Lemma retain_spec m pid d :
    dir_ok d -> 0 <= m -> retained m pid d (retain readdir (Some m) pid d).
  Proof.
    intros Hok Hm. unfold retain.
    set (cks := ckpts_of readdir pid d).
    pose proof (ckpts_of_perm pid d) as Hperm. fold cks in Hperm. fold (own pid d) in Hperm.
    assert (Hlen : length cks = length (own pid d)) by (now apply Permutation_length).
    destruct (Z.leb_spec (Z.of_nat (length cks)) m) as [Hle|Hgt].
    - constructor; auto; try lia. intros k x _ Hx Hnx. contradiction.
    - set (j := Z.to_nat (Z.of_nat (length cks) - m)).
      set (srt := sort_by (ts_key pid) cks).
      set (del := firstn j srt). set (keep := skipn j srt).
      assert (Hsplit : srt = del ++ keep) by (symmetry; apply firstn_skipn).
      assert (Hps : Permutation (del ++ keep) (own pid d)).
      { rewrite <- Hsplit. etransitivity; [apply sort_by_perm | exact Hperm]. }
      assert (Hnd : NoDup (del ++ keep)).
      { eapply Permutation_NoDup; [symmetry; exact Hps|]. apply NoDup_filter. exact Hok. }
      assert (Hdisj : forall x, In x del -> ~ In x keep).
      { intros x Hd Hk. clear -Hnd Hd Hk. induction del as [|y del IH]; [contradiction|].
        cbn [app] in Hnd. inversion Hnd as [|? ? Hy Hnd']; subst. destruct Hd as [->|Hd].
        - apply Hy. apply in_or_app. now right.
        - now apply IH. }
      assert (Hown' : Permutation (own pid (dir_remove_all d del)) keep).
      { unfold own. rewrite names_remove_all, filter_comm. fold (own pid d).
        etransitivity; [apply Permutation_filter; symmetry; exact Hps|].
        rewrite filter_app, filter_none, filter_all; [reflexivity| |].
        - intros x Hx. apply negb_true_iff, bmem_not_In. intro Hd. exact (Hdisj x Hd Hx).
        - intros x Hx. apply negb_false_iff, bmem_In. exact Hx. }
      assert (Hdl : length del = j).
      { unfold del. rewrite firstn_length, Nat.min_l; [reflexivity|].
        unfold srt. rewrite (Permutation_length (sort_by_perm (ts_key pid) cks)). lia. }
      constructor.
      + now apply dir_ok_remove_all.
      + intros x b. rewrite lookup_remove_all. destruct (bmem x del); [discriminate | auto].
      + intros x Hx. rewrite lookup_remove_all. destruct (bmem x del) eqn:E; [|reflexivity].
        apply bmem_In in E. exfalso.
        assert (In x (own pid d)) by (eapply Permutation_in; [exact Hps | apply in_or_app; now left]).
        unfold own in H. apply filter_In in H. destruct H as [_ H]. congruence.
      + rewrite (Permutation_length Hown').
        assert (length (del ++ keep) = length (own pid d)) by (now apply Permutation_length).
        rewrite app_length in H. lia.
      + intros k x Hk Hx Hnx.
        assert (Hk' : In k keep) by (eapply Permutation_in; [exact Hown' | exact Hk]).
        assert (Hx' : In x del).
        { apply (Permutation_in _ (Permutation_sym Hps)) in Hx. apply in_app_or in Hx.
          destruct Hx as [Hx|Hx]; [assumption|]. exfalso. apply Hnx.
          eapply Permutation_in; [symmetry; exact Hown' | exact Hx]. }
        eapply (sorted_app (ts_key pid) del keep); [|exact Hx'|exact Hk'].
        rewrite <- Hsplit. apply sort_by_sorted.
  Qed.

  (* ---------------- save_checkpoint: write + retention ---------------- *)
  Theorem save_retention m d s :
    let pid := pipeline_id s in
    let n := ckpt_name pid (timestamp s) in
    let d1 := dir_write d n (encode s) in
    dir_ok d -> 0 <= m -> is_u64 (timestamp s) -> name_ok n = true ->
    exists d', save readdir (Some m) d s = (Ok n, d')
               /\ In n (own pid d1)
               /\ retained m pid d1 d'
               /\ (forall x, is_ckpt pid x = false -> dir_lookup d' x = dir_lookup d x).
  Proof.
    intros pid n d1 Hok Hm Hts Hname. unfold save. fold pid. fold n. rewrite Hname. fold d1.
    eexists. split; [reflexivity|].
    assert (Hn : is_ckpt pid n = true) by (now apply is_ckpt_name).
    pose proof (retain_spec m pid d1 (dir_ok_write d n (encode s) Hok) Hm) as HR.
    split; [|split; [exact HR|]].
    - unfold own, d1. rewrite names_write. cbn [filter]. rewrite Hn. now left.
    - intros x Hx. rewrite (ret_other _ _ _ _ HR x Hx). unfold d1. rewrite lookup_write.
      destruct (bytes_eqb n x) eqn:E; [|reflexivity]. apply bytes_eqb_eq in E. congruence.
  Qed.

  Theorem save_no_retention d s :
    let n := ckpt_name (pipeline_id s) (timestamp s) in
    name_ok n = true -> save readdir None d s = (Ok n, dir_write d n (encode s)).
  Proof. intros n Hn. unfold save. fold n. now rewrite Hn. Qed.

  Theorem save_bad_name max d s :
    name_ok (ckpt_name (pipeline_id s) (timestamp s)) = false ->
    save readdir max d s = (Err LCreate, d).
  Proof. intro Hn. unfold save. now rewrite Hn. Qed.

  (* the files of another pipeline are the same list before and after *)
  Lemma save_other_own max d s p :
    p <> pipeline_id s -> dir_ok d -> is_u64 (timestamp s) ->
    own p (snd (save readdir max d s)) = own p d.
  Proof.
    intros Hp Hok Hts. unfold save.
    set (pid := pipeline_id s). set (n := ckpt_name pid (timestamp s)).
    destruct (name_ok n); [|reflexivity]. cbn [snd].
    assert (Hn : is_ckpt p n = false).
    { destruct (is_ckpt p n) eqn:E; [|reflexivity]. exfalso. apply Hp.
      eapply owner_unique; [exact E | now apply is_ckpt_name]. }
    assert (Hw : own p (dir_write d n (encode s)) = own p d).
    { unfold own. rewrite names_write. cbn [filter]. rewrite Hn. rewrite filter_comm.
      apply filter_all. intros x Hx. apply filter_In in Hx. destruct Hx as [_ Hx].
      apply negb_true_iff, bytes_eqb_neq. intros ->. congruence. }
    destruct max as [m|]; [|exact Hw]. unfold retain.
    destruct (_ <=? m); [exact Hw|].
    set (del := firstn _ _). rewrite <- Hw. unfold own. rewrite names_remove_all, filter_comm.
    apply filter_all. intros x Hx. apply filter_In in Hx. destruct Hx as [_ Hx].
    apply negb_true_iff, bmem_not_In. intro Hd.
    assert (In x (ckpts_of readdir pid (dir_write d n (encode s)))).
    { eapply Permutation_in; [apply sort_by_perm|]. eapply firstn_In. exact Hd. }
    unfold ckpts_of in H. apply filter_In in H. destruct H as [_ H].
    apply Hp. eapply owner_unique; eassumption.
  Qed.

  (* ---------------- find_latest_checkpoint ---------------- *)
  Theorem latest_spec pid d :
    match latest readdir true pid d with
    | Some n => In n (own pid d) /\ forall x, In x (own pid d) -> ts_key pid x <= ts_key pid n
    | None => own pid d = []
    end.
  Proof.
    unfold latest. pose proof (ckpts_of_perm pid d) as Hperm. fold (own pid d) in Hperm.
    destruct (ckpts_of readdir pid d) as [|c cks] eqn:E.
    - apply Permutation_nil in Hperm. exact Hperm.
    - set (srt := sort_by (ts_key pid) (c :: cks)).
      assert (Hps : Permutation srt (own pid d)).
      { etransitivity; [apply sort_by_perm | exact Hperm]. }
      assert (Hne : srt <> []).
      { intro H0. rewrite H0 in Hps. apply Permutation_nil in Hps.
        rewrite Hps in Hperm. apply Permutation_sym, Permutation_nil in Hperm. discriminate. }
      split.
      + eapply Permutation_in; [exact Hps|]. rewrite (app_removelast_last [] Hne) at 2.
        apply in_or_app. right. now left.
      + intros x Hx. apply sorted_last; [apply sort_by_sorted|].
        eapply Permutation_in; [symmetry; exact Hps | exact Hx].
  Qed.

  Lemma latest_disabled pid d : latest readdir false pid d = None.
  Proof. reflexivity. Qed.

  (* ---------------- clear_checkpoints ---------------- *)
  Theorem clear_spec pid d :
    dir_ok d ->
    let d' := clear readdir pid d in
    dir_ok d' /\ own pid d' = []
    /\ (forall x, is_ckpt pid x = false -> dir_lookup d' x = dir_lookup d x)
    /\ (forall x b, dir_lookup d' x = Some b -> dir_lookup d x = Some b).
  Proof.
    intros Hok d'. unfold d', clear.
    pose proof (ckpts_of_perm pid d) as Hperm. fold (own pid d) in Hperm.
    split; [now apply dir_ok_remove_all|]. split; [|split].
    - unfold own. rewrite names_remove_all, filter_comm. apply filter_none.
      intros x Hx. apply negb_false_iff, bmem_In.
      eapply Permutation_in; [symmetry; exact Hperm | exact Hx].
    - intros x Hx. rewrite lookup_remove_all.
      destruct (bmem x _) eqn:E; [|reflexivity]. apply bmem_In in E.
      apply (Permutation_in _ Hperm) in E. unfold own in E. apply filter_In in E. destruct E; congruence.
    - intros x b. rewrite lookup_remove_all. destruct (bmem x _); [discriminate|auto].
  Qed.

  (* ---------------- histories ---------------- *)
  (* any sequence of saves, pipeline ids interleaved at will, starting from any directory *)
  Definition run_saves (max : option Z) (d : dir) (h : list cstate) : dir :=
    fold_left (fun d s => snd (save readdir max d s)) h d.

  Lemma save_dir_ok max d s : dir_ok d -> dir_ok (snd (save readdir max d s)).
  Proof.
    intro Hok. unfold save. destruct (name_ok _); [|exact Hok]. cbn [snd].
    destruct max as [m|]; [|now apply dir_ok_write]. unfold retain.
    destruct (_ <=? m); [now apply dir_ok_write|]. apply dir_ok_remove_all. now apply dir_ok_write.
  Qed.

  Theorem history_bounded m h : forall d p,
    dir_ok d -> 0 <= m ->
    Forall (fun s => is_u64 (timestamp s)
                     /\ name_ok (ckpt_name (pipeline_id s) (timestamp s)) = true) h ->
    In p (map pipeline_id h) ->
    Z.of_nat (length (own p (run_saves (Some m) d h))) <= m.
  Proof.
    induction h as [|s h IH]; intros d p Hok Hm Hall Hin; [contradiction|].
    inversion Hall as [|? ? [Hts Hname] Hall']; subst. cbn [run_saves fold_left].
    fold (run_saves (Some m) (snd (save readdir (Some m) d s)) h).
    pose proof (save_dir_ok (Some m) d s Hok) as Hok1.
    destruct (in_dec (list_eq_dec Z.eq_dec) p (map pipeline_id h)) as [Hlater|Hnot].
    - now apply IH.
    - cbn [map] in Hin. destruct Hin as [Hp|Hin]; [|contradiction]. subst p.
      (* later saves belong to other pipelines: they leave this pipeline's files alone *)
      assert (Hkeep : forall h' d', dir_ok d' -> ~ In (pipeline_id s) (map pipeline_id h') ->
                Forall (fun s' => is_u64 (timestamp s')
                     /\ name_ok (ckpt_name (pipeline_id s') (timestamp s')) = true) h' ->
                own (pipeline_id s) (run_saves (Some m) d' h') = own (pipeline_id s) d').
      { induction h' as [|s' h' IH']; intros d' Hok' Hn' Hall''; [reflexivity|].
        inversion Hall'' as [|? ? [Hts' _] Hall3]; subst. cbn [run_saves fold_left].
        fold (run_saves (Some m) (snd (save readdir (Some m) d' s')) h').
        rewrite IH'; [| now apply save_dir_ok | intro; apply Hn'; now right | assumption].
        apply save_other_own; [|assumption|assumption]. intro E. apply Hn'. left. now symmetry. }
      rewrite Hkeep; [|assumption|assumption|assumption].
      destruct (save_retention m d s Hok Hm Hts Hname) as (d' & Hs & _ & HR & _).
      rewrite Hs. cbn [snd]. rewrite (ret_count _ _ _ _ HR). lia.
  Qed.
End Retention.

(* ------------------------------------------------------------------ load (save s) = s *)
Section SaveLoad.
  Variable readdir : dir -> list name.
  Hypothesis readdir_perm : forall d, Permutation (readdir d) (dir_names d).
  Variable H : bytes -> bytes.
  Variable avail : Z.
  Hypothesis Hav : ckpt_limit <= avail.

  Theorem save_load_roundtrip max d s :
    let n := ckpt_name (pipeline_id s) (timestamp s) in
    dir_ok d -> wf_state s -> claim_total s <= ckpt_limit -> name_ok n = true ->
    checksum s = compute_checksum H (meta_str s) ->
    match max with Some m => 0 <= m | None => True end ->
    exists d', save readdir max d s = (Ok n, d')
               /\ (load H avail d' n = Ok s \/ dir_lookup d' n = None)
               /\ (max = None -> load H avail d' n = Ok s).
  Proof.
    intros n Hok Hwf Hsz Hname Hck Hmax.
    assert (Hload : load_bytes H avail (encode s) = Ok s).
    { rewrite <- (app_nil_r (encode s)). now apply load_bytes_roundtrip. }
    destruct max as [m|].
    - assert (Hts : is_u64 (timestamp s)) by (unfold wf_state in Hwf; tauto).
      destruct (save_retention readdir readdir_perm m d s Hok Hmax Hts Hname) as (d' & Hs & _ & HR & _).
      exists d'. split; [exact Hs|]. split; [|discriminate].
      unfold load. destruct (dir_lookup d' n) as [b|] eqn:E; [left|now right].
      apply (ret_sub _ _ _ _ HR) in E. fold n in E. rewrite lookup_write, bytes_eqb_refl in E.
      inversion E; subst. exact Hload.
    - exists (dir_write d n (encode s)). split; [now apply save_no_retention|].
      assert (load H avail (dir_write d n (encode s)) n = Ok s).
      { unfold load. now rewrite lookup_write, bytes_eqb_refl. }
      auto.
  Qed.
End SaveLoad.
