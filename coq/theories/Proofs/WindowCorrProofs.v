(* Ties the decidable class used by the correspondence check (Corr/C13.v: known_class, computed
   from the independent reference ref_start) to the class of the theorems (Tumble.unrepresentable). *)
From Coq Require Import ZArith Bool Lia.
From IB Require Import Window.Tumble Proofs.WindowTumbleProofs.
From IB Require Corr.C13.
Open Scope Z_scope.

Lemma ref_start_eq : forall ts size off,
    1 <= size -> Corr.C13.ref_start ts size off = win_start ts size off.
Proof.
  intros ts size off Hs. unfold Corr.C13.ref_start. rewrite (win_start_multiple ts size off Hs). lia.
Qed.

Lemma known_class_eq : forall ts size off,
    Corr.C13.known_class ts size off = unrepresentable ts size off.
Proof.
  intros ts size off. unfold Corr.C13.known_class, unrepresentable.
  destruct (Z.leb_spec 1 size) as [Hs|Hs]; [|reflexivity]. cbn [andb].
  rewrite (ref_start_eq ts size off Hs). f_equal.
  pose proof (win_start_nonneg_iff ts size off Hs) as Hiff.
  destruct (Z.ltb_spec (win_start ts size off) 0) as [Hneg|Hnn];
    destruct (Z.ltb_spec ts (off mod size)) as [Hlt|Hge]; try reflexivity; lia.
Qed.
