(* Basic facts about the exact arithmetic instance (X = Q + {+inf, -inf, NaN}) of the t-digest model
   and about the model's stable sort. *)
From Coq Require Import List Bool Arith QArith Qabs Lqa Lia Permutation Sorted.
From IB Require Import Combiners.TDigest.
Import ListNotations.
Local Open Scope Q_scope.

(* keep rational arithmetic symbolic when simplifying the X layer *)
Global Arguments Qplus : simpl never.
Global Arguments Qminus : simpl never.
Global Arguments Qmult : simpl never.
Global Arguments Qdiv : simpl never.
Global Arguments Qopp : simpl never.
Global Arguments Qabs : simpl never.
Global Arguments Qle_bool : simpl never.
Global Arguments Qeq_bool : simpl never.
Global Arguments qltb : simpl never.
Global Arguments qpow2 : simpl never.
Global Arguments inject_Z : simpl never.

(* ------------------------------------------------------------------ Boolean comparisons *)
Lemma qltb_true : forall a b, qltb a b = true <-> a < b.
Proof.
  intros a b. unfold qltb. rewrite negb_true_iff. split.
  - intro H. apply Qnot_le_lt. intro L. apply Qle_bool_iff in L. congruence.
  - intro H. destruct (Qle_bool b a) eqn:E; [|reflexivity].
    apply Qle_bool_iff in E. lra.
Qed.

Lemma qltb_false : forall a b, qltb a b = false <-> b <= a.
Proof.
  intros a b. unfold qltb. rewrite negb_false_iff. apply Qle_bool_iff.
Qed.

Lemma qleb_false : forall a b, Qle_bool a b = false <-> b < a.
Proof.
  intros a b. split.
  - intro H. apply Qnot_le_lt. intro L. apply Qle_bool_iff in L. congruence.
  - intro H. destruct (Qle_bool a b) eqn:E; [|reflexivity].
    apply Qle_bool_iff in E. lra.
Qed.

Lemma qeqb_false : forall a b, Qeq_bool a b = false <-> ~ a == b.
Proof.
  intros a b. split.
  - intros H E. apply Qeq_bool_iff in E. congruence.
  - intro H. destruct (Qeq_bool a b) eqn:E; [|reflexivity].
    apply Qeq_bool_iff in E. contradiction.
Qed.

Lemma eps_pos : 0 < qpow2 52.
Proof. reflexivity. Qed.
Lemma eps_lt_1 : qpow2 52 < 1.
Proof. reflexivity. Qed.

(* ------------------------------------------------------------------ centroids *)
(* a centroid with finite mean in [lo, hi] and finite weight >= 1 *)
Definition fin_c (lo hi : Q) (c : X * X) : Prop :=
  match c with
  | (Fin m, Fin w) => lo <= m <= hi /\ 1 <= w
  | _ => False
  end.
Definition mean_q (c : X * X) : Q := match fst c with Fin m => m | _ => 0 end.
Definition weight_q (c : X * X) : Q := match snd c with Fin w => w | _ => 0 end.
Definition sumw (l : list (X * X)) : Q := fold_right (fun c s => weight_q c + s) 0 l.
Definition mle (a b : X * X) : Prop := mean_q a <= mean_q b.

Lemma fin_c_inv : forall lo hi c, fin_c lo hi c ->
  exists m w, c = (Fin m, Fin w) /\ lo <= m <= hi /\ 1 <= w.
Proof.
  intros lo hi [[m| | |] [w| | |]] H; cbn in H; try contradiction.
  exists m, w. tauto.
Qed.

Lemma fin_c_widen : forall lo hi lo' hi' c,
  lo' <= lo -> hi <= hi' -> fin_c lo hi c -> fin_c lo' hi' c.
Proof.
  intros lo hi lo' hi' c Hl Hh H. destruct (fin_c_inv _ _ _ H) as (m & w & -> & Hm & Hw).
  cbn. split; [lra | exact Hw].
Qed.

Lemma sumw_app : forall a b, sumw (a ++ b) == sumw a + sumw b.
Proof.
  induction a as [|x a IH]; intro b.
  - change ([] ++ b) with b. change (sumw []) with 0. lra.
  - change ((x :: a) ++ b) with (x :: (a ++ b)).
    change (sumw (x :: a ++ b)) with (weight_q x + sumw (a ++ b)).
    change (sumw (x :: a)) with (weight_q x + sumw a). rewrite IH. lra.
Qed.

Lemma sumw_perm : forall a b, Permutation a b -> sumw a == sumw b.
Proof.
  intros a b P. induction P as [|x l l' P IH|x y l|l l' l'' P1 IH1 P2 IH2].
  - reflexivity.
  - change (weight_q x + sumw l == weight_q x + sumw l'). rewrite IH. reflexivity.
  - change (weight_q y + (weight_q x + sumw l) == weight_q x + (weight_q y + sumw l)). lra.
  - rewrite IH1. exact IH2.
Qed.

Lemma sumw_ge_length : forall lo hi l, Forall (fin_c lo hi) l ->
  inject_Z (Z.of_nat (length l)) <= sumw l.
Proof.
  intros lo hi l H. induction H as [|c l Hc Hl IH].
  - exact (Qle_refl 0).
  - destruct (fin_c_inv _ _ _ Hc) as (m & w & -> & Hm & Hw).
    change (sumw ((Fin m, Fin w) :: l)) with (w + sumw l). cbn [length].
    rewrite Nat2Z.inj_succ. unfold Z.succ. rewrite inject_Z_plus.
    change (inject_Z 1) with 1. lra.
Qed.

Lemma sumw_pos : forall lo hi l, Forall (fin_c lo hi) l -> l <> [] -> 1 <= sumw l.
Proof.
  intros lo hi l H NE. destruct H as [|c l Hc Hl]; [contradiction|].
  destruct (fin_c_inv _ _ _ Hc) as (m & w & -> & Hm & Hw).
  pose proof (sumw_ge_length _ _ _ Hl) as G.
  change (sumw ((Fin m, Fin w) :: l)) with (w + sumw l).
  assert (0 <= inject_Z (Z.of_nat (length l))).
  { change 0 with (inject_Z 0). rewrite <- Zle_Qle. lia. }
  lra.
Qed.

(* ------------------------------------------------------------------ sorted by mean *)
Lemma mle_refl : forall a, mle a a.
Proof. intro a. unfold mle. lra. Qed.
Lemma mle_trans : forall a b c, mle a b -> mle b c -> mle a c.
Proof. unfold mle. intros. lra. Qed.

Lemma sorted_app_l : forall l1 l2 : list (X * X),
  StronglySorted mle (l1 ++ l2) -> StronglySorted mle l1.
Proof.
  induction l1 as [|x l1 IH]; intros l2 H; [constructor|].
  cbn in H. inversion H as [|? ? Hs Hf]; subst. constructor.
  - eapply IH. exact Hs.
  - rewrite Forall_forall in Hf |- *. intros y Hy. apply Hf. apply in_or_app. left. exact Hy.
Qed.

Lemma sorted_snoc_inv : forall l a, StronglySorted mle (l ++ [a]) ->
  forall x, In x (l ++ [a]) -> mle x a.
Proof.
  induction l as [|y l IH]; intros a H x Hx; cbn in *.
  - destruct Hx as [<-|[]]. apply mle_refl.
  - inversion H as [|? ? Hs Hf]; subst. destruct Hx as [<-|Hx].
    + rewrite Forall_forall in Hf. apply Hf. apply in_or_app. right. left. reflexivity.
    + apply IH; assumption.
Qed.

Lemma sorted_snoc : forall l b, StronglySorted mle l -> (forall x, In x l -> mle x b) ->
  StronglySorted mle (l ++ [b]).
Proof.
  induction l as [|y l IH]; intros b H Hb; cbn.
  - constructor; constructor.
  - inversion H as [|? ? Hs Hf]; subst. constructor.
    + apply IH; [exact Hs|]. intros x Hx. apply Hb. right. exact Hx.
    + apply Forall_app. split; [exact Hf|]. constructor; [|constructor].
      apply Hb. left. reflexivity.
Qed.

Lemma sorted_replace_last : forall l a b, StronglySorted mle (l ++ [a]) -> mle a b ->
  StronglySorted mle (l ++ [b]).
Proof.
  intros l a b H Hab. apply sorted_snoc.
  - eapply sorted_app_l. exact H.
  - intros x Hx. eapply mle_trans; [|exact Hab].
    eapply sorted_snoc_inv; [exact H|]. apply in_or_app. left. exact Hx.
Qed.

(* ------------------------------------------------------------------ the stable sort *)
Lemma insert_c_perm : forall (x : X * X) l, Permutation (insert_c xarith x l) (x :: l).
Proof.
  intros x l. induction l as [|y r IH]; cbn [insert_c].
  - apply Permutation_refl.
  - destruct (a_ltb xarith (fst y) (fst x)).
    + eapply Permutation_trans; [apply perm_skip; exact IH | apply perm_swap].
    + apply Permutation_refl.
Qed.

Lemma sort_c_perm : forall l : list (X * X), Permutation (sort_c xarith l) l.
Proof.
  induction l as [|x r IH]; cbn [sort_c]; [constructor|].
  eapply Permutation_trans; [apply insert_c_perm | apply perm_skip; exact IH].
Qed.

Lemma insert_c_sorted : forall lo hi x l,
  fin_c lo hi x -> Forall (fin_c lo hi) l -> StronglySorted mle l ->
  StronglySorted mle (insert_c xarith x l).
Proof.
  intros lo hi x l Hx Hl Hs. induction Hs as [|y r Hr IH Hy]; cbn [insert_c].
  - constructor; constructor.
  - inversion Hl as [|? ? Hfy Hfr]; subst.
    destruct (fin_c_inv _ _ _ Hx) as (mx & wx & -> & Hmx & Hwx).
    destruct (fin_c_inv _ _ _ Hfy) as (my & wy & -> & Hmy & Hwy).
    cbn [fst a_ltb xarith xltb].
    destruct (qltb my mx) eqn:L.
    + apply qltb_true in L. constructor; [apply IH; exact Hfr|].
      rewrite Forall_forall in Hy |- *. intros z Hz.
      apply (Permutation_in _ (insert_c_perm _ _)) in Hz. destruct Hz as [<-|Hz].
      * unfold mle, mean_q. cbn. lra.
      * apply Hy. exact Hz.
    + apply qltb_false in L. constructor.
      * constructor; assumption.
      * constructor; [unfold mle, mean_q; cbn; lra|].
        rewrite Forall_forall in Hy |- *. intros z Hz.
        eapply mle_trans; [|apply Hy; exact Hz]. unfold mle, mean_q. cbn. lra.
Qed.

Lemma sort_c_sorted : forall lo hi l, Forall (fin_c lo hi) l ->
  StronglySorted mle (sort_c xarith l).
Proof.
  intros lo hi l H. induction H as [|x r Hx Hr IH]; cbn [sort_c]; [constructor|].
  eapply insert_c_sorted; [exact Hx| |exact IH].
  rewrite Forall_forall in Hr |- *. intros z Hz. apply Hr.
  eapply Permutation_in; [apply sort_c_perm | exact Hz].
Qed.

Lemma Forall_perm : forall (P : X * X -> Prop) l l', Permutation l l' -> Forall P l -> Forall P l'.
Proof.
  intros P l l' Hp H. rewrite Forall_forall in H |- *. intros x Hx. apply H.
  eapply Permutation_in; [apply Permutation_sym; exact Hp | exact Hx].
Qed.
